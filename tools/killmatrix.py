#!/usr/bin/env python3
"""Dev-time / thorough-tier helper: run every check against every seeded change through the overlay mode
(-patch; /repo is never modified) and write seeded/KILLMATRIX.json + a markdown table.
usage: killmatrix.py [seed-name ...]"""
import json, os, subprocess, sys, glob, concurrent.futures as cf
root = os.path.dirname(os.path.dirname(os.path.abspath(__file__)))
props = subprocess.run([os.environ.get("MWCHECK", f"{root}/bin/mwcheck"),"-list"],capture_output=True,text=True).stdout.split()
allprops = list(props)
if os.environ.get("PROPS"): props = [p for p in props if p in os.environ["PROPS"].split(",")]  # partial refresh
paths = {os.path.basename(os.path.dirname(p)): p for p in glob.glob(f"{root}/seeded/*/patch.diff")}
paths.update({os.path.basename(p)[:-5]: p for p in glob.glob(f"{root}/mutants/*.diff")})
seeds = sorted(paths)
if len(sys.argv) > 1: seeds = [s for s in seeds if s in sys.argv[1:]]
def run(seed):
    """one process per mutant: loads once, runs every check (mwcheck -p all)"""
    ev = f"/tmp/km/{seed}"
    os.makedirs(ev, exist_ok=True)
    p = subprocess.run([os.environ.get("MWCHECK", f"{root}/bin/mwcheck"),"-p","all","-patch",paths[seed],"-evidence-dir",ev],capture_output=True,text=True)
    out = {}
    cur = []
    for l in p.stdout.splitlines():
        if l.startswith("finding: "):
            cur.append(l.split(" pos=")[0].replace("finding: ",""))
        elif l.startswith("ALL "):
            parts = l.split()
            pid = parts[1]
            rc = int(parts[2].split("=")[1]) if parts[2].startswith("rc=") else 2
            out[pid] = {"rc": rc, "findings": cur}
            cur = []
    if not out:  # patch did not apply / tree did not load
        out = {pid: {"rc": p.returncode, "findings": []} for pid in props}
    return seed, out
res = {}
with cf.ThreadPoolExecutor(max_workers=8) as ex:
    futs = [ex.submit(run, s) for s in seeds]
    for f in cf.as_completed(futs):
        s, out = f.result()
        res[s] = {p: out[p] for p in out if p in props}
old = {}
path = f"{root}/mutants/KILLMATRIX.json"
if os.path.exists(path): old = json.load(open(path))
for s_, d_ in res.items():
    old.setdefault(s_, {}).update(d_)
json.dump(old, open(path,"w"), indent=1, sort_keys=True)
for s in sorted(res):
    own = s.split("-")[0]
    full = old[s]
    killers = [p for p in allprops if p in full and full[p]["rc"] == 1]
    print(s, "own:", "KILLED" if own in killers else "missed", "by:", ",".join(killers), "rc!=0/1:", [p for p in allprops if p in full and full[p]["rc"] not in (0,1)])
