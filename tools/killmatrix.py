#!/usr/bin/env python3
"""Dev-time / thorough-tier helper: run every check against every seeded change through the overlay mode
(-patch; /repo is never modified) and write seeded/KILLMATRIX.json + a markdown table.
usage: killmatrix.py [seed-name ...]"""
import json, os, subprocess, sys, glob, concurrent.futures as cf
root = os.path.dirname(os.path.dirname(os.path.abspath(__file__)))
props = subprocess.run([f"{root}/bin/mwcheck","-list"],capture_output=True,text=True).stdout.split()
allprops = list(props)
if os.environ.get("PROPS"): props = [p for p in props if p in os.environ["PROPS"].split(",")]  # partial refresh
paths = {os.path.basename(os.path.dirname(p)): p for p in glob.glob(f"{root}/seeded/*/patch.diff")}
paths.update({os.path.basename(p)[:-5]: p for p in glob.glob(f"{root}/mutants/*.diff")})
seeds = sorted(paths)
if len(sys.argv) > 1: seeds = [s for s in seeds if s in sys.argv[1:]]
def run(seed, prop):
    ev = f"/tmp/km/{seed}/{prop}"
    os.makedirs(ev, exist_ok=True)
    p = subprocess.run([f"{root}/bin/mwcheck","-p",prop,"-patch",paths[seed],"-evidence-dir",ev],capture_output=True,text=True)
    finds = [l.split(" pos=")[0].replace("finding: ","") for l in p.stdout.splitlines() if l.startswith("finding: ")]
    finds = [f for f in finds]
    return seed, prop, p.returncode, finds
res = {}
with cf.ThreadPoolExecutor(max_workers=12) as ex:
    futs = [ex.submit(run, s, p) for s in seeds for p in props]
    for f in cf.as_completed(futs):
        s, p, rc, finds = f.result()
        res.setdefault(s, {})[p] = {"rc": rc, "findings": finds}
old = {}
path = f"{root}/mutants/KILLMATRIX.json"
if os.path.exists(path): old = json.load(open(path))
for s_, d_ in res.items():
    old.setdefault(s_, {}).update(d_)
json.dump(old, open(path,"w"), indent=1, sort_keys=True)
for s in sorted(res):
    own = s.split("-")[0]
    full = old[s]
    killers = [p for p in allprops if p in full and full[p]["rc"] == 1]
    print(s, "own:", "KILLED" if own in killers else "missed", "by:", ",".join(killers), "rc!=0/1:", [p for p in allprops if p in full and full[p]["rc"] not in (0,1)])
