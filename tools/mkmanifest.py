#!/usr/bin/env python3
"""Regenerates /verif/MANIFEST.json from tools/claims.json (the table of claimed properties)."""
import json, os, sys
here = os.path.dirname(os.path.abspath(__file__))
root = os.path.dirname(here)
claims = json.load(open(os.path.join(here, "claims.json")))
props = [json.loads(l) for l in open(os.path.join(root, "properties.jsonl"))]
ENV = "GOFLAGS=-mod=mod GOPROXY=off GOSUMDB=off GOTOOLCHAIN=local GOWORK=off"
baseline = "cd /repo && go test -mod=mod -json -vet=off -count=1 -timeout 25m ./..."
m = {
 "version": 1,
 "setup_cmd": f"cd /verif && {ENV} go build -o bin/mwcheck ./cmd/mwcheck",
 "hooks": {"guard": "verif", "enable": "none: static analysis reads /repo's source with the default build configuration; no hook or instrumentation exists in /repo", "baseline_off_cmd": baseline, "source_commits": [], "add_only": True},
 "engines": [{"name": "mwcheck", "path": "cmd/mwcheck", "serves_properties": sorted(claims["claimed"].keys()),
              "kind_free_text": "custom static analyser on go/packages + go/types + go/ssa (x/tools v0.29.0): guard atoms/dominance, must-pass-through path search with nil-feasibility, nil-specialised call-graph reachability, bucket schema provenance, locksets, taint; rule tables per property in internal/rules"}],
 "checks": [],
 "not_applicable": [],
 "notes": "All claims are at level 'other': structural necessary conditions of each behavioural property, decided statically on every run from /repo's current source. See DESIGN.md.",
}
for p in props:
    pid = p["id"]
    if pid in claims["claimed"]:
        cl = claims["claimed"][pid]
        m["checks"].append({
            "property_id": pid,
            "quick_cmd": f"bin/mwcheck -p {pid} -tier quick",
            "thorough_cmd": f"bin/mwcheck -p {pid} -tier thorough",
            "evidence_file": f"/verif/evidence/{pid}.json",
            "replay_cmd_template": f"bin/mwcheck -p {pid} -replay {{path}}",
            "engine": "mwcheck",
            "level_claimed": {"category": "other", "text": cl["text"], "design_ref": f"DESIGN.md section 3, {pid}"},
            "level_note": cl.get("note", "Trusted: go/types, go/ssa, go/packages (x/tools v0.29.0), the Go 1.23 front end, the reviewed rule tables in internal/rules. Decides necessary conditions only; the behaviour itself (values, histories, schedules) is not decided."),
            "technique": cl["technique"],
        })
    else:
        m["not_applicable"].append({"property_id": pid, "reason": claims["not_applicable"].get(pid, "engine not built yet (see DESIGN.md section 8)")})
json.dump(m, open(os.path.join(root, "MANIFEST.json"), "w"), indent=1)
print("claimed:", len(m["checks"]), "not_applicable:", len(m["not_applicable"]))
