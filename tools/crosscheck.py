#!/usr/bin/env python3
"""Dev-time / audit: seeded changes applied ON TOP of behaviour-preserving refactorings of the same property.
For every refactoring R (refactorings/<P>-n) and seed S (seeded/<P>-m) that touch a common file, R is applied to a
scratch worktree, then S with a 3-way merge; where both apply, the combined diff is checked with the property's own
check. Expected: reported (rc 1) — the refactoring must not have moved the seeded defect out of the rule's sight.
rc 2 = the combination does not type-check (not counted). usage: crosscheck.py [P ...]   (worktrees /tmp/x/wt-<P>)"""
import json, os, subprocess, sys, glob, re, concurrent.futures as cf
root = os.path.dirname(os.path.dirname(os.path.abspath(__file__)))
mw = os.environ.get("MWCHECK", f"{root}/bin/mwcheck")
def files(p):
    return set(re.findall(r'^\+\+\+ b/(\S+)', open(p).read(), re.M))
def sh(cmd, cwd=None):
    return subprocess.run(cmd, cwd=cwd, capture_output=True, text=True)
def prop(P):
    wt = f"/tmp/x/wt-{P}"
    if not os.path.isdir(wt):
        sh(["git", "-C", "/repo", "worktree", "add", "--detach", wt, "HEAD"])
    sh(["git", "reset", "-q", "--hard", "HEAD"], wt); sh(["git", "clean", "-fdq"], wt)
    out = {}
    refs = sorted(glob.glob(f"{root}/refactorings/{P}-*/patch.diff"))
    seeds = sorted(glob.glob(f"{root}/seeded/{P}-*/patch.diff"))
    base = {}
    def alone(R):
        if R not in base:
            ev = f"/tmp/x/ev/{R.split('/')[-2]}"; os.makedirs(ev, exist_ok=True)
            r = subprocess.run([mw, "-p", P, "-patch", R, "-evidence-dir", ev], capture_output=True, text=True,
                               env=dict(os.environ, VERIF_DIR=root), cwd=root)
            base[R] = set(l.split(" pos=")[0].replace("finding: ", "") for l in r.stdout.splitlines() if l.startswith("finding: "))
        return base[R]
    for R in refs:
        fr = files(R)
        for S in seeds:
            if not (fr & files(S)): continue
            rn, sn = R.split('/')[-2], S.split('/')[-2]
            sh(["git", "reset", "-q", "--hard", "HEAD"], wt)
            if sh(["git", "apply", R], wt).returncode != 0: continue
            sh(["git", "add", "-A"], wt)
            if sh(["git", "apply", "--3way", S], wt).returncode != 0: continue
            d = sh(["git", "diff", "HEAD"], wt).stdout
            if "<<<<<<<" in d: continue
            os.makedirs(f"/tmp/x/{P}", exist_ok=True)
            cp = f"/tmp/x/{P}/{rn}+{sn}.diff"; open(cp, "w").write(d)
            ev = f"/tmp/x/ev/{rn}+{sn}"; os.makedirs(ev, exist_ok=True)
            r = subprocess.run([mw, "-p", P, "-patch", cp, "-evidence-dir", ev], capture_output=True, text=True,
                               env=dict(os.environ, VERIF_DIR=root), cwd=root)
            finds = sorted(set(l.split(" pos=")[0].replace("finding: ", "") for l in r.stdout.splitlines() if l.startswith("finding: ")) - alone(R))
            rc = r.returncode
            if rc == 1 and not finds: rc = 0  # only what the refactoring alone already reports: the seed itself went unseen
            out[f"{rn}+{sn}"] = {"rc": rc, "findings": finds[:6]}
    sh(["git", "reset", "-q", "--hard", "HEAD"], wt)
    return P, out
props = sys.argv[1:] or [f"C{i:02d}" for i in range(1, 21)]
res = {}
with cf.ThreadPoolExecutor(max_workers=6) as ex:
    for P, out in ex.map(prop, props):
        res.update(out)
        k = sum(1 for v in out.values() if v["rc"] == 1); m = [n for n, v in out.items() if v["rc"] == 0]; b = sum(1 for v in out.values() if v["rc"] not in (0, 1))
        print(P, f"combined: {len(out)} reported: {k} broken: {b} MISSED: {m}", flush=True)
json.dump(res, open(f"{root}/mutants/CROSSCHECK.json", "w"), indent=1, sort_keys=True)
