#!/usr/bin/env python3
"""Dev-time: confirm a seeded change (applies to /repo HEAD, builds, existing suite passes, demo fails with / passes without).
usage: confirm_seed.py <srcdir containing patch.diff demo_test.go meta.json> <name>
Writes /tmp/seedconf/<name>.json. Uses a scratch worktree under /tmp/seedconf/wt-<name>, removed at the end."""
import json, os, re, subprocess, sys, shutil
src, name = sys.argv[1], sys.argv[2]
env = dict(os.environ, GOFLAGS="-mod=mod", GOPROXY="off", GOSUMDB="off", GOTOOLCHAIN="local")
out = {"name": name, "src": src}
wt = f"/tmp/seedconf/wt-{name}"
os.makedirs("/tmp/seedconf", exist_ok=True)
subprocess.run(["git","-C","/repo","worktree","remove","--force",wt],capture_output=True)
shutil.rmtree(wt, ignore_errors=True)
def run(cmd, cwd=wt, timeout=1800):
    p = subprocess.run(cmd, cwd=cwd, shell=True, capture_output=True, text=True, env=env, timeout=timeout)
    return p.returncode, (p.stdout + p.stderr)[-3000:]
rc, o = run(f"git -C /repo worktree add --detach {wt} HEAD", cwd="/")
demo = None
for f in os.listdir(src):
    if f.startswith("demo") and f.endswith(".go"): demo = os.path.join(src, f)
hdr = open(demo).read(3000)
m = re.search(r"go test[^\n]*?-run\s+'?\"?([^\s'\"]+)'?\"?\s+(\./\S+)", hdr)
if not m:
    m3 = re.search(r"cd\s+(\S+)\s*&&\s*go test[^\n]*?-run\s+'?\"?([^\s'\"]+)'?\"?\s+\.", hdr)
    if m3:
        class _M:
            def group(self, i): return [None, m3.group(2), "./" + m3.group(1).strip("/")][i]
        m = _M()
if not m:
    # no command in the header: derive it from the package clause and the test functions of the demo
    full = open(demo).read()
    pk = re.search(r"^package (\w+)", full, re.M).group(1)
    pkdir = {"masswallet": "./masswallet", "masswallet_test": "./masswallet", "keystore": "./masswallet/keystore", "keystore_test": "./masswallet/keystore",
             "txmgr": "./masswallet/txmgr", "txmgr_test": "./masswallet/txmgr", "db_test": "./masswallet/db", "db": "./masswallet/db", "ldb": "./masswallet/db/ldb",
             "api": "./api", "api_test": "./api", "utils": "./masswallet/utils", "utils_test": "./masswallet/utils", "hdkeychain": "./masswallet/keystore/hdkeychain",
             "hdkeychain_test": "./masswallet/keystore/hdkeychain", "main": "."}.get(pk)
    tests = re.findall(r"^func (Test\w+)\(", full, re.M)
    if not pkdir or not tests:
        out["error"] = "cannot parse demo header"; json.dump(out, open(f"/tmp/seedconf/{name}.json","w"), indent=1); sys.exit(1)
    class _M2:
        def group(self, i): return [None, "^(" + "|".join(tests) + ")$", pkdir][i]
    m = _M2()
runpat, pkgdir = m.group(1), m.group(2).rstrip("/")
out["demo_run"], out["demo_dir"] = runpat, pkgdir
rc, o = run(f"git apply --check {src}/patch.diff")
out["applies_clean"] = rc == 0
if rc != 0:
    rc, o = run(f"git apply --3way {src}/patch.diff")
    out["applies_3way"] = rc == 0
    if rc != 0:
        out["apply_err"] = o
        json.dump(out, open(f"/tmp/seedconf/{name}.json","w"), indent=1)
        run(f"git -C /repo worktree remove --force {wt}", cwd="/"); sys.exit(1)
else:
    run(f"git apply {src}/patch.diff")
run(f"git diff HEAD > /tmp/seedconf/{name}.rebased.diff")
rc, o = run("go build ./... >/dev/null 2>&1")
out["builds"] = rc == 0
# existing suite (json) vs baseline
rc, o = run("go test -mod=mod -json -vet=off -count=1 -timeout 25m ./... > /tmp/seedconf/%s.test.json 2>/dev/null; true" % name, timeout=2400)
base = set(json.load(open('/root/.vp/BASELINE.json'))['stable_pass'])
res = {}
for l in open(f"/tmp/seedconf/{name}.test.json"):
    try: e = json.loads(l)
    except Exception: continue
    if e.get("Test") and e.get("Action") in ("pass","fail","skip"): res[e["Package"]+"::"+e["Test"]] = e["Action"]
missing = sorted(k for k in base if res.get(k) != "pass")
out["suite_missing"] = missing
os.remove(f"/tmp/seedconf/{name}.test.json")
run("git checkout -- api/testData 2>/dev/null; true")
# demo with patch
dst = os.path.join(wt, pkgdir, "zz_seed_demo_test.go")
shutil.copy(demo, dst)
rc, o = run(f"go test -vet=off -count=1 -run '{runpat}' {pkgdir}/", timeout=900)
out["demo_with_patch_rc"] = rc; out["demo_with_patch_tail"] = o[-800:]
# without patch
run(f"git apply -R /tmp/seedconf/{name}.rebased.diff")
rc2, o2 = run(f"go test -vet=off -count=1 -run '{runpat}' {pkgdir}/", timeout=900)
out["demo_without_patch_rc"] = rc2; out["demo_without_patch_tail"] = o2[-500:]
out["confirmed"] = bool(out["builds"] and not missing and rc != 0 and rc2 == 0)
json.dump(out, open(f"/tmp/seedconf/{name}.json","w"), indent=1)
run(f"git -C /repo worktree remove --force {wt}", cwd="/")
shutil.rmtree(wt, ignore_errors=True)
print(name, "confirmed" if out["confirmed"] else "NOT confirmed", "missing", len(missing))
