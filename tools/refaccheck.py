#!/usr/bin/env python3
"""Dev-time / audit: run every check on every behaviour-preserving refactoring under refactorings/ (written by
independent sub-agents; each builds and passes the existing tests). Every report is a false alarm to be fixed in
the machinery — except entries listed in refactorings/EXPECTED.json (a known defective site that the refactoring moves).
usage: refaccheck.py [name ...]"""
import json, os, subprocess, sys, glob, concurrent.futures as cf
root = os.path.dirname(os.path.dirname(os.path.abspath(__file__)))
paths = {os.path.basename(os.path.dirname(p)): p for p in glob.glob(f"{root}/refactorings/*/patch.diff")}
names = sorted(paths)
if len(sys.argv) > 1: names = [n for n in names if n in sys.argv[1:]]
expected = json.load(open(f"{root}/refactorings/EXPECTED.json"))
openfa = json.load(open(f"{root}/refactorings/OPEN.json")) if os.path.exists(f"{root}/refactorings/OPEN.json") else {}
def run(n):
    ev = f"/tmp/rc/{n}"; os.makedirs(ev, exist_ok=True)
    p = subprocess.run([os.environ.get("MWCHECK", f"{root}/bin/mwcheck"),"-p","all","-patch",paths[n],"-evidence-dir",ev],capture_output=True,text=True)
    finds = [l.split(" pos=")[0].replace("finding: ","") for l in p.stdout.splitlines() if l.startswith("finding: ")]
    bad = [l for l in p.stdout.splitlines() if l.startswith("ALL ") and not l.endswith("rc=0")]
    return n, p.returncode, finds, bad
res = {}
with cf.ThreadPoolExecutor(max_workers=8) as ex:
    for n, rc, finds, bad in ex.map(run, names):
        res[n] = {"rc": rc, "findings": finds}
alarms = 0
for n in names:
    f = [x for x in res[n]["findings"] if x not in expected.get(n, [])]
    if res[n]["rc"] not in (0, 1): print(n, "DID NOT LOAD rc", res[n]["rc"]); alarms += 1
    elif f and n in openfa: print(n, "OPEN FALSE ALARM (documented limit)", f[:3])
    elif f: print(n, "FALSE ALARM", f[:3]); alarms += 1
    elif n in openfa: print(n, "listed in OPEN.json but silent now: remove the entry"); alarms += 1
json.dump(res, open(f"{root}/refactorings/RESULT.json","w"), indent=1, sort_keys=True)
print(f"{len(names)} refactorings, {alarms} with unexpected reports, {len([n for n in names if n in openfa])} documented open false alarms")
sys.exit(1 if alarms else 0)
