#!/bin/bash
# dev-time: apply a seeded change to /repo, run checks, undo. usage: seedtest.sh <patch.diff> <prop> [<prop>...]
pf=$1; shift
git -C /repo apply "$pf" 2>/tmp/seedtest.err || { git -C /repo reset -q --hard HEAD; git -C /repo apply --3way "$pf" 2>>/tmp/seedtest.err; } || { echo "cannot apply $pf"; tail -3 /tmp/seedtest.err; git -C /repo reset -q --hard HEAD; exit 2; }
for p in "$@"; do
  echo "== $p with $(echo $pf | sed 's#.*/seed/out/##;s#.*/seeded/##')"
  /verif/bin/mwcheck -p $p | grep -v "^    " | cut -c1-240
done
git -C /repo reset -q --hard HEAD
