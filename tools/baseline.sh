#!/bin/bash
# usage: baseline.sh <commit-ish>   — runs the pinned baseline suite on a scratch worktree of /repo at that commit
# and compares the passing set with /root/.vp/BASELINE.json stable_pass. Dev-time only (validates fix: commits).
set -u
export GOFLAGS=-mod=mod GOPROXY=off GOSUMDB=off GOTOOLCHAIN=local
c=$(git -C /repo rev-parse --short "$1")
d=/tmp/bl/$c
rm -rf "$d"; mkdir -p /tmp/bl
git -C /repo worktree add --detach "$d" "$c" >/dev/null 2>&1 || { echo "worktree failed"; exit 2; }
(cd "$d" && go test -mod=mod -json -vet=off -count=1 -timeout 25m ./... > /tmp/bl/$c.json 2>/tmp/bl/$c.err)
python3 - "$c" <<'PY'
import json,sys
c=sys.argv[1]
base=set(json.load(open('/root/.vp/BASELINE.json'))['stable_pass'])
res={}
for l in open(f'/tmp/bl/{c}.json'):
    try: e=json.loads(l)
    except: continue
    if e.get('Test') and e.get('Action') in('pass','fail','skip'):
        res[e['Package']+'::'+e['Test']]=e['Action']
passed={k for k,v in res.items() if v=='pass'}
missing=sorted(base-passed)
print(f"baseline {c}: stable_pass={len(base)} passed_now={len(base&passed)} missing={len(missing)}")
for m in missing[:20]: print("  MISSING",m,res.get(m))
PY
git -C /repo worktree remove --force "$d"
rm -f /tmp/bl/$c.json /tmp/bl/$c.err
