#!/bin/bash
# dev-time: temporarily reverse-apply a fix: commit of /repo, run the given checks, restore.
# usage: revtest.sh <commit> <prop> [<prop>...]
c=$1; shift
git -C /repo show "$c" | git -C /repo apply -R || { echo "cannot reverse-apply $c"; exit 2; }
for p in "$@"; do
  echo "== $p with $c reverted"
  /verif/bin/mwcheck -p $p | grep -v "^    " | cut -c1-260
done
git -C /repo checkout -- .
