package main

import (
	"encoding/json"
	"fmt"
	"os"
	"os/exec"
	"path/filepath"
	"sort"
	"strings"
	"sync"

	"verif/internal/report"
)

// sensitivityAudit is the extra work of the thorough tier: every committed mutant of /verif
// (seeded changes from independent authors under seeded/, and reverse patches of the repaired
// defects under mutants/) that an earlier run of THIS property's check reported is applied to
// /repo's current sources through a go/packages overlay (scratch copies only) and the check is
// re-run on it in a sub-process. A mutant is "killed" when the check reports a violation,
// "survived" when it does not, "skipped" when its patch no longer applies to the current tree and
// "broken" when the patched tree does not type-check. The audit is a positive control of the
// rules (a rule that matches nothing would pass forever): it never raises an alarm about /repo.
func sensitivityAudit(c *report.Ctx, id, repo, verifDir string) {
	type entry struct {
		Rc       int      `json:"rc"`
		Findings []string `json:"findings"`
	}
	matrix := map[string]map[string]entry{}
	if b, err := os.ReadFile(filepath.Join(verifDir, "mutants", "KILLMATRIX.json")); err == nil {
		json.Unmarshal(b, &matrix)
	}
	paths := map[string]string{}
	if ms, _ := filepath.Glob(filepath.Join(verifDir, "seeded", "*", "patch.diff")); ms != nil {
		for _, m := range ms {
			paths[filepath.Base(filepath.Dir(m))] = m
		}
	}
	if ms, _ := filepath.Glob(filepath.Join(verifDir, "mutants", "*.diff")); ms != nil {
		for _, m := range ms {
			paths[strings.TrimSuffix(filepath.Base(m), ".diff")] = m
		}
	}
	var names []string
	for n := range paths {
		if e, ok := matrix[n][id]; ok && e.Rc == 1 {
			names = append(names, n)
		} else if strings.HasPrefix(n, id+"-") {
			names = append(names, n) // seeded against this property, whatever the recorded verdict
		}
	}
	sort.Strings(names)
	names = uniqStrings(names)
	exe, _ := os.Executable()
	tmp, _ := os.MkdirTemp("", "mwaudit")
	defer os.RemoveAll(tmp)
	type res struct {
		name, verdict string
		rules         []string
	}
	results := make([]res, len(names))
	sem := make(chan struct{}, 6)
	var wg sync.WaitGroup
	for i, n := range names {
		wg.Add(1)
		go func(i int, n string) {
			defer wg.Done()
			sem <- struct{}{}
			defer func() { <-sem }()
			ev := filepath.Join(tmp, n)
			os.MkdirAll(ev, 0o755)
			cmd := exec.Command(exe, "-p", id, "-tier", "quick", "-repo", repo, "-patch", paths[n], "-evidence-dir", ev)
			cmd.Env = append(os.Environ(), "VERIF_DIR="+verifDir)
			out, err := cmd.Output()
			rc := 0
			if ee, ok := err.(*exec.ExitError); ok {
				rc = ee.ExitCode()
			} else if err != nil {
				rc = -1
			}
			r := res{name: n}
			switch rc {
			case 1:
				r.verdict = "killed"
				for _, l := range strings.Split(string(out), "\n") {
					if strings.HasPrefix(l, "finding: rule=") {
						f := strings.Fields(l)
						r.rules = append(r.rules, strings.TrimPrefix(f[1], "rule="))
					}
				}
				r.rules = uniqStrings(r.rules)
			case 0:
				r.verdict = "survived"
			case 3:
				r.verdict = "skipped (patch no longer applies)"
			default:
				r.verdict = "broken (patched tree does not load)"
			}
			results[i] = r
		}(i, n)
	}
	wg.Wait()
	killed, survived, skipped := 0, 0, 0
	var list []map[string]interface{}
	for _, r := range results {
		switch {
		case r.verdict == "killed":
			killed++
		case r.verdict == "survived":
			survived++
		default:
			skipped++
		}
		list = append(list, map[string]interface{}{"mutant": r.name, "verdict": r.verdict, "rules": r.rules})
		fmt.Printf("MUTANT %-18s %s %s\n", r.name, r.verdict, strings.Join(r.rules, ","))
	}
	c.Extra["mutants"] = list
	c.Extra["mutants_killed"] = killed
	c.Extra["mutants_survived"] = survived
	c.Extra["mutants_skipped"] = skipped
	c.Note("sensitivity audit: %d mutants re-checked through overlays: %d killed, %d survived, %d skipped/broken (a survivor is a weakness of the checker, reported here, never an alarm about /repo)", len(results), killed, survived, skipped)
}

// specificityAudit is the other half of the thorough tier: the behaviour-preserving refactorings committed under
// refactorings/ that were written for THIS property (refactorings/<id>-*, by independent authors, plus the correct
// counterparts of seeded changes BV-*) are applied through overlays and the check must stay silent on each. A report
// on one of them is a false alarm of the checker; like a surviving mutant it is listed in the evidence and on stdout
// (REFACTORING … alarm) and never turned into an alarm about /repo. Entries of refactorings/EXPECTED.json (a recorded
// defect that a refactoring moves to a new site) are expected reports.
func specificityAudit(c *report.Ctx, id, repo, verifDir string) {
	expected := map[string][]string{}
	if b, err := os.ReadFile(filepath.Join(verifDir, "refactorings", "EXPECTED.json")); err == nil {
		json.Unmarshal(b, &expected)
	}
	var names []string
	paths := map[string]string{}
	ms, _ := filepath.Glob(filepath.Join(verifDir, "refactorings", "*", "patch.diff"))
	for _, m := range ms {
		n := filepath.Base(filepath.Dir(m))
		if strings.HasPrefix(n, id+"-") || strings.HasPrefix(n, "BV-") {
			names = append(names, n)
			paths[n] = m
		}
	}
	sort.Strings(names)
	exe, _ := os.Executable()
	tmp, _ := os.MkdirTemp("", "mwspec")
	defer os.RemoveAll(tmp)
	verdicts := make([]string, len(names))
	sem := make(chan struct{}, 6)
	var wg sync.WaitGroup
	for i, n := range names {
		wg.Add(1)
		go func(i int, n string) {
			defer wg.Done()
			sem <- struct{}{}
			defer func() { <-sem }()
			ev := filepath.Join(tmp, n)
			os.MkdirAll(ev, 0o755)
			cmd := exec.Command(exe, "-p", id, "-tier", "quick", "-repo", repo, "-patch", paths[n], "-evidence-dir", ev)
			cmd.Env = append(os.Environ(), "VERIF_DIR="+verifDir)
			out, err := cmd.Output()
			rc := 0
			if ee, ok := err.(*exec.ExitError); ok {
				rc = ee.ExitCode()
			} else if err != nil {
				rc = -1
			}
			switch rc {
			case 0:
				verdicts[i] = "silent"
			case 1:
				unexpected := false
				for _, l := range strings.Split(string(out), "\n") {
					if !strings.HasPrefix(l, "finding: ") {
						continue
					}
					f := strings.SplitN(strings.TrimPrefix(l, "finding: "), " pos=", 2)[0]
					ok := false
					for _, e := range expected[n] {
						if e == f {
							ok = true
						}
					}
					if !ok {
						unexpected = true
					}
				}
				if unexpected {
					verdicts[i] = "alarm"
				} else {
					verdicts[i] = "expected report"
				}
			case 3:
				verdicts[i] = "skipped (patch no longer applies)"
			default:
				verdicts[i] = "broken (patched tree does not load)"
			}
		}(i, n)
	}
	wg.Wait()
	silent, alarms := 0, 0
	var list []map[string]interface{}
	for i, n := range names {
		if verdicts[i] == "alarm" {
			alarms++
		} else if verdicts[i] == "silent" || verdicts[i] == "expected report" {
			silent++
		}
		list = append(list, map[string]interface{}{"refactoring": n, "verdict": verdicts[i]})
		fmt.Printf("REFACTORING %-14s %s\n", n, verdicts[i])
	}
	c.Extra["refactorings"] = list
	c.Extra["refactorings_silent"] = silent
	c.Extra["refactorings_false_alarms"] = alarms
	c.Note("specificity audit: %d behaviour-preserving refactorings re-checked through overlays: %d as expected, %d false alarms (a false alarm is a weakness of the checker, reported here, never an alarm about /repo)", len(names), silent, alarms)
}

func uniqStrings(s []string) []string {
	sort.Strings(s)
	var out []string
	for i, x := range s {
		if i == 0 || x != s[i-1] {
			out = append(out, x)
		}
	}
	return out
}
