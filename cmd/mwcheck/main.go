// mwcheck decides structural necessary conditions of the MassNet-wallet properties
// from /repo's current source (type-checked + SSA), without running wallet code.
package main

import (
	"encoding/json"
	"flag"
	"fmt"
	"os"
	"path/filepath"
	"strconv"
	"strings"
	"time"

	"golang.org/x/tools/go/ssa"

	"verif/internal/an"
	"verif/internal/norm"
	"verif/internal/report"
	"verif/internal/rules"
)

func main() {
	id := flag.String("p", "", "property id (C01..C20)")
	tier := flag.String("tier", "", "quick|thorough (default: $VERIF_TIER or quick)")
	repo := flag.String("repo", "/repo", "repository root")
	dump := flag.String("dump", "", "debug: dump SSA + guards of functions whose key contains this string")
	replay := flag.String("replay", "", "print the findings recorded in a replay file and re-run the property")
	list := flag.Bool("list", false, "list registered properties")
	opsFlag := flag.Bool("ops", false, "debug: dump the bucket operation table")
	normFlag := flag.String("norm", "", "dev: print what the normaliser did; with a file-name substring, also the rewritten text of matching files")
	fpFlag := flag.Bool("fingerprints", false, "dev: print the anchor fingerprints of the loaded tree as JSON (written to anchors.json for the reviewed tree)")
	layoutFlag := flag.Bool("layout", false, "debug: dump the constant-offset record accesses of the codec functions")
	patch := flag.String("patch", "", "analyse /repo with this unified diff applied through a go/packages overlay (scratch copies; /repo is not modified)")
	evDir := flag.String("evidence-dir", "", "write evidence/replay files here instead of <verif>/evidence")
	flag.Parse()

	if *list {
		fmt.Println(strings.Join(rules.IDs(), " "))
		return
	}
	if *tier == "" {
		*tier = os.Getenv("VERIF_TIER")
	}
	if *tier != "thorough" {
		*tier = "quick"
	}
	seed, _ := strconv.Atoi(os.Getenv("VERIF_SEED"))
	verifDir := os.Getenv("VERIF_DIR")
	if verifDir == "" {
		exe, _ := os.Executable()
		verifDir = filepath.Dir(filepath.Dir(exe))
		if _, err := os.Stat(filepath.Join(verifDir, "properties.jsonl")); err != nil {
			verifDir, _ = os.Getwd()
		}
	}
	an.AnchorFile = filepath.Join(verifDir, "anchors.json")
	if *replay != "" {
		b, err := os.ReadFile(*replay)
		if err != nil {
			fmt.Fprintln(os.Stderr, err)
			os.Exit(2)
		}
		fmt.Println(string(b))
	}

	t0 := time.Now()
	var overlay map[string][]byte
	if *patch != "" {
		var err error
		overlay, err = an.OverlayFromPatch(*repo, *patch)
		if err != nil {
			fmt.Fprintf(os.Stderr, "mwcheck: %v\n", err)
			os.Exit(3)
		}
	}
	if *fpFlag {
		// the reviewed tree as it is: no normalisation (a function added by a reviewed fix: commit must be recorded, not inlined)
		raw, err := an.Load(*repo, overlay)
		if err != nil {
			fmt.Fprintf(os.Stderr, "mwcheck: cannot analyse %s: %v\n", *repo, err)
			os.Exit(2)
		}
		b, _ := json.MarshalIndent(raw.Anchors(), "", " ")
		fmt.Println(string(b))
		return
	}
	p, err := norm.Load(*repo, overlay)
	if err != nil {
		fmt.Fprintf(os.Stderr, "mwcheck: cannot analyse %s: %v\n", *repo, err)
		os.Exit(2)
	}
	if *normFlag != "" {
		for _, n := range p.Norm {
			fmt.Println(n)
		}
		for name, b := range p.Overlay {
			if *normFlag != "-" && strings.Contains(name, *normFlag) {
				fmt.Printf("==== %s\n%s\n", name, b)
			}
		}
		return
	}
	if *fpFlag {
		b, _ := json.MarshalIndent(p.Anchors(), "", " ")
		fmt.Println(string(b))
		return
	}
	if *opsFlag {
		rules.DumpOps(p)
		return
	}
	if *layoutFlag {
		rules.DumpLayout(p)
		rules.DumpIndexSites(p)
		rules.DumpViewCounts(p)
		return
	}
	if *dump != "" {
		for _, f := range p.ModFuncs {
			if strings.Contains(an.FuncKey(f), *dump) {
				dumpFn(p, f)
			}
		}
		return
	}
	if *id == "all" {
		// dev / audit mode: one load, every check (used by tools/killmatrix.py); prints "ALL <id> rc=<n>" per property
		worst := 0
		for _, pid := range rules.IDs() {
			chk := rules.Get(pid)
			cx := report.New(p, pid, *tier, seed, verifDir)
			cx.EvidenceDir = *evDir
			cx.Explain, cx.NotDecided = chk.Explain, chk.NotDec
			rc := func() (rc int) {
				defer func() {
					if r := recover(); r != nil {
						fmt.Printf("ALL %s panic: %v\n", pid, r)
						rc = 2
					}
				}()
				chk.Run(cx)
				return cx.Finish()
			}()
			fmt.Printf("ALL %s rc=%d\n", pid, rc)
			if rc > worst {
				worst = rc
			}
		}
		os.Exit(worst)
	}
	ch := rules.Get(*id)
	if ch == nil {
		fmt.Fprintf(os.Stderr, "mwcheck: no check registered for %q (have %v)\n", *id, rules.IDs())
		os.Exit(2)
	}
	c := report.New(p, *id, *tier, seed, verifDir)
	c.Start = t0
	c.EvidenceDir = *evDir
	c.Explain = ch.Explain
	c.NotDecided = ch.NotDec
	func() {
		defer func() {
			if r := recover(); r != nil {
				c.Rule("internal", "checker panic", 0)
				c.Fail("mwcheck", fmt.Sprintf("checker panicked: %v", r), "")
				panic(r)
			}
		}()
		ch.Run(c)
		if *tier == "thorough" && *patch == "" {
			sensitivityAudit(c, *id, *repo, verifDir)
			specificityAudit(c, *id, *repo, verifDir)
		}
	}()
	os.Exit(c.Finish())
}

func dumpFn(p *an.Prog, f *ssa.Function) {
	fmt.Printf("=== %s\n", an.FuncKey(f))
	f.WriteTo(os.Stdout)
	for _, b := range f.Blocks {
		gs := p.Guards(b)
		if len(gs) > 0 {
			fmt.Printf("  guards b%d: %v\n", b.Index, an.AtomTexts(gs))
		}
	}
}
