// Package report collects obligations and findings of one check run and writes
// the VIOLATION / KNOWN-FINDING lines, the evidence file and the replay file.
package report

import (
	"bufio"
	"encoding/json"
	"fmt"
	"os"
	"path/filepath"
	"regexp"
	"sort"
	"strings"
	"time"

	"verif/internal/an"
)

// Finding is one violated obligation, keyed by rule + construct (never by line).
type Finding struct {
	Property  string   `json:"property"`
	Rule      string   `json:"rule"`
	Construct string   `json:"construct"`
	Msg       string   `json:"msg"`
	Pos       string   `json:"pos,omitempty"`
	Witness   []string `json:"witness,omitempty"`
	Known     bool     `json:"known,omitempty"`
}

// Obligation is one rule instance examined.
type Obligation struct {
	Rule      string   `json:"rule"`
	Construct string   `json:"construct"`
	Detail    string   `json:"detail,omitempty"`
	Pos       string   `json:"pos,omitempty"`
	OK        bool     `json:"ok"`
	Facts     []string `json:"facts,omitempty"`
}

// RuleInfo documents a rule in the evidence file.
type RuleInfo struct {
	Rule      string `json:"rule"`
	Decides   string `json:"decides"`
	Instances int    `json:"instances"`
	Floor     int    `json:"floor"`
}

// Ctx is the per-run context handed to rule functions.
type Ctx struct {
	P        *an.Prog
	ID       string
	Tier     string
	Seed     int
	Start    time.Time
	VerifDir string
	// EvidenceDir overrides <VerifDir>/evidence (used by the mutant audit so that concurrent runs
	// do not overwrite the property's own evidence).
	EvidenceDir string

	Obls       []Obligation
	Findings   []Finding
	Rules      []RuleInfo
	Exceptions []string
	Notes      []string
	Explain    string
	NotDecided string
	Extra      map[string]interface{}

	curRule  string
	ruleObls map[string]int
}

// New creates a context.
func New(p *an.Prog, id, tier string, seed int, verifDir string) *Ctx {
	return &Ctx{P: p, ID: id, Tier: tier, Seed: seed, Start: time.Now(), VerifDir: verifDir,
		ruleObls: map[string]int{}, Extra: map[string]interface{}{}}
}

// Rule opens a rule section; floor is the minimum number of instances confirmed by hand.
func (c *Ctx) Rule(rule, decides string, floor int) {
	c.closeRule()
	c.curRule = rule
	c.Rules = append(c.Rules, RuleInfo{Rule: rule, Decides: decides, Floor: floor})
}

func (c *Ctx) closeRule() {
	if c.curRule == "" {
		return
	}
	ri := &c.Rules[len(c.Rules)-1]
	ri.Instances = c.ruleObls[c.curRule]
	if ri.Instances < ri.Floor {
		c.Findings = append(c.Findings, Finding{Property: c.ID, Rule: c.curRule + "/floor", Construct: c.curRule,
			Msg: fmt.Sprintf("rule matched %d instances, fewer than the %d confirmed by reading: the rule lost its anchors and can no longer show the obligation", ri.Instances, ri.Floor)})
	}
	c.curRule = ""
}

// OK records a discharged obligation of the current rule.
func (c *Ctx) OK(construct, detail, pos string, facts ...string) {
	c.ruleObls[c.curRule]++
	c.Obls = append(c.Obls, Obligation{Rule: c.curRule, Construct: construct, Detail: detail, Pos: pos, OK: true, Facts: facts})
}

// Fail records a violated obligation of the current rule.
func (c *Ctx) Fail(construct, msg, pos string, witness ...string) {
	c.ruleObls[c.curRule]++
	c.Obls = append(c.Obls, Obligation{Rule: c.curRule, Construct: construct, Detail: msg, Pos: pos, OK: false, Facts: witness})
	c.Findings = append(c.Findings, Finding{Property: c.ID, Rule: c.curRule, Construct: construct, Msg: msg, Pos: pos, Witness: witness})
}

// Lost records an anchor that no longer resolves.
func (c *Ctx) Lost(anchor string) {
	c.Findings = append(c.Findings, Finding{Property: c.ID, Rule: c.curRule + "/anchor-lost", Construct: anchor,
		Msg: "anchor does not resolve in the current tree; the obligation attached to it cannot be shown"})
}

// Count bumps the instance counter without recording an obligation (for counted-only facts).
func (c *Ctx) Count(n int) { c.ruleObls[c.curRule] += n }

// Exception records a named exception with its reason.
func (c *Ctx) Exception(symbol, reason string) {
	c.Exceptions = append(c.Exceptions, symbol+": "+reason)
}

// Note adds a free-text note to the evidence.
func (c *Ctx) Note(f string, a ...interface{}) { c.Notes = append(c.Notes, fmt.Sprintf(f, a...)) }

var litRe = regexp.MustCompile(`\$\d+`)

type known struct {
	kind, property, rule, construct, text string
}

func loadKnown(path string) []known {
	f, err := os.Open(path)
	if err != nil {
		return nil
	}
	defer f.Close()
	var out []known
	sc := bufio.NewScanner(f)
	sc.Buffer(make([]byte, 1<<20), 1<<20)
	for sc.Scan() {
		line := strings.TrimSpace(sc.Text())
		if line == "" || strings.HasPrefix(line, "#") {
			continue
		}
		k := known{}
		switch {
		case strings.HasPrefix(line, "finding:"):
			k.kind = "finding"
			line = strings.TrimSpace(line[len("finding:"):])
		case strings.HasPrefix(line, "fixed:"):
			k.kind = "fixed"
			line = strings.TrimSpace(line[len("fixed:"):])
		default:
			continue
		}
		rest := []string{}
		for _, tok := range strings.Fields(line) {
			switch {
			case strings.HasPrefix(tok, "property=") && k.property == "":
				k.property = tok[len("property="):]
			case strings.HasPrefix(tok, "rule=") && k.rule == "":
				k.rule = tok[len("rule="):]
			case strings.HasPrefix(tok, "construct=") && k.construct == "":
				k.construct = tok[len("construct="):]
			default:
				rest = append(rest, tok)
			}
		}
		k.text = strings.Join(rest, " ")
		out = append(out, k)
	}
	return out
}

// Finish prints the verdict lines, writes evidence and replay files, returns the exit code.
func (c *Ctx) Finish() int {
	c.closeRule()
	kn := loadKnown(filepath.Join(c.VerifDir, "known_findings.txt"))
	// a listed finding is identified by rule and construct (function:site). A site that a refactoring moved into a
	// literal of the same function (F$1:site) is still that site — as long as the listed one is not reported as well:
	// each listed finding answers for one report only.
	usedKnown := map[int]bool{}
	isKnown := func(f Finding, exact bool) (bool, string) {
		for i, k := range kn {
			if k.kind != "finding" || k.property != f.Property || k.rule != f.Rule || usedKnown[i] {
				continue
			}
			if k.construct == f.Construct || (!exact && litRe.ReplaceAllString(f.Construct, "") == k.construct) {
				usedKnown[i] = true
				return true, k.text
			}
		}
		return false, ""
	}
	// de-duplicate findings by key
	seen := map[string]bool{}
	var fs []Finding
	for _, f := range c.Findings {
		f.Construct = strings.ReplaceAll(f.Construct, " ", "")
		f.Construct = c.P.CanonicalConstruct(f.Construct) // a renamed function keeps the identity of its findings
		key := f.Rule + "|" + f.Construct
		if seen[key] {
			continue
		}
		seen[key] = true
		fs = append(fs, f)
	}
	sort.SliceStable(fs, func(i, j int) bool {
		if fs[i].Rule != fs[j].Rule {
			return fs[i].Rule < fs[j].Rule
		}
		return fs[i].Construct < fs[j].Construct
	})
	var unknown []Finding
	var knownHit []string
	knownText := map[int]string{}
	for _, exact := range []bool{true, false} {
		for i := range fs {
			if fs[i].Known {
				continue
			}
			if ok, text := isKnown(fs[i], exact); ok {
				fs[i].Known = true
				knownText[i] = text
			}
		}
	}
	for i := range fs {
		if fs[i].Known {
			fmt.Printf("KNOWN-FINDING: property=%s rule=%s construct=%s %s [%s]\n", c.ID, fs[i].Rule, fs[i].Construct, knownText[i], fs[i].Pos)
			knownHit = append(knownHit, fs[i].Rule+" "+fs[i].Construct)
		} else {
			unknown = append(unknown, fs[i])
		}
	}
	var stale []string
	for _, k := range kn {
		if k.kind == "finding" && k.property == c.ID {
			hit := false
			for _, f := range fs {
				if f.Known && f.Rule == k.rule && (f.Construct == k.construct || litRe.ReplaceAllString(f.Construct, "") == k.construct) {
					hit = true
				}
			}
			if !hit {
				stale = append(stale, k.rule+" "+k.construct)
			}
		}
	}
	evDir := filepath.Join(c.VerifDir, "evidence")
	if c.EvidenceDir != "" {
		evDir = c.EvidenceDir
	}
	os.MkdirAll(evDir, 0o755)
	replay := filepath.Join(evDir, c.ID+".replay.json")
	if len(unknown) > 0 {
		for _, f := range unknown {
			fmt.Printf("finding: rule=%s construct=%s pos=%s :: %s\n", f.Rule, f.Construct, f.Pos, f.Msg)
			for _, w := range f.Witness {
				fmt.Printf("    %s\n", w)
			}
		}
		b, _ := json.MarshalIndent(map[string]interface{}{"property": c.ID, "tier": c.Tier, "findings": unknown}, "", " ")
		os.WriteFile(replay, b, 0o644)
		fmt.Printf("VIOLATION property=%s replay=%s\n", c.ID, replay)
	} else {
		os.Remove(replay)
	}

	// evidence
	disch := 0
	distinct := map[string]bool{}
	for _, o := range c.Obls {
		if o.OK {
			disch++
		}
		distinct[o.Rule+"|"+o.Construct] = true
	}
	var samples []interface{}
	perRule := map[string]int{}
	for _, o := range c.Obls {
		if perRule[o.Rule] < 3 {
			perRule[o.Rule]++
			samples = append(samples, o)
		}
	}
	if len(samples) == 0 {
		samples = append(samples, "no obligations")
	}
	expl := c.Explain + " The authoritative list of the rules evaluated in this run (including those added after seeded changes were missed), each with its statement, instance count and floor, is coverage.rules."
	if c.NotDecided != "" {
		expl += " NOT DECIDED: " + c.NotDecided
	}
	cov := map[string]interface{}{
		"explanation":                     expl,
		"evaluations":                     len(c.Obls),
		"distinct_nontrivial":             len(distinct),
		"rule":                            "one evaluation = one rule instance (rule + construct) examined on the SSA/type-checked program of /repo; distinct = distinct (rule, construct) keys; every instance carries a non-vacuous obligation (rules with no instance fail their floor)",
		"obligations":                     len(c.Obls),
		"discharged":                      disch,
		"samples":                         samples,
		"rules":                           c.Rules,
		"exceptions":                      c.Exceptions,
		"known_findings":                  knownHit,
		"stale_known":                     stale,
		"findings":                        fs,
		"notes":                           c.Notes,
		"functions_analysed":              len(c.P.ModFuncs),
		"packages":                        len(c.P.Pkgs),
		"packages_with_deps":              len(c.P.All),
		"load_s":                          c.P.LoadS,
		"ssa_s":                           c.P.SSAS,
		"callgraph_s":                     c.P.CGS,
		"exhaustive":                      true,
		"anchors_resolved_by_fingerprint": c.P.Renames,
		"normalised":                      c.P.Norm, // fresh helpers analysed inlined into their callers (internal/norm)
	}
	for k, v := range c.Extra {
		cov[k] = v
	}
	ev := map[string]interface{}{
		"property_id": c.ID,
		"tier":        c.Tier,
		"seed":        c.Seed,
		"level":       "other",
		"coverage":    cov,
		"assumptions": []string{
			"go/types, go/ssa, go/packages of golang.org/x/tools v0.29.0 and the Go 1.23 front end are correct",
			"default build configuration (linux/amd64, no tags); masswallet/db/rdb (+build rocksdb, cgo) is not analysed",
			"rule tables in /verif/internal/rules are the reviewed slot assignments; every rule is a necessary condition of the property, not a sufficient one",
		},
		"wall_s":     time.Since(c.Start).Seconds(),
		"violations": len(unknown),
	}
	b, _ := json.MarshalIndent(ev, "", " ")
	os.WriteFile(filepath.Join(evDir, c.ID+".json"), b, 0o644)

	fmt.Printf("%s tier=%s rules=%d obligations=%d discharged=%d known=%d violations=%d wall=%.1fs\n",
		c.ID, c.Tier, len(c.Rules), len(c.Obls), disch, len(knownHit), len(unknown), time.Since(c.Start).Seconds())
	if len(unknown) > 0 {
		return 1
	}
	return 0
}
