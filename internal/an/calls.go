package an

import (
	"go/types"
	"sort"

	"golang.org/x/tools/go/callgraph"
	"golang.org/x/tools/go/ssa"
)

// CallOf returns the CallCommon of a call-like instruction (Call, Go, Defer) or nil.
func CallOf(in ssa.Instruction) *ssa.CallCommon {
	switch x := in.(type) {
	case *ssa.Call:
		return &x.Call
	case *ssa.Go:
		return &x.Call
	case *ssa.Defer:
		return &x.Call
	}
	return nil
}

// Callees resolves the possible callees of a call instruction.
// Static callee when there is one; closure made in place; otherwise VTA edges.
func (p *Prog) Callees(in ssa.Instruction) []*ssa.Function {
	c := CallOf(in)
	if c == nil {
		return nil
	}
	if f := c.StaticCallee(); f != nil {
		return []*ssa.Function{f}
	}
	if !c.IsInvoke() {
		// dynamic call of a function value
		if mc, ok := c.Value.(*ssa.MakeClosure); ok {
			if f, ok := mc.Fn.(*ssa.Function); ok {
				return []*ssa.Function{f}
			}
		}
	}
	g := p.CallGraph()
	n := g.Nodes[in.Parent()]
	if n == nil {
		return nil
	}
	var out []*ssa.Function
	seen := map[*ssa.Function]bool{}
	for _, e := range n.Out {
		if e.Site == in && e.Callee != nil && e.Callee.Func != nil && !seen[e.Callee.Func] {
			seen[e.Callee.Func] = true
			out = append(out, e.Callee.Func)
		}
	}
	sort.Slice(out, func(i, j int) bool { return FuncKey(out[i]) < FuncKey(out[j]) })
	return out
}

// IsCallTo reports whether instruction in may call any member of set.
func (p *Prog) IsCallTo(in ssa.Instruction, set map[*ssa.Function]bool) bool {
	c := CallOf(in)
	if c == nil {
		return false
	}
	if f := c.StaticCallee(); f != nil {
		return set[f]
	}
	for _, f := range p.Callees(in) {
		if set[f] {
			return true
		}
	}
	return false
}

// IsInvokeOf reports whether in is an interface invoke of abstract method m
// (or a static call to a concrete method implementing m when impls is given).
func IsInvokeOf(in ssa.Instruction, m *types.Func) bool {
	c := CallOf(in)
	if c == nil || !c.IsInvoke() {
		return false
	}
	return c.Method == m || (c.Method.Name() == m.Name() && sameIface(c.Method, m))
}

func sameIface(a, b *types.Func) bool {
	ra := a.Type().(*types.Signature).Recv()
	rb := b.Type().(*types.Signature).Recv()
	if ra == nil || rb == nil {
		return false
	}
	return types.Identical(ra.Type(), rb.Type())
}

// paramCall reports whether the dynamic call's function value is a parameter or
// free variable of the enclosing function (a higher-order wrapper invoking its argument).
func paramCall(c *ssa.CallCommon) bool {
	if c.IsInvoke() || c.StaticCallee() != nil {
		return false
	}
	switch c.Value.(type) {
	case *ssa.Parameter, *ssa.FreeVar:
		return true
	}
	return false
}

// Edge is one resolved call edge.
type Edge struct {
	Site   ssa.Instruction // call / go / defer, or the instruction referencing a function value
	Callee *ssa.Function
	Kind   string // "call", "go", "defer", "ref"
}

// Out returns the outgoing edges of f under the module's edge policy:
//   - static and interface/dynamic callees (VTA) of every call instruction,
//   - EXCEPT dynamic calls of a function-typed parameter/free variable (the
//     wrapper idiom: mwdb.Update(db, f), View, iterator filters); those are
//     covered by
//   - "ref" edges from the function that creates/mentions a function value
//     (MakeClosure, bound method, plain *ssa.Function operand) to that function:
//     the closure is analysed in the context of its creation site.
func (p *Prog) Out(f *ssa.Function) []Edge {
	var out []Edge
	for _, b := range f.Blocks {
		for _, in := range b.Instrs {
			if c := CallOf(in); c != nil {
				kind := "call"
				switch in.(type) {
				case *ssa.Go:
					kind = "go"
				case *ssa.Defer:
					kind = "defer"
				}
				if !paramCall(c) {
					for _, cal := range p.Callees(in) {
						out = append(out, Edge{in, cal, kind})
					}
				}
			}
			// function values mentioned as operands (not as the callee of a static call)
			var ops [16]*ssa.Value
			for _, op := range in.Operands(ops[:0]) {
				if op == nil || *op == nil {
					continue
				}
				switch v := (*op).(type) {
				case *ssa.Function:
					if c := CallOf(in); c != nil && c.Value == v {
						continue
					}
					out = append(out, Edge{in, v, "ref"})
				case *ssa.MakeClosure:
					// the MakeClosure instruction itself carries the ref (below)
					_ = v
				}
			}
			if mc, ok := in.(*ssa.MakeClosure); ok {
				if fn, ok := mc.Fn.(*ssa.Function); ok {
					out = append(out, Edge{in, fn, "ref"})
				}
			}
		}
	}
	return out
}

// Path is a witness path of edges.
type Path []Edge

// ReachOpts configures Reach.
type ReachOpts struct {
	// Stop: do not expand this function (its outgoing edges are ignored).
	Stop func(*ssa.Function) bool
	// SkipEdge: ignore this edge (e.g. pruned by nil-ness specialisation or "go" edges).
	SkipEdge func(from *ssa.Function, e Edge) bool
	// Within: only expand functions for which it returns true (default: module functions).
	Within func(*ssa.Function) bool
	// Visit is called for every feasible edge traversed (ReachNil only).
	Visit func(from *ssa.Function, e Edge)
}

// Reach computes the functions reachable from roots, with a parent map for witnesses.
func (p *Prog) Reach(roots []*ssa.Function, o ReachOpts) (map[*ssa.Function]bool, map[*ssa.Function]struct {
	From *ssa.Function
	E    Edge
}) {
	seen := map[*ssa.Function]bool{}
	parent := map[*ssa.Function]struct {
		From *ssa.Function
		E    Edge
	}{}
	within := o.Within
	if within == nil {
		within = p.InModule
	}
	var q []*ssa.Function
	for _, r := range roots {
		if r != nil && !seen[r] {
			seen[r] = true
			q = append(q, r)
		}
	}
	for len(q) > 0 {
		f := q[0]
		q = q[1:]
		if o.Stop != nil && o.Stop(f) {
			continue
		}
		if !within(f) || f.Blocks == nil {
			continue
		}
		for _, e := range p.Out(f) {
			if o.SkipEdge != nil && o.SkipEdge(f, e) {
				continue
			}
			if !seen[e.Callee] {
				seen[e.Callee] = true
				parent[e.Callee] = struct {
					From *ssa.Function
					E    Edge
				}{f, e}
				q = append(q, e.Callee)
			}
		}
	}
	return seen, parent
}

// Witness renders the path root → … → target from a parent map.
func (p *Prog) Witness(parent map[*ssa.Function]struct {
	From *ssa.Function
	E    Edge
}, target *ssa.Function) []string {
	var rev []string
	cur := target
	for i := 0; i < 64; i++ {
		pe, ok := parent[cur]
		if !ok {
			break
		}
		rev = append(rev, ShortKey(pe.From)+" -> "+ShortKey(cur)+" @"+p.InstrPos(pe.E.Site)+" ("+pe.E.Kind+")")
		cur = pe.From
	}
	for i, j := 0, len(rev)-1; i < j; i, j = i+1, j-1 {
		rev[i], rev[j] = rev[j], rev[i]
	}
	return rev
}

// Callers returns the module call sites (instruction + enclosing function) that may call f,
// using the same edge policy as Out (including "ref" edges).
func (p *Prog) Callers(f *ssa.Function) []struct {
	From *ssa.Function
	E    Edge
} {
	p.buildRev()
	return p.rev[f]
}

func (p *Prog) buildRev() {
	if p.rev != nil {
		return
	}
	p.rev = map[*ssa.Function][]struct {
		From *ssa.Function
		E    Edge
	}{}
	for _, f := range p.ModFuncs {
		for _, e := range p.Out(f) {
			p.rev[e.Callee] = append(p.rev[e.Callee], struct {
				From *ssa.Function
				E    Edge
			}{f, e})
		}
	}
}

// CGNode exposes the VTA node (for whole-program questions).
func (p *Prog) CGNode(f *ssa.Function) *callgraph.Node { return p.CallGraph().Nodes[f] }

// Instrs iterates over every instruction of f.
func Instrs(f *ssa.Function, fn func(ssa.Instruction)) {
	for _, b := range f.Blocks {
		for _, in := range b.Instrs {
			fn(in)
		}
	}
}

// CallSitesTo lists the instructions in f that may call a member of set.
func (p *Prog) CallSitesTo(f *ssa.Function, set map[*ssa.Function]bool) []ssa.Instruction {
	var out []ssa.Instruction
	Instrs(f, func(in ssa.Instruction) {
		if p.IsCallTo(in, set) {
			out = append(out, in)
		}
	})
	return out
}

// Set builds a function set, dropping nils.
func Set(fs ...*ssa.Function) map[*ssa.Function]bool {
	m := map[*ssa.Function]bool{}
	for _, f := range fs {
		if f != nil {
			m[f] = true
		}
	}
	return m
}

// ---- nil-ness-specialised reachability --------------------------------------

// NilCtx maps parameter index → known nil-ness on this call edge.
type NilCtx map[int]NilState

func (c NilCtx) key() string {
	if len(c) == 0 {
		return ""
	}
	var idx []int
	for i := range c {
		idx = append(idx, i)
	}
	sort.Ints(idx)
	s := ""
	for _, i := range idx {
		s += itoa(i) + c[i].String()[:2] + ","
	}
	return s
}

// infeasible: block b of f cannot execute under ctx because a dominating branch tests a
// parameter against nil with the outcome ctx excludes.
func (p *Prog) infeasible(b *ssa.BasicBlock, ctx NilCtx) bool {
	if len(ctx) == 0 {
		return false
	}
	for x := b; x != nil; x = x.Idom() {
		if len(x.Preds) != 1 {
			continue
		}
		from := x.Preds[0]
		if len(from.Instrs) == 0 {
			continue
		}
		ifi, ok := from.Instrs[len(from.Instrs)-1].(*ssa.If)
		if !ok || from.Succs[0] == from.Succs[1] {
			continue
		}
		cv, trueMeansNil, ok := NilCmp(ifi.Cond)
		if !ok {
			continue
		}
		par, ok := cv.(*ssa.Parameter)
		if !ok {
			continue
		}
		idx := -1
		for i, q := range par.Parent().Params {
			if q == par {
				idx = i
			}
		}
		st, ok := ctx[idx]
		if !ok || st == Unknown {
			continue
		}
		edgeMeansNil := (from.Succs[0] == x) == trueMeansNil
		if edgeMeansNil && st == NonNil {
			return true
		}
		if !edgeMeansNil && st == IsNil {
			return true
		}
	}
	return false
}

type fnCtx struct {
	f   *ssa.Function
	key string
}

// ReachNil is Reach with one refinement: per call edge, the nil-ness of pointer/interface
// arguments known at the call site (fresh allocation, literal nil, or inherited from the
// caller's own context) prunes the callee blocks dominated by the contradicting nil test.
// Returned parent map gives one witness per function.
func (p *Prog) ReachNil(roots []*ssa.Function, o ReachOpts) (map[*ssa.Function]bool, map[*ssa.Function]struct {
	From *ssa.Function
	E    Edge
}) {
	seenFn := map[*ssa.Function]bool{}
	parent := map[*ssa.Function]struct {
		From *ssa.Function
		E    Edge
	}{}
	within := o.Within
	if within == nil {
		within = p.InModule
	}
	type item struct {
		f   *ssa.Function
		ctx NilCtx
	}
	seen := map[fnCtx]bool{}
	var q []item
	for _, r := range roots {
		if r != nil {
			q = append(q, item{r, nil})
			seen[fnCtx{r, ""}] = true
			seenFn[r] = true
		}
	}
	for len(q) > 0 {
		it := q[0]
		q = q[1:]
		f := it.f
		if o.Stop != nil && o.Stop(f) {
			continue
		}
		if !within(f) || f.Blocks == nil {
			continue
		}
		for _, e := range p.Out(f) {
			if p.infeasible(e.Site.Block(), it.ctx) {
				continue
			}
			if o.SkipEdge != nil && o.SkipEdge(f, e) {
				continue
			}
			if o.Visit != nil {
				o.Visit(f, e)
			}
			var ctx NilCtx
			if e.Kind != "ref" {
				if c := CallOf(e.Site); c != nil {
					args := c.Args
					off := 0
					if c.IsInvoke() {
						off = 1 // receiver is params[0] of the concrete method
					}
					for i, a := range args {
						switch a.Type().Underlying().(type) {
						case *types.Pointer, *types.Interface, *types.Map, *types.Slice:
						default:
							continue
						}
						st := Unknown
						if par, ok := a.(*ssa.Parameter); ok && par.Parent() == f {
							for k, q2 := range f.Params {
								if q2 == par {
									st = it.ctx[k]
								}
							}
						} else {
							st = p.ValState(a, e.Site.Block(), nil)
						}
						if st != Unknown {
							if ctx == nil {
								ctx = NilCtx{}
							}
							ctx[i+off] = st
						}
					}
				}
			}
			k := fnCtx{e.Callee, ctx.key()}
			if seen[k] {
				continue
			}
			seen[k] = true
			if !seenFn[e.Callee] {
				seenFn[e.Callee] = true
				parent[e.Callee] = struct {
					From *ssa.Function
					E    Edge
				}{f, e}
			}
			q = append(q, item{e.Callee, ctx})
		}
	}
	return seenFn, parent
}

// Infeasible exposes the nil-specialised block feasibility test.
func (p *Prog) Infeasible(b *ssa.BasicBlock, ctx NilCtx) bool { return p.infeasible(b, ctx) }

// Key renders a NilCtx canonically.
func (c NilCtx) Key() string { return c.key() }

// ArgNilCtx computes the nil-ness context a call site gives its callee: fresh allocations and
// literal nils, or the caller's own context for parameters passed through.
func (p *Prog) ArgNilCtx(f *ssa.Function, site ssa.Instruction, callerCtx NilCtx) NilCtx {
	c := CallOf(site)
	if c == nil {
		return nil
	}
	var ctx NilCtx
	off := 0
	if c.IsInvoke() {
		off = 1
	}
	for i, a := range c.Args {
		switch a.Type().Underlying().(type) {
		case *types.Pointer, *types.Interface, *types.Map, *types.Slice:
		default:
			continue
		}
		st := Unknown
		if par, ok := a.(*ssa.Parameter); ok && par.Parent() == f {
			for k, q2 := range f.Params {
				if q2 == par {
					st = callerCtx[k]
				}
			}
		} else {
			st = p.ValState(a, site.Block(), nil)
		}
		if st != Unknown {
			if ctx == nil {
				ctx = NilCtx{}
			}
			ctx[i+off] = st
		}
	}
	return ctx
}
