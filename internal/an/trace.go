package an

import (
	"go/token"
	"go/types"

	"golang.org/x/tools/go/ssa"
)

// Origin is one backward-reachable definition of a value.
type Origin struct {
	V      ssa.Value
	Stack  []ssa.Instruction // call sites descended through (innermost last) when the leaf was found
	ViaArg bool              // the path went callee-parameter → argument of the call descended through ("derived from an argument of a function")
	Entry  bool              // parameter of a function with no module caller
	Ascent []ssa.Instruction // call sites ascended through (parameter → argument at a caller), innermost first
}

// Tracer walks definitions backwards: through phis, local cells, conversions, parameters (to the
// arguments at call sites) and call results (into the callee's returned values), matching calls
// and returns (a descent through call site s returns only to s).
type Tracer struct {
	P *Prog
	// Leaf: stop at v and report it as an origin.
	Leaf func(v ssa.Value) bool
	// ThroughSlice: look through slice expressions (x[a:b] → x) instead of stopping at them.
	ThroughSlice bool
	// FieldStores: for loads of struct fields, continue at every store to that field in module code.
	FieldStores bool
	MaxDepth    int
	// ThroughDeref: `*p` of a pointer-valued expression continues at p (the pointee's origin is the pointer's), and a
	// local cell's stores made through a capturing closure count as its definitions.
	ThroughDeref bool
	// Follow: when ascending from a parameter to callers, take Follow[i] as the i-th ascent
	// (so that two traces of one operation use the same calling context); beyond it, all callers.
	Follow []ssa.Instruction
}

type traceKey struct {
	v    ssa.Value
	top  ssa.Instruction
	asc  ssa.Instruction
	nasc int
}

// Origins traces v in the empty context.
func (t *Tracer) Origins(v ssa.Value) []Origin { return t.OriginsFrom(v, nil) }

// OriginsFrom traces v (a value of the function at the top of stack's callee, or any function
// when stack is empty) in the given call-string context.
func (t *Tracer) OriginsFrom(v ssa.Value, stack []ssa.Instruction) []Origin {
	var out []Origin
	seen := map[traceKey]bool{}
	max := t.MaxDepth
	if max == 0 {
		max = 40
	}
	var asc []ssa.Instruction
	var walk func(v ssa.Value, stack []ssa.Instruction, viaArg bool, depth int)
	emit := func(v ssa.Value, stack []ssa.Instruction, viaArg, entry bool) {
		cp := append([]ssa.Instruction(nil), stack...)
		out = append(out, Origin{V: v, Stack: cp, ViaArg: viaArg, Entry: entry, Ascent: append([]ssa.Instruction(nil), asc...)})
	}
	walk = func(v ssa.Value, stack []ssa.Instruction, viaArg bool, depth int) {
		if v == nil {
			return
		}
		var top ssa.Instruction
		if len(stack) > 0 {
			top = stack[len(stack)-1]
		}
		var la ssa.Instruction
		if len(asc) > 0 {
			la = asc[len(asc)-1]
		}
		k := traceKey{v, top, la, len(asc)}
		if seen[k] {
			return
		}
		seen[k] = true
		if depth > max {
			emit(v, stack, viaArg, false)
			return
		}
		if t.Leaf != nil && t.Leaf(v) {
			emit(v, stack, viaArg, false)
			return
		}
		switch x := v.(type) {
		case *ssa.Phi:
			for _, e := range x.Edges {
				walk(e, stack, viaArg, depth+1)
			}
		case *ssa.ChangeType:
			walk(x.X, stack, viaArg, depth+1)
		case *ssa.ChangeInterface:
			walk(x.X, stack, viaArg, depth+1)
		case *ssa.MakeInterface:
			walk(x.X, stack, viaArg, depth+1)
		case *ssa.TypeAssert:
			walk(x.X, stack, viaArg, depth+1)
		case *ssa.Slice:
			if t.ThroughSlice {
				walk(x.X, stack, viaArg, depth+1)
			} else {
				emit(v, stack, viaArg, false)
			}
		case *ssa.Parameter:
			fn := x.Parent()
			idx := -1
			for i, q := range fn.Params {
				if q == x {
					idx = i
				}
			}
			if top != nil {
				// return to the call site we descended through, if it calls fn
				cc := CallOf(top)
				if a := argFor(cc, fn, idx); a != nil {
					walk(a, stack[:len(stack)-1], true, depth+1)
					return
				}
			}
			callers := t.P.Callers(fn)
			n := 0
			for _, c := range callers {
				if c.E.Kind == "ref" {
					continue
				}
				if len(asc) < len(t.Follow) && t.Follow[len(asc)] != c.E.Site {
					continue
				}
				cc := CallOf(c.E.Site)
				if a := argFor(cc, fn, idx); a != nil {
					n++
					asc = append(asc, c.E.Site)
					walk(a, nil, viaArg, depth+1)
					asc = asc[:len(asc)-1]
				}
			}
			if n == 0 {
				emit(v, stack, viaArg, true)
			}
		case *ssa.FreeVar:
			fn := x.Parent()
			idx := -1
			for i, q := range fn.FreeVars {
				if q == x {
					idx = i
				}
			}
			found := false
			if par := fn.Parent(); par != nil {
				Instrs(par, func(in ssa.Instruction) {
					if mc, ok := in.(*ssa.MakeClosure); ok && mc.Fn == ssa.Value(fn) && idx < len(mc.Bindings) {
						found = true
						walk(mc.Bindings[idx], nil, viaArg, depth+1)
					}
				})
			}
			if !found {
				emit(v, stack, viaArg, true)
			}
		case *ssa.UnOp:
			if x.Op != token.MUL {
				emit(v, stack, viaArg, false)
				return
			}
			switch a := x.X.(type) {
			case *ssa.Alloc:
				n := 0
				for _, r := range *a.Referrers() {
					if st, ok := r.(*ssa.Store); ok && st.Addr == ssa.Value(a) {
						n++
						walk(st.Val, stack, viaArg, depth+1)
					}
				}
				if t.ThroughDeref && a.Parent() != nil {
					for _, an := range a.Parent().AnonFuncs {
						Instrs(an, func(in ssa.Instruction) {
							if st, ok := in.(*ssa.Store); ok {
								if fv, ok := st.Addr.(*ssa.FreeVar); ok && t.bindsTo(fv, a) {
									n++
									walk(st.Val, nil, viaArg, depth+1)
								}
							}
						})
					}
				}
				if n == 0 {
					emit(v, stack, viaArg, false)
				}
			case *ssa.UnOp, *ssa.Call, *ssa.Extract:
				if t.ThroughDeref {
					walk(a, stack, viaArg, depth+1)
					return
				}
				emit(v, stack, viaArg, false)
			case *ssa.FreeVar, *ssa.Parameter, *ssa.Phi:
				// pointer to a cell held in a free variable (closure-captured local): trace the cell
				ors := t.OriginsFrom(a, stack)
				n := 0
				for _, o := range ors {
					if al, ok := o.V.(*ssa.Alloc); ok {
						for _, r := range *al.Referrers() {
							if st, ok := r.(*ssa.Store); ok && st.Addr == ssa.Value(al) {
								n++
								walk(st.Val, o.Stack, viaArg || o.ViaArg, depth+1)
							}
						}
						// stores through the free variable inside closures of the allocating function
						if al.Parent() != nil {
							for _, an := range al.Parent().AnonFuncs {
								Instrs(an, func(in ssa.Instruction) {
									if st, ok := in.(*ssa.Store); ok {
										if fv, ok := st.Addr.(*ssa.FreeVar); ok && t.bindsTo(fv, al) {
											n++
											walk(st.Val, nil, viaArg, depth+1)
										}
									}
								})
							}
						}
					}
				}
				if n == 0 {
					if _, isPhi := a.(*ssa.Phi); isPhi && t.ThroughDeref {
						// a pointer value merged from several paths: the pointee's origin is the pointer's
						walk(a, stack, viaArg, depth+1)
						return
					}
					emit(v, stack, viaArg, false)
				}
			case *ssa.FieldAddr:
				if t.FieldStores {
					n := 0
					for _, st := range t.P.fieldStoresOf(a) {
						n++
						walk(st.Val, nil, viaArg, depth+1)
					}
					if n > 0 {
						return
					}
				}
				emit(v, stack, viaArg, false)
			default:
				emit(v, stack, viaArg, false)
			}
		case *ssa.Extract:
			if call, ok := x.Tuple.(*ssa.Call); ok {
				if t.descend(call, x.Index, stack, viaArg, depth, walk) {
					return
				}
			}
			emit(v, stack, viaArg, false)
		case *ssa.Call:
			if t.descend(x, 0, stack, viaArg, depth, walk) {
				return
			}
			emit(v, stack, viaArg, false)
		default:
			emit(v, stack, viaArg, false)
		}
	}
	walk(v, stack, false, 0)
	return out
}

func (t *Tracer) bindsTo(fv *ssa.FreeVar, al *ssa.Alloc) bool {
	fn := fv.Parent()
	par := fn.Parent()
	if par == nil {
		return false
	}
	idx := -1
	for i, q := range fn.FreeVars {
		if q == fv {
			idx = i
		}
	}
	ok := false
	Instrs(par, func(in ssa.Instruction) {
		if mc, isMC := in.(*ssa.MakeClosure); isMC && mc.Fn == ssa.Value(fn) && idx < len(mc.Bindings) && mc.Bindings[idx] == ssa.Value(al) {
			ok = true
		}
	})
	return ok
}

// descend continues the walk at the returned values (#idx) of the module callees of call.
func (t *Tracer) descend(call *ssa.Call, idx int, stack []ssa.Instruction, viaArg bool, depth int, walk func(ssa.Value, []ssa.Instruction, bool, int)) bool {
	if _, isBuiltin := call.Call.Value.(*ssa.Builtin); isBuiltin {
		return false
	}
	callees := t.P.Callees(call)
	any := false
	for _, f := range callees {
		if !t.P.InModule(f) || f.Blocks == nil {
			continue
		}
		// avoid unbounded recursion through the same site
		rec := false
		for _, s := range stack {
			if s == ssa.Instruction(call) {
				rec = true
			}
		}
		if rec {
			continue
		}
		ns := append(append([]ssa.Instruction(nil), stack...), call)
		for _, b := range f.Blocks {
			for _, in := range b.Instrs {
				if r, ok := in.(*ssa.Return); ok && idx < len(r.Results) {
					any = true
					walk(retVal(r, idx), ns, viaArg, depth+1)
				}
			}
		}
	}
	return any
}

// retVal looks through the named-result cell spill.
func retVal(r *ssa.Return, idx int) ssa.Value {
	return retOperand(r, idx)
}

// argFor returns the argument of call cc bound to parameter #idx of fn (nil if cc does not call fn
// in a way we can match).
func argFor(cc *ssa.CallCommon, fn *ssa.Function, idx int) ssa.Value {
	if cc == nil || idx < 0 {
		return nil
	}
	if cc.IsInvoke() {
		// receiver is params[0]
		if idx == 0 {
			return cc.Value
		}
		if idx-1 < len(cc.Args) {
			return cc.Args[idx-1]
		}
		return nil
	}
	if idx < len(cc.Args) {
		return cc.Args[idx]
	}
	return nil
}

// fieldStoresOf returns all module stores to the same (struct type, field) as fa.
func (p *Prog) fieldStoresOf(fa *ssa.FieldAddr) []*ssa.Store {
	st := derefStruct(fa.X.Type())
	if st == nil {
		return nil
	}
	key := fieldKey{st, fa.Field}
	if p.fstores == nil {
		p.fstores = map[fieldKey][]*ssa.Store{}
		for _, f := range p.ModFuncs {
			Instrs(f, func(in ssa.Instruction) {
				s, ok := in.(*ssa.Store)
				if !ok {
					return
				}
				if a, ok := s.Addr.(*ssa.FieldAddr); ok {
					if sst := derefStruct(a.X.Type()); sst != nil {
						k := fieldKey{sst, a.Field}
						p.fstores[k] = append(p.fstores[k], s)
					}
				}
			})
		}
	}
	return p.fstores[key]
}

type fieldKey struct {
	st    *types.Struct
	field int
}
