package an

// Rename-robust anchor resolution. Rules name mechanism functions by package + receiver + name. When such a
// name no longer resolves, the function may simply have been renamed. anchors.json (generated from the reviewed
// tree by `mwcheck -fingerprints`) holds a fingerprint of every module function — its signature and the set of
// callees and string constants of its body. A missing name is then resolved to the unique function of the same
// package and receiver, with the same signature, whose own name is not in the table and whose body matches the
// recorded fingerprint closely. If nothing matches, the anchor stays lost and the rule fails loudly, as before.

import (
	"encoding/json"
	"go/types"
	"os"
	"sort"
	"strings"

	"golang.org/x/tools/go/ssa"
)

// AnchorTable is the content of anchors.json.
type AnchorTable struct {
	Funcs   map[string]Fingerprint       `json:"funcs"`
	Fields  map[string][][2]string       `json:"fields"`  // "pkg|Type" → [[name, type], …] in declaration order
	Globals map[string]map[string]string `json:"globals"` // pkg → name → type
}

// Fingerprint of one function.
type Fingerprint struct {
	Sig    string   `json:"sig"`   // order-free signature: sorted parameter types (a receiver counts as a parameter) -> sorted result types
	Short  string   `json:"short"` // the function's short key in the reviewed tree
	Key    string   `json:"key"`   // its full key
	Tokens []string `json:"tokens"`
	// Callers: keys of the module functions that call this one statically (used when the function was merged into its only caller)
	Callers []string `json:"callers,omitempty"`
}

// sigNorm is the signature modulo parameter order, result order and the method/function distinction.
func sigNorm(f *ssa.Function) string {
	var ps, rs []string
	if r := f.Signature.Recv(); r != nil {
		ps = append(ps, r.Type().String())
	}
	for i := 0; i < f.Signature.Params().Len(); i++ {
		ps = append(ps, f.Signature.Params().At(i).Type().String())
	}
	for i := 0; i < f.Signature.Results().Len(); i++ {
		rs = append(rs, f.Signature.Results().At(i).Type().String())
	}
	sort.Strings(ps)
	sort.Strings(rs)
	return strings.Join(ps, ",") + " -> " + strings.Join(rs, ",")
}

// AnchorFile is where the fingerprints are read from (set by main; empty disables the fallback).
var AnchorFile string

func fpKey(pkgPath, recv, name string) string { return pkgPath + "|" + recv + "|" + name }

// FingerprintOf computes the fingerprint of f.
func (p *Prog) FingerprintOf(f *ssa.Function) Fingerprint {
	fp := Fingerprint{Sig: sigNorm(f), Short: shortOf(FuncKey(f)), Key: FuncKey(f)}
	set := map[string]bool{}
	var scan func(g *ssa.Function)
	scan = func(g *ssa.Function) {
		Instrs(g, func(in ssa.Instruction) {
			if cc := CallOf(in); cc != nil {
				if cal := cc.StaticCallee(); cal != nil {
					set["c:"+FuncKey(cal)] = true
				} else if cc.IsInvoke() {
					set["i:"+cc.Method.Name()] = true
				}
			}
			var ops [12]*ssa.Value
			for _, op := range in.Operands(ops[:0]) {
				if op == nil || *op == nil {
					continue
				}
				if k, ok := (*op).(*ssa.Const); ok && k.Value != nil {
					s := k.Value.ExactString()
					if len(s) > 2 && strings.HasPrefix(s, "\"") {
						if len(s) > 40 {
							s = s[:40]
						}
						set["k:"+s] = true
					}
				}
				if fa, ok := (*op).(*ssa.FieldAddr); ok {
					if st := derefStruct(fa.X.Type()); st != nil {
						set["f:"+st.Field(fa.Field).Name()] = true
					}
				}
			}
		})
		for _, af := range g.AnonFuncs {
			scan(af)
		}
	}
	scan(f)
	for k := range set {
		fp.Tokens = append(fp.Tokens, k)
	}
	sort.Strings(fp.Tokens)
	return fp
}

// Fingerprints of all module functions (for mwcheck -fingerprints).
func (p *Prog) Fingerprints() map[string]Fingerprint {
	out := map[string]Fingerprint{}
	for _, f := range p.ModFuncs {
		if f.Parent() != nil || f.Synthetic != "" {
			continue
		}
		pk := FuncPkg(f)
		if pk == nil || strings.HasSuffix(pk.Path(), "/proto") {
			continue // generated code is never an anchor
		}
		recv := ""
		if r := f.Signature.Recv(); r != nil {
			if n := namedOf(r.Type()); n != nil {
				recv = n.Obj().Name()
			}
		}
		out[fpKey(pk.Path(), recv, f.Name())] = p.FingerprintOf(f)
	}
	// static callers
	callers := map[string]map[string]bool{}
	for _, f := range p.ModFuncs {
		top := Outermost(f)
		tpk := FuncPkg(top)
		if tpk == nil || top.Synthetic != "" {
			continue
		}
		from := fpKey(tpk.Path(), recvName(top), top.Name())
		Instrs(f, func(in ssa.Instruction) {
			cc := CallOf(in)
			if cc == nil {
				return
			}
			cal := cc.StaticCallee()
			if cal == nil || cal.Parent() != nil || !p.InModule(cal) {
				return
			}
			to := fpKey(FuncPkg(cal).Path(), recvName(cal), cal.Name())
			if to == from {
				return
			}
			if callers[to] == nil {
				callers[to] = map[string]bool{}
			}
			callers[to][from] = true
		})
	}
	for k, fp := range out {
		for c := range callers[k] {
			fp.Callers = append(fp.Callers, c)
		}
		sort.Strings(fp.Callers)
		out[k] = fp
	}
	return out
}

// mergedInto: the recorded function is gone and was not renamed; if it had a single recorded caller, which still
// exists and now contains what the function did (its callees, strings and fields), the function was merged into that
// caller, and the caller is where the obligations attached to it are to be shown.
func (p *Prog) mergedInto(pkgPath, recv, name string) *ssa.Function {
	tab := p.loadAnchors()
	want, ok := tab[fpKey(pkgPath, recv, name)]
	if !ok || len(want.Callers) != 1 {
		return nil
	}
	parts := strings.SplitN(want.Callers[0], "|", 3)
	if len(parts) != 3 {
		return nil
	}
	host := p.fnExact(parts[0], parts[1], parts[2])
	if host == nil {
		host = p.renamed(parts[0], parts[1], parts[2])
	}
	if host == nil {
		return nil
	}
	have := map[string]bool{}
	for _, t := range p.FingerprintOf(host).Tokens {
		have[t] = true
	}
	n := 0
	for _, t := range want.Tokens {
		if have[t] {
			n++
		}
	}
	if len(want.Tokens) > 0 && float64(n)/float64(len(want.Tokens)) < 0.7 {
		return nil
	}
	if p.Renames == nil {
		p.Renames = map[string]string{}
	}
	p.Renames[fpKey(pkgPath, recv, name)] = "merged into " + FuncKey(host)
	return host
}

func (p *Prog) loadAnchors() map[string]Fingerprint {
	if p.anchors != nil {
		return p.anchors
	}
	p.anchors = map[string]Fingerprint{}
	if AnchorFile == "" {
		return p.anchors
	}
	b, err := os.ReadFile(AnchorFile)
	if err != nil {
		return p.anchors
	}
	var t AnchorTable
	if json.Unmarshal(b, &t) == nil && t.Funcs != nil {
		p.anchors = t.Funcs
		p.anchorTab = &t
	}
	return p.anchors
}

// Anchors builds the table for the loaded tree (mwcheck -fingerprints).
func (p *Prog) Anchors() AnchorTable {
	t := AnchorTable{Funcs: p.Fingerprints(), Fields: map[string][][2]string{}, Globals: map[string]map[string]string{}}
	for _, pk := range p.Pkgs {
		if pk.Types == nil || strings.HasSuffix(pk.PkgPath, "/proto") {
			continue
		}
		sc := pk.Types.Scope()
		for _, name := range sc.Names() {
			switch o := sc.Lookup(name).(type) {
			case *types.TypeName:
				if st, ok := o.Type().Underlying().(*types.Struct); ok {
					var fs [][2]string
					for i := 0; i < st.NumFields(); i++ {
						fs = append(fs, [2]string{st.Field(i).Name(), st.Field(i).Type().String()})
					}
					t.Fields[pk.PkgPath+"|"+name] = fs
				}
			case *types.Var:
				if t.Globals[pk.PkgPath] == nil {
					t.Globals[pk.PkgPath] = map[string]string{}
				}
				t.Globals[pk.PkgPath][name] = o.Type().String()
			}
		}
	}
	return t
}

// canonNames computes, once, the recorded names of struct fields and package variables that were renamed since
// anchors.json was generated: a recorded name that is gone is matched with the one new name of the same struct
// (package) that has the recorded type — at the recorded position if several qualify.
func (p *Prog) canonNames() {
	if p.canonDone {
		return
	}
	p.canonDone = true
	p.canonField = map[*types.Var]string{}
	p.canonGlobal = map[string]string{}
	p.canonType = map[*types.TypeName]string{}
	p.typeNow = map[string]*types.TypeName{}
	p.loadAnchors()
	if p.anchorTab == nil {
		return
	}
	for _, pk := range p.Pkgs {
		if pk.Types == nil {
			continue
		}
		sc := pk.Types.Scope()
		// struct types: a recorded type that is gone and one new type with the same field list
		for key, rec := range p.anchorTab.Fields {
			if !strings.HasPrefix(key, pk.PkgPath+"|") {
				continue
			}
			oldName := key[len(pk.PkgPath)+1:]
			if sc.Lookup(oldName) != nil {
				continue
			}
			var cands []*types.TypeName
			for _, name := range sc.Names() {
				tn, ok := sc.Lookup(name).(*types.TypeName)
				if !ok {
					continue
				}
				if _, known := p.anchorTab.Fields[pk.PkgPath+"|"+name]; known {
					continue
				}
				st, ok := tn.Type().Underlying().(*types.Struct)
				if !ok || st.NumFields() != len(rec) {
					continue
				}
				same := true
				for i := range rec {
					// field types may mention the renamed type itself: compare names, and types modulo the type's own name
					ft := strings.ReplaceAll(st.Field(i).Type().String(), "."+name, "."+oldName)
					if st.Field(i).Name() != rec[i][0] || ft != rec[i][1] {
						same = false
					}
				}
				if same {
					cands = append(cands, tn)
				}
			}
			if len(cands) == 1 {
				p.canonType[cands[0]] = oldName
				p.typeNow[pk.PkgPath+"|"+oldName] = cands[0]
			}
		}
	}
	// type strings with renamed types written under their recorded names
	norm := func(t types.Type) string {
		str := t.String()
		for tn, old := range p.canonType {
			str = strings.ReplaceAll(str, tn.Pkg().Path()+"."+tn.Name(), tn.Pkg().Path()+"."+old)
		}
		return str
	}
	for _, pk := range p.Pkgs {
		if pk.Types == nil {
			continue
		}
		sc := pk.Types.Scope()
		for _, name := range sc.Names() {
			tn, ok := sc.Lookup(name).(*types.TypeName)
			if !ok {
				continue
			}
			st, ok := tn.Type().Underlying().(*types.Struct)
			if !ok {
				continue
			}
			recName := name
			if old, ren := p.canonType[tn]; ren {
				recName = old
			}
			rec, ok := p.anchorTab.Fields[pk.PkgPath+"|"+recName]
			if !ok {
				continue
			}
			recNames, curNames := map[string]bool{}, map[string]bool{}
			for _, r := range rec {
				recNames[r[0]] = true
			}
			for i := 0; i < st.NumFields(); i++ {
				curNames[st.Field(i).Name()] = true
			}
			for ri, r := range rec {
				if curNames[r[0]] {
					continue
				}
				var cands []int
				for i := 0; i < st.NumFields(); i++ {
					f := st.Field(i)
					if !recNames[f.Name()] && norm(f.Type()) == r[1] {
						if _, taken := p.canonField[f]; !taken {
							cands = append(cands, i)
						}
					}
				}
				pick := -1
				if len(cands) == 1 {
					pick = cands[0]
				} else {
					for _, ci := range cands {
						if ci == ri {
							pick = ci
						}
					}
				}
				if pick >= 0 {
					p.canonField[st.Field(pick)] = r[0]
				}
			}
		}
		// package variables
		rec := p.anchorTab.Globals[pk.PkgPath]
		if rec == nil {
			continue
		}
		cur := map[string]string{}
		for _, name := range sc.Names() {
			if v, ok := sc.Lookup(name).(*types.Var); ok {
				cur[name] = v.Type().String()
			}
		}
		for rn, rt := range rec {
			if _, still := cur[rn]; still {
				continue
			}
			var cands []string
			for cn, ct := range cur {
				if _, known := rec[cn]; !known && ct == rt {
					cands = append(cands, cn)
				}
			}
			if len(cands) == 1 {
				p.canonGlobal[pk.PkgPath+"."+cands[0]] = rn
			}
		}
	}
}

// FieldName is the name rules know field i of st by: the recorded name if the field was renamed.
func (p *Prog) FieldName(st *types.Struct, i int) string {
	p.canonNames()
	f := st.Field(i)
	if n, ok := p.canonField[f]; ok {
		return n
	}
	return f.Name()
}

// GlobalName is the name rules know a package variable by.
func (p *Prog) GlobalName(g *ssa.Global) string {
	p.canonNames()
	if g.Pkg != nil && g.Pkg.Pkg != nil {
		if n, ok := p.canonGlobal[g.Pkg.Pkg.Path()+"."+g.Name()]; ok {
			return n
		}
	}
	return g.Name()
}

// renamed looks for the function that (pkgPath, recv, name) was renamed to.
func (p *Prog) renamed(pkgPath, recv, name string) *ssa.Function {
	if f, done := p.renMemo[fpKey(pkgPath, recv, name)]; done {
		return f
	}
	f := p.renamed1(pkgPath, recv, name)
	if p.renMemo == nil {
		p.renMemo = map[string]*ssa.Function{}
	}
	p.renMemo[fpKey(pkgPath, recv, name)] = f
	return f
}

func (p *Prog) renamed1(pkgPath, recv, name string) *ssa.Function {
	tab := p.loadAnchors()
	want, ok := tab[fpKey(pkgPath, recv, name)]
	if !ok {
		return nil
	}
	wantSet := map[string]bool{}
	for _, t := range want.Tokens {
		wantSet[t] = true
	}
	var best *ssa.Function
	bestScore, second := 0.0, 0.0
	for _, f := range p.ModFuncs {
		if f.Parent() != nil || f.Synthetic != "" {
			continue
		}
		pk := FuncPkg(f)
		if pk == nil || pk.Path() != pkgPath {
			continue
		}
		r := ""
		if rv := f.Signature.Recv(); rv != nil {
			if n := namedOf(rv.Type()); n != nil {
				r = n.Obj().Name()
			}
		}
		// (a method may have become a function of its former receiver, or the reverse: the order-free signature decides)
		if _, known := tab[fpKey(pkgPath, r, f.Name())]; known {
			continue // a function that already existed under this name is not the renamed one
		}
		fp := p.FingerprintOf(f)
		if fp.Sig != want.Sig {
			continue
		}
		inter, union := 0, len(wantSet)
		for _, t := range fp.Tokens {
			if wantSet[t] {
				inter++
			} else {
				union++
			}
		}
		score := 1.0
		if union > 0 {
			score = float64(inter) / float64(union)
		}
		if score > bestScore {
			second = bestScore
			best, bestScore = f, score
		} else if score > second {
			second = score
		}
	}
	if best != nil && bestScore >= 0.7 && bestScore-second >= 0.15 {
		if p.Renames == nil {
			p.Renames = map[string]string{}
		}
		p.Renames[fpKey(pkgPath, recv, name)] = FuncKey(best)
		return best
	}
	return nil
}

// CanonicalConstruct rewrites the short keys of functions that were renamed since anchors.json was generated back
// to their recorded names, so that a finding's identity (rule + construct) survives the rename of the function it
// sits in.
func (p *Prog) CanonicalConstruct(s string) string {
	if p.revRen == nil {
		p.revRen = map[string]string{}
		for old, f := range p.Moved() {
			if rec := p.loadAnchors()[old]; rec.Short != "" && rec.Short != ShortKey(f) {
				p.revRen[ShortKey(f)] = rec.Short
			}
		}
	}
	if len(p.revRen) == 0 {
		return s
	}
	// longest keys first
	var ks []string
	for k := range p.revRen {
		ks = append(ks, k)
	}
	sort.Slice(ks, func(i, j int) bool { return len(ks[i]) > len(ks[j]) })
	for _, k := range ks {
		s = strings.ReplaceAll(s, k, p.revRen[k])
	}
	return s
}

// Moved maps every recorded function whose name no longer resolves to the function it was renamed (or converted) to.
func (p *Prog) Moved() map[string]*ssa.Function {
	if p.moved != nil {
		return p.moved
	}
	p.moved = map[string]*ssa.Function{}
	tab := p.loadAnchors()
	if len(tab) == 0 {
		return p.moved
	}
	p.moving = true
	defer func() { p.moving = false }()
	cur := p.currentKeys()
	var missing []string
	for k := range tab {
		if !cur[k] {
			missing = append(missing, k)
		}
	}
	sort.Strings(missing)
	for _, k := range missing {
		parts := strings.SplitN(k, "|", 3)
		if len(parts) != 3 || p.SSAPkgs[parts[0]] == nil {
			continue
		}
		if f := p.renamed(parts[0], parts[1], parts[2]); f != nil {
			p.moved[k] = f
		}
	}
	return p.moved
}

func (p *Prog) currentKeys() map[string]bool {
	cur := map[string]bool{}
	for _, f := range p.ModFuncs {
		if f.Parent() != nil || f.Synthetic != "" {
			continue
		}
		if pk := FuncPkg(f); pk != nil {
			cur[fpKey(pk.Path(), recvName(f), f.Name())] = true
		}
	}
	return cur
}

// Fresh lists the module functions that did not exist in the reviewed tree: their name is not recorded and no
// recorded function was renamed to them. The normaliser analyses them inlined into their callers.
func (p *Prog) Fresh() []*ssa.Function {
	tab := p.loadAnchors()
	if len(tab) == 0 {
		return nil
	}
	target := map[*ssa.Function]bool{}
	for _, f := range p.Moved() {
		target[f] = true
	}
	var out []*ssa.Function
	for _, f := range p.ModFuncs {
		if f.Parent() != nil || f.Synthetic != "" || f.Syntax() == nil || target[f] {
			continue
		}
		pk := FuncPkg(f)
		if pk == nil || strings.HasSuffix(pk.Path(), "/proto") || f.Name() == "init" || f.Name() == "main" {
			continue
		}
		if _, known := tab[fpKey(pk.Path(), recvName(f), f.Name())]; known {
			continue
		}
		out = append(out, f)
	}
	return out
}

// CanonKey is the key rules know f by: its recorded key if f is what a recorded function was renamed (or converted) to.
func (p *Prog) CanonKey(f *ssa.Function) string {
	if f == nil {
		return "<nil>"
	}
	if p.canonFn == nil {
		if p.moving {
			return FuncKey(f) // (asked while the renames are being worked out)
		}
		p.canonFn = map[*ssa.Function]string{}
		for old, g := range p.Moved() {
			p.canonFn[g] = old
		}
	}
	if old, ok := p.canonFn[f]; ok {
		if rec := p.loadAnchors()[old]; rec.Key != "" {
			return rec.Key
		}
	}
	return FuncKey(f)
}

// CanonName is the recorded name of f (see CanonKey).
func (p *Prog) CanonName(f *ssa.Function) string {
	if f == nil {
		return ""
	}
	p.CanonKey(f)
	if old, ok := p.canonFn[f]; ok {
		return old[strings.LastIndex(old, "|")+1:]
	}
	return f.Name()
}

// CanonKeyOf / CanonNameOf work on the loaded program.
func CanonKeyOf(f *ssa.Function) string {
	if current == nil {
		return FuncKey(f)
	}
	return current.CanonKey(f)
}

func CanonNameOf(f *ssa.Function) string {
	if current == nil || f == nil {
		if f == nil {
			return ""
		}
		return f.Name()
	}
	return current.CanonName(f)
}

func recvName(f *ssa.Function) string {
	if r := f.Signature.Recv(); r != nil {
		if n := namedOf(r.Type()); n != nil {
			return n.Obj().Name()
		}
	}
	return ""
}

// current is the program loaded in this process (one per process); FName / GName consult its canonical names.
var current *Prog

// FName is FieldName on the loaded program (for call sites that have no *Prog at hand).
func FName(st *types.Struct, i int) string {
	if current == nil {
		return st.Field(i).Name()
	}
	return current.FieldName(st, i)
}

// GName is GlobalName on the loaded program.
func GName(g *ssa.Global) string {
	if current == nil {
		return g.Name()
	}
	return current.GlobalName(g)
}

// TName is the name rules know a named type by (the recorded name if the type was renamed).
func TName(n *types.Named) string {
	if current != nil {
		current.canonNames()
		if s, ok := current.canonType[n.Obj()]; ok {
			return s
		}
	}
	return n.Obj().Name()
}

// FreshStruct: a package-level struct type the reviewed tree did not declare (under this name).
func (p *Prog) FreshStruct(pkgPath, name string) bool {
	p.loadAnchors()
	if p.anchorTab == nil || len(p.anchorTab.Fields) == 0 {
		return false
	}
	_, known := p.anchorTab.Fields[pkgPath+"|"+name]
	return !known
}
