package an

import (
	"fmt"
	"go/constant"
	"go/token"
	"go/types"
	"strings"

	"golang.org/x/tools/go/ssa"
)

// Desc renders a value canonically from resolved objects (types, fields, callees,
// constants) — never from source text. Bases of field paths are dropped unless
// they are themselves interesting (call results), so `item.Flags.Spent` and
// `c.Flags.Spent` both render as `Credit.Flags.Spent`.
func (p *Prog) Desc(v ssa.Value) string { return p.desc(v, 0) }

func (p *Prog) desc(v ssa.Value, depth int) string {
	if depth > 8 {
		return "…"
	}
	switch x := v.(type) {
	case nil:
		return "<nil>"
	case *ssa.Const:
		if x.Value == nil {
			return "nil"
		}
		return x.Value.ExactString()
	case *ssa.Parameter:
		return "param:" + typeShort(x.Type())
	case *ssa.FreeVar:
		return "free:" + typeShort(x.Type())
	case *ssa.Global:
		return "global:" + shortPkg(x.Pkg.Pkg.Path()) + "." + GName(x)
	case *ssa.Function:
		return "func:" + ShortKey(x)
	case *ssa.UnOp:
		switch x.Op {
		case token.MUL:
			if path, ok := p.fieldPath(x.X); ok {
				return path
			}
			if g, ok := x.X.(*ssa.Global); ok {
				return "global:" + shortPkg(g.Pkg.Pkg.Path()) + "." + GName(g)
			}
			if a, ok := x.X.(*ssa.Alloc); ok {
				// local variable cell: describe by its single stored value if unique
				if sv := singleStore(a); sv != nil {
					return p.desc(sv, depth+1)
				}
				return "local:" + typeShort(a.Type())
			}
			if fv, ok := x.X.(*ssa.FreeVar); ok {
				// the enclosing function's variable seen from a literal: describe it as the enclosing function would
				if a := boundCell(fv); a != nil {
					if sv := singleStore(a); sv != nil {
						return p.desc(sv, depth+1)
					}
				}
			}
			return "*" + p.desc(x.X, depth+1)
		case token.NOT:
			switch d := p.desc(x.X, depth+1); d {
			case "true":
				return "false" // (a constant argument of an inlined helper)
			case "false":
				return "true"
			default:
				return "!" + d
			}
		case token.ARROW:
			return "<-" + p.desc(x.X, depth+1)
		}
		return x.Op.String() + p.desc(x.X, depth+1)
	case *ssa.Field:
		if path, ok := p.fieldPathVal(x); ok {
			return path
		}
	case *ssa.FieldAddr:
		if path, ok := p.fieldPath(x); ok {
			return "&" + path
		}
	case *ssa.BinOp:
		return "(" + p.desc(x.X, depth+1) + " " + x.Op.String() + " " + p.desc(x.Y, depth+1) + ")"
	case *ssa.Call:
		return p.descCall(&x.Call, depth)
	case *ssa.Extract:
		return fmt.Sprintf("%s#%d", p.desc(x.Tuple, depth+1), x.Index)
	case *ssa.Phi:
		var parts []string
		for _, e := range x.Edges {
			parts = append(parts, p.desc(e, depth+1))
		}
		return "phi(" + strings.Join(parts, "|") + ")"
	case *ssa.Convert:
		return p.desc(x.X, depth+1)
	case *ssa.ChangeType:
		return p.desc(x.X, depth+1)
	case *ssa.ChangeInterface:
		return p.desc(x.X, depth+1)
	case *ssa.MakeInterface:
		return p.desc(x.X, depth+1)
	case *ssa.Lookup:
		return p.desc(x.X, depth+1) + "[" + p.desc(x.Index, depth+1) + "]"
	case *ssa.Index:
		return p.desc(x.X, depth+1) + "[" + p.desc(x.Index, depth+1) + "]"
	case *ssa.IndexAddr:
		return "&" + p.desc(x.X, depth+1) + "[" + p.desc(x.Index, depth+1) + "]"
	case *ssa.Slice:
		return p.desc(x.X, depth+1) + "[:]"
	case *ssa.Alloc:
		return "alloc:" + typeShort(x.Type())
	case *ssa.MakeClosure:
		return "closure:" + ShortKey(x.Fn.(*ssa.Function))
	case *ssa.TypeAssert:
		return p.desc(x.X, depth+1) + ".(" + typeShort(x.AssertedType) + ")"
	}
	return fmt.Sprintf("%T", v)
}

func (p *Prog) descCall(c *ssa.CallCommon, depth int) string {
	var name string
	var args []string
	if c.IsInvoke() {
		name = typeShort(c.Value.Type()) + "." + c.Method.Name()
		args = append(args, p.desc(c.Value, depth+1))
	} else if f := c.StaticCallee(); f != nil {
		name = ShortKey(f)
	} else if b, ok := c.Value.(*ssa.Builtin); ok {
		name = b.Name()
	} else {
		name = "dyn:" + p.desc(c.Value, depth+1)
	}
	for _, a := range c.Args {
		args = append(args, p.desc(a, depth+1))
	}
	return name + "(" + strings.Join(args, ",") + ")"
}

func singleStore(a *ssa.Alloc) ssa.Value {
	var sv ssa.Value
	n := 0
	for _, r := range *a.Referrers() {
		switch x := r.(type) {
		case *ssa.Store:
			if x.Addr == a {
				sv = x.Val
				n++
			}
		case *ssa.MakeClosure:
			// the cell escapes into a closure: a store through the captured variable is a second store
			for i, b := range x.Bindings {
				if b == ssa.Value(a) {
					if fn, ok := x.Fn.(*ssa.Function); ok && i < len(fn.FreeVars) && freeVarStored(fn.FreeVars[i], 0) {
						return nil
					}
				}
			}
		}
	}
	if n == 1 {
		return sv
	}
	return nil
}

// freeVarStored: is the captured variable assigned inside the closure (or a closure nested in it)?
func freeVarStored(fv *ssa.FreeVar, depth int) bool {
	if depth > 3 {
		return true
	}
	for _, r := range *fv.Referrers() {
		switch x := r.(type) {
		case *ssa.Store:
			if x.Addr == ssa.Value(fv) {
				return true
			}
		case *ssa.MakeClosure:
			for i, b := range x.Bindings {
				if b == ssa.Value(fv) {
					if fn, ok := x.Fn.(*ssa.Function); ok && i < len(fn.FreeVars) && freeVarStored(fn.FreeVars[i], depth+1) {
						return true
					}
				}
			}
		}
	}
	return false
}

// fieldPath renders an address expression made of FieldAddr chains as Type.f1.f2.
func (p *Prog) fieldPath(addr ssa.Value) (string, bool) {
	var names []string
	cur := addr
	for {
		fa, ok := cur.(*ssa.FieldAddr)
		if !ok {
			break
		}
		st := derefStruct(fa.X.Type())
		if st == nil {
			return "", false
		}
		names = append([]string{FName(st, fa.Field)}, names...)
		cur = fa.X
	}
	if len(names) == 0 {
		return "", false
	}
	// cur is the base: pointer to a named struct, or a load of a pointer field …
	base := ""
	switch b := cur.(type) {
	case *ssa.UnOp:
		if b.Op == token.MUL {
			if inner, ok := p.fieldPath(b.X); ok {
				return inner + "." + strings.Join(names, "."), true
			}
		}
	case *ssa.Call:
		base = p.descCall(&b.Call, 2) + "."
		return base + strings.Join(names, "."), true
	}
	if n := namedOf(cur.Type()); n != nil {
		base = TName(n)
	} else {
		base = typeShort(cur.Type())
	}
	return base + "." + strings.Join(names, "."), true
}

func (p *Prog) fieldPathVal(f *ssa.Field) (string, bool) {
	var names []string
	var cur ssa.Value = f
	for {
		fv, ok := cur.(*ssa.Field)
		if !ok {
			break
		}
		st, _ := fv.X.Type().Underlying().(*types.Struct)
		if st == nil {
			return "", false
		}
		names = append([]string{FName(st, fv.Field)}, names...)
		cur = fv.X
	}
	if u, ok := cur.(*ssa.UnOp); ok && u.Op == token.MUL {
		if inner, ok := p.fieldPath(u.X); ok {
			return inner + "." + strings.Join(names, "."), true
		}
	}
	if n := namedOf(cur.Type()); n != nil {
		return TName(n) + "." + strings.Join(names, "."), true
	}
	return typeShort(cur.Type()) + "." + strings.Join(names, "."), true
}

func derefStruct(t types.Type) *types.Struct {
	if pt, ok := t.Underlying().(*types.Pointer); ok {
		t = pt.Elem()
	}
	st, _ := t.Underlying().(*types.Struct)
	return st
}

func typeShort(t types.Type) string {
	return types.TypeString(t, func(pk *types.Package) string { return shortPkg(pk.Path()) })
}

func shortPkg(path string) string {
	if i := strings.LastIndex(path, "/"); i >= 0 {
		return path[i+1:]
	}
	return path
}

// Atom is one normalised branch condition that holds at a program point.
type Atom struct {
	// Text is the canonical rendering with polarity folded in, e.g.
	// "Credit.Confirmations >= Credit.Maturity", "!Credit.Flags.Spent",
	// "masswallet.(*WalletManager).UTXOUsed(...)".
	Text string
	Cond ssa.Value
	Pol  bool
	If   *ssa.If
	// Or holds the alternatives when the guard is a disjunction (a || b).
	Or []Atom
	// Normalised comparison (polarity folded into Op): X Op Y. Op == token.ILLEGAL for a
	// plain boolean condition, in which case X is the condition with negations stripped
	// and Truth its required value.
	Op    token.Token
	X, Y  ssa.Value
	Truth bool
}

var negOp = map[token.Token]token.Token{
	token.EQL: token.NEQ, token.NEQ: token.EQL,
	token.LSS: token.GEQ, token.GEQ: token.LSS,
	token.GTR: token.LEQ, token.LEQ: token.GTR,
}
var swapOp = map[token.Token]token.Token{
	token.EQL: token.EQL, token.NEQ: token.NEQ,
	token.LSS: token.GTR, token.GTR: token.LSS,
	token.LEQ: token.GEQ, token.GEQ: token.LEQ,
}

// MkAtom normalises (cond, polarity).
func (p *Prog) MkAtom(cond ssa.Value, pol bool, ifi *ssa.If) Atom {
	c := cond
	for {
		if u, ok := c.(*ssa.UnOp); ok && u.Op == token.NOT {
			c = u.X
			pol = !pol
			continue
		}
		break
	}
	a := Atom{Cond: cond, Pol: pol, If: ifi}
	if b, ok := c.(*ssa.BinOp); ok {
		if _, isCmp := negOp[b.Op]; isCmp {
			op := b.Op
			if !pol {
				op = negOp[op]
			}
			x, y := p.Desc(b.X), p.Desc(b.Y)
			vx, vy := b.X, b.Y
			// canonical orientation: constants on the right; otherwise lexicographic for ==/!=
			_, xc := b.X.(*ssa.Const)
			_, yc := b.Y.(*ssa.Const)
			if (xc && !yc) || (!xc && !yc && (op == token.EQL || op == token.NEQ) && x > y) {
				x, y = y, x
				vx, vy = vy, vx
				op = swapOp[op]
			}
			a.Op, a.X, a.Y = op, ResolveCell(vx), ResolveCell(vy)
			// bool compared with constant: fold
			if yc2, ok := b.Y.(*ssa.Const); ok && yc2.Value != nil && yc2.Value.Kind() == constant.Bool && (op == token.EQL || op == token.NEQ) {
				truth := constant.BoolVal(yc2.Value)
				if op == token.NEQ {
					truth = !truth
				}
				if truth {
					a.Text = x
				} else {
					a.Text = "!" + x
				}
				a.Op, a.X, a.Y, a.Truth = token.ILLEGAL, ResolveCell(vx), nil, truth
				return a
			}
			a.Text = x + " " + op.String() + " " + y
			return a
		}
	}
	a.Op, a.X, a.Truth = token.ILLEGAL, ResolveCell(c), pol
	if pol {
		a.Text = p.Desc(c)
	} else {
		a.Text = "!" + p.Desc(c)
	}
	return a
}

// AnyAtom reports whether some guard satisfies pred; a disjunction satisfies it only when
// every alternative does.
func AnyAtom(gs []Atom, pred func(Atom) bool) bool {
	for _, g := range gs {
		if len(g.Or) > 0 {
			all := true
			for _, a := range g.Or {
				if !pred(a) {
					all = false
					break
				}
			}
			if all {
				return true
			}
			continue
		}
		if pred(g) {
			return true
		}
	}
	return false
}

// BoolCall matches a plain boolean atom that is a call to fn (static) or an invoke of a method
// named method (when fn is nil) with the given truth value.
func BoolCall(a Atom, fn *ssa.Function, method string, truth bool) bool {
	if a.Op != token.ILLEGAL || a.Truth != truth || a.X == nil {
		return false
	}
	call, ok := a.X.(*ssa.Call)
	if !ok {
		return false
	}
	if fn != nil {
		return call.Call.StaticCallee() == fn
	}
	if call.Call.IsInvoke() {
		return call.Call.Method.Name() == method
	}
	if f := call.Call.StaticCallee(); f != nil {
		return f.Name() == method
	}
	return false
}

// edgeAtom returns the atom holding on the CFG edge from → to (nil if from does not end in If).
func (p *Prog) edgeAtom(from, to *ssa.BasicBlock) *Atom {
	if len(from.Instrs) == 0 {
		return nil
	}
	ifi, ok := from.Instrs[len(from.Instrs)-1].(*ssa.If)
	if !ok {
		return nil
	}
	if from.Succs[0] == from.Succs[1] {
		return nil
	}
	a := p.MkAtom(ifi.Cond, from.Succs[0] == to, ifi)
	return &a
}

// Guards returns the atoms known to hold whenever control reaches block b:
// for every dominator chain element X (including b) —
//   - if X has a single predecessor P ending in If: the edge atom P→X;
//   - if X has several predecessors that form an ||-chain (each ends in If, each
//     edge into X; pred k+1 is the other successor of pred k and has it as sole
//     predecessor): the disjunction of the edge atoms.
func (p *Prog) Guards(b *ssa.BasicBlock) []Atom {
	var out []Atom
	p.gdepth++
	defer func() { p.gdepth-- }()
	for x := b; x != nil; x = x.Idom() {
		switch len(x.Preds) {
		case 0:
		case 1:
			if a := p.edgeAtom(x.Preds[0], x); a != nil {
				out = append(out, *a)
				if p.gdepth > 5 {
					continue // (a phi in a loop can lead back to this very branch)
				}
				ex := p.expandBoolPhi(*a, 0)
				out = append(out, ex...)
				// a predicate factored into a helper: import what holds when the helper answers as it did
				out = append(out, p.predicateAtoms(*a, 0)...)
				for _, e := range ex {
					out = append(out, p.predicateAtoms(e, 0)...)
				}
			}
		default:
			if or := p.orChain(x); or != nil {
				out = append(out, Atom{Or: or, Text: orText(or)})
			}
		}
	}
	return out
}

// GuardsOnEdge: what holds when control reaches block `to` through its predecessor `from`.
func (p *Prog) GuardsOnEdge(from, to *ssa.BasicBlock) []Atom {
	out := p.Guards(to)
	if from == nil {
		return out
	}
	if ea := p.edgeAtom(from, to); ea != nil {
		out = append(out, *ea)
		out = append(out, p.expandBoolPhi(*ea, 0)...)
	}
	return append(out, p.Guards(from)...)
}

// predicateAtoms: the guard is `g(args…)` (or its negation) for a module function g returning a single bool.
// When every return of g that yields the observed truth value is reached under a common set of atoms, those
// atoms hold in the caller as well. Operands that are g's parameters are replaced by the call's arguments; other
// operands keep their (type-based) description, which is what the rules match on.
func (p *Prog) predicateAtoms(a Atom, depth int) []Atom {
	if depth > 1 || a.Op != token.ILLEGAL || a.X == nil || len(a.Or) > 0 {
		return nil
	}
	call, ok := a.X.(*ssa.Call)
	if !ok {
		return nil
	}
	g := call.Call.StaticCallee()
	if g == nil || g.Blocks == nil || !p.InModule(g) || len(g.Blocks) > 40 {
		return nil
	}
	res := g.Signature.Results()
	if res.Len() != 1 || !isBoolT(res.At(0).Type()) {
		return nil
	}
	want := a.Truth
	var sets [][]Atom
	for _, b := range g.Blocks {
		r, ok := b.Instrs[len(b.Instrs)-1].(*ssa.Return)
		if !ok {
			continue
		}
		v := retOperand(r, 0)
		gs := p.Guards(b)
		if k, isK := v.(*ssa.Const); isK && k.Value != nil {
			if (k.Value.ExactString() == "true") != want {
				continue
			}
			sets = append(sets, gs)
			continue
		}
		// return <expr>: the value itself is the observed truth
		va := p.MkAtom(v, want, nil)
		cur := append([]Atom{va}, gs...)
		cur = append(cur, p.expandBoolPhi(va, 0)...)
		sets = append(sets, cur)
	}
	if len(sets) == 0 {
		return nil
	}
	// intersection by text
	var out []Atom
	for _, cand := range sets[0] {
		all := true
		for _, other := range sets[1:] {
			found := false
			for _, o := range other {
				if o.Text == cand.Text {
					found = true
				}
			}
			if !found {
				all = false
			}
		}
		if all {
			out = append(out, p.substParams(cand, g, call))
		}
	}
	return out
}

func isBoolT(t types.Type) bool {
	b, ok := t.Underlying().(*types.Basic)
	return ok && b.Kind() == types.Bool
}

// substParams replaces operands of a that are parameters of g by the corresponding arguments of call.
func (p *Prog) substParams(a Atom, g *ssa.Function, call *ssa.Call) Atom {
	sub := func(v ssa.Value) ssa.Value {
		if par, ok := v.(*ssa.Parameter); ok && par.Parent() == g {
			for i, q := range g.Params {
				if q == par && i < len(call.Call.Args) {
					return call.Call.Args[i]
				}
			}
		}
		return v
	}
	changed := false
	if a.X != nil {
		if n := sub(a.X); n != a.X {
			a.X, changed = n, true
		}
	}
	if a.Y != nil {
		if n := sub(a.Y); n != a.Y {
			a.Y, changed = n, true
		}
	}
	for i := range a.Or {
		a.Or[i] = p.substParams(a.Or[i], g, call)
		changed = true
	}
	if changed && len(a.Or) == 0 {
		switch {
		case a.Op != token.ILLEGAL && a.Y != nil:
			a.Text = p.Desc(a.X) + " " + a.Op.String() + " " + p.Desc(a.Y)
		case a.Truth:
			a.Text = p.Desc(a.X)
		default:
			a.Text = "!" + p.Desc(a.X)
		}
	} else if len(a.Or) > 0 {
		a.Text = orText(a.Or)
	}
	return a
}

func orText(or []Atom) string {
	var s []string
	for _, a := range or {
		s = append(s, a.Text)
	}
	return "(" + strings.Join(s, " || ") + ")"
}

func (p *Prog) orChain(x *ssa.BasicBlock) []Atom {
	var atoms []Atom
	inChain := map[*ssa.BasicBlock]bool{}
	for _, pr := range x.Preds {
		a := p.edgeAtom(pr, x)
		if a == nil {
			return nil
		}
		atoms = append(atoms, *a)
		inChain[pr] = true
	}
	// every pred except one head must have a single predecessor that is also in the chain
	heads := 0
	for _, pr := range x.Preds {
		if len(pr.Preds) == 1 && inChain[pr.Preds[0]] {
			// and it must contain nothing but the condition evaluation (no side-effect stores/calls other than pure)
			continue
		}
		heads++
	}
	if heads != 1 {
		return nil
	}
	return atoms
}

// GuardsOf returns the atoms guarding an instruction.
func (p *Prog) GuardsOf(in ssa.Instruction) []Atom { return p.Guards(in.Block()) }

// HasAtom reports whether some guard text satisfies match (disjunctions: all alternatives must satisfy).
func HasAtom(gs []Atom, match func(string) bool) bool {
	for _, g := range gs {
		if len(g.Or) > 0 {
			all := true
			for _, a := range g.Or {
				if !match(a.Text) {
					all = false
					break
				}
			}
			if all {
				return true
			}
			continue
		}
		if match(g.Text) {
			return true
		}
	}
	return false
}

// AtomTexts lists guard texts (for evidence).
func AtomTexts(gs []Atom) []string {
	var s []string
	for _, g := range gs {
		s = append(s, g.Text)
	}
	return s
}

// IsNilConst reports whether v is the nil constant.
func IsNilConst(v ssa.Value) bool {
	c, ok := v.(*ssa.Const)
	return ok && c.Value == nil && !isBasic(c.Type())
}

func isBasic(t types.Type) bool {
	_, ok := t.Underlying().(*types.Basic)
	return ok
}

// NilCmp decomposes cond as a comparison of some value with nil: returns (value, trueMeansNil).
func NilCmp(cond ssa.Value) (ssa.Value, bool, bool) {
	pol := true
	c := cond
	for {
		if u, ok := c.(*ssa.UnOp); ok && u.Op == token.NOT {
			c = u.X
			pol = !pol
			continue
		}
		break
	}
	b, ok := c.(*ssa.BinOp)
	if !ok || (b.Op != token.EQL && b.Op != token.NEQ) {
		return nil, false, false
	}
	var v ssa.Value
	if IsNilConst(b.Y) {
		v = b.X
	} else if IsNilConst(b.X) {
		v = b.Y
	} else {
		return nil, false, false
	}
	trueMeansNil := (b.Op == token.EQL) == pol
	return v, trueMeansNil, true
}

// ResolveCell looks through a load of a local cell (closure-captured variable) that has exactly
// one store: the loaded value is the stored value.
func ResolveCell(v ssa.Value) ssa.Value {
	for i := 0; i < 4; i++ {
		u, ok := v.(*ssa.UnOp)
		if !ok || u.Op != token.MUL {
			return v
		}
		a, ok := u.X.(*ssa.Alloc)
		if !ok {
			// the cell seen from inside a function literal: the free variable is bound to the parent's cell
			fv, isFV := u.X.(*ssa.FreeVar)
			if !isFV {
				return v
			}
			a = boundCell(fv)
			if a == nil {
				return v
			}
		}
		sv := singleStore(a)
		if sv == nil {
			return v
		}
		v = sv
	}
	return v
}

// boundCell: the local cell of the enclosing function that a literal's free variable is bound to (nil unless the
// literal is created at exactly one place and the binding is a plain cell).
func boundCell(fv *ssa.FreeVar) *ssa.Alloc {
	lit := fv.Parent()
	par := lit.Parent()
	if par == nil {
		return nil
	}
	idx := -1
	for i, q := range lit.FreeVars {
		if q == fv {
			idx = i
		}
	}
	var cell *ssa.Alloc
	n := 0
	for _, b := range par.Blocks {
		for _, in := range b.Instrs {
			mc, ok := in.(*ssa.MakeClosure)
			if !ok || mc.Fn != ssa.Value(lit) || idx < 0 || idx >= len(mc.Bindings) {
				continue
			}
			n++
			cell, _ = mc.Bindings[idx].(*ssa.Alloc)
		}
	}
	if n != 1 {
		return nil
	}
	return cell
}

// expandBoolPhi: a branch on a value that is a phi — a materialised short-circuit, a flag or an error assigned on
// several paths (the shape statement-level inlining gives a helper's result). The branch outcome tells which
// predecessors the phi can have been reached from; what holds on every such predecessor holds after the branch.
//
//	c := a && b   lowers to  phi(false | b)  — c true  ⇒ b true and the guards of b's block (a true);
//	c := a || b   lowers to  phi(true  | b)  — c false ⇒ b false and the guards of b's block (a false);
//	e := phi(err1 | nil) with err1 known non-nil — e == nil ⇒ the guards of the predecessor that assigned nil.
func (p *Prog) expandBoolPhi(a Atom, depth int) []Atom {
	if depth > 3 || a.X == nil || len(a.Or) > 0 {
		return nil
	}
	ph, ok := a.X.(*ssa.Phi)
	if !ok {
		return nil
	}
	type cand struct {
		atoms []Atom
		pref  string // the atom that tells this predecessor apart in De Morgan's reading: the incoming value's own atom, else the edge's
	}
	var cands []cand
	blk := ph.Block()
	switch {
	case a.Op == token.ILLEGAL:
		for i, e := range ph.Edges {
			pred := blk.Preds[i]
			var as []Atom
			if k, isK := e.(*ssa.Const); isK && k.Value != nil && (k.Value.ExactString() == "true" || k.Value.ExactString() == "false") {
				if (k.Value.ExactString() == "true") != a.Truth {
					continue // this predecessor contradicts the observed value
				}
			} else {
				na := p.MkAtom(e, a.Truth, a.If)
				as = append(as, na)
				as = append(as, p.expandBoolPhi(na, depth+1)...)
			}
			pref := ""
			if len(as) > 0 {
				pref = as[0].Text
			}
			if ea := p.edgeAtom(pred, blk); ea != nil {
				as = append(as, *ea)
				if pref == "" {
					pref = ea.Text
				}
			}
			as = append(as, p.Guards(pred)...)
			cands = append(cands, cand{as, pref})
		}
	case (a.Op == token.EQL || a.Op == token.NEQ) && a.Y != nil && IsNilConst(a.Y):
		for i, e := range ph.Edges {
			pred := blk.Preds[i]
			st := p.ValState(e, pred, nil)
			if IsNilConst(e) {
				st = IsNil
			}
			if (a.Op == token.EQL && st == NonNil) || (a.Op == token.NEQ && st == IsNil) {
				continue
			}
			var as []Atom
			if st == Unknown {
				if _, isPhi := e.(*ssa.Phi); isPhi {
					na := Atom{Op: a.Op, X: e, Y: a.Y, If: a.If, Text: p.Desc(e) + " " + a.Op.String() + " nil"}
					as = append(as, p.expandBoolPhi(na, depth+1)...)
				} else {
					as = append(as, Atom{Op: a.Op, X: ResolveCell(e), Y: a.Y, If: a.If, Text: p.Desc(e) + " " + a.Op.String() + " nil"})
				}
			}
			if ea := p.edgeAtom(pred, blk); ea != nil {
				as = append(as, *ea)
			}
			as = append(as, p.Guards(pred)...)
			cands = append(cands, cand{atoms: as})
		}
	default:
		return nil
	}
	if len(cands) == 0 {
		return nil
	}
	if len(cands) == 1 {
		return cands[0].atoms
	}
	// what every candidate predecessor guarantees
	count := map[string]int{}
	for _, c := range cands {
		seen := map[string]bool{}
		for _, x := range c.atoms {
			if !seen[x.Text] {
				seen[x.Text] = true
				count[x.Text]++
			}
		}
	}
	var out []Atom
	done := map[string]bool{}
	for _, x := range cands[0].atoms {
		if count[x.Text] == len(cands) && !done[x.Text] {
			done[x.Text] = true
			out = append(out, x)
		}
	}
	// one distinguishing atom per predecessor: their disjunction holds
	var or []Atom
	for _, c := range cands {
		var rest []Atom
		seen := map[string]bool{}
		for _, x := range c.atoms {
			if count[x.Text] != len(cands) && !seen[x.Text] && len(x.Or) == 0 {
				seen[x.Text] = true
				rest = append(rest, x)
			}
		}
		if len(rest) != 1 {
			// several atoms tell this predecessor apart: !(a && b) reads !a || !b — take the incoming value's own atom
			var pick *Atom
			for i := range rest {
				if c.pref != "" && rest[i].Text == c.pref {
					pick = &rest[i]
				}
			}
			if pick == nil {
				or = nil
				break
			}
			or = append(or, *pick)
			continue
		}
		or = append(or, rest[0])
	}
	if len(or) == len(cands) {
		out = append(out, Atom{Or: or, Text: orText(or)})
	}
	return out
}
