package an

import (
	"bufio"
	"fmt"
	"os"
	"os/exec"
	"path/filepath"
	"strings"
)

// OverlayFromPatch applies a unified diff to scratch copies of the files it touches (under a
// temporary directory, never in repoDir) and returns a go/packages overlay mapping the files'
// real paths to the patched contents. It fails when the patch does not apply.
func OverlayFromPatch(repoDir, patchFile string) (map[string][]byte, error) {
	f, err := os.Open(patchFile)
	if err != nil {
		return nil, err
	}
	defer f.Close()
	var files []string
	sc := bufio.NewScanner(f)
	sc.Buffer(make([]byte, 1<<20), 1<<24)
	for sc.Scan() {
		l := sc.Text()
		if strings.HasPrefix(l, "+++ b/") {
			files = append(files, strings.TrimSpace(l[len("+++ b/"):]))
		}
	}
	if len(files) == 0 {
		return nil, fmt.Errorf("no files in patch %s", patchFile)
	}
	tmp, err := os.MkdirTemp("", "mwoverlay")
	if err != nil {
		return nil, err
	}
	defer os.RemoveAll(tmp)
	for _, rel := range files {
		dst := filepath.Join(tmp, rel)
		os.MkdirAll(filepath.Dir(dst), 0o755)
		if b, err := os.ReadFile(filepath.Join(repoDir, rel)); err == nil {
			os.WriteFile(dst, b, 0o644)
		}
	}
	abs, _ := filepath.Abs(patchFile)
	cmd := exec.Command("git", "apply", "--whitespace=nowarn", abs)
	cmd.Dir = tmp
	if out, err := cmd.CombinedOutput(); err != nil {
		return nil, fmt.Errorf("patch does not apply: %s", strings.TrimSpace(string(out)))
	}
	ov := map[string][]byte{}
	for _, rel := range files {
		b, err := os.ReadFile(filepath.Join(tmp, rel))
		if err != nil {
			return nil, err
		}
		ov[filepath.Join(repoDir, rel)] = b
	}
	return ov, nil
}
