// Package an is the analysis core: loading /repo into type-checked syntax and SSA,
// resolving constructs by package path + receiver + name (never by text), call
// resolution, reachability, dominance/guards and must-pass queries.
package an

import (
	"fmt"
	"go/ast"
	"go/token"
	"go/types"
	"os"
	"sort"
	"strings"
	"time"

	"golang.org/x/tools/go/callgraph"
	"golang.org/x/tools/go/callgraph/cha"
	"golang.org/x/tools/go/callgraph/vta"
	"golang.org/x/tools/go/packages"
	"golang.org/x/tools/go/ssa"
	"golang.org/x/tools/go/ssa/ssautil"
)

// Module is the import-path prefix of the analysed repository.
const Module = "massnet.org/mass-wallet"

// Core is the import path prefix of the consensus library the wallet leans on.
const Core = "github.com/massnetorg/mass-core"

// Prog is the loaded program.
type Prog struct {
	Dir      string
	Fset     *token.FileSet
	Pkgs     []*packages.Package          // root (module) packages
	All      map[string]*packages.Package // every package by path
	SSA      *ssa.Program
	SSAPkgs  map[string]*ssa.Package
	ModFuncs []*ssa.Function // every function (incl. anonymous) with source in module packages
	AllFuncs map[*ssa.Function]bool

	cg  *callgraph.Graph // lazily built VTA graph
	rev map[*ssa.Function][]struct {
		From *ssa.Function
		E    Edge
	}
	sentinels map[*ssa.Global]int
	fstores   map[fieldKey][]*ssa.Store
	refEdges  map[*ssa.Function][]*ssa.Function
	LoadS     float64
	SSAS      float64
	CGS       float64
	Overlay   map[string][]byte
	anchors   map[string]Fingerprint
	revRen    map[string]string
	moved     map[string]*ssa.Function
	gdepth    int
	moving    bool
	canonFn   map[*ssa.Function]string
	renMemo   map[string]*ssa.Function
	// Norm describes what the normaliser did to the tree before this load (inlined fresh helpers), for the evidence.
	Norm        []string
	anchorTab   *AnchorTable
	canonDone   bool
	canonField  map[*types.Var]string
	canonGlobal map[string]string
	canonType   map[*types.TypeName]string
	typeNow     map[string]*types.TypeName
	// Renames records anchors that were resolved through their fingerprint (old key → new function).
	Renames map[string]string
}

// Load loads dir (default /repo) with the default build configuration.
func Load(dir string, overlay map[string][]byte) (*Prog, error) {
	t0 := time.Now()
	env := append(os.Environ(), "GOFLAGS=-mod=mod", "GOPROXY=off", "GOSUMDB=off", "GOTOOLCHAIN=local", "GOWORK=off")
	cfg := &packages.Config{
		Mode:    packages.LoadAllSyntax,
		Dir:     dir,
		Env:     env,
		Tests:   false,
		Overlay: overlay,
	}
	pkgs, err := packages.Load(cfg, "./...")
	if err != nil {
		return nil, fmt.Errorf("packages.Load: %v", err)
	}
	if len(pkgs) == 0 {
		return nil, fmt.Errorf("no packages loaded from %s", dir)
	}
	var errs []string
	packages.Visit(pkgs, nil, func(p *packages.Package) {
		for _, e := range p.Errors {
			errs = append(errs, e.Error())
		}
	})
	if len(errs) > 0 {
		sort.Strings(errs)
		if len(errs) > 10 {
			errs = errs[:10]
		}
		return nil, fmt.Errorf("tree does not load/type-check: %s", strings.Join(errs, "; "))
	}
	p := &Prog{Dir: dir, Fset: pkgs[0].Fset, All: map[string]*packages.Package{}, SSAPkgs: map[string]*ssa.Package{}, Overlay: overlay}
	for _, pk := range pkgs {
		if strings.HasPrefix(pk.PkgPath, Module) {
			p.Pkgs = append(p.Pkgs, pk)
		}
	}
	if len(p.Pkgs) == 0 {
		return nil, fmt.Errorf("zero module packages among %d loaded", len(pkgs))
	}
	packages.Visit(pkgs, nil, func(pk *packages.Package) { p.All[pk.PkgPath] = pk })
	p.LoadS = time.Since(t0).Seconds()

	t1 := time.Now()
	prog, spkgs := ssautil.AllPackages(pkgs, ssa.InstantiateGenerics)
	prog.Build()
	p.SSA = prog
	_ = spkgs
	for _, sp := range prog.AllPackages() {
		p.SSAPkgs[sp.Pkg.Path()] = sp
	}
	p.AllFuncs = ssautil.AllFunctions(prog)
	for f := range p.AllFuncs {
		if p.InModule(f) {
			p.ModFuncs = append(p.ModFuncs, f)
		}
	}
	sort.Slice(p.ModFuncs, func(i, j int) bool { return FuncKey(p.ModFuncs[i]) < FuncKey(p.ModFuncs[j]) })
	p.SSAS = time.Since(t1).Seconds()
	current = p
	return p, nil
}

// InModule reports whether f's source lives in a module package.
func (p *Prog) InModule(f *ssa.Function) bool {
	pk := FuncPkg(f)
	return pk != nil && strings.HasPrefix(pk.Path(), Module)
}

// FuncPkg returns the types.Package a function (or its outermost parent) belongs to.
func FuncPkg(f *ssa.Function) *types.Package {
	for f.Parent() != nil {
		f = f.Parent()
	}
	if f.Pkg != nil {
		return f.Pkg.Pkg
	}
	if o := f.Object(); o != nil {
		return o.Pkg()
	}
	// wrappers / bound methods: use the receiver's package
	if f.Signature != nil && f.Signature.Recv() != nil {
		if n := namedOf(f.Signature.Recv().Type()); n != nil {
			return n.Obj().Pkg()
		}
	}
	return nil
}

func namedOf(t types.Type) *types.Named {
	for {
		switch x := t.(type) {
		case *types.Pointer:
			t = x.Elem()
		case *types.Named:
			return x
		case *types.Alias:
			t = types.Unalias(x)
		default:
			return nil
		}
	}
}

// NamedOf exposes namedOf.
func NamedOf(t types.Type) *types.Named { return namedOf(t) }

// FuncKey is the stable, line-free key of a function: pkgpath.(Recv).Name or pkg.Name$k.
func FuncKey(f *ssa.Function) string {
	if f == nil {
		return "<nil>"
	}
	s := f.String()
	return s
}

// ShortKey drops the module prefix for reports. A function that was renamed since the reviewed tree is written under
// its recorded name, so that descriptions, constructs and name tests do not depend on the rename.
func ShortKey(f *ssa.Function) string {
	if f != nil && f.Parent() != nil {
		// a function literal: parent's key + $k
		top := Outermost(f)
		ck := CanonKeyOf(top)
		fk := FuncKey(f)
		if tk := FuncKey(top); strings.HasPrefix(fk, tk) {
			return shortOf(ck + fk[len(tk):])
		}
		return shortOf(fk)
	}
	return shortOf(CanonKeyOf(f))
}

func shortOf(s string) string {
	s = strings.ReplaceAll(s, Module+"/", "")
	s = strings.ReplaceAll(s, Core+"/", "core/")
	return s
}

// Fn resolves a function or method. recv == "" for package-level functions.
// Returns nil when it does not resolve (callers report anchor-lost).
func (p *Prog) Fn(pkgPath, recv, name string) *ssa.Function {
	if f := p.fnExact(pkgPath, recv, name); f != nil {
		return f
	}
	if strings.HasPrefix(pkgPath, Module) {
		if f := p.renamed(pkgPath, recv, name); f != nil {
			return f
		}
		return p.mergedInto(pkgPath, recv, name)
	}
	return nil
}

func (p *Prog) fnExact(pkgPath, recv, name string) *ssa.Function {
	sp := p.SSAPkgs[pkgPath]
	if sp == nil {
		return nil
	}
	if recv == "" {
		return sp.Func(name)
	}
	tn, _ := sp.Pkg.Scope().Lookup(recv).(*types.TypeName)
	if tn == nil {
		p.canonNames()
		tn = p.typeNow[pkgPath+"|"+recv]
	}
	if tn == nil {
		return nil
	}
	for _, t := range []types.Type{types.NewPointer(tn.Type()), tn.Type()} {
		ms := p.SSA.MethodSets.MethodSet(t)
		for i := 0; i < ms.Len(); i++ {
			sel := ms.At(i)
			if sel.Obj().Name() == name && sel.Obj().Pkg() == sp.Pkg {
				if fn, ok := sel.Obj().(*types.Func); ok {
					// want the declared method, not a promoted one
					if f := p.SSA.FuncValue(fn); f != nil {
						return f
					}
				}
			}
		}
	}
	return nil
}

// Type resolves a named type.
func (p *Prog) Type(pkgPath, name string) *types.Named {
	pk := p.All[pkgPath]
	if pk == nil || pk.Types == nil {
		return nil
	}
	tn, _ := pk.Types.Scope().Lookup(name).(*types.TypeName)
	if tn == nil {
		p.canonNames()
		tn = p.typeNow[pkgPath+"|"+name] // renamed since anchors.json was generated
	}
	if tn == nil {
		return nil
	}
	n, _ := tn.Type().(*types.Named)
	return n
}

// Obj resolves a package-level object.
func (p *Prog) Obj(pkgPath, name string) types.Object {
	pk := p.All[pkgPath]
	if pk == nil || pk.Types == nil {
		return nil
	}
	return pk.Types.Scope().Lookup(name)
}

// IfaceMethod resolves the abstract method of an interface type.
func (p *Prog) IfaceMethod(pkgPath, iface, name string) *types.Func {
	n := p.Type(pkgPath, iface)
	if n == nil {
		return nil
	}
	it, _ := n.Underlying().(*types.Interface)
	if it == nil {
		return nil
	}
	for i := 0; i < it.NumMethods(); i++ {
		if it.Method(i).Name() == name {
			return it.Method(i)
		}
	}
	return nil
}

// Pos renders a position relative to the repo root.
func (p *Prog) Pos(pos token.Pos) string {
	if !pos.IsValid() {
		return "-"
	}
	ps := p.Fset.Position(pos)
	fn := ps.Filename
	if strings.HasPrefix(fn, p.Dir+"/") {
		fn = fn[len(p.Dir)+1:]
	} else if i := strings.Index(fn, "/pkg/mod/"); i >= 0 {
		fn = fn[i+9:]
	}
	return fmt.Sprintf("%s:%d", fn, ps.Line)
}

// InstrPos gives the best position for an instruction (falls back to enclosing function).
func (p *Prog) InstrPos(in ssa.Instruction) string {
	if in == nil {
		return "-"
	}
	if in.Pos().IsValid() {
		return p.Pos(in.Pos())
	}
	// walk backwards in the block for a positioned neighbour
	b := in.Block()
	if b != nil {
		for _, x := range b.Instrs {
			if x.Pos().IsValid() {
				return p.Pos(x.Pos()) + "~"
			}
		}
		return p.Pos(b.Parent().Pos()) + "~"
	}
	return "-"
}

// CallGraph builds (once) the whole-program VTA call graph seeded by CHA.
func (p *Prog) CallGraph() *callgraph.Graph {
	if p.cg != nil {
		return p.cg
	}
	t := time.Now()
	p.cg = vta.CallGraph(p.AllFuncs, cha.CallGraph(p.SSA))
	p.CGS = time.Since(t).Seconds()
	return p.cg
}

// FileOf returns the syntax file containing pos among module packages.
func (p *Prog) FileOf(pos token.Pos) (*packages.Package, *ast.File) {
	for _, pk := range p.Pkgs {
		for _, f := range pk.Syntax {
			if f.Pos() <= pos && pos <= f.End() {
				return pk, f
			}
		}
	}
	return nil, nil
}

// Anon returns the k-th (1-based) anonymous function of f, or nil.
func Anon(f *ssa.Function, k int) *ssa.Function {
	if f == nil || k < 1 || k > len(f.AnonFuncs) {
		return nil
	}
	return f.AnonFuncs[k-1]
}

// Outermost returns the top-level function enclosing f.
func Outermost(f *ssa.Function) *ssa.Function {
	for f.Parent() != nil {
		f = f.Parent()
	}
	return f
}
