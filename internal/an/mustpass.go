package an

import (
	"go/constant"
	"go/token"
	"go/types"
	"sort"
	"strings"

	"golang.org/x/tools/go/ssa"
)

// NilState of a pointer/interface value at a program point.
type NilState int

const (
	Unknown NilState = iota
	IsNil
	NonNil
)

func (s NilState) String() string { return [...]string{"unknown", "nil", "non-nil"}[s] }

var errorType = types.Universe.Lookup("error").Type()

// IsErrorType reports whether t is the predeclared error interface.
func IsErrorType(t types.Type) bool { return types.Identical(t, errorType) }

// nonNilCtor: constructors that never return a nil error.
func nonNilErrCtor(f *ssa.Function) bool {
	if f == nil {
		return false
	}
	switch FuncKey(f) {
	case "errors.New", "fmt.Errorf", "google.golang.org/grpc/status.Error", "google.golang.org/grpc/status.Errorf":
		return true
	}
	return false
}

// Sentinel reports whether g is a package-level error variable whose only store is
// its initialiser with a non-nil constructor (derived from the program, not listed).
func (p *Prog) Sentinel(g *ssa.Global) bool {
	if p.sentinels == nil {
		p.sentinels = map[*ssa.Global]int{}
	}
	if v, ok := p.sentinels[g]; ok {
		return v == 1
	}
	res := 2
	defer func() { p.sentinels[g] = res }()
	pt, ok := g.Type().(*types.Pointer)
	if !ok || !IsErrorType(pt.Elem()) {
		return false
	}
	stores := 0
	good := true
	// scan all functions of the defining package for stores to g
	for f := range p.AllFuncs {
		if f.Blocks == nil || FuncPkg(f) != g.Pkg.Pkg {
			continue
		}
		for _, b := range f.Blocks {
			for _, in := range b.Instrs {
				st, ok := in.(*ssa.Store)
				if !ok || st.Addr != g {
					continue
				}
				stores++
				if f.Name() != "init" || p.valState(st.Val, nil, nil, 0) != NonNil {
					good = false
				}
			}
		}
	}
	// taking the address of g anywhere else would defeat this; globals' addresses are rarely taken.
	if stores >= 1 && good {
		res = 1
		return true
	}
	return false
}

// SurvivingEdges: for a merged result x (`r, e := phi(nil | v), phi(err | nil)` of a spliced-in helper) used where the
// sibling error phi e is known nil (behind `if e != nil { return }`), the indexes of the edges on which e can be nil —
// the only ways x's value can have come. ok is false when no such sibling fact exists.
func (p *Prog) SurvivingEdges(x *ssa.Phi, at, pred *ssa.BasicBlock) (edges []int, ok bool) {
	if at == nil {
		return nil, false
	}
	for _, in := range x.Block().Instrs {
		e, isPhi := in.(*ssa.Phi)
		if !isPhi {
			break
		}
		if e == x || !IsErrorType(e.Type()) || len(e.Edges) != len(x.Edges) {
			continue
		}
		if p.domFact(e, at, pred) != IsNil {
			continue
		}
		for i := range x.Edges {
			if i >= len(x.Block().Preds) {
				break
			}
			if p.edgeState(e.Edges[i], x.Block().Preds[i], x.Block(), 1) == NonNil {
				continue
			}
			edges = append(edges, i)
		}
		return edges, true
	}
	return nil, false
}

// ValState evaluates the nil-ness of v on arrival in block at coming from pred (pred may be nil).
func (p *Prog) ValState(v ssa.Value, at, pred *ssa.BasicBlock) NilState {
	return p.valState(v, at, pred, 0)
}

func (p *Prog) valState(v ssa.Value, at, pred *ssa.BasicBlock, depth int) NilState {
	if depth > 6 {
		return Unknown
	}
	switch x := v.(type) {
	case *ssa.Const:
		if x.Value == nil {
			return IsNil
		}
		return NonNil
	case *ssa.MakeInterface:
		// a concrete value boxed into an interface is non-nil unless the concrete is a nil pointer
		if _, isPtr := x.X.Type().Underlying().(*types.Pointer); isPtr {
			return p.valState(x.X, at, pred, depth+1)
		}
		return NonNil
	case *ssa.Alloc, *ssa.MakeMap, *ssa.MakeSlice, *ssa.MakeChan, *ssa.MakeClosure, *ssa.FieldAddr, *ssa.IndexAddr, *ssa.Function, *ssa.Global:
		return NonNil
	case *ssa.ChangeInterface:
		return p.valState(x.X, at, pred, depth+1)
	case *ssa.ChangeType:
		return p.valState(x.X, at, pred, depth+1)
	case *ssa.Call:
		if nonNilErrCtor(x.Call.StaticCallee()) {
			return NonNil
		}
		// status.New(code != OK, …).Err() is never nil
		if f := x.Call.StaticCallee(); f != nil && FuncKey(f) == "(*google.golang.org/grpc/internal/status.Status).Err" || f != nil && FuncKey(f) == "(*google.golang.org/grpc/status.Status).Err" {
			if len(x.Call.Args) > 0 {
				if nc, ok := x.Call.Args[0].(*ssa.Call); ok {
					if nf := nc.Call.StaticCallee(); nf != nil && (FuncKey(nf) == "google.golang.org/grpc/status.New" || FuncKey(nf) == "google.golang.org/grpc/status.Newf") {
						if k, ok := nc.Call.Args[0].(*ssa.Const); ok && k.Value != nil && k.Value.ExactString() != "0" {
							return NonNil
						}
					}
				}
			}
		}
	case *ssa.UnOp:
		if x.Op == token.MUL {
			if g, ok := x.X.(*ssa.Global); ok && p.Sentinel(g) {
				return NonNil
			}
		}
	case *ssa.Phi:
		if at != nil && x.Block() == at && pred != nil {
			for i, pb := range at.Preds {
				if pb == pred {
					// evaluate the incoming value on the edge pred→at
					return p.edgeState(x.Edges[i], pred, at, depth+1)
				}
			}
		}
		// all edges agree?
		st := Unknown
		for i, e := range x.Edges {
			var s NilState
			if i < len(x.Block().Preds) {
				s = p.edgeState(e, x.Block().Preds[i], x.Block(), depth+1)
			} else {
				s = p.valState(e, nil, nil, depth+1)
			}
			if i == 0 {
				st = s
			} else if s != st {
				st = Unknown
				break
			}
		}
		if st != Unknown {
			return st
		}
		// merged results of an inlined helper: `r, e := phi(nil | v), phi(err | nil)`; where e is known nil (the use
		// lies behind `if e != nil { return }`) only the edges on which e can be nil brought r here
		if at != nil && depth < 3 {
			for _, in := range x.Block().Instrs {
				e, ok := in.(*ssa.Phi)
				if !ok {
					break
				}
				if e == x || !IsErrorType(e.Type()) || len(e.Edges) != len(x.Edges) {
					continue
				}
				if p.domFact(e, at, pred) != IsNil {
					continue
				}
				st, n := Unknown, 0
				for i := range x.Edges {
					if i >= len(x.Block().Preds) {
						break
					}
					pb := x.Block().Preds[i]
					if p.edgeState(e.Edges[i], pb, x.Block(), depth+1) == NonNil {
						continue // this edge carried an error: not the way we came
					}
					s := p.edgeState(x.Edges[i], pb, x.Block(), depth+1)
					if n == 0 {
						st = s
					} else if s != st {
						st = Unknown
					}
					n++
				}
				if n > 0 && st != Unknown {
					return st
				}
			}
		}
	}
	// facts from dominating branches
	if at != nil {
		if s := p.domFact(v, at, pred); s != Unknown {
			return s
		}
	}
	return Unknown
}

// edgeState: state of v on the edge from→to.
func (p *Prog) edgeState(v ssa.Value, from, to *ssa.BasicBlock, depth int) NilState {
	// the edge's own condition
	if len(from.Instrs) > 0 {
		if ifi, ok := from.Instrs[len(from.Instrs)-1].(*ssa.If); ok && from.Succs[0] != from.Succs[1] {
			if cv, trueMeansNil, ok := NilCmp(ifi.Cond); ok && sameValue(cv, v) {
				onTrue := from.Succs[0] == to
				if onTrue == trueMeansNil {
					return IsNil
				}
				return NonNil
			}
		}
	}
	return p.valState(v, from, nil, depth)
}

// domFact looks for a dominating branch on v's nil-ness.
func (p *Prog) domFact(v ssa.Value, at, pred *ssa.BasicBlock) NilState {
	check := func(from, to *ssa.BasicBlock) NilState {
		if len(from.Instrs) == 0 {
			return Unknown
		}
		ifi, ok := from.Instrs[len(from.Instrs)-1].(*ssa.If)
		if !ok || from.Succs[0] == from.Succs[1] {
			return Unknown
		}
		cv, trueMeansNil, ok := NilCmp(ifi.Cond)
		if !ok || !(sameValue(cv, v) || cellReload(cv, v, from, to)) {
			return Unknown
		}
		if (from.Succs[0] == to) == trueMeansNil {
			return IsNil
		}
		return NonNil
	}
	if pred != nil {
		if s := check(pred, at); s != Unknown {
			return s
		}
	}
	for x := at; x != nil; x = x.Idom() {
		if len(x.Preds) == 1 {
			if s := check(x.Preds[0], x); s != Unknown {
				return s
			}
		}
	}
	return Unknown
}

// sameValue: identity, modulo reloads of the same local cell with no intervening store is NOT
// attempted (go/ssa lifts locals to registers; named results with defer are handled in retOperand).
func sameValue(a, b ssa.Value) bool { return a == b }

// cellReload: a and b are loads of the same local cell (a captured or defer-spilled variable that
// go/ssa could not lift), a is the last thing block from does with the cell and b the first thing
// block to (entered only from from) does with it, with no store to the cell and no call in between.
func cellReload(a, b ssa.Value, from, to *ssa.BasicBlock) bool {
	la, ok1 := a.(*ssa.UnOp)
	lb, ok2 := b.(*ssa.UnOp)
	if !ok1 || !ok2 || la.Op != token.MUL || lb.Op != token.MUL || la.X != lb.X {
		return false
	}
	cell, ok := la.X.(*ssa.Alloc)
	if !ok || la.Block() != from || lb.Block() != to || len(to.Preds) != 1 {
		return false
	}
	clean := func(in ssa.Instruction) bool {
		if st, ok := in.(*ssa.Store); ok && st.Addr == ssa.Value(cell) {
			return false
		}
		switch in.(type) {
		case *ssa.Call, *ssa.Go, *ssa.Defer, *ssa.RunDefers, *ssa.Select, *ssa.Send:
			return false
		}
		return true
	}
	seen := false
	for _, in := range from.Instrs {
		if in == ssa.Instruction(la) {
			seen = true
			continue
		}
		if seen && !clean(in) {
			return false
		}
	}
	for _, in := range to.Instrs {
		if in == ssa.Instruction(lb) {
			return true
		}
		if !clean(in) {
			return false
		}
	}
	return false
}

// RetKind classifies a return edge.
type RetKind int

const (
	RetError RetKind = iota
	RetSuccess
	RetMaybe
)

// errIndex returns the index of the last error-typed result of f, or -1.
func errIndex(f *ssa.Function) int {
	res := f.Signature.Results()
	for i := res.Len() - 1; i >= 0; i-- {
		if IsErrorType(res.At(i).Type()) {
			return i
		}
	}
	return -1
}

// retOperand resolves the error operand of a Return, looking through the
// named-result-cell spill that go/ssa emits for functions with defer.
func retOperand(r *ssa.Return, idx int) ssa.Value {
	v := r.Results[idx]
	if u, ok := v.(*ssa.UnOp); ok && u.Op == token.MUL {
		if a, ok := u.X.(*ssa.Alloc); ok {
			// last store to a in the same block before the load
			b := r.Block()
			var last ssa.Value
			for _, in := range b.Instrs {
				if in == ssa.Instruction(u) {
					break
				}
				if st, ok := in.(*ssa.Store); ok && st.Addr == a {
					last = st.Val
				}
			}
			if last != nil {
				return last
			}
		}
	}
	return v
}

// ClassifyReturn classifies Return r reached from pred.
func (p *Prog) ClassifyReturn(r *ssa.Return, pred *ssa.BasicBlock) RetKind {
	idx := errIndex(r.Parent())
	if idx < 0 {
		return RetSuccess
	}
	v := retOperand(r, idx)
	switch p.ValState(v, r.Block(), pred) {
	case IsNil:
		return RetSuccess
	case NonNil:
		return RetError
	}
	return RetMaybe
}

// Search is a path search over (block, predecessor) states with nil-feasibility pruning.
type Search struct {
	P  *Prog
	Fn *ssa.Function
	// Cut: passing an instruction for which Cut is true satisfies the obligation (path ends, OK).
	Cut func(ssa.Instruction) bool
	// Goal: evaluated on arrival in a block (before its instructions). True = violation.
	GoalBlock func(b, pred *ssa.BasicBlock) bool
	// GoalReturn: evaluated at a Return. True = violation.
	GoalReturn func(r *ssa.Return, pred *ssa.BasicBlock) bool
	// GoalInstr: evaluated at every instruction reached before a Cut. True = violation.
	GoalInstr func(in ssa.Instruction) bool
	// CutEdge: traversing this CFG edge satisfies the obligation (the edge is not followed).
	CutEdge func(from, to *ssa.BasicBlock) bool

	curEnv flagEnv // the flags known in the state whose goals are being evaluated
}

// Flag: inside a Goal callback, the value of a boolean v (a flag phi, possibly negated) when the path walked to the
// state under evaluation fixes it.
func (s *Search) Flag(v ssa.Value) (val, known bool) {
	neg := false
	for {
		u, isU := v.(*ssa.UnOp)
		if !isU || u.Op != token.NOT {
			break
		}
		v, neg = u.X, !neg
	}
	if ph, ok := v.(*ssa.Phi); ok {
		if b, has := s.curEnv[ph]; has {
			return b != neg, true
		}
	}
	return false, false
}

type st struct {
	b, pred *ssa.BasicBlock
	env     string // the boolean flags (phis) whose value is known on this path, canonical text
}

// flagEnv: boolean phis whose value on the path walked so far is a known constant — a flag set on one branch and
// tested later (`ok := true; for … { if !found { ok = false } }; if !ok { return err }`). Carried along the path it
// makes the later test's outcome known, so the search does not follow the edge the flag rules out.
type flagEnv map[*ssa.Phi]bool

func (e flagEnv) key() string {
	if len(e) == 0 {
		return ""
	}
	var ks []string
	for ph, v := range e {
		t := "0"
		if v {
			t = "1"
		}
		ks = append(ks, ph.Name()+"@"+itoa(ph.Block().Index)+"="+t)
	}
	sort.Strings(ks)
	return strings.Join(ks, ",")
}

// step: the environment after moving from block from into block to.
func (e flagEnv) step(from, to *ssa.BasicBlock) flagEnv {
	idx := -1
	for i, pb := range to.Preds {
		if pb == from {
			idx = i
		}
	}
	out := flagEnv{}
	for k, v := range e {
		out[k] = v
	}
	if idx < 0 {
		return out
	}
	for _, in := range to.Instrs {
		ph, ok := in.(*ssa.Phi)
		if !ok {
			break
		}
		if b, isB := ph.Type().Underlying().(*types.Basic); !isB || b.Info()&types.IsBoolean == 0 {
			continue
		}
		delete(out, ph)
		switch x := ph.Edges[idx].(type) {
		case *ssa.Const:
			if x.Value != nil && x.Value.Kind() == constant.Bool {
				out[ph] = constant.BoolVal(x.Value)
			}
		case *ssa.Phi:
			if v, known := e[x]; known {
				out[ph] = v
			}
		}
	}
	return out
}

// Run searches from (start block, instruction index startIdx, arrival pred) and returns a
// witness (list of block positions) for the first violation, or nil.
func (s *Search) Run(start *ssa.BasicBlock, startIdx int, pred *ssa.BasicBlock) []string {
	seen := map[st]bool{}
	parent := map[st]st{}
	envs := map[st]flagEnv{}
	e0 := flagEnv{}
	if pred != nil {
		e0 = e0.step(pred, start)
	}
	s0 := st{start, pred, e0.key()}
	envs[s0] = e0
	q := []st{s0}
	seen[s0] = true
	first := true
	for len(q) > 0 {
		cur := q[0]
		q = q[1:]
		idx := 0
		s.curEnv = envs[cur]
		if first {
			idx = startIdx
			first = false
		} else if s.GoalBlock != nil && s.GoalBlock(cur.b, cur.pred) {
			return s.witness(parent, cur, s0)
		}
		cut := false
		for i := idx; i < len(cur.b.Instrs); i++ {
			in := cur.b.Instrs[i]
			if s.Cut != nil && s.Cut(in) {
				cut = true
				break
			}
			if s.GoalInstr != nil && s.GoalInstr(in) {
				return s.witness(parent, cur, s0)
			}
			if r, ok := in.(*ssa.Return); ok {
				if s.GoalReturn != nil && s.GoalReturn(r, cur.pred) {
					return s.witness(parent, cur, s0)
				}
			}
		}
		if cut {
			continue
		}
		env := envs[cur]
		for _, nx := range s.feasibleEnv(cur, env) {
			if s.CutEdge != nil && s.CutEdge(cur.b, nx) {
				continue
			}
			ne := env.step(cur.b, nx)
			n := st{nx, cur.b, ne.key()}
			if !seen[n] {
				seen[n] = true
				parent[n] = cur
				envs[n] = ne
				q = append(q, n)
			}
		}
	}
	return nil
}

// feasibleEnv: feasible successors, also pruning the edge a known flag rules out.
func (s *Search) feasibleEnv(cur st, env flagEnv) []*ssa.BasicBlock {
	b := cur.b
	if len(env) > 0 && len(b.Instrs) > 0 && len(b.Succs) == 2 {
		if ifi, ok := b.Instrs[len(b.Instrs)-1].(*ssa.If); ok {
			cond, neg := ifi.Cond, false
			for {
				u, isU := cond.(*ssa.UnOp)
				if !isU || u.Op != token.NOT {
					break
				}
				cond, neg = u.X, !neg
			}
			if ph, isPhi := cond.(*ssa.Phi); isPhi {
				if v, known := env[ph]; known {
					if v != neg {
						return b.Succs[:1]
					}
					return b.Succs[1:]
				}
			}
		}
	}
	return s.feasible(cur)
}

// feasible successors of state cur, pruning If edges whose nil-test outcome is known.
func (s *Search) feasible(cur st) []*ssa.BasicBlock {
	b := cur.b
	if len(b.Instrs) == 0 {
		return b.Succs
	}
	ifi, ok := b.Instrs[len(b.Instrs)-1].(*ssa.If)
	if !ok || len(b.Succs) != 2 {
		return b.Succs
	}
	if cv, trueMeansNil, ok := NilCmp(ifi.Cond); ok {
		// a result cell written and read back in this very block (`*err = phi(…); if *err != nil`): test what was stored
		if ld, isLd := cv.(*ssa.UnOp); isLd && ld.Op == token.MUL && ld.Block() == b {
			var last ssa.Value
			for _, in := range b.Instrs {
				if in == ssa.Instruction(ld) {
					break
				}
				switch x := in.(type) {
				case *ssa.Store:
					if x.Addr == ld.X {
						last = x.Val
					}
				case *ssa.Call, *ssa.Defer, *ssa.Go, *ssa.RunDefers:
					last = nil // the cell may be written behind our back (captured cell)
				}
			}
			if last != nil {
				cv = last
			}
		}
		switch s.P.ValState(cv, b, cur.pred) {
		case IsNil:
			if trueMeansNil {
				return b.Succs[:1]
			}
			return b.Succs[1:]
		case NonNil:
			if trueMeansNil {
				return b.Succs[1:]
			}
			return b.Succs[:1]
		}
	}
	// boolean phi of constants (short-circuit materialisation)
	if ph, ok := ifi.Cond.(*ssa.Phi); ok && ph.Block() == b && cur.pred != nil {
		for i, pb := range b.Preds {
			if pb == cur.pred {
				if c, ok := ph.Edges[i].(*ssa.Const); ok && c.Value != nil {
					if c.Value.ExactString() == "true" {
						return b.Succs[:1]
					}
					if c.Value.ExactString() == "false" {
						return b.Succs[1:]
					}
				}
			}
		}
	}
	return b.Succs
}

func (s *Search) witness(parent map[st]st, end, start st) []string {
	var rev []string
	cur := end
	for i := 0; i < 200; i++ {
		rev = append(rev, s.blockPos(cur.b))
		if cur == start {
			break
		}
		pr, ok := parent[cur]
		if !ok {
			break
		}
		cur = pr
	}
	var out []string
	for i := len(rev) - 1; i >= 0; i-- {
		if len(out) == 0 || out[len(out)-1] != rev[i] {
			out = append(out, rev[i])
		}
	}
	return out
}

func (s *Search) blockPos(b *ssa.BasicBlock) string {
	for _, in := range b.Instrs {
		if in.Pos().IsValid() {
			return s.P.Pos(in.Pos())
		}
	}
	return "b" + itoa(b.Index)
}

func itoa(i int) string {
	if i == 0 {
		return "0"
	}
	neg := i < 0
	if neg {
		i = -i
	}
	var d []byte
	for i > 0 {
		d = append([]byte{byte('0' + i%10)}, d...)
		i /= 10
	}
	if neg {
		return "-" + string(d)
	}
	return string(d)
}

// MustPassOnSuccess: every success (or possibly-success) return of fn is preceded, on every
// feasible path from entry, by an instruction satisfying cut. Returns a witness or nil.
func (p *Prog) MustPassOnSuccess(fn *ssa.Function, cut func(ssa.Instruction) bool) []string {
	if fn == nil || len(fn.Blocks) == 0 {
		return []string{"<no body>"}
	}
	s := &Search{P: p, Fn: fn, Cut: cut, GoalReturn: func(r *ssa.Return, pred *ssa.BasicBlock) bool {
		return p.ClassifyReturn(r, pred) != RetError
	}}
	return s.Run(fn.Blocks[0], 0, nil)
}

// PairedAfter: from just after instruction x, no success return is reachable without passing cut.
func (p *Prog) PairedAfter(x ssa.Instruction, cut func(ssa.Instruction) bool) []string {
	b := x.Block()
	idx := 0
	for i, in := range b.Instrs {
		if in == x {
			idx = i + 1
		}
	}
	s := &Search{P: p, Fn: b.Parent(), Cut: cut, GoalReturn: func(r *ssa.Return, pred *ssa.BasicBlock) bool {
		return p.ClassifyReturn(r, pred) != RetError
	}}
	return s.Run(b, idx, nil)
}

// ReachBlockWithout: from start block (index idx), can a block satisfying goal be reached without cut?
func (p *Prog) ReachBlockWithout(start *ssa.BasicBlock, idx int, pred *ssa.BasicBlock, goal func(b, pred *ssa.BasicBlock) bool, cut func(ssa.Instruction) bool) []string {
	s := &Search{P: p, Fn: start.Parent(), Cut: cut, GoalBlock: goal}
	return s.Run(start, idx, pred)
}

// reloadAliases: v and the reloads, later in the same block, of a cell v is stored to (`err = v; if err != nil` on a
// named result or captured variable).
func reloadAliases(v ssa.Value) []ssa.Value {
	out := []ssa.Value{v}
	if v.Referrers() == nil {
		return out
	}
	for _, r := range *v.Referrers() {
		st, ok := r.(*ssa.Store)
		if !ok || st.Val != v {
			continue
		}
		after := false
		for _, in := range st.Block().Instrs {
			if in == ssa.Instruction(st) {
				after = true
				continue
			}
			if !after {
				continue
			}
			if s2, ok := in.(*ssa.Store); ok && s2.Addr == st.Addr {
				break
			}
			if u, ok := in.(*ssa.UnOp); ok && u.Op == token.MUL && u.X == st.Addr {
				out = append(out, u)
			}
		}
	}
	return out
}

// SuccessBlocks returns, for a call value c (an instruction producing an error or a tuple with
// an error), the blocks entered exactly when the error was nil (single-predecessor successors
// of an `if err != nil` / `if err == nil` on that error value).
func (p *Prog) SuccessBlocks(c ssa.Value) []*ssa.BasicBlock {
	var errVals []ssa.Value
	switch t := c.Type().(type) {
	case *types.Tuple:
		for _, r := range *c.Referrers() {
			if ex, ok := r.(*ssa.Extract); ok && IsErrorType(t.At(ex.Index).Type()) {
				errVals = append(errVals, ex)
			}
		}
	default:
		if IsErrorType(c.Type()) {
			errVals = append(errVals, c)
		}
	}
	// a named result / captured variable: `err = f(); if err != nil` stores the value into a cell and
	// tests a reload of it — reloads in the same block after the store alias the value
	for _, ev := range append([]ssa.Value(nil), errVals...) {
		for _, r := range *ev.Referrers() {
			st, ok := r.(*ssa.Store)
			if !ok || st.Val != ev {
				continue
			}
			after := false
			for _, in := range st.Block().Instrs {
				if in == ssa.Instruction(st) {
					after = true
					continue
				}
				if !after {
					continue
				}
				if s2, ok := in.(*ssa.Store); ok && s2.Addr == st.Addr {
					break
				}
				if u, ok := in.(*ssa.UnOp); ok && u.Op == token.MUL && u.X == st.Addr {
					errVals = append(errVals, u)
				}
			}
		}
	}
	var out []*ssa.BasicBlock
	for _, ev := range errVals {
		for _, r := range *ev.Referrers() {
			b, ok := r.(*ssa.BinOp)
			if !ok {
				continue
			}
			for _, rr := range *b.Referrers() {
				ifi, ok := rr.(*ssa.If)
				if !ok {
					continue
				}
				cv, trueMeansNil, ok := NilCmp(ifi.Cond)
				if !ok || cv != ev {
					continue
				}
				blk := ifi.Block()
				var succ *ssa.BasicBlock
				if trueMeansNil {
					succ = blk.Succs[0]
				} else {
					succ = blk.Succs[1]
				}
				if len(succ.Preds) == 1 {
					out = append(out, succ)
				}
			}
		}
	}
	// the error merged with others into one result (`e := phi(err | nil)`, the shape an inlined helper's result
	// has): the nil side of a test of e is entered only through predecessors whose value can be nil; when each of
	// those lies in a success block already found, so does the nil side
	var fn *ssa.Function
	if in, ok := c.(ssa.Instruction); ok {
		fn = in.Parent()
	}
	if fn == nil {
		return out
	}
	isErrVal := func(v ssa.Value) bool {
		for _, ev := range errVals {
			if ev == v {
				return true
			}
		}
		return false
	}
	for changed, round := true, 0; changed && round < 4; round++ {
		changed = false
		for _, b := range fn.Blocks {
			for _, in := range b.Instrs {
				ph, ok := in.(*ssa.Phi)
				if !ok {
					break
				}
				if !IsErrorType(ph.Type()) {
					continue
				}
				allIn, any := true, false
				for i, e := range ph.Edges {
					pred := b.Preds[i]
					if !IsNilConst(e) && p.ValState(e, pred, nil) == NonNil {
						continue
					}
					any = true
					inside := isErrVal(e) // the call's own error arriving here: nil exactly when the call succeeded
					for _, sb := range out {
						if sb.Dominates(pred) {
							inside = true
						}
					}
					if !inside {
						allIn = false
					}
				}
				if !allIn || !any {
					continue
				}
				for _, alias := range reloadAliases(ph) {
					for _, r := range *alias.Referrers() {
						bo, ok := r.(*ssa.BinOp)
						if !ok {
							continue
						}
						for _, rr := range *bo.Referrers() {
							ifi, ok := rr.(*ssa.If)
							if !ok {
								continue
							}
							cv, trueMeansNil, ok := NilCmp(ifi.Cond)
							if !ok || cv != alias {
								continue
							}
							succ := ifi.Block().Succs[1]
							if trueMeansNil {
								succ = ifi.Block().Succs[0]
							}
							dup := false
							for _, sb := range out {
								if sb == succ {
									dup = true
								}
							}
							if len(succ.Preds) == 1 && !dup {
								out = append(out, succ)
								changed = true
							}
						}
					}
				}
			}
		}
	}
	return out
}

// DominatedBySuccess reports whether instruction site is dominated by the checked-success edge
// of a call (in the same function) to a member of set. Returns the dominating call or nil.
func (p *Prog) DominatedBySuccess(site ssa.Instruction, set map[*ssa.Function]bool) ssa.Instruction {
	fn := site.Parent()
	for _, b := range fn.Blocks {
		for _, in := range b.Instrs {
			c, ok := in.(*ssa.Call)
			if !ok || !p.IsCallTo(in, set) {
				continue
			}
			for _, sb := range p.SuccessBlocks(c) {
				if sb.Dominates(site.Block()) {
					return in
				}
			}
		}
	}
	return nil
}

// SuccessWrappers closes base under wrappers: a module function whose every success
// return is preceded on all paths by the checked success of a call to a member.
func (p *Prog) SuccessWrappers(base map[*ssa.Function]bool) map[*ssa.Function]bool {
	set := map[*ssa.Function]bool{}
	for f := range base {
		set[f] = true
	}
	for changed := true; changed; {
		changed = false
		for _, f := range p.ModFuncs {
			if set[f] || f.Blocks == nil || errIndex(f) < 0 {
				continue
			}
			if len(p.CallSitesTo(f, set)) == 0 {
				continue
			}
			if p.successRequires(f, set) {
				set[f] = true
				changed = true
			}
		}
	}
	return set
}

// successRequires: every success return of f is dominated by a success block of a call to set,
// or is a tail call `return g(...)` with g in set.
func (p *Prog) successRequires(f *ssa.Function, set map[*ssa.Function]bool) bool {
	idx := errIndex(f)
	okAll := true
	any := false
	for _, b := range f.Blocks {
		for _, in := range b.Instrs {
			r, ok := in.(*ssa.Return)
			if !ok {
				continue
			}
			any = true
			// per predecessor classification
			preds := b.Preds
			if len(preds) == 0 {
				preds = []*ssa.BasicBlock{nil}
			}
			for _, pr := range preds {
				if p.ClassifyReturn(r, pr) == RetError {
					continue
				}
				if p.DominatedBySuccess(r, set) != nil {
					continue
				}
				// tail call
				v := retOperand(r, idx)
				if ex, ok := v.(*ssa.Extract); ok {
					v = ex.Tuple
				}
				if c, ok := v.(*ssa.Call); ok && p.IsCallTo(c, set) {
					continue
				}
				okAll = false
			}
		}
	}
	return any && okAll
}

// HasPrefixAny is a small helper for rule tables.
func HasPrefixAny(s string, pre ...string) bool {
	for _, x := range pre {
		if strings.HasPrefix(s, x) {
			return true
		}
	}
	return false
}

// RetOperand resolves result #idx of a Return, looking through the result-cell spill that go/ssa
// emits for functions containing defer.
func RetOperand(r *ssa.Return, idx int) ssa.Value { return retOperand(r, idx) }
