package rules

import (
	"go/token"
	"go/types"
	"strings"

	"golang.org/x/tools/go/ssa"

	"verif/internal/an"
	"verif/internal/report"
)

func init() {
	register(&Check{
		ID: "C07",
		Explain: "Structural necessary conditions of wallet restore under a moving chain (thin; stated as such), decided on SSA: " +
			"(1) the rescan runs with the follower parked: suspend/resume typestate of asyncImport/asyncRemove; " +
			"(2) an importing wallet cannot be selected and is not fed by the live follower: UseWallet is gated by CheckReady (Ready && !IsRemoved), the follower's ready set admits only Ready && !IsRemoved wallets; " +
			"(3) a reorganisation below the rescan cursor pulls the cursor back: in disconnectBlock every non-ready wallet whose cursor is above height-1 is rewritten to height-1 in the rollback's own transaction; " +
			"(4) each import batch scans from cursor+1, applies every indexed transaction through insert + balance update + credits, and hands over (cursor = done) in the batch that reached the tip.",
		NotDec: "completeness of the address-index scan; equality with the live wallet's state; behaviour under all interleavings.",
		Run:    runC07,
	})
}

// ruleReadySet is shared by C07/C08/C19: getReadyWallets admits only Ready && !IsRemoved.
// needReady / needNotRemoved select the half of the conjunction that belongs to the calling property's clause
// (C07: an importing wallet is not fed live; C08: a wallet being removed gets no new rows; C19: both, either one panics the follower).
func ruleReadySet(c *report.Ctx, needReady, needNotRemoved bool) {
	p := c.P
	floor := 1
	if needReady {
		floor = 2
	}
	c.Rule("ready-set", "the follower's ready-wallet set (and, for selection, the CheckReady gate) admit a wallet only if it is Ready / not flagged for removal — the half this property depends on", floor)
	ready := fn(c, pkgTxmgr, "WalletStatus", "Ready")
	removed := fn(c, pkgTxmgr, "WalletStatus", "IsRemoved")
	grw := fn(c, pkgWallet, "NtfnsHandler", "getReadyWallets")
	if ready == nil || removed == nil {
		return
	}
	if grw != nil {
		n := 0
		an.Instrs(grw, func(in ssa.Instruction) {
			mu, ok := in.(*ssa.MapUpdate)
			if !ok || grw.Signature.Results().Len() == 0 || !types.Identical(mu.Map.Type(), grw.Signature.Results().At(0).Type()) {
				return // only the ready set itself (not, e.g., the field map of a log call)
			}
			n++
			gs := p.GuardsOf(mu)
			r := !needReady || an.AnyAtom(gs, func(a an.Atom) bool { return an.BoolCall(a, ready, "", true) })
			nr := !needNotRemoved || an.AnyAtom(gs, func(a an.Atom) bool { return an.BoolCall(a, removed, "", false) })
			key := sk(grw) + ":admit"
			if r && nr {
				c.OK(key, "under Ready() && !IsRemoved()", posOf(c, in))
			} else {
				miss := []string{}
				if !r {
					miss = append(miss, "Ready()")
				}
				if !nr {
					miss = append(miss, "!IsRemoved()")
				}
				c.Fail(key, "a wallet is admitted to the follower's ready set without "+strings.Join(miss, " and ")+": an importing wallet is fed by live blocks while its rescan is behind (double/missed credits), or a half-removed wallet whose balance row is gone receives credits (nil Amount panic in AddCredits)", posOf(c, in), an.AtomTexts(gs)...)
			}
		})
		if n == 0 {
			c.Fail(sk(grw)+":admit", "getReadyWallets no longer builds the ready set (anchor lost)", p.Pos(grw.Pos()))
		}
	}
	cr := fn(c, pkgWallet, "WalletManager", "CheckReady")
	if cr != nil && needReady {
		// the success return value is Ready() && !IsRemoved()
		ok := false
		for _, b := range cr.Blocks {
			r, isRet := b.Instrs[len(b.Instrs)-1].(*ssa.Return)
			if !isRet || p.ClassifyReturn(r, nil) == an.RetError {
				continue
			}
			d := p.Desc(an.RetOperand(r, 0))
			// short-circuit && materialises as phi(false | !IsRemoved())
			if strings.Contains(d, "IsRemoved") && (strings.Contains(d, "false") || strings.Contains(d, "Ready")) {
				if ph, isPhi := an.RetOperand(r, 0).(*ssa.Phi); isPhi {
					for i, e := range ph.Edges {
						if u, isU := e.(*ssa.UnOp); isU && u.Op == token.NOT {
							if call, isCall := u.X.(*ssa.Call); isCall && call.Call.StaticCallee() == removed {
								// this edge must come from the Ready()==true side
								pred := ph.Block().Preds[i]
								if an.AnyAtom(p.Guards(pred), func(a an.Atom) bool { return an.BoolCall(a, ready, "", true) }) || pred == call.Block() && an.AnyAtom(p.Guards(pred), func(a an.Atom) bool { return an.BoolCall(a, ready, "", true) }) {
									ok = true
								}
							}
						}
					}
				}
			}
		}
		if ok {
			c.OK(sk(cr)+":value", "returns Ready() && !IsRemoved()", p.Pos(cr.Pos()))
		} else {
			c.Fail(sk(cr)+":value", "CheckReady no longer returns Ready() && !IsRemoved(): an importing or half-removed wallet can be selected", p.Pos(cr.Pos()))
		}
	}
}

func runC07(c *report.Ctx) {
	p := c.P
	ruleSuspendResume(c)
	ruleReadySet(c, true, false)
	ruleQueueHeadroom(c) // a rescan that spans several batches is re-queued by a non-blocking push: the slot must exist
	ruleBestHeightReadWhileParked(c)
	ruleChainFetcherHasNoMemory(c)
	ruleParkedHandlerOnlyWaits(c)
	ruleFilterSiblingsAgreeOnFlags(c)
	ruleRelatedTxAskedOnce(c)
	ruleStakingUseMarksStandardForm(c)

	c.Rule("select-gate", "UseWallet selects a keystore only after CheckReady succeeded and reported ready", 1)
	use := fn(c, pkgWallet, "WalletManager", "UseWallet")
	cr := fn(c, pkgWallet, "WalletManager", "CheckReady")
	useKs := fn(c, pkgKeystore, "KeystoreManager", "UseKeystoreForWallet")
	if use != nil && cr != nil && useKs != nil {
		ss := calls(use, useKs)
		if len(ss) == 0 {
			c.Fail(sk(use)+":UseKeystoreForWallet", "anchor lost: UseWallet no longer selects through UseKeystoreForWallet", p.Pos(use.Pos()))
		}
		for _, s := range ss {
			dom := p.DominatedBySuccess(s, an.Set(cr)) != nil
			readyAtom := an.AnyAtom(p.GuardsOf(s), func(a an.Atom) bool {
				if a.Op != token.ILLEGAL || !a.Truth {
					return false
				}
				ex, ok := a.X.(*ssa.Extract)
				if !ok || ex.Index != 0 {
					return false
				}
				call, ok := ex.Tuple.(*ssa.Call)
				return ok && call.Call.StaticCallee() == cr
			})
			if dom && readyAtom {
				c.OK(sk(use)+":ready-gate", "dominated by CheckReady success and ready == true", posOf(c, s))
			} else {
				c.Fail(sk(use)+":ready-gate", "a wallet can be selected without CheckReady having reported it ready: an importing wallet with a partial history becomes usable", posOf(c, s))
			}
		}
	}

	// ---- cursor pull-back ------------------------------------------------------------------------------------
	ruleCursorPullback(c)
	ws := p.Type(pkgTxmgr, "WalletStatus")

	// ---- import batch ------------------------------------------------------------------------------------------
	c.Rule("import-batch", "an import batch scans from cursor+1 over all of the wallet's addresses, applies each indexed transaction completely and hands over in the batch that reached the tip", 6)
	ai := fn(c, pkgWallet, "NtfnsHandler", "asyncImport")
	addForImp := fn(c, pkgTxmgr, "TxStore", "AddRelevantTxForImporting")
	insForImp := fn(c, pkgTxmgr, "TxStore", "insertMinedTxForImporting")
	updMinedBal := fn(c, pkgTxmgr, "TxStore", "updateMinedBalance")
	addCredits := fn(c, pkgTxmgr, "UtxoStore", "AddCredits")
	mustPass(c, addForImp, an.Set(insForImp), "insertMinedTxForImporting")
	mustPass(c, addForImp, an.Set(addCredits), "UtxoStore.AddCredits")
	mustPass(c, insForImp, an.Set(updMinedBal), "updateMinedBalance")
	if ai != nil && len(closuresOf(p, ai)) > 0 {
		var cl *ssa.Function
		for _, af := range closuresOf(p, ai) {
			if addForImp != nil && len(calls(af, addForImp)) > 0 {
				cl = af
			}
		}
		if cl == nil {
			c.Fail(sk(ai)+":batch-closure", "anchor lost: no closure of asyncImport applies indexed transactions", p.Pos(ai.Pos()))
		} else {
			// scan range starts at cursor+1
			okRange := false
			an.Instrs(cl, func(in ssa.Instruction) {
				cc := an.CallOf(in)
				if cc == nil || !cc.IsInvoke() || cc.Method.Name() != "FetchScriptHashRelatedTx" {
					return
				}
				d := p.Desc(cc.Args[1])
				if d == "(WalletStatus.SyncedHeight + 1)" {
					okRange = true
				}
			})
			if okRange {
				c.OK(sk(cl)+":scan-from-cursor+1", "FetchScriptHashRelatedTx(…, ws.SyncedHeight+1, …)", p.Pos(cl.Pos()))
			} else {
				c.Fail(sk(cl)+":scan-from-cursor+1", "the batch does not start scanning at the stored cursor + 1 (blocks skipped or rescanned)", p.Pos(cl.Pos()))
			}
			// per indexed tx: AddRelevantTxForImporting (or abort)
			// hand-over: store of WalletSyncedDone into ws.SyncedHeight guarded by stop == bestBlock.Height
			okDone := false
			if ws != nil {
				for _, st := range fieldStores(cl, ws, "SyncedHeight") {
					sv := st.(*ssa.Store).Val
					if k, isK := sv.(*ssa.Const); isK && k.Value != nil && k.Value.ExactString() == constString(p.Obj(pkgTxmgr, "WalletSyncedDone")) {
						if an.AnyAtom(p.GuardsOf(st), func(a an.Atom) bool {
							return a.Op == token.EQL && strings.Contains(p.Desc(a.X)+p.Desc(a.Y), "bestBlock.Height")
						}) {
							okDone = true
						}
					}
				}
			}
			if okDone {
				c.OK(sk(cl)+":hand-over", "cursor = done only when the batch reached the handler's best height, in the batch's own transaction", p.Pos(cl.Pos()))
			} else {
				c.Fail(sk(cl)+":hand-over", "the wallet is not marked done exactly when the batch reaches the best height inside the batch transaction", p.Pos(cl.Pos()))
			}
		}
		// all addresses of the importing wallet are scanned
		ma := fn(c, pkgKeystore, "AddrManager", "ManagedAddresses")
		if ma != nil {
			if len(calls(ai, ma)) > 0 {
				c.OK(sk(ai)+":all-addresses", "script hashes taken from ManagedAddresses() of the importing wallet", p.Pos(ai.Pos()))
			} else {
				c.Fail(sk(ai)+":all-addresses", "the scan no longer covers all managed addresses of the importing wallet", p.Pos(ai.Pos()))
			}
		}
	}

	// ---- range end / discovery window ---------------------------------------------------------------------
	ruleScanToCursorInclusive(c)
	ruleGapWindowExtends(c)
	ruleLayout(c, []string{"wallet-status-value"}, 2)
	ruleSelectionResetOnDelete(c)
	ruleLastTxBoundInclusive(c)
}

func stripIface(v ssa.Value) ssa.Value {
	for {
		switch x := v.(type) {
		case *ssa.MakeInterface:
			v = x.X
		case *ssa.ChangeInterface:
			v = x.X
		default:
			return v
		}
	}
}

// ruleCursorPullback is shared by C07/C01: a reorg pulls the rescan cursor of importing wallets back below the fork.
func ruleCursorPullback(c *report.Ctx) {
	p := c.P
	c.Rule("cursor-pullback", "disconnectBlock(height) rewrites the rescan cursor of every non-ready wallet whose cursor is above height-1 to height-1, in the same transaction as the rollback", 3)
	db := fn(c, pkgWallet, "NtfnsHandler", "disconnectBlock")
	putWS := fn(c, pkgTxmgr, "SyncStore", "PutWalletStatus")
	ready := fn(c, pkgTxmgr, "WalletStatus", "Ready")
	getAll := fn(c, pkgTxmgr, "SyncStore", "GetAllWalletStatus")
	ws := p.Type(pkgTxmgr, "WalletStatus")
	if db != nil && putWS != nil && ready != nil && ws != nil && getAll != nil {
		isResetHeight := func(v ssa.Value) bool {
			b, ok := v.(*ssa.BinOp)
			if !ok || b.Op != token.SUB {
				return false
			}
			_, isPar := b.X.(*ssa.Parameter)
			k, isK := b.Y.(*ssa.Const)
			return isPar && isK && k.Value != nil && k.Value.ExactString() == "1"
		}
		ps := calls(db, putWS)
		if len(ps) == 0 {
			c.Fail(sk(db)+":PutWalletStatus", "disconnectBlock no longer rewrites wallet statuses: a reorg below an importing wallet's cursor leaves blocks of the new branch unscanned", p.Pos(db.Pos()))
		}
		for i, s := range ps {
			gs := p.GuardsOf(s)
			key := siteKey(db, "PutWalletStatus", i+1)
			notReady := an.AnyAtom(gs, func(a an.Atom) bool { return an.BoolCall(a, ready, "", false) })
			above := an.AnyAtom(gs, func(a an.Atom) bool {
				return a.Op == token.GTR && a.X != nil && p.Desc(a.X) == "WalletStatus.SyncedHeight" && isResetHeight(a.Y)
			})
			inLoop := loopHeaderOf(s.Block()) != nil
			// tx argument is disconnectBlock's own transaction parameter
			sameTx := false
			if cc := an.CallOf(s); len(cc.Args) >= 2 {
				if par, ok := stripIface(cc.Args[1]).(*ssa.Parameter); ok && par.Parent() == db {
					sameTx = true
				}
			}
			var miss []string
			if !notReady {
				miss = append(miss, "!ws.Ready()")
			}
			if !above {
				miss = append(miss, "ws.SyncedHeight > height-1")
			}
			if !inLoop {
				miss = append(miss, "inside the loop over all statuses")
			}
			if !sameTx {
				miss = append(miss, "on the rollback's own transaction")
			}
			if len(miss) == 0 {
				c.OK(key, "under !Ready() && SyncedHeight > height-1, per status row, same transaction", posOf(c, s))
			} else {
				c.Fail(key, "the cursor pull-back is not guarded by/placed "+strings.Join(miss, ", ")+": a cursor sitting exactly on a disconnected height is not pulled back and the replacement block is never rescanned", posOf(c, s), an.AtomTexts(gs)...)
			}
		}
		// the value written is height-1
		okVal := false
		for _, st := range fieldStores(db, ws, "SyncedHeight") {
			if isResetHeight(st.(*ssa.Store).Val) {
				okVal = true
			}
		}
		if okVal {
			c.OK(sk(db)+":cursor=height-1", "SyncedHeight := height-1", p.Pos(db.Pos()))
		} else {
			c.Fail(sk(db)+":cursor=height-1", "the cursor is not set to height-1", p.Pos(db.Pos()))
		}
		mustPassExcept(c, db, an.Set(getAll), "GetAllWalletStatus", func(t string) bool {
			return strings.Contains(t, "> BlockMeta.Height") || strings.Contains(t, "BlockMeta.Height <")
		}, "block above the synced height")
	}
}
