package rules

import (
	"go/token"
	"strings"

	"golang.org/x/tools/go/ssa"

	"verif/internal/an"
	"verif/internal/report"
)

func init() {
	register(&Check{
		ID: "C06",
		Explain: "Structural necessary conditions of crash consistency, decided on call graph + SSA: " +
			"(1) one physical write per commit: in the LevelDB backend only transaction.Commit writes the store, once, with the transaction's batch; only db.Update begins and commits write transactions; every transaction starts from an emptied batch (reset under the writer lock); " +
			"(2) one logical step = one Update: for each step of the step table (block/reorg, import batch, removal phase 1, removal phase 2 round, create, import, new address, mark-for-removal) the single Update closure reaches all of the step's mutators together with its progress marker; no nested transaction; " +
			"(3) resumption: the worker's start-up scan re-queues every wallet flagged removed and every wallet not ready; catch-up starts at the stored synced-to height + 1.",
		NotDec: "LevelDB's own atomicity and durability (trusted); equality of the restarted state with a never-stopped run.",
		Run:    runC06,
	})
}

// ruleSoleWriter is shared by C06 and C11.
func ruleSoleWriter(c *report.Ctx) {
	p := c.P
	c.Rule("sole-writer", "only (*transaction).Commit writes the LevelDB store, exactly once, with the transaction's own batch; only db.Update begins/commits write transactions; newBatch empties the shared batch on every path, under the writer lock", 6)
	commit := fn(c, pkgLDB, "transaction", "Commit")
	beginTx := fn(c, pkgLDB, "LevelDB", "BeginTx")
	newBatch := fn(c, pkgLDB, "", "newBatch")
	upd := fn(c, pkgDB, "", "Update")
	view := fn(c, pkgDB, "", "View")
	writers := map[string]bool{"Write": true, "Put": true, "Delete": true, "OpenTransaction": true, "CompactRange": true}
	nWrite := 0
	for _, f := range p.ModFuncs {
		an.Instrs(f, func(in ssa.Instruction) {
			cc := an.CallOf(in)
			if cc == nil || cc.StaticCallee() == nil {
				return
			}
			cal := cc.StaticCallee()
			if an.FuncPkg(cal) == nil || an.FuncPkg(cal).Path() != pkgLevelDB || cal.Signature.Recv() == nil {
				return
			}
			rn := an.NamedOf(cal.Signature.Recv().Type())
			if rn == nil || (rn.Obj().Name() != "DB" && rn.Obj().Name() != "Transaction") || !writers[cal.Name()] {
				return
			}
			nWrite++
			key := sk(f) + ":leveldb." + rn.Obj().Name() + "." + cal.Name()
			if f == commit && cal.Name() == "Write" && rn.Obj().Name() == "DB" {
				d := p.Desc(cc.Args[1])
				if d == "transaction.b.b" {
					c.OK(key, "Commit writes the transaction's batch", posOf(c, in))
				} else {
					c.Fail(key, "Commit writes "+d+" instead of the transaction's own batch", posOf(c, in))
				}
				return
			}
			if an.FuncPkg(f) != nil && strings.HasPrefix(an.FuncPkg(f).Path(), an.Module+"/cmd/") {
				return // offline maintenance tools, not the wallet
			}
			c.Fail(key, "the LevelDB store is written outside transaction.Commit: this write is not part of any atomic batch", posOf(c, in))
		})
	}
	if commit != nil {
		n := 0
		an.Instrs(commit, func(in ssa.Instruction) {
			if cc := an.CallOf(in); cc != nil && cc.StaticCallee() != nil && cc.StaticCallee().Name() == "Write" && an.FuncPkg(cc.StaticCallee()).Path() == pkgLevelDB {
				n++
			}
		})
		if n == 1 {
			c.OK(sk(commit)+":one-Write", "exactly one store write per commit", p.Pos(commit.Pos()))
		} else {
			c.Fail(sk(commit)+":one-Write", "Commit performs "+itoa(n)+" store writes; a crash between two of them splits the step", p.Pos(commit.Pos()))
		}
	}
	// who begins / commits
	for _, f := range p.ModFuncs {
		pk := an.FuncPkg(f)
		if pk == nil || strings.HasPrefix(pk.Path(), pkgLDB) || strings.HasPrefix(pk.Path(), an.Module+"/cmd/") {
			continue
		}
		an.Instrs(f, func(in ssa.Instruction) {
			cc := an.CallOf(in)
			if cc == nil || !cc.IsInvoke() {
				return
			}
			m := cc.Method.Name()
			switch {
			case isNamedIface(cc.Value.Type(), pkgDB, "DB") && (m == "BeginTx" || m == "BeginReadTx"):
				if (m == "BeginTx" && f == upd) || (m == "BeginReadTx" && f == view) {
					c.OK(sk(f)+":"+m, "transactions begin only in db.Update / db.View", posOf(c, in))
				} else {
					c.Fail(sk(f)+":"+m, "a transaction is begun outside db.Update/db.View: commit/rollback pairing and the single-batch discipline are not enforced for it", posOf(c, in))
				}
			case isNamedIface(cc.Value.Type(), pkgDB, "DBTransaction") && m == "Commit":
				if f == upd {
					c.OK(sk(f)+":Commit", "only db.Update commits", posOf(c, in))
				} else {
					c.Fail(sk(f)+":Commit", "a write transaction is committed outside db.Update (a step could be committed in parts)", posOf(c, in))
				}
			}
		})
	}
	// newBatch: Reset on every path; called only from BeginTx after the lock
	resetFn := p.Fn(pkgLevelDB, "Batch", "Reset")
	if resetFn == nil {
		c.Lost("leveldb.(*Batch).Reset")
	}
	if newBatch != nil && resetFn != nil {
		w := p.MustPassOnSuccess(newBatch, cutCalls(p, an.Set(resetFn)))
		if w != nil {
			c.Fail(sk(newBatch)+"=>Batch.Reset", "a write transaction can start with the previous transaction's operations still in the shared batch (e.g. those of a rolled-back step): they become durable with the next commit", p.Pos(newBatch.Pos()), w...)
		} else {
			c.OK(sk(newBatch)+"=>Batch.Reset", "the shared batch is emptied on every path", p.Pos(newBatch.Pos()))
		}
		for _, cl := range p.Callers(newBatch) {
			if cl.E.Kind == "ref" {
				continue
			}
			key := sk(cl.From) + ":newBatch"
			if cl.From != beginTx {
				c.Fail(key, "the shared batch is re-initialised outside BeginTx", p.InstrPos(cl.E.Site))
				continue
			}
			// dominated by muTr.Lock()
			locked := false
			an.Instrs(beginTx, func(in ssa.Instruction) {
				cc := an.CallOf(in)
				if cc == nil || cc.StaticCallee() == nil || an.CanonKeyOf(cc.StaticCallee()) != "(*sync.Mutex).Lock" {
					return
				}
				if p.Desc(cc.Args[0]) == "&LevelDB.muTr" && instrDominates(in, cl.E.Site) {
					locked = true
				}
			})
			if locked {
				c.OK(key, "newBatch runs after muTr.Lock()", p.InstrPos(cl.E.Site))
			} else {
				c.Fail(key, "newBatch() (which resets the package-level batch) runs before the writer lock is taken: beginning a second write transaction wipes the queued operations of the first", p.InstrPos(cl.E.Site))
			}
		}
	}
}

// instrDominates: a executes before b on every path to b (same function).
func instrDominates(a, b ssa.Instruction) bool {
	if a.Block() == b.Block() {
		for _, in := range a.Block().Instrs {
			if in == a {
				return true
			}
			if in == b {
				return false
			}
		}
	}
	return a.Block().Dominates(b.Block())
}

type stepSpec struct {
	fnRecv, fnName string
	closure        int // 1-based index among the function's Update closures (source order)
	name           string
	must           [][3]string // pkg, recv, name
}

func runC06(c *report.Ctx) {
	p := c.P
	ruleOpeningDeletesNothing(c)
	ruleSoleWriter(c)
	ruleNoTxUnderUpdate(c, 8)
	ruleMemoryTipFollowsPersistedTip(c) // after a restart the in-memory tip is the persisted one
	ruleTaskQueuedAfterDurableMarker(c)
	ruleRollbackBeforeCursorMoves(c)
	ruleRollbackHeightFollowsTheWalk(c)
	ruleStatusRowsOneDecoder(c) // the start-up scan resumes what the status rows say

	c.Rule("step-table", "each logical step performs all its mutations and its progress marker inside one Update closure", 9)
	upd := fn(c, pkgDB, "", "Update")
	steps := []stepSpec{
		{"NtfnsHandler", "processConnectedBlock", 1, "block/reorg", [][3]string{
			{pkgTxmgr, "TxStore", "AddRelevantTx"}, {pkgTxmgr, "UtxoStore", "UpdateMinedBalances"}, {pkgTxmgr, "SyncStore", "SetSyncedTo"},
			{pkgTxmgr, "TxStore", "Rollback"}, {pkgTxmgr, "SyncStore", "ResetSyncedTo"}, {pkgTxmgr, "SyncStore", "PutWalletStatus"}}},
		{"NtfnsHandler", "asyncImport", 1, "import batch", [][3]string{
			{pkgTxmgr, "TxStore", "AddRelevantTxForImporting"}, {pkgTxmgr, "UtxoStore", "UpdateMinedBalances"}, {pkgTxmgr, "SyncStore", "PutWalletStatus"}}},
		{"NtfnsHandler", "asyncRemove", 1, "removal phase 1", [][3]string{
			{pkgTxmgr, "UtxoStore", "RemoveUnspentByWalletId"}, {pkgTxmgr, "UtxoStore", "RemoveAddressByWalletId"}, {pkgTxmgr, "UtxoStore", "RemoveGameHistoryByWalletId"}, {pkgTxmgr, "UtxoStore", "RemoveMinedBalance"}}},
		{"NtfnsHandler", "asyncRemove", 2, "removal phase 2 round", [][3]string{
			{pkgTxmgr, "TxStore", "RemoveRelevantTx"}, {pkgTxmgr, "SyncStore", "DeleteWalletStatus"}, {pkgKeystore, "KeystoreManager", "DeleteKeystore"}}},
		{"NtfnsHandler", "OnRemoveWallet", 1, "mark for removal", [][3]string{
			{pkgTxmgr, "SyncStore", "GetWalletStatus"}, {pkgTxmgr, "SyncStore", "MarkDeleteWallet"}}},
		{"NtfnsHandler", "onRelevantTx", 1, "pending transaction", [][3]string{{pkgTxmgr, "TxStore", "AddRelevantTx"}}},
		{"WalletManager", "CreateWallet", 1, "create", [][3]string{
			{pkgKeystore, "KeystoreManager", "NewKeystore"}, {pkgTxmgr, "UtxoStore", "InitNewWallet"}, {pkgTxmgr, "SyncStore", "PutWalletStatus"}}},
		{"WalletManager", "ImportWallet", 1, "import keystore", [][3]string{
			{pkgKeystore, "KeystoreManager", "ImportKeystore"}, {pkgTxmgr, "UtxoStore", "InitNewWallet"}, {pkgTxmgr, "SyncStore", "PutWalletStatus"}, {pkgTxmgr, "UtxoStore", "PutNewAddress"}}},
		{"WalletManager", "ImportWalletWithMnemonic", 1, "import mnemonic", [][3]string{
			{pkgKeystore, "KeystoreManager", "ImportKeystoreWithMnemonic"}, {pkgTxmgr, "UtxoStore", "InitNewWallet"}, {pkgTxmgr, "SyncStore", "PutWalletStatus"}, {pkgTxmgr, "UtxoStore", "PutNewAddress"}}},
		{"WalletManager", "NewAddress", 1, "new address", [][3]string{
			{pkgKeystore, "KeystoreManager", "NextAddresses"}, {pkgTxmgr, "UtxoStore", "PutNewAddress"}}},
	}
	for _, st := range steps {
		f := fn(c, pkgWallet, st.fnRecv, st.fnName)
		if f == nil || upd == nil {
			continue
		}
		ucs := calls(f, upd)
		// Update calls inside nested closures of f (asyncRemove's select default branch is in f itself)
		key := sk(f) + ":step:" + strings.ReplaceAll(st.name, " ", "-")
		if st.closure > len(ucs) {
			c.Fail(key, "the step's Update is missing (found "+itoa(len(ucs))+" Update calls)", p.Pos(f.Pos()))
			continue
		}
		// only the listed closures may exist: a step function with more Updates than the table has split a step
		want := 0
		for _, s2 := range steps {
			if s2.fnRecv == st.fnRecv && s2.fnName == st.fnName {
				want++
			}
		}
		if len(ucs) != want {
			c.Fail(sk(f)+":update-count", sk(f)+" contains "+itoa(len(ucs))+" Update calls, the step table has "+itoa(want)+": a step has been split into several transactions (a crash between them leaves it half applied) or merged", p.Pos(f.Pos()))
		}
		cl := closureArg(ucs[st.closure-1].(*ssa.Call), 1)
		if cl == nil {
			c.Fail(key, "Update is not given a function literal", posOf(c, ucs[st.closure-1]))
			continue
		}
		reached, _ := p.ReachNil([]*ssa.Function{cl}, an.ReachOpts{})
		var missing []string
		for _, m := range st.must {
			mf := fn(c, m[0], m[1], m[2])
			if mf == nil {
				continue
			}
			if !reached[mf] {
				missing = append(missing, m[1]+"."+m[2])
			}
		}
		if len(missing) > 0 {
			c.Fail(key, "the "+st.name+" transaction no longer contains "+strings.Join(missing, ", ")+": that part of the step is done in another transaction (or not at all), so a crash can separate it from the rest", posOf(c, ucs[st.closure-1]))
		} else {
			c.OK(key, "closure reaches all mutators and the progress marker of the step", posOf(c, ucs[st.closure-1]))
		}
	}

	// ---- resumption ---------------------------------------------------------------------------------------
	c.Rule("resumption", "restart resumes: removal for every wallet flagged removed, import for every wallet not ready; catch-up from synced-to + 1", 3)
	ruleRestartResumesTasks(c)
	start := fn(c, pkgWallet, "NtfnsHandler", "Start")
	syncedTo := fn(c, pkgWallet, "WalletManager", "SyncedTo")
	fetchBlk := "ChainFetcher.FetchBlockByHeight"
	if start != nil && syncedTo != nil {
		ok := false
		an.Instrs(start, func(in ssa.Instruction) {
			cc := an.CallOf(in)
			if cc == nil || !cc.IsInvoke() || calleeName(p, in) != fetchBlk {
				return
			}
			// height argument: phi chain starting at SyncedTo()#0 + 1
			seen := map[ssa.Value]bool{}
			var walk func(v ssa.Value, d int)
			walk = func(v ssa.Value, d int) {
				if v == nil || seen[v] || d > 8 {
					return
				}
				seen[v] = true
				switch x := v.(type) {
				case *ssa.Phi:
					for _, e := range x.Edges {
						walk(e, d+1)
					}
				case *ssa.BinOp:
					if x.Op == token.ADD {
						if k, isK := x.Y.(*ssa.Const); isK && k.Value != nil && k.Value.ExactString() == "1" {
							if ex, isEx := x.X.(*ssa.Extract); isEx && ex.Index == 0 {
								if call, isCall := ex.Tuple.(*ssa.Call); isCall && call.Call.StaticCallee() == syncedTo {
									ok = true
								}
							}
						}
						walk(x.X, d+1)
					}
				}
			}
			walk(cc.Args[0], 0)
		})
		if ok {
			c.OK(sk(start)+":catch-up-from-syncedTo+1", "first fetched height derives from SyncedTo()+1", p.Pos(start.Pos()))
		} else {
			c.Fail(sk(start)+":catch-up-from-syncedTo+1", "catch-up no longer starts at the stored synced-to height + 1 (a block would be skipped or applied twice after restart)", p.Pos(start.Pos()))
		}
	}

	// ---- resumed removal re-runs step 1 -------------------------------------------------------------------------
	ruleRemovalStepIdempotent(c)
	ruleLayout(c, []string{"wallet-status-value", "synced-block-value", "synced-to-value"}, 5)
	ruleNoMemoryTipUnderUpdate(c, false)
	ruleFastForwardGate(c)
	ruleReadySet(c, false, true)
}

// ruleRestartResumesTasks (C06 inside "resumption", C08 as "removal-resumed-after-restart"): the worker's start-up scan.
func ruleRestartResumesTasks(c *report.Ctx) {
	p := c.P
	worker := fn(c, pkgWallet, "", "worker")
	getAll := fn(c, pkgTxmgr, "SyncStore", "GetAllWalletStatus")
	isRemoved := fn(c, pkgTxmgr, "WalletStatus", "IsRemoved")
	ready := fn(c, pkgTxmgr, "WalletStatus", "Ready")
	if worker != nil && getAll != nil && isRemoved != nil && ready != nil {
		var scan *ssa.Function
		for _, af := range closuresOf(p, worker) {
			if len(calls(af, getAll)) > 0 {
				scan = af
			}
		}
		if scan == nil {
			c.Fail(sk(worker)+":startup-scan", "the worker no longer scans all wallet statuses at start-up", p.Pos(worker.Pos()))
		} else {
			okR, okI := false, false
			for _, tp := range pushesOf(c, scan, "remove") {
				s, gs := tp.Site, tp.Guards(p)
				// a flagged wallet is a ready one (only ready wallets can be flagged): the push must not also demand !Ready()
				if loopHeaderOf(s.Block()) != nil && an.AnyAtom(gs, func(a an.Atom) bool { return an.BoolCall(a, isRemoved, "", true) }) &&
					!an.AnyAtom(gs, func(a an.Atom) bool { return an.BoolCall(a, ready, "", false) }) {
					okR = true
				}
			}
			for _, tp := range pushesOf(c, scan, "import") {
				s, gs := tp.Site, tp.Guards(p)
				if loopHeaderOf(s.Block()) != nil && an.AnyAtom(gs, func(a an.Atom) bool { return an.BoolCall(a, ready, "", false) }) {
					okI = true
				}
			}
			if okR {
				c.OK(sk(worker)+":removed=>PushRemove", "per status row, under IsRemoved()", p.Pos(scan.Pos()))
			} else {
				c.Fail(sk(worker)+":removed=>PushRemove", "a removal interrupted by a crash or a restart is not resumed at start-up (no PushRemove under IsRemoved() alone — wallets are flagged only when ready, so a scan that skips ready wallets first never sees them)", p.Pos(scan.Pos()))
			}
			if okI {
				c.OK(sk(worker)+":!ready=>PushImport", "per status row, under !Ready()", p.Pos(scan.Pos()))
			} else {
				c.Fail(sk(worker)+":!ready=>PushImport", "an import interrupted by a crash is not resumed at start-up", p.Pos(scan.Pos()))
			}
		}
	}
}
