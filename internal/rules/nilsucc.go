package rules

// nil-on-success: functions that can return (nil pointer, nil error) — "not found is not an error" —
// and the obligation that callers test the pointer before dereferencing it.

import (
	"go/token"
	"go/types"
	"sort"
	"strings"

	"golang.org/x/tools/go/ssa"

	"verif/internal/an"
	"verif/internal/report"
)

func isPtrT(t types.Type) bool {
	_, ok := t.Underlying().(*types.Pointer)
	return ok
}

// nilOnSuccess computes, for every function with a body, the result indexes that can be a nil pointer while
// the error result is nil. Fixpoint over direct forwarding (return g(...); v, err := g(); … return v, nil).
func nilOnSuccess(p *an.Prog) map[*ssa.Function]map[int]bool {
	nn := map[*ssa.Function]map[int]bool{}
	var fns []*ssa.Function
	for f := range p.AllFuncs {
		if f.Blocks == nil || f.Signature.Results().Len() < 2 {
			continue
		}
		res := f.Signature.Results()
		if !an.IsErrorType(res.At(res.Len() - 1).Type()) {
			continue
		}
		hasPtr := false
		for i := 0; i < res.Len()-1; i++ {
			if isPtrT(res.At(i).Type()) {
				hasPtr = true
			}
		}
		if hasPtr {
			fns = append(fns, f)
		}
	}
	calleeNN := func(call *ssa.Call, idx int) bool {
		for _, g := range p.Callees(call) {
			if nn[g][idx] {
				return true
			}
		}
		return false
	}
	var mayNil func(v ssa.Value, depth int) bool
	mayNil = func(v ssa.Value, depth int) bool {
		if depth > 4 {
			return false
		}
		switch x := v.(type) {
		case *ssa.Const:
			return x.Value == nil
		case *ssa.Extract:
			if call, ok := x.Tuple.(*ssa.Call); ok {
				return calleeNN(call, x.Index)
			}
		case *ssa.Phi:
			for _, e := range x.Edges {
				if mayNil(e, depth+1) {
					return true
				}
			}
		case *ssa.UnOp:
			// load of a local cell (a named result, possibly assigned inside a function literal that captures it):
			// nil when never assigned, or when something that may be nil is assigned
			cell, ok := x.X.(*ssa.Alloc)
			if !ok || x.Op != token.MUL || cell.Referrers() == nil {
				return false
			}
			n := 0
			for _, r := range *cell.Referrers() {
				switch y := r.(type) {
				case *ssa.Store:
					if y.Addr == ssa.Value(cell) {
						n++
						if mayNil(y.Val, depth+1) {
							return true
						}
					}
				case *ssa.MakeClosure:
					lit, _ := y.Fn.(*ssa.Function)
					for i, bnd := range y.Bindings {
						if bnd != ssa.Value(cell) || lit == nil || i >= len(lit.FreeVars) {
							continue
						}
						fv := lit.FreeVars[i]
						an.Instrs(lit, func(in ssa.Instruction) {
							if st, ok := in.(*ssa.Store); ok && st.Addr == ssa.Value(fv) {
								n++
								if mayNil(st.Val, depth+1) {
									n = -1000
								}
							}
						})
					}
				}
			}
			return n <= 0
		}
		return false
	}
	// pairNilNil: can (ptr, err) be (nil, nil) together when they are handed back from block b? Phis of one block are
	// judged edge by edge (they are correlated: `return nil, err` / `return v, nil` merged into one return).
	pairNilNil := func(ptrV, errV ssa.Value, b *ssa.BasicBlock) bool {
		errOK := func(e ssa.Value, at, pred *ssa.BasicBlock) bool {
			if kc, isC := e.(*ssa.Const); isC {
				return kc.Value == nil
			}
			return p.ValState(e, at, pred) != an.NonNil && !isSentinelLoad(p, e)
		}
		eph, eIsPhi := errV.(*ssa.Phi)
		pph, pIsPhi := ptrV.(*ssa.Phi)
		if eIsPhi && pIsPhi && eph.Block() == pph.Block() {
			for k := range eph.Edges {
				pred := eph.Block().Preds[k]
				if errOK(eph.Edges[k], pred, nil) && mayNil(pph.Edges[k], 0) && p.ValState(pph.Edges[k], pred, nil) != an.NonNil {
					return true
				}
			}
			return false
		}
		return errOK(errV, b, nil) && mayNil(ptrV, 0) && p.ValState(ptrV, b, nil) != an.NonNil
	}
	for changed := true; changed; {
		changed = false
		for _, f := range fns {
			res := f.Signature.Results()
			errIdx := res.Len() - 1
			for _, b := range f.Blocks {
				r, ok := b.Instrs[len(b.Instrs)-1].(*ssa.Return)
				if !ok || len(r.Results) != res.Len() {
					continue
				}
				ev := an.RetOperand(r, errIdx)
				// results spilled into cells (a function with a defer): every `return x, y` stores into the cells and
				// jumps to the one Return. Judge each storing site with the values it stores together.
				if ld, isLd := ev.(*ssa.UnOp); isLd && ld.Op == token.MUL {
					if ec, isCell := ld.X.(*ssa.Alloc); isCell && spilledSites(ec) >= 1 {
						unjudged := false
						for _, sb := range f.Blocks {
							errV := lastStoreIn(sb, ec)
							if errV == nil {
								continue
							}
							for i := 0; i < errIdx; i++ {
								if !isPtrT(res.At(i).Type()) || nn[f][i] {
									continue
								}
								pl, ok := an.RetOperand(r, i).(*ssa.UnOp)
								if !ok {
									continue
								}
								pc, ok := pl.X.(*ssa.Alloc)
								if !ok {
									continue
								}
								pv := lastStoreIn(sb, pc)
								if pv == nil {
									unjudged = true
									continue // assigned elsewhere (before the branch): not judged at this site
								}
								if pairNilNil(pv, errV, sb) {
									if nn[f] == nil {
										nn[f] = map[int]bool{}
									}
									nn[f][i] = true
									changed = true
								}
							}
						}
						// one storing site (returns merged into one, by hand or by inlining) that stores all the results
						// together has been judged with its values paired; otherwise the cells are judged as loads below
						if spilledSites(ec) > 1 || !unjudged {
							continue
						}
					}
				}
				// tuple forwarding: return g(...)
				fwd := false
				if ex, isEx := ev.(*ssa.Extract); isEx {
					if call, isC := ex.Tuple.(*ssa.Call); isC {
						all := true
						for i := range r.Results {
							e2, ok2 := an.RetOperand(r, i).(*ssa.Extract)
							if !ok2 || e2.Tuple != ssa.Value(call) || e2.Index != i {
								all = false
							}
						}
						if all {
							fwd = true
							for i := 0; i < errIdx; i++ {
								if isPtrT(res.At(i).Type()) && calleeNN(call, i) && !nn[f][i] {
									if nn[f] == nil {
										nn[f] = map[int]bool{}
									}
									nn[f][i] = true
									changed = true
								}
							}
						}
					}
				}
				if fwd {
					continue
				}
				k, isK := ev.(*ssa.Const)
				if !isK || k.Value != nil {
					// not the literal nil: a success return all the same when the error is known nil on the way in (a
					// bare `return` of named results after `if err != nil { return }`), or of unknown nil-ness (the
					// error of a wrapped call handed on together with result cells a literal filled in)
					succ := false
					if !isK {
						if len(b.Preds) == 0 {
							succ = p.ValState(ev, b, nil) != an.NonNil
						}
						for _, pr := range b.Preds {
							if p.ValState(ev, b, pr) != an.NonNil {
								succ = true
							}
						}
					}
					if !succ {
						continue
					}
				}
				// merged results (several `return x, y` folded into one by inlining or by hand): the error and the
				// pointer are phis of one block — judge them edge by edge, they are correlated
				if eph, isPhi := ev.(*ssa.Phi); isPhi {
					handled := false
					for i := 0; i < errIdx; i++ {
						if !isPtrT(res.At(i).Type()) {
							continue
						}
						pph, ok := an.RetOperand(r, i).(*ssa.Phi)
						if !ok || pph.Block() != eph.Block() {
							continue
						}
						handled = true
						if nn[f][i] {
							continue
						}
						for k := range eph.Edges {
							ek := eph.Edges[k]
							pred := eph.Block().Preds[k]
							okErr := false
							if kc, isC := ek.(*ssa.Const); isC {
								okErr = kc.Value == nil
							} else {
								okErr = p.ValState(ek, pred, nil) != an.NonNil && !isSentinelLoad(p, ek)
							}
							if okErr && mayNil(pph.Edges[k], 0) && p.ValState(pph.Edges[k], pred, nil) != an.NonNil {
								if nn[f] == nil {
									nn[f] = map[int]bool{}
								}
								nn[f][i] = true
								changed = true
							}
						}
					}
					if handled {
						continue
					}
				}
				for i := 0; i < errIdx; i++ {
					if !isPtrT(res.At(i).Type()) || nn[f][i] {
						continue
					}
					v := an.RetOperand(r, i)
					// a merged result returned behind the test of its sibling error: only the ways without an error count
					if ph, isPhi := v.(*ssa.Phi); isPhi {
						if edges, ok := p.SurvivingEdges(ph, b, nil); ok {
							may := false
							for _, k := range edges {
								if mayNil(ph.Edges[k], 0) && p.ValState(ph.Edges[k], ph.Block().Preds[k], nil) != an.NonNil {
									may = true
								}
							}
							if !may {
								continue
							}
						}
					}
					// a value that was nil-tested on this path is not nil here
					if mayNil(v, 0) && p.ValState(v, b, nil) != an.NonNil {
						if _, isC := v.(*ssa.Const); !isC {
							// forwarded pointer: only when not tested
						}
						if nn[f] == nil {
							nn[f] = map[int]bool{}
						}
						nn[f][i] = true
						changed = true
					}
				}
			}
		}
	}
	return nn
}

// ruleNilOnSuccess (C19): results that can be nil without an error are tested before they are dereferenced.
func ruleNilOnSuccess(c *report.Ctx) {
	p := c.P
	c.Rule("nil-on-success", "a pointer returned by a lookup that reports 'not found' as (nil, nil) is dereferenced only where it was tested against nil (on the edge it arrives by, for loop-carried values)", 15)
	nn := nilOnSuccess(p)
	calleeNN := func(call *ssa.Call, idx int) (bool, string) {
		for _, g := range p.Callees(call) {
			if nn[g][idx] {
				return true, sk(g)
			}
		}
		return false, ""
	}
	// Reviewed exception, re-checked on every run: the synced-to marker exists from construction on.
	excepted := map[string]string{}
	if ns, pst, fst := p.Fn(pkgTxmgr, "", "NewSyncStore"), p.Fn(pkgTxmgr, "", "putSyncedTo"), p.Fn(pkgTxmgr, "", "fetchSyncedTo"); ns != nil && pst != nil && fst != nil {
		for _, s := range calls(ns, pst) {
			if an.AnyAtom(p.GuardsOf(s), func(a an.Atom) bool {
				ex, ok := a.X.(*ssa.Extract)
				if !ok || a.Op.String() != "==" || !an.IsNilConst(a.Y) {
					return false
				}
				call, ok := ex.Tuple.(*ssa.Call)
				return ok && call.Call.StaticCallee() == fst
			}) {
				why := "NewSyncStore writes the genesis marker when none is stored (re-checked: putSyncedTo is called under fetchSyncedTo()==nil), and putSyncedTo stores the block row before the marker, so SyncedTo finds both"
				excepted["(*masswallet/txmgr.SyncStore).SyncedTo"] = why
				c.Exception("(*masswallet/txmgr.SyncStore).SyncedTo", why)
			}
		}
	}
	// flagged results: f returns (…, ptr, …, flag bool, …) and every return with a possibly-nil ptr has flag == false
	flagImpliesNonNil := func(g *ssa.Function, ptrIdx, flagIdx int) bool {
		if g == nil || g.Blocks == nil {
			return false
		}
		for _, b := range g.Blocks {
			r, ok := b.Instrs[len(b.Instrs)-1].(*ssa.Return)
			if !ok {
				continue
			}
			pv := an.RetOperand(r, ptrIdx)
			if p.ValState(pv, b, nil) == an.NonNil {
				continue
			}
			if _, isAlloc := pv.(*ssa.Alloc); isAlloc {
				continue
			}
			if pex, isEx := pv.(*ssa.Extract); isEx {
				if pc, isC := pex.Tuple.(*ssa.Call); isC && pc.Call.StaticCallee() != nil && alwaysNonNilResult(p, pc.Call.StaticCallee(), pex.Index) {
					continue
				}
			}
			fv, isK := an.RetOperand(r, flagIdx).(*ssa.Const)
			if !isK || fv.Value == nil || fv.Value.ExactString() != "false" {
				return false
			}
		}
		return true
	}
	var names []string
	for f := range nn {
		if p.InModule(f) {
			names = append(names, sk(f))
		}
	}
	sort.Strings(names)
	c.Note("module functions that can return (nil, nil): %s", strings.Join(names, ", "))
	for _, f := range p.ModFuncs {
		pk := an.FuncPkg(f)
		if pk == nil || (pk.Path() != pkgWallet && pk.Path() != pkgAPI && pk.Path() != pkgTxmgr && pk.Path() != pkgKeystore) {
			continue
		}
		n := 0
		seen := map[string]bool{}
		an.Instrs(f, func(in ssa.Instruction) {
			var base ssa.Value
			switch x := in.(type) {
			case *ssa.FieldAddr:
				base = x.X
			case *ssa.UnOp:
				if x.Op.String() != "*" || !isPtrT(x.X.Type()) {
					return
				}
				if _, isStruct := x.Type().Underlying().(*types.Struct); !isStruct {
					return
				}
				base = x.X
			default:
				return
			}
			check := func(ex *ssa.Extract, at, pred *ssa.BasicBlock, v ssa.Value) {
				call, ok := ex.Tuple.(*ssa.Call)
				if !ok || !isPtrT(ex.Type()) {
					return
				}
				isNN, who := calleeNN(call, ex.Index)
				if !isNN {
					return
				}
				key := sk(f) + ":deref:" + calleeName(p, call) + "#" + itoa(ex.Index)
				if pred != nil {
					key += ":loop-carried"
				}
				if seen[key+p.InstrPos(in)] {
					return
				}
				seen[key+p.InstrPos(in)] = true
				n++
				if n > 1 {
					key += "@" + itoa(n)
				}
				st := p.ValState(v, at, pred)
				flagged := false
				if g := call.Call.StaticCallee(); g != nil && pred == nil {
					flagged = an.AnyAtom(p.GuardsOf(in), func(a an.Atom) bool {
						fx, ok := a.X.(*ssa.Extract)
						if !ok || fx.Tuple != ssa.Value(call) || a.Op.String() != "ILLEGAL" || !a.Truth {
							return false
						}
						return flagImpliesNonNil(g, ex.Index, fx.Index)
					})
				}
				if why, isEx := excepted[who]; isEx {
					c.OK(key, "excepted: "+why, posOf(c, in))
				} else if st == an.NonNil {
					c.OK(key, "tested against nil before the dereference", posOf(c, in))
				} else if flagged {
					c.OK(key, "guarded by the call's own flag result, which is false on every return that leaves the pointer nil", posOf(c, in))
				} else {
					c.Fail(key, calleeName(p, call)+" can return a nil pointer with a nil error ("+who+"); its result is dereferenced here without a nil test on this path: a missing record / vanished block panics the caller (the follower goroutine dies silently)", posOf(c, in))
				}
			}
			switch b := base.(type) {
			case *ssa.Parameter:
				// handled from the call sites below
			case *ssa.Extract:
				check(b, in.Block(), nil, b)
			case *ssa.Phi:
				for i, e := range b.Edges {
					if ex, ok := e.(*ssa.Extract); ok && i < len(b.Block().Preds) {
						check(ex, b.Block(), b.Block().Preds[i], b)
					}
				}
			}
		})
		// a possibly-nil result handed to a module function that dereferences that parameter without testing it
		an.Instrs(f, func(in ssa.Instruction) {
			cc := an.CallOf(in)
			if cc == nil {
				return
			}
			g := cc.StaticCallee()
			if g == nil || !p.InModule(g) || g.Blocks == nil {
				return
			}
			for ai, a := range cc.Args {
				ex, ok := a.(*ssa.Extract)
				if !ok || !isPtrT(ex.Type()) {
					continue
				}
				call, ok := ex.Tuple.(*ssa.Call)
				if !ok {
					continue
				}
				isNN, who := calleeNN(call, ex.Index)
				if !isNN || ai >= len(g.Params) {
					continue
				}
				if _, isEx := excepted[who]; isEx {
					continue
				}
				if p.ValState(ex, in.Block(), nil) == an.NonNil {
					continue
				}
				if cg := call.Call.StaticCallee(); cg != nil && an.AnyAtom(p.GuardsOf(in), func(a an.Atom) bool {
					fx, ok := a.X.(*ssa.Extract)
					if !ok || fx.Tuple != ssa.Value(call) || a.Op.String() != "ILLEGAL" || !a.Truth {
						return false
					}
					return flagImpliesNonNil(cg, ex.Index, fx.Index)
				}) {
					continue // handed on under the call's own flag result, false on every return that leaves the pointer nil
				}
				// does g dereference the parameter where it is not known non-nil?
				deref := paramDeref(p, g, g.Params[ai])
				if deref == nil {
					continue
				}
				n++
				key := sk(f) + ":passes:" + calleeName(p, call) + "#" + itoa(ex.Index) + "=>" + sk(g)
				c.Fail(key, calleeName(p, call)+" can return a nil pointer with a nil error ("+who+"); the result is passed untested to "+sk(g)+", which dereferences it at "+p.InstrPos(deref)+": a missing record / vanished block panics", posOf(c, in))
			}
		})
	}
}

// paramDeref: an instruction of g — or of a function literal of g that captures the parameter — that selects a field
// of the pointer parameter par where it is not known to be non-nil. A parameter captured by a literal lives in a
// cell (stored once, on entry); loads of the cell, in g and through the literal's free variable, are the parameter.
func paramDeref(p *an.Prog, g *ssa.Function, par *ssa.Parameter) ssa.Instruction {
	var found ssa.Instruction
	var scan func(f *ssa.Function, isPar func(v ssa.Value) bool, depth int)
	scan = func(f *ssa.Function, isPar func(v ssa.Value) bool, depth int) {
		if found != nil || f == nil || depth > 3 {
			return
		}
		an.Instrs(f, func(gi ssa.Instruction) {
			if found != nil {
				return
			}
			switch x := gi.(type) {
			case *ssa.FieldAddr:
				if isPar(x.X) && p.ValState(x.X, gi.Block(), nil) != an.NonNil {
					found = gi
				}
			case *ssa.MakeClosure:
				inner, ok := x.Fn.(*ssa.Function)
				if !ok {
					return
				}
				for bi, bv := range x.Bindings {
					if bi >= len(inner.FreeVars) {
						break
					}
					fv := inner.FreeVars[bi]
					switch {
					case isPar(bv):
						// captured by value (never reassigned): the free variable is the parameter
						if p.ValState(bv, gi.Block(), nil) == an.NonNil {
							continue
						}
						scan(inner, func(v ssa.Value) bool { return v == ssa.Value(fv) }, depth+1)
					case isCellOf(bv, isPar):
						if ld := loadOfCellBefore(bv, gi); ld != nil && p.ValState(ld, gi.Block(), nil) == an.NonNil {
							continue
						}
						scan(inner, func(v ssa.Value) bool {
							u, ok := v.(*ssa.UnOp)
							return ok && u.Op == token.MUL && u.X == ssa.Value(fv)
						}, depth+1)
					}
				}
			}
		})
	}
	cellPar := func(v ssa.Value) bool {
		if v == ssa.Value(par) {
			return true
		}
		u, ok := v.(*ssa.UnOp)
		if !ok || u.Op != token.MUL {
			return false
		}
		return isCellOf(u.X, func(w ssa.Value) bool { return w == ssa.Value(par) })
	}
	scan(g, cellPar, 0)
	return found
}

// isCellOf: v is a local cell whose only store puts a value satisfying isVal into it.
func isCellOf(v ssa.Value, isVal func(ssa.Value) bool) bool {
	a, ok := v.(*ssa.Alloc)
	if !ok || a.Referrers() == nil {
		return false
	}
	n := 0
	okVal := false
	for _, r := range *a.Referrers() {
		if st, isSt := r.(*ssa.Store); isSt && st.Addr == ssa.Value(a) {
			n++
			okVal = isVal(st.Val)
		}
	}
	return n == 1 && okVal
}

// loadOfCellBefore: a load of cell in the block of in, before in (for a nil-test lookup at the closure's creation).
func loadOfCellBefore(cell ssa.Value, in ssa.Instruction) ssa.Value {
	var last ssa.Value
	for _, x := range in.Block().Instrs {
		if x == in {
			break
		}
		if u, ok := x.(*ssa.UnOp); ok && u.Op == token.MUL && u.X == cell {
			last = u
		}
	}
	return last
}

var _ = report.New

// spilledSites: number of blocks that store into the cell.
func spilledSites(cell *ssa.Alloc) int {
	bs := map[*ssa.BasicBlock]bool{}
	for _, r := range *cell.Referrers() {
		if st, ok := r.(*ssa.Store); ok && st.Addr == ssa.Value(cell) {
			bs[st.Block()] = true
		}
	}
	return len(bs)
}

// lastStoreIn: the value of the last store into cell made in block b (nil when b has none).
func lastStoreIn(b *ssa.BasicBlock, cell *ssa.Alloc) ssa.Value {
	var v ssa.Value
	for _, in := range b.Instrs {
		if st, ok := in.(*ssa.Store); ok && st.Addr == ssa.Value(cell) {
			v = st.Val
		}
	}
	return v
}

// isSentinelLoad: a load of a package-level error variable that is only ever its initialiser (errors.New / fmt.Errorf).
func isSentinelLoad(p *an.Prog, v ssa.Value) bool {
	u, ok := v.(*ssa.UnOp)
	if !ok || u.Op != token.MUL {
		return false
	}
	g, ok := u.X.(*ssa.Global)
	return ok && p.Sentinel(g)
}
