package rules

import (
	"fmt"
	"go/token"
	"go/types"
	"sort"
	"strings"

	"golang.org/x/tools/go/ssa"

	"verif/internal/an"
	"verif/internal/report"
)

func init() {
	register(&Check{
		ID: "C10",
		Explain: "Structural necessary conditions of the staking/binding life cycle, decided on SSA: " +
			"(1) both builders of wallet inputs (addTxIn, constructTxIn) set the input sequence to the script's maturity under IsStaking() and to the binding locked period under IsBinding() && warm-up, and no later store overrides it before the input is added; the two siblings agree; " +
			"(2) history flips are paired with credit flips: spending a staking/binding credit withdraws its history entry, un-spending it un-withdraws it; both flips delete the old key and write the new one; confirmation moves pending history to mined history, rollback moves it back; " +
			"(3) the class bits written into credit values equal the bits the reader decodes; " +
			"(4) staking/binding coins are excluded from automatic selection (shared atoms with C02).",
		NotDec: "withdrawable-at-height arithmetic; history contents as values.",
		Run:    runC10,
	})
}

func runC10(c *report.Ctx) {
	p := c.P
	rulePendingInputsAppend(c) // a replaced pending deposit is evicted (and its history entry removed) only if it is still listed as a spender
	ruleSequenceSiblings(c)

	// ---- (2) history flips -----------------------------------------------------------------------------
	c.Rule("history-pairing", "credit spent ⇒ history withdrawn; credit un-spent ⇒ history un-withdrawn; each flip deletes the old key and writes the new one; confirmation/rollback move the entry between the pending and the mined history", 8)
	spend := fn(c, pkgTxmgr, "", "spendCredit")
	unspend := fn(c, pkgTxmgr, "", "unspendRawCredit")
	withdraw := fn(c, pkgTxmgr, "", "withdrawGame")
	unwithdraw := fn(c, pkgTxmgr, "", "unwithdrawGame")
	umb := fn(c, pkgTxmgr, "TxStore", "updateMinedBalance")
	rb := fn(c, pkgTxmgr, "TxStore", "Rollback")
	isGameAtom := func(a an.Atom) bool {
		for _, m := range []string{"IsStaking", "IsBinding", "isStaking", "isBinding"} {
			if an.BoolCall(a, nil, m, true) {
				return true
			}
		}
		return false
	}
	pairUnderGame := func(f *ssa.Function, first, second *ssa.Function, what string) {
		if f == nil || first == nil || second == nil {
			return
		}
		ss := calls(f, first)
		if len(ss) == 0 {
			c.Fail(sk(f)+":"+what, "anchor lost: "+sk(f)+" no longer calls "+sk(first), p.Pos(f.Pos()))
		}
		for i, s := range ss {
			key := siteKey(f, what, i+1)
			// from the staking/binding branch after the credit flip, success/next iteration requires the history flip
			found := false
			for _, b := range f.Blocks {
				if !s.Block().Dominates(b) || len(b.Preds) != 1 && !an.AnyAtom(p.Guards(b), isGameAtom) {
					continue
				}
				gs := p.Guards(b)
				// first block where the game atom becomes true
				if !an.AnyAtom(gs, isGameAtom) {
					continue
				}
				isFirst := true
				if id := b.Idom(); id != nil && an.AnyAtom(p.Guards(id), isGameAtom) {
					isFirst = false
				}
				if !isFirst {
					continue
				}
				found = true
				hdr := loopHeaderOf(s.Block())
				srch := &an.Search{P: p, Fn: f, Cut: cutCalls(p, an.Set(second)),
					GoalReturn: func(r *ssa.Return, pred *ssa.BasicBlock) bool { return p.ClassifyReturn(r, pred) != an.RetError },
					GoalBlock:  func(nb, pred *ssa.BasicBlock) bool { return hdr != nil && nb == hdr }}
				if w := srch.Run(b, 0, b.Preds[0]); w != nil {
					c.Fail(key, "a staking/binding credit is flipped by "+sk(first)+" but its history entry is not flipped by "+sk(second)+": the deposit is shown with the wrong withdrawn state", posOf(c, s), w...)
				} else {
					c.OK(key, sk(first)+" on a staking/binding credit is followed by "+sk(second), posOf(c, s))
				}
			}
			if !found {
				c.Fail(key, "no staking/binding branch follows "+sk(first)+": the history entry is never flipped", posOf(c, s))
			}
		}
	}
	pairUnderGame(umb, spend, withdraw, "spendCredit~withdrawGame")
	pairUnderGame(rb, unspend, unwithdraw, "unspendRawCredit~unwithdrawGame")
	hist := p.Type(pkgTxmgr, "gameHistory")
	for _, t := range []struct {
		f          *ssa.Function
		first, end string
	}{{withdraw, "false", "true"}, {unwithdraw, "true", "false"}} {
		if t.f == nil || hist == nil {
			continue
		}
		// the two flips may share one helper that takes the direction as an argument: judge the helper under the
		// constant arguments this wrapper passes
		ef := t.f
		bind := map[*ssa.Parameter]string{}
		if len(fieldStores(t.f, hist, "withdrawn")) == 0 {
			var only *ssa.Call
			cnt := 0
			an.Instrs(t.f, func(in ssa.Instruction) {
				if call, ok := in.(*ssa.Call); ok {
					if g := call.Call.StaticCallee(); g != nil && g.Blocks != nil && an.FuncPkg(g) != nil && an.FuncPkg(g).Path() == pkgTxmgr {
						only = call
						cnt++
					}
				}
			})
			if cnt == 1 && len(fieldStores(only.Call.StaticCallee(), hist, "withdrawn")) > 0 {
				ef = only.Call.StaticCallee()
				for i, a := range only.Call.Args {
					if k, isK := a.(*ssa.Const); isK && k.Value != nil && i < len(ef.Params) {
						bind[ef.Params[i]] = k.Value.ExactString()
					}
				}
			}
		}
		valOf := func(v ssa.Value) string {
			if par, ok := v.(*ssa.Parameter); ok {
				if s, ok := bind[par]; ok {
					return s
				}
			}
			if u, ok := v.(*ssa.UnOp); ok && u.Op == token.NOT {
				if par, ok := u.X.(*ssa.Parameter); ok {
					switch bind[par] {
					case "true":
						return "false"
					case "false":
						return "true"
					}
				}
			}
			return p.Desc(v)
		}
		// success passes Bucket.Delete and Bucket.Put
		for _, m := range []string{"Delete", "Put"} {
			mm := m
			w := p.MustPassOnSuccess(ef, func(in ssa.Instruction) bool {
				cc := an.CallOf(in)
				return cc != nil && cc.IsInvoke() && cc.Method.Name() == mm && isBucketIface(cc.Value.Type())
			})
			key := sk(t.f) + "=>Bucket." + m
			if w != nil {
				what := "the old history key is not deleted: the deposit appears twice (withdrawn and not withdrawn)"
				if m == "Put" {
					what = "the new history key is not written: the deposit disappears from the history"
				}
				c.Fail(key, what, p.Pos(t.f.Pos()), w...)
			} else {
				c.OK(key, "every success path passes Bucket."+m, p.Pos(t.f.Pos()))
			}
		}
		// the withdrawn flag is set to `first` for the lookup key and to `end` for the new key
		var vals []string
		for _, st := range fieldStores(ef, hist, "withdrawn") {
			vals = append(vals, valOf(st.(*ssa.Store).Val))
		}
		key := sk(t.f) + ":withdrawn-flip"
		if len(vals) == 2 && vals[0] == t.first && vals[1] == t.end {
			c.OK(key, "looks up withdrawn="+t.first+", writes withdrawn="+t.end, p.Pos(t.f.Pos()))
		} else {
			c.Fail(key, fmt.Sprintf("the withdrawn flag sequence is %v, expected [%s %s]", vals, t.first, t.end), p.Pos(t.f.Pos()))
		}
	}
	// confirmation: pending history → mined history; rollback: mined → pending
	ac := fn(c, pkgTxmgr, "UtxoStore", "AddCredits")
	delUGH := fn(c, pkgTxmgr, "", "deleteUnminedGameHistory")
	putGH := fn(c, pkgTxmgr, "", "putGameHistory")
	if ac != nil && delUGH != nil && putGH != nil {
		for i, s := range calls(ac, delUGH) {
			pairedInIteration(c, siteKey(ac, "deleteUnminedGameHistory~putGameHistory", i+1), s, an.Set(putGH), "putGameHistory", nil, "")
		}
		if len(calls(ac, delUGH)) == 0 || len(calls(ac, putGH)) == 0 {
			c.Fail(sk(ac)+":history-move", "AddCredits no longer moves a confirmed deposit from the pending history to the mined history", p.Pos(ac.Pos()))
		}
	}
	if rb != nil {
		var del, put ssa.Instruction
		for _, op := range schemaOps(p) {
			if op.Fn != rb {
				continue
			}
			if op.Bucket == "nsGameHistory" && op.Method == "Delete" {
				del = op.Site
			}
			if op.Bucket == "nsUnminedGameHistory" && op.Method == "Put" {
				put = op.Site
			}
		}
		key := sk(rb) + ":history-move"
		if del == nil || put == nil {
			c.Fail(key, "Rollback no longer moves a rolled-back deposit from the mined history to the pending history", p.Pos(rb.Pos()))
		} else if an.AnyAtom(p.GuardsOf(del), isGameAtom) && an.AnyAtom(p.GuardsOf(put), isGameAtom) && instrDominates(del, put) {
			c.OK(key, "under IsStaking()||IsBinding(): mined entry deleted, pending entry written", posOf(c, del))
		} else {
			c.Fail(key, "the history move of Rollback is not under the staking/binding test or not delete-then-put", posOf(c, del))
		}
	}

	// ---- (3) class bits ---------------------------------------------------------------------------------
	ruleClassBits(c)

	// ---- (4) excluded from selection -----------------------------------------------------------------------
	ruleEligibility(c, "locks")

	// ---- (5) the two history buckets keep their own key layouts --------------------------------------------
	ruleSchema(c, []string{"nsGameHistory", "nsUnminedGameHistory"}, 6, 3)
	ruleLayout(c, []string{"game-history-key", "credit-value"}, 15)
	ruleFlagByteRMW(c)
	ruleMaturityPerTemplate(c)
	ruleRelevantIndexStored(c)
	ruleUnminedCreditCheckedPerOutput(c)

	ruleImportAppliesSpends(c)
	// a deposit is reported withdrawable exactly from the confirmation count its script's lock demands
	ruleMaturityAtoms(c, map[string]bool{"WithdrawableStaking": true, "WithdrawableBinding": true})
}

// ruleImportAppliesSpends (C10, C08): the import path applies the spends of a transaction another wallet already recorded.
func ruleImportAppliesSpends(c *report.Ctx) {
	c.Rule("import-applies-spends", "insertMinedTxForImporting passes updateMinedBalance on every success path (also when the transaction record already exists because another wallet shares the transaction — e.g. one a removal deliberately kept): a spend or withdrawal by the imported wallet is applied to its credit, history and balance", 1)
	mustPass(c, fn(c, pkgTxmgr, "TxStore", "insertMinedTxForImporting"), an.Set(fn(c, pkgTxmgr, "TxStore", "updateMinedBalance")), "updateMinedBalance")
}

// ruleClassBits: bit masks OR-ed into byte 8 of a credit value by the writers vs the reader's decode.
func ruleClassBits(c *report.Ctx) {
	p := c.P
	c.Rule("class-bits", "the writers of credit values set, and the reader decodes, the same bits of the flag byte for change / staking / binding", 3)
	w1 := fn(c, pkgTxmgr, "", "valueUnspentCredit")
	w2 := fn(c, pkgTxmgr, "", "valueUnminedCredit")
	rd := fn(c, pkgTxmgr, "", "readCreditValue")
	if w1 == nil || w2 == nil || rd == nil {
		return
	}
	clsStaking := p.Obj(pkgTxmgr, "ClassStakingUtxo")
	clsBinding := p.Obj(pkgTxmgr, "ClassBindingUtxo")
	// kindOf: which of change / staking / binding the guards of an instruction speak of
	kindOf := func(in ssa.Instruction) string {
		kind := "?"
		for _, g := range p.GuardsOf(in) {
			d := g.Text
			switch {
			case strings.Contains(d, "Change") || d == "param:bool":
				kind = "change"
			case strings.Contains(d, "IsStaking") || (clsStaking != nil && g.Op == token.EQL && g.Y != nil && p.Desc(g.Y) == constString(clsStaking) && strings.Contains(d, "Class")):
				kind = "staking"
			case strings.Contains(d, "IsBinding") || (clsBinding != nil && g.Op == token.EQL && g.Y != nil && p.Desc(g.Y) == constString(clsBinding) && strings.Contains(d, "Class")):
				kind = "binding"
			}
			if kind != "?" {
				break
			}
		}
		return kind
	}
	// writer: map kind → mask, from stores to v[8] of (old | mask) or plain mask under a guard
	writerBits := func(f *ssa.Function) map[string]int64 {
		out := map[string]int64{}
		an.Instrs(f, func(in ssa.Instruction) {
			st, ok := in.(*ssa.Store)
			if !ok {
				return
			}
			ia, ok := st.Addr.(*ssa.IndexAddr)
			if !ok {
				return
			}
			if k, isK := constInt(ia.Index); !isK || k != 8 {
				return
			}
			var mask int64 = -1
			if k, isK := constInt(st.Val); isK {
				mask = k
			} else if b, isB := st.Val.(*ssa.BinOp); isB && b.Op == token.OR {
				if k, isK := constInt(b.Y); isK {
					mask = k
				}
			}
			if mask < 0 {
				// the byte assembled in a variable and stored once: every `x | mask` on the way into the stored value
				// counts, under what held where it was computed (and a constant merged in, under what held on its edge)
				seen := map[ssa.Value]bool{}
				var walk func(v ssa.Value)
				walk = func(v ssa.Value) {
					if v == nil || seen[v] {
						return
					}
					seen[v] = true
					switch x := v.(type) {
					case *ssa.Phi:
						for i, e := range x.Edges {
							if k, isK := constInt(e); isK {
								if k > 0 && i < len(x.Block().Preds) {
									pr := x.Block().Preds[i]
									if kd := kindOf(pr.Instrs[len(pr.Instrs)-1]); kd != "?" {
										out[kd] = k
									}
								}
								continue
							}
							walk(e)
						}
					case *ssa.BinOp:
						if x.Op != token.OR {
							return
						}
						if k, isK := constInt(x.Y); isK {
							if kd := kindOf(x); kd != "?" {
								out[kd] = k
							}
							walk(x.X)
						} else if k, isK := constInt(x.X); isK {
							if kd := kindOf(x); kd != "?" {
								out[kd] = k
							}
							walk(x.Y)
						}
					case *ssa.Convert:
						walk(x.X)
					}
				}
				walk(st.Val)
				return
			}
			kind := kindOf(st)
			out[kind] = mask
		})
		return out
	}
	b1, b2 := writerBits(w1), writerBits(w2)
	// reader: change mask; class decode (v[8] & A) >> S switch K → class
	rbits := map[string]int64{}
	var andMask, shift int64 = -1, -1
	an.Instrs(rd, func(in ssa.Instruction) {
		b, ok := in.(*ssa.BinOp)
		if !ok {
			return
		}
		switch b.Op {
		case token.AND:
			if k, isK := constInt(b.Y); isK {
				// which field does the result feed?
				for _, r := range *b.Referrers() {
					if cmp, isCmp := r.(*ssa.BinOp); isCmp && cmp.Op == token.NEQ {
						for _, rr := range *cmp.Referrers() {
							if st, isSt := rr.(*ssa.Store); isSt {
								d := p.Desc(st.Addr)
								if strings.HasSuffix(d, "flags.Change") {
									rbits["change"] = k
								}
								if strings.HasSuffix(d, "flags.Spent") {
									rbits["spent"] = k
								}
							}
						}
					}
					if sh, isSh := r.(*ssa.BinOp); isSh && sh.Op == token.SHR {
						andMask = k
						if s, isK := constInt(sh.Y); isK {
							shift = s
						}
					}
				}
			}
		}
	})
	if andMask >= 0 && shift >= 0 {
		// switch cases: comparisons of the shifted value with constants, guarding stores of Class constants
		cls := p.Type(pkgTxmgr, "UtxoFlags")
		_ = cls
		an.Instrs(rd, func(in ssa.Instruction) {
			st, ok := in.(*ssa.Store)
			if !ok || !strings.HasSuffix(p.Desc(st.Addr), "flags.Class") {
				return
			}
			cv := p.Desc(st.Val)
			for _, g := range p.GuardsOf(st) {
				if g.Op == token.EQL && g.Y != nil {
					if k, isK := constInt(g.Y); isK {
						pattern := (k << uint(shift)) & andMask
						if clsStaking != nil && cv == constString(clsStaking) {
							rbits["staking"] = pattern
						}
						if clsBinding != nil && cv == constString(clsBinding) {
							rbits["binding"] = pattern
						}
						break
					}
				}
			}
		})
	}
	if rbits["staking"] == 0 && rbits["binding"] == 0 {
		// the class decoded bit by bit: a class constant is handed on (stored, or merged into what is stored) under
		// tests `flags & mask != 0`; the bits a class needs set are its pattern
		bitsUnder := func(gs []an.Atom) int64 {
			var m int64
			for _, g := range gs {
				if (g.Op != token.NEQ && g.Op != token.EQL) || g.X == nil || g.Y == nil {
					continue
				}
				and, ok := g.X.(*ssa.BinOp)
				z, isZ := constInt(g.Y)
				if !ok || and.Op != token.AND || !isZ {
					continue
				}
				k, isK := constInt(and.Y)
				switch {
				case !isK:
				case g.Op == token.NEQ && z == 0 && k > 0 && k&(k-1) == 0: // flags & bit != 0 (one bit: it is set)
					m |= k
				case g.Op == token.EQL && z != 0: // flags & classMask == pattern
					m |= z & k
				}
			}
			return m
		}
		note := func(v ssa.Value, gs []an.Atom) {
			cv := p.Desc(v)
			if _, isK := v.(*ssa.Const); !isK {
				return
			}
			if clsStaking != nil && cv == constString(clsStaking) {
				rbits["staking"] = bitsUnder(gs)
			}
			if clsBinding != nil && cv == constString(clsBinding) {
				rbits["binding"] = bitsUnder(gs)
			}
		}
		an.Instrs(rd, func(in ssa.Instruction) {
			switch x := in.(type) {
			case *ssa.Store:
				if strings.HasSuffix(p.Desc(x.Addr), "flags.Class") {
					note(x.Val, p.GuardsOf(x))
				}
			case *ssa.Phi:
				if clsStaking == nil || !types.Identical(x.Type(), clsStaking.Type()) {
					return
				}
				for i, e := range x.Edges {
					note(e, p.GuardsOnEdge(x.Block().Preds[i], x.Block()))
				}
			}
		})
	}
	for _, kind := range []string{"change", "staking", "binding"} {
		key := "credit-flag-byte:" + kind
		if b1[kind] == rbits[kind] && b2[kind] == rbits[kind] && rbits[kind] > 0 {
			c.OK(key, fmt.Sprintf("writers and reader agree on mask %#x", rbits[kind]), p.Pos(rd.Pos()))
		} else {
			c.Fail(key, fmt.Sprintf("the %s bit differs: valueUnspentCredit writes %#x, valueUnminedCredit writes %#x, readCreditValue decodes %#x — a %s deposit is stored as / read back as another class", kind, b1[kind], b2[kind], rbits[kind], kind), p.Pos(rd.Pos()))
		}
	}
	if rbits["spent"] == 1 {
		c.OK("credit-flag-byte:spent", "reader decodes bit 0", p.Pos(rd.Pos()))
	}
}

// ruleSequenceSiblings (C10, C03): the two input builders give staking/binding inputs the sequence their scripts demand.
func ruleSequenceSiblings(c *report.Ctx) {
	p := c.P
	// ---- (1) sequence siblings ----------------------------------------------------------------------
	c.Rule("sequence-siblings", "inputs spending a staking credit carry Sequence = script maturity, inputs spending a binding credit after warm-up carry the binding locked period; nothing overrides it before AddTxIn", 4)
	txin := p.Type(pkgWire, "TxIn")
	addTxInM := p.Fn(pkgWire, "MsgTx", "AddTxIn")
	warm := p.Fn("github.com/massnetorg/mass-core/consensus/forks", "", "EnforceMASSIP0002WarmUp")
	if txin == nil || addTxInM == nil || warm == nil {
		c.Lost("wire.TxIn / MsgTx.AddTxIn / forks.EnforceMASSIP0002WarmUp")
	} else {
		sigs := map[string]string{}
		for _, spec := range [][2]string{{"WalletManager", "addTxIn"}, {"WalletManager", "constructTxIn"}} {
			f := fn(c, pkgWallet, spec[0], spec[1])
			if f == nil {
				continue
			}
			newTxIn := p.Fn(pkgWire, "", "NewTxIn")
			effs := finalAssignments(p, f, txin, "Sequence", newTxIn, addTxInM)
			if len(effs) == 0 {
				c.Fail(sk(f)+":staking-sequence", "no assignment of TxIn.Sequence reaches AddTxIn (anchor lost): a withdrawal built by this path fails the script's CHECKSEQUENCEVERIFY", p.Pos(f.Pos()))
				continue
			}
			is := func(name string, truth bool) func(an.Atom) bool {
				return func(a an.Atom) bool {
					if name == "warm" {
						return an.BoolCall(a, warm, "", truth)
					}
					return an.BoolCall(a, nil, name, truth)
				}
			}
			var sig []string
			okStk, okBnd := false, false
			for _, e := range effs {
				d := "the constructor's default"
				if e.Val != nil {
					d = p.Desc(e.Val)
				}
				isMat := strings.Contains(d, "PkScript.Maturity(")
				isLocked := d == "global:consensus.MASSIP0002BindingLockedPeriod"
				stkT, stkF := an.AnyAtom(e.Atoms, is("IsStaking", true)), an.AnyAtom(e.Atoms, is("IsStaking", false))
				bndT := an.AnyAtom(e.Atoms, is("IsBinding", true))
				warmT := an.AnyAtom(e.Atoms, is("warm", true))
				notBndWarm := an.AnyAtom(e.Atoms, func(a an.Atom) bool { return is("IsBinding", false)(a) || is("warm", false)(a) })
				switch {
				case isMat && stkT:
					okStk = true
					sig = append(sig, "IsStaking=>Maturity()")
					c.OK(sk(f)+":staking-sequence", "the last value before AddTxIn under the staking test is the script's maturity", posOf(c, e.At))
				case isLocked && bndT && warmT:
					okBnd = true
					sig = append(sig, "IsBinding&&WarmUp=>MASSIP0002BindingLockedPeriod")
					c.OK(sk(f)+":binding-sequence", "the last value before AddTxIn under the binding-after-warm-up test is the binding locked period", posOf(c, e.At))
				}
				if !isMat && !(stkF || bndT) {
					c.Fail(sk(f)+":staking-sequence", "an input spending a staking credit can reach AddTxIn with Sequence = "+d+" (no path condition excludes a staking script here), not the script's maturity: the withdrawal fails the script's CHECKSEQUENCEVERIFY", posOf(c, e.At), an.AtomTexts(e.Atoms)...)
				}
				if !isLocked && !(notBndWarm || stkT) {
					c.Fail(sk(f)+":binding-sequence", "an input spending a binding credit after warm-up can reach AddTxIn with Sequence = "+d+" (no path condition excludes it), not the binding locked period: the withdrawal is consensus-invalid", posOf(c, e.At), an.AtomTexts(e.Atoms)...)
				}
			}
			if !okStk {
				c.Fail(sk(f)+":staking-sequence", "the staking sequence assignment is missing: a withdrawal built by this path fails the script's CHECKSEQUENCEVERIFY", p.Pos(f.Pos()))
			}
			if !okBnd {
				c.Fail(sk(f)+":binding-sequence", "the binding sequence assignment is missing: a withdrawal built by this path fails the script's CHECKSEQUENCEVERIFY", p.Pos(f.Pos()))
			}
			sort.Strings(sig)
			sigs[sk(f)] = strings.Join(sig, "; ")
		}
		var fs []string
		for k := range sigs {
			fs = append(fs, k)
		}
		sort.Strings(fs)
		if len(fs) == 2 {
			if sigs[fs[0]] == sigs[fs[1]] {
				c.OK("addTxIn==constructTxIn", "siblings agree: "+sigs[fs[0]], "")
			} else {
				c.Fail("addTxIn==constructTxIn", "the automatic and the manual input builders disagree on the sequence rule", "", fs[0]+": "+sigs[fs[0]], fs[1]+": "+sigs[fs[1]])
			}
		}
	}

}
