package rules

import (
	"go/token"
	"go/types"
	"strings"

	"golang.org/x/tools/go/ssa"

	"verif/internal/an"
	"verif/internal/report"
)

func init() {
	register(&Check{
		ID: "C11",
		Explain: "Structural necessary conditions of the key/value transaction layer (LevelDB backend), decided on SSA + call graph: " +
			"(1) atomic commit: sole writer, one write per commit, emptied batch per transaction (shared with C06); " +
			"(2) writer exclusion: BeginTx returns holding the writer mutex, Commit and Rollback of a write transaction release it on every path; " +
			"(3) every operation that queues a put/delete is dominated by the not-read-only test; " +
			"(4) read-your-writes: every method that reads the live store also consults the transaction's overlay when not read-only, and the de-duplication set of a merged read is keyed by the store's inner key on both sides; " +
			"(5) bucket isolation: every key handed to the store or to the overlay derives from innerKey/innerKeyForIterator/joinBucketPath, keys returned to callers have the bucket prefix sliced off, and bucket names are validated (no path separator) before an index entry is written.",
		NotDec: "ordering and exactly-once of merged iteration (the write-transaction iterator concatenates store and overlay — behavioural; left to a dynamic family); persistence across reopen; the RocksDB backend (+build rocksdb, cgo headers absent — not analysed).",
		Run:    runC11,
	})
}

func runC11(c *report.Ctx) {
	p := c.P
	ruleSoleWriter(c)
	ruleHandleStateFollowsCommit(c)
	rulePrefixLimit(c)
	ruleBucketCacheKey(c)
	ruleOverlaySequence(c)
	ruleWholeBucketLimit(c)
	rulePrefixTerminated(c)
	ruleBucketPathCutOnlyAtSeparators(c)

	// ---- (2) writer exclusion ----------------------------------------------------------------------
	ruleWriterLock(c)
	notRO := func(a an.Atom) bool {
		return a.Op == token.ILLEGAL && !a.Truth && strings.HasSuffix(p.Desc(a.X), ".readOnly")
	}

	// ---- (3) read-only guard ------------------------------------------------------------------------------
	c.Rule("readonly-guard", "batch.Put/batch.Delete are reached only under !tx.readOnly (locally or in every ldb caller)", 8)
	bPut := fn(c, pkgLDB, "batch", "Put")
	bDel := fn(c, pkgLDB, "batch", "Delete")
	bGet := fn(c, pkgLDB, "batch", "Get")
	bNet := fn(c, pkgLDB, "batch", "GetNetPutsByPrefix")
	newBI := fn(c, pkgLDB, "", "newBatchIterator")
	var guardedFn func(f *ssa.Function, depth int, seen map[*ssa.Function]bool) bool
	guardedFn = func(f *ssa.Function, depth int, seen map[*ssa.Function]bool) bool {
		if seen[f] {
			return true // recursion: judged by the non-recursive entries
		}
		if depth > 6 {
			return false
		}
		seen[f] = true
		n := 0
		for _, cl := range p.Callers(f) {
			if cl.E.Kind == "ref" || an.FuncPkg(cl.From) == nil || an.FuncPkg(cl.From).Path() != pkgLDB {
				continue
			}
			n++
			if an.AnyAtom(p.GuardsOf(cl.E.Site), notRO) {
				continue
			}
			if !guardedFn(cl.From, depth+1, seen) {
				return false
			}
		}
		return n > 0
	}
	for _, f := range p.ModFuncs {
		if pk := an.FuncPkg(f); pk == nil || pk.Path() != pkgLDB {
			continue
		}
		k := 0
		for _, s := range append(calls(f, bPut), calls(f, bDel)...) {
			k++
			key := siteKey(f, calleeName(p, s), k)
			if an.AnyAtom(p.GuardsOf(s), notRO) || guardedFn(f, 0, map[*ssa.Function]bool{}) {
				c.OK(key, "under !readOnly", posOf(c, s))
			} else {
				c.Fail(key, "an operation is queued into the batch without the read-only test: a read transaction (whose batch is nil / which never commits) silently accepts writes or crashes", posOf(c, s))
			}
		}
	}

	// ---- (4) read-your-writes ------------------------------------------------------------------------------
	c.Rule("read-your-writes", "a method that reads the committed store (DB.Get / DB.NewIterator) also consults the transaction's overlay under !readOnly", 10)
	for _, f := range p.ModFuncs {
		if pk := an.FuncPkg(f); pk == nil || pk.Path() != pkgLDB {
			continue
		}
		var reads []ssa.Instruction
		an.Instrs(f, func(in ssa.Instruction) {
			cc := an.CallOf(in)
			if cc == nil || cc.StaticCallee() == nil {
				return
			}
			cal := cc.StaticCallee()
			if an.FuncPkg(cal) != nil && an.FuncPkg(cal).Path() == pkgLevelDB && (cal.Name() == "Get" || cal.Name() == "NewIterator" || cal.Name() == "Has") {
				if rn := an.NamedOf(cal.Signature.Recv().Type()); rn != nil && rn.Obj().Name() == "DB" {
					reads = append(reads, in)
				}
			}
		})
		if len(reads) == 0 {
			continue
		}
		var overlay []ssa.Instruction
		for _, o := range []*ssa.Function{bGet, bNet, newBI} {
			overlay = append(overlay, calls(f, o)...)
		}
		key := sk(f) + ":overlay"
		if len(overlay) == 0 {
			c.Fail(key, "reads the committed store without consulting the write transaction's overlay: the transaction does not see its own earlier writes/deletes", posOf(c, reads[0]))
			continue
		}
		okG := false
		for _, o := range overlay {
			if an.AnyAtom(p.GuardsOf(o), notRO) || guardedFn(f, 0, map[*ssa.Function]bool{}) {
				okG = true
			}
		}
		if okG {
			c.OK(key, "overlay consulted under !readOnly", posOf(c, reads[0]))
		} else {
			c.Fail(key, "the overlay is consulted without the read-only test (nil batch dereference for read transactions) or not at all", posOf(c, overlay[0]))
		}
	}
	// de-dup sets keyed consistently
	for _, f := range p.ModFuncs {
		if pk := an.FuncPkg(f); pk == nil || pk.Path() != pkgLDB {
			continue
		}
		an.Instrs(f, func(in ssa.Instruction) {
			mm, ok := in.(*ssa.MakeMap)
			if !ok {
				return
			}
			mt, ok := mm.Type().Underlying().(*types.Map)
			if !ok {
				return
			}
			if st, isSt := mt.Elem().Underlying().(*types.Struct); !isSt || st.NumFields() != 0 {
				return
			}
			// classify every key used with this set
			classes := map[string][]string{}
			for _, r := range *mm.Referrers() {
				var k ssa.Value
				switch x := r.(type) {
				case *ssa.MapUpdate:
					k = x.Key
				case *ssa.Lookup:
					k = x.Index
				default:
					continue
				}
				cl := setKeyClass(p, k)
				classes[cl] = append(classes[cl], p.InstrPos(r))
			}
			key := sk(f) + ":dedup-set"
			if len(classes) <= 1 {
				for cl := range classes {
					c.OK(key, "all keys of the de-duplication set are "+cl, posOf(c, in))
				}
				return
			}
			var parts []string
			for cl, pos := range classes {
				parts = append(parts, cl+"@"+strings.Join(pos, ","))
			}
			c.Fail(key, "the de-duplication set of a merged read is filled and probed with keys of different spaces ("+strings.Join(parts, " vs ")+"): an entry present in both the store and the overlay is returned twice", posOf(c, in))
		})
	}

	// ---- (5) bucket isolation ---------------------------------------------------------------------------------
	c.Rule("bucket-isolation", "store and overlay keys of bucket operations come from innerKey / innerKeyForIterator / joinBucketPath; returned keys have the prefix sliced off; bucket names are validated before an index entry is written", 15)
	// the key builders (innerKey and innerKeyForIterator today): the methods of levelBucket that hand back a byte
	// slice made from the bucket's path and the path separator
	builders := map[*ssa.Function]bool{}
	lb := p.Type(pkgLDB, "levelBucket")
	sepC := p.Obj(pkgLDB, "bucketPathSep")
	for _, f := range p.ModFuncs {
		if pk := an.FuncPkg(f); pk == nil || pk.Path() != pkgLDB || f.Signature.Recv() == nil || lb == nil {
			continue
		}
		if n := an.NamedOf(f.Signature.Recv().Type()); n == nil || n.Obj() != lb.Obj() || f.Signature.Results().Len() == 0 {
			continue
		}
		if sl, ok := f.Signature.Results().At(0).Type().Underlying().(*types.Slice); !ok || !types.Identical(sl.Elem(), types.Typ[types.Byte]) {
			continue
		}
		mk, sep, store := false, false, false
		an.Instrs(f, func(in ssa.Instruction) {
			switch x := in.(type) {
			case *ssa.MakeSlice:
				mk = true
			case *ssa.Convert:
				if k, isK := x.X.(*ssa.Const); isK && sepC != nil && k.Value != nil && p.Desc(k) == constString(sepC) {
					sep = true
				}
			}
			if cc := an.CallOf(in); cc != nil && cc.StaticCallee() != nil && an.FuncPkg(cc.StaticCallee()) != nil && an.FuncPkg(cc.StaticCallee()).Path() == pkgLevelDB {
				store = true
			}
		})
		if mk && sep && !store && len(fieldReads(f, lb, "path")) > 0 {
			builders[f] = true
		}
	}
	innerKey := fnOpt(c, pkgLDB, "levelBucket", "innerKey")
	innerKeyIt := fnOpt(c, pkgLDB, "levelBucket", "innerKeyForIterator")
	if innerKey != nil {
		builders[innerKey] = true
	}
	if innerKeyIt != nil {
		builders[innerKeyIt] = true
	}
	if len(builders) == 0 {
		c.Lost("ldb: the key builders of levelBucket (innerKey / innerKeyForIterator)")
	}
	join := fn(c, pkgLDB, "", "joinBucketPath")
	valid := fn(c, pkgLDB, "", "isValidBucketName")
	okOrigin := func(v ssa.Value) (bool, string) {
		tr := &an.Tracer{P: p, Leaf: func(x ssa.Value) bool {
			if ex, ok := x.(*ssa.Extract); ok {
				x = ex.Tuple
			}
			switch y := x.(type) {
			case *ssa.Call:
				return true
			case *ssa.Convert, *ssa.Const:
				_ = y
				return true
			case *ssa.UnOp:
				return true
			}
			return false
		}}
		bad := ""
		for _, o := range tr.Origins(v) {
			x := o.V
			if ex, ok := x.(*ssa.Extract); ok {
				x = ex.Tuple
			}
			switch y := x.(type) {
			case *ssa.Call:
				cal := y.Call.StaticCallee()
				if cal != nil && builders[cal] {
					continue
				}
				n := calleeName(p, y)
				if strings.HasSuffix(n, "Iterator.Key") || n == "BytesPrefix" || strings.HasSuffix(n, "util.BytesPrefix") || strings.HasSuffix(n, "db.BytesPrefix") {
					continue // a key read back from the store is already an inner key
				}
				bad = n
			case *ssa.Convert:
				d := p.Desc(y.X)
				if strings.Contains(d, "Iterator.Key(") || strings.HasPrefix(d, "masswallet/db/ldb."+nm(join)+"(") || strings.Contains(d, "*ssa.Next#") || strings.HasPrefix(d, "phi(") && strings.Contains(d, nm(join)) {
					continue
				}
				// range key over GetNetPutsByPrefix (inner keys)
				if ex, ok := y.X.(*ssa.Extract); ok {
					if _, isNext := ex.Tuple.(*ssa.Next); isNext {
						continue
					}
				}
				bad = "convert(" + d + ")"
			case *ssa.Const:
				if y.Value == nil {
					continue
				}
				bad = "constant"
			case *ssa.UnOp:
				d := p.Desc(y)
				if strings.HasSuffix(d, "Range.Start") || strings.HasSuffix(d, "Range.Limit") || strings.HasSuffix(d, "batchIterator.start") || strings.HasSuffix(d, "batchIterator.limit") {
					continue // filled from innerKeyForIterator in NewIterator (checked there)
				}
				bad = d
			default:
				bad = p.Desc(o.V)
			}
		}
		return bad == "", bad
	}
	_ = join
	for _, f := range p.ModFuncs {
		if pk := an.FuncPkg(f); pk == nil || pk.Path() != pkgLDB {
			continue
		}
		recv := ""
		if f.Signature.Recv() != nil {
			if n := an.NamedOf(f.Signature.Recv().Type()); n != nil {
				recv = n.Obj().Name()
			}
		}
		if recv != "levelBucket" && recv != "transaction" && nm(f) != "deleteBucket" {
			continue
		}
		k := 0
		an.Instrs(f, func(in ssa.Instruction) {
			cc := an.CallOf(in)
			if cc == nil || cc.StaticCallee() == nil {
				return
			}
			cal := cc.StaticCallee()
			var keyArg ssa.Value
			switch {
			case cal == bPut || cal == bDel || cal == bGet:
				keyArg = cc.Args[1]
			case an.FuncPkg(cal) != nil && an.FuncPkg(cal).Path() == pkgLevelDB && cal.Name() == "Get":
				keyArg = cc.Args[1]
			default:
				return
			}
			k++
			key := siteKey(f, "key-of:"+calleeName(p, in), k)
			if ok, bad := okOrigin(keyArg); ok {
				c.OK(key, "key derives from innerKey/joinBucketPath/a stored key", posOf(c, in))
			} else {
				c.Fail(key, "a key reaches the store without the bucket prefix ("+bad+"): keys of different buckets collide", posOf(c, in))
			}
		})
	}
	// NewIterator: range bounds from innerKeyForIterator
	newIt := fn(c, pkgLDB, "levelBucket", "NewIterator")
	rng := p.Type(pkgDB, "Range")
	if newIt != nil && len(builders) > 0 && rng != nil {
		okS, okL := false, false
		for _, st := range fieldStores(newIt, rng, "Start") {
			if call, ok := st.(*ssa.Store).Val.(*ssa.Call); ok && call.Call.StaticCallee() != nil && builders[call.Call.StaticCallee()] {
				okS = true
			}
		}
		for _, st := range fieldStores(newIt, rng, "Limit") {
			d := p.Desc(st.(*ssa.Store).Val)
			for b := range builders {
				if strings.Contains(d, nm(b)) {
					okL = true
				}
			}
		}
		if okS && okL {
			c.OK(sk(newIt)+":range-prefixed", "iteration bounds are bucket-prefixed", p.Pos(newIt.Pos()))
		} else {
			c.Fail(sk(newIt)+":range-prefixed", "iteration bounds are not built with innerKeyForIterator: an iterator can run into another bucket's keys", p.Pos(newIt.Pos()))
		}
	}
	// returned keys stripped
	itKey := fn(c, pkgLDB, "levelIterator", "Key")
	if itKey != nil {
		ok := true
		an.Instrs(itKey, func(in ssa.Instruction) {
			r, isRet := in.(*ssa.Return)
			if !isRet {
				return
			}
			for _, pr := range predsOrNil(r.Block()) {
				_ = pr
			}
			v := an.RetOperand(r, 0)
			var vals []ssa.Value
			if ph, isPhi := v.(*ssa.Phi); isPhi {
				vals = ph.Edges
			} else {
				vals = []ssa.Value{v}
			}
			for _, x := range vals {
				if k, isK := x.(*ssa.Const); isK && k.Value == nil {
					continue
				}
				sl, isSl := x.(*ssa.Slice)
				if !isSl || sl.Low == nil || !strings.Contains(p.Desc(sl.Low), "pathLen + 1") {
					ok = false
				}
			}
		})
		if ok {
			c.OK(sk(itKey)+":strips-prefix", "returns data[pathLen+1:]", p.Pos(itKey.Pos()))
		} else {
			c.Fail(sk(itKey)+":strips-prefix", "iterator keys are handed to callers with the bucket prefix still on (or cut at the wrong offset)", p.Pos(itKey.Pos()))
		}
	}
	// bucket names validated before index writes
	for _, n := range [][2]string{{"levelBucket", "subBucket"}, {"transaction", "CreateTopLevelBucket"}} {
		f := fn(c, pkgLDB, n[0], n[1])
		if f == nil || valid == nil {
			continue
		}
		key := sk(f) + ":name-validated"
		s := &an.Search{P: p, Fn: f, GoalReturn: func(r *ssa.Return, pred *ssa.BasicBlock) bool {
			if p.ClassifyReturn(r, pred) == an.RetError {
				return false
			}
			return !an.AnyAtom(p.Guards(r.Block()), func(a an.Atom) bool { return an.BoolCall(a, valid, "", true) })
		}}
		if w := s.Run(f.Blocks[0], 0, nil); w != nil {
			c.Fail(key, "a bucket can be created under a name that was not validated (a name containing the path separator aliases another bucket's key space)", p.Pos(f.Pos()), w...)
		} else {
			c.OK(key, "success dominated by isValidBucketName", p.Pos(f.Pos()))
		}
	}
	if valid != nil {
		d := ""
		an.Instrs(valid, func(in ssa.Instruction) {
			if call, ok := in.(*ssa.Call); ok && call.Call.StaticCallee() != nil && an.CanonKeyOf(call.Call.StaticCallee()) == "strings.Index" {
				d = p.Desc(call.Call.Args[1])
			}
		})
		if d == `"_"` {
			c.OK(sk(valid)+":rejects-separator", "names containing the path separator are rejected", p.Pos(valid.Pos()))
		} else {
			c.Fail(sk(valid)+":rejects-separator", "isValidBucketName no longer rejects names containing the path separator", p.Pos(valid.Pos()))
		}
	}
}

func predsOrNil(b *ssa.BasicBlock) []*ssa.BasicBlock {
	if len(b.Preds) == 0 {
		return []*ssa.BasicBlock{nil}
	}
	return b.Preds
}

// setKeyClass classifies a de-dup set key: "inner-key" when it is string(iterator key) or the
// range key of the overlay's inner-key map; otherwise a description of what it is.
func setKeyClass(p *an.Prog, k ssa.Value) string {
	k = an.ResolveCell(k)
	if cv, ok := k.(*ssa.Convert); ok {
		if call, isCall := cv.X.(*ssa.Call); isCall && call.Call.IsInvoke() && call.Call.Method.Name() == "Key" {
			return "inner-key"
		}
		if call, isCall := cv.X.(*ssa.Call); isCall && call.Call.IsInvoke() && call.Call.Method.Name() == "Value" {
			return "bucket-name"
		}
		if ex, isEx := cv.X.(*ssa.Extract); isEx {
			if _, isNext := ex.Tuple.(*ssa.Next); isNext && ex.Index == 2 {
				return "bucket-name"
			}
		}
		if ph, isPhi := cv.X.(*ssa.Phi); isPhi {
			_ = ph
			return "bucket-name"
		}
		return "other:" + p.Desc(cv.X)
	}
	if ex, ok := k.(*ssa.Extract); ok {
		if _, isNext := ex.Tuple.(*ssa.Next); isNext && ex.Index == 1 {
			return "inner-key"
		}
	}
	d := p.Desc(k)
	// value of a bucket-name index entry
	if strings.Contains(d, "Iterator.Value") || strings.Contains(d, "*ssa.Next#2") || strings.HasPrefix(d, "phi(") {
		return "bucket-name"
	}
	return "other:" + d
}

// ruleWriterLock is shared by C11/C20: the single-writer mutex is held from BeginTx to Commit/Rollback and released on every path.
func ruleWriterLock(c *report.Ctx) {
	p := c.P
	c.Rule("writer-lock", "BeginTx acquires LevelDB.muTr and returns holding it; Commit and Rollback release it exactly when the transaction is a write transaction, and touch neither the store nor the batch after releasing it", 6)
	beginTx := fn(c, pkgLDB, "LevelDB", "BeginTx")
	beginRead := fn(c, pkgLDB, "LevelDB", "BeginReadTx")
	commit := fn(c, pkgLDB, "transaction", "Commit")
	rollback := fn(c, pkgLDB, "transaction", "Rollback")
	isMu := func(in ssa.Instruction, name string) bool {
		cc := an.CallOf(in)
		if cc == nil || cc.StaticCallee() == nil || an.CanonKeyOf(cc.StaticCallee()) != "(*sync.Mutex)."+name {
			return false
		}
		if _, isDefer := in.(*ssa.Defer); isDefer {
			return false
		}
		d := p.Desc(cc.Args[0])
		return strings.HasSuffix(d, ".muTr")
	}
	if beginTx != nil {
		w := p.MustPassOnSuccess(beginTx, func(in ssa.Instruction) bool { return isMu(in, "Lock") })
		unl := false
		an.Instrs(beginTx, func(in ssa.Instruction) {
			cc := an.CallOf(in)
			if cc != nil && cc.StaticCallee() != nil && an.CanonKeyOf(cc.StaticCallee()) == "(*sync.Mutex).Unlock" {
				unl = true
			}
		})
		if w == nil && !unl {
			c.OK(sk(beginTx)+":returns-holding-muTr", "Lock on every path, no Unlock", p.Pos(beginTx.Pos()))
		} else {
			c.Fail(sk(beginTx)+":returns-holding-muTr", "BeginTx does not return holding the writer mutex: two write transactions can run at once on the shared batch", p.Pos(beginTx.Pos()), w...)
		}
	}
	if beginRead != nil {
		bad := false
		an.Instrs(beginRead, func(in ssa.Instruction) {
			if isMu(in, "Lock") {
				bad = true
			}
		})
		if bad {
			c.Fail(sk(beginRead)+":no-lock", "BeginReadTx takes the writer mutex, but a read transaction's Rollback never releases it", p.Pos(beginRead.Pos()))
		} else {
			c.OK(sk(beginRead)+":no-lock", "read transactions do not take the writer mutex", p.Pos(beginRead.Pos()))
		}
	}
	notRO := func(a an.Atom) bool {
		return a.Op == token.ILLEGAL && !a.Truth && strings.HasSuffix(p.Desc(a.X), ".readOnly")
	}
	isRO := func(a an.Atom) bool {
		return a.Op == token.ILLEGAL && a.Truth && strings.HasSuffix(p.Desc(a.X), ".readOnly")
	}
	for _, f := range []*ssa.Function{commit, rollback} {
		if f == nil {
			continue
		}
		// every return not under readOnly passes Unlock; no Unlock under readOnly
		s := &an.Search{P: p, Fn: f, Cut: func(in ssa.Instruction) bool { return isMu(in, "Unlock") }, GoalReturn: func(r *ssa.Return, pred *ssa.BasicBlock) bool {
			gs := p.Guards(r.Block())
			if pred != nil {
				if ea := edgeAtoms(p, pred, r.Block()); ea != nil {
					gs = append(gs, *ea)
				}
				gs = append(gs, p.Guards(pred)...)
			}
			return !an.AnyAtom(gs, isRO)
		}}
		key := sk(f) + ":releases-muTr"
		if w := s.Run(f.Blocks[0], 0, nil); w != nil {
			c.Fail(key, "a write transaction can end without releasing the writer mutex: every later write transaction blocks forever", p.Pos(f.Pos()), w...)
		} else {
			c.OK(key, "Unlock on every non-read-only path", p.Pos(f.Pos()))
		}
		badRO := false
		an.Instrs(f, func(in ssa.Instruction) {
			if isMu(in, "Unlock") && !an.AnyAtom(p.GuardsOf(in), notRO) && f == rollback {
				badRO = true
			}
		})
		// nothing touches the store or the shared batch once the writer mutex is released: BeginTx re-uses one
		// package-level batch (newBatch resets it), so the mutex is all that keeps the next writer off a batch that is
		// still being written
		touches := func(in ssa.Instruction) bool {
			cc := an.CallOf(in)
			if cc == nil {
				return false
			}
			for _, g := range p.Callees(in) {
				if pk := an.FuncPkg(g); pk != nil && strings.Contains(pk.Path(), "goleveldb") {
					return true
				}
				if rv := g.Signature.Recv(); rv != nil {
					if n := an.NamedOf(rv.Type()); n != nil && n.Obj().Pkg() != nil && n.Obj().Pkg().Path() == pkgLDB && n.Obj().Name() == "batch" {
						return true
					}
				}
			}
			return false
		}
		late := false
		an.Instrs(f, func(in ssa.Instruction) {
			if !isMu(in, "Unlock") || late {
				return
			}
			idx := 0
			for k, x := range in.Block().Instrs {
				if x == in {
					idx = k + 1
				}
			}
			s2 := &an.Search{P: p, Fn: f, GoalInstr: touches}
			if w := s2.Run(in.Block(), idx, nil); w != nil {
				late = true
				c.Fail(sk(f)+":store-untouched-after-unlock", "the store or the transaction's batch is used after the writer mutex has been released: the batch is one package-level object that the next BeginTx resets — a writer queued on the mutex empties and refills it while this commit is still writing it (a block's coins and cursor dropped or torn, Commit returning nil)", posOf(c, in), w...)
			}
		})
		if !late {
			c.OK(sk(f)+":store-untouched-after-unlock", "no store or batch operation is reachable after Unlock", p.Pos(f.Pos()))
		}
		if f == rollback {
			if badRO {
				c.Fail(sk(f)+":no-unlock-for-readers", "Rollback of a read transaction unlocks a mutex it never took", p.Pos(f.Pos()))
			} else {
				c.OK(sk(f)+":no-unlock-for-readers", "Unlock only under !readOnly", p.Pos(f.Pos()))
			}
		}
	}
}
