package rules

import (
	"go/token"
	"go/types"
	"strings"

	"golang.org/x/tools/go/ssa"

	"verif/internal/an"
	"verif/internal/report"
)

func init() {
	register(&Check{
		ID: "C05",
		Explain: "Structural necessary conditions of secrecy, decided by provenance tracing and dominance on SSA: " +
			"(1) every value (and key) the keystore stores in a bucket originates from an encryption (Encrypt of a secret key / crypto key), a key-parameter Marshal, a bucket read, or public metadata — never directly from a secret source (entropy, mnemonic, seed, extended private key, Decrypt result, passphrase); the same for every field of the exported keystore document; " +
			"(2) error values built in the keystore and the wallet façade do not embed a value from a secret source; " +
			"(3) every use of secret material is dominated by a successful passphrase check (shared with C03), and every store that unlocks or caches private material is too, so a refused attempt alters nothing; " +
			"(4) no secret buffer is wiped before its last use (shared with C04: a premature wipe seals data under an all-zero key).",
		NotDec: "cryptographic strength; indistinguishability of ciphertexts; scanning of actual stored bytes; memory hygiene on every exit (a mechanism, not a clause of the property).",
		Run:    runC05,
	})
}

// secretSource classifies a producing call as a source of secret material.
func secretSource(p *an.Prog, call *ssa.Call) string {
	name := calleeName(p, call)
	switch {
	case strings.HasSuffix(name, ".Decrypt"):
		return "Decrypt"
	case strings.HasSuffix(name, "keystore.NewEntropy"), strings.HasSuffix(name, "keystore.NewMnemonic"), strings.HasSuffix(name, "keystore.NewSeed"), strings.HasSuffix(name, "keystore.NewSeedWithErrorChecking"), strings.HasSuffix(name, "keystore.EntropyFromMnemonic"), strings.HasSuffix(name, "keystore.generateSeed"):
		return strings.TrimPrefix(name[strings.LastIndex(name, ".")+1:], "")
	case strings.HasSuffix(name, "hdkeychain.NewMaster"), strings.HasSuffix(name, "ExtendedKey).ECPrivKey"), strings.HasSuffix(name, "snacl.GenerateCryptoKey"):
		return name[strings.LastIndex(name, ".")+1:]
	case strings.HasSuffix(name, "EncryptorDecryptor.Bytes"), strings.HasSuffix(name, "cryptoKey).Bytes"):
		return "crypto-key bytes"
	}
	return ""
}

// valueOrigins traces a stored value back to its producers: returns (allowed kinds, offending descriptions).
func valueOrigins(p *an.Prog, v ssa.Value, privTainted func(ssa.Value) bool, follow ...ssa.Instruction) (ok []string, bad []string) {
	tr := &an.Tracer{P: p, ThroughSlice: true, MaxDepth: 30, Follow: follow, Leaf: func(x ssa.Value) bool {
		if ex, isEx := x.(*ssa.Extract); isEx {
			x = ex.Tuple
		}
		switch y := x.(type) {
		case *ssa.Call:
			if _, isB := y.Call.Value.(*ssa.Builtin); isB {
				return true
			}
			if cal := y.Call.StaticCallee(); cal != nil && p.InModule(cal) && cal.Blocks != nil {
				n := calleeName(p, y)
				if secretSource(p, y) != "" || strings.HasSuffix(n, ".Encrypt") || strings.HasSuffix(n, ".Marshal") || strings.HasSuffix(n, "ExtendedKey).String") || strings.HasSuffix(n, "ExtendedKey).Neuter") {
					return true
				}
				return false // descend into module helpers
			}
			return true
		case *ssa.Const, *ssa.MakeSlice, *ssa.Alloc, *ssa.Global:
			return true
		case *ssa.Convert:
			return false
		case *ssa.UnOp:
			return y.Op == token.MUL
		}
		return false
	}}
	for _, o := range tr.Origins(v) {
		x := o.V
		if ex, isEx := x.(*ssa.Extract); isEx {
			x = ex.Tuple
		}
		switch y := x.(type) {
		case *ssa.Call:
			n := calleeName(p, y)
			if b, isB := y.Call.Value.(*ssa.Builtin); isB {
				if b.Name() == "append" {
					// append(dst, src...): both operands
					for _, a := range y.Call.Args {
						o2, b2 := valueOrigins(p, a, privTainted)
						ok = append(ok, o2...)
						bad = append(bad, b2...)
					}
					continue
				}
				ok = append(ok, "builtin:"+b.Name())
				continue
			}
			if s := secretSource(p, y); s != "" {
				bad = append(bad, "secret:"+s)
				continue
			}
			switch {
			case strings.HasSuffix(n, ".Encrypt"):
				ok = append(ok, "ciphertext:"+n)
			case strings.HasSuffix(n, ".Marshal"):
				ok = append(ok, "key-params:"+n)
			case strings.HasSuffix(n, "ExtendedKey).String"):
				// serialised extended key: public only if the receiver is a neutered key
				if privTainted != nil && privTainted(y.Call.Args[0]) {
					bad = append(bad, "secret:extended private key string")
				} else {
					ok = append(ok, "xpub-string")
				}
			case strings.HasSuffix(n, "Bucket.Get"), strings.HasSuffix(n, "Iterator.Value"), strings.HasSuffix(n, "Bucket.GetByPrefix"):
				ok = append(ok, "bucket-read")
			case strings.Contains(n, "SerializeCompressed"), strings.Contains(n, "hex."), strings.Contains(n, "binary."), strings.Contains(n, "Hash160"), strings.Contains(n, "sha256"), strings.Contains(n, "sha512"), strings.Contains(n, "json.Marshal"), strings.Contains(n, "strconv."), strings.Contains(n, "ScriptAddress"), strings.Contains(n, "EncodeAddress"):
				ok = append(ok, "public:"+n)
			default:
				ok = append(ok, "call:"+n)
			}
		case *ssa.Const, *ssa.MakeSlice, *ssa.Alloc:
			ok = append(ok, "fresh/const")
		case *ssa.Global:
			ok = append(ok, "global:"+y.Name())
		case *ssa.UnOp:
			d := p.Desc(y)
			ok = append(ok, "field:"+d)
		case *ssa.Parameter:
			ok = append(ok, "param:"+y.Name()+"@"+sk(y.Parent()))
		default:
			ok = append(ok, "other:"+p.Desc(o.V))
		}
	}
	return uniq(ok), uniq(bad)
}

func runC05(c *report.Ctx) {
	p := c.P
	// ---- (1) stored values ---------------------------------------------------------------------------------
	c.Rule("stored-values-not-secret", "no bucket Put of the keystore stores a value or key that originates directly from a secret source; secrets reach the database only through Encrypt / Marshal", 20)
	// passphrase values: anything passed as the passphrase argument of a gate
	G := passphraseGates(c)
	passVals := map[ssa.Value]bool{}
	for _, f := range p.ModFuncs {
		if pk := an.FuncPkg(f); pk == nil || !(pk.Path() == pkgKeystore) {
			continue
		}
		an.Instrs(f, func(in ssa.Instruction) {
			cc := an.CallOf(in)
			if cc == nil || cc.StaticCallee() == nil || !G[cc.StaticCallee()] {
				return
			}
			for _, a := range cc.Args {
				a = derefAlloc(a)
				if isBytesOrString(a.Type()) {
					passVals[a] = true
				}
			}
		})
	}
	privKeyVal := func(v ssa.Value) bool {
		// an extended key is private unless it is the result of Neuter()
		tr := &an.Tracer{P: p, Leaf: func(x ssa.Value) bool {
			if ex, ok := x.(*ssa.Extract); ok {
				x = ex.Tuple
			}
			_, isCall := x.(*ssa.Call)
			return isCall
		}}
		for _, o := range tr.Origins(v) {
			x := o.V
			if ex, ok := x.(*ssa.Extract); ok {
				x = ex.Tuple
			}
			if call, ok := x.(*ssa.Call); ok {
				n := calleeName(p, call)
				if strings.HasSuffix(n, "ExtendedKey).Neuter") {
					continue
				}
				if strings.HasSuffix(n, "hdkeychain.NewKeyFromString") {
					// private iff its input came from a Decrypt with a private crypto key — judged conservatively private
					// unless the string was decrypted with the public crypto key
					d := p.Desc(call.Call.Args[0])
					if strings.Contains(d, "cryptoKeyPub") {
						continue
					}
					return true
				}
				return true
			}
		}
		return false
	}
	n := 0
	for _, op := range schemaOps(p) {
		if op.Method != "Put" {
			continue
		}
		if pk := an.FuncPkg(op.Fn); pk == nil || pk.Path() != pkgKeystore {
			continue
		}
		cc := an.CallOf(op.Site)
		for ai, what := range []string{"key", "value"} {
			arg := cc.Args[ai]
			okO, badO := valueOrigins(p, arg, privKeyVal, op.Ascent...)
			// passphrase flow
			for v := range passVals {
				if arg == v {
					badO = append(badO, "secret:passphrase")
				}
			}
			n++
			site := op.Ctx + "~>" + sk(op.Fn) + ":" + op.Bucket + ".Put:" + what
			if len(badO) > 0 {
				c.Fail(site+"["+strings.Join(badO, ",")+"]", "a "+what+" stored in the wallet database originates from "+strings.Join(badO, ", ")+" without passing an encryption: the secret is readable from the raw database", posOf(c, op.Site), ascentText(p, op)...)
			} else {
				c.OK(site, "origins: "+strings.Join(okO, ", "), posOf(c, op.Site))
			}
		}
	}
	// exported document: fields of Keystore / its crypto section
	for _, tname := range []string{"Keystore", "cryptoJSON", "CryptoJSON"} {
		t := p.Type(pkgKeystore, tname)
		if t == nil {
			continue
		}
		st, ok := t.Underlying().(*types.Struct)
		if !ok {
			continue
		}
		for _, f := range p.ModFuncs {
			if pk := an.FuncPkg(f); pk == nil || pk.Path() != pkgKeystore {
				continue
			}
			for i := 0; i < st.NumFields(); i++ {
				fname := an.FName(st, i)
				for _, s := range fieldStoresAny(f, t, fname) {
					v := s.(*ssa.Store).Val
					if !isBytesOrString(v.Type()) {
						continue
					}
					okO, badO := valueOrigins(p, v, privKeyVal)
					key := sk(f) + ":" + tname + "." + fname + "="
					if len(badO) > 0 {
						c.Fail(key+"["+strings.Join(badO, ",")+"]", "the exported keystore field "+fname+" carries "+strings.Join(badO, ", ")+" in clear", posOf(c, s))
					} else {
						c.OK(key, "origins: "+strings.Join(okO, ", "), posOf(c, s))
					}
				}
			}
		}
	}

	// ---- (2) errors ---------------------------------------------------------------------------------------------
	c.Rule("errors-not-secret", "error values constructed in the keystore / wallet façade do not embed a value originating from a secret source or a passphrase", 5)
	for _, f := range p.ModFuncs {
		pk := an.FuncPkg(f)
		if pk == nil || !(pk.Path() == pkgKeystore || pk.Path() == pkgWallet) {
			continue
		}
		k := 0
		an.Instrs(f, func(in ssa.Instruction) {
			call, ok := in.(*ssa.Call)
			if !ok || call.Call.StaticCallee() == nil {
				return
			}
			n := an.CanonKeyOf(call.Call.StaticCallee())
			if n != "fmt.Errorf" && n != "errors.New" && n != "fmt.Sprintf" {
				return
			}
			k++
			key := siteKey(f, n, k)
			var badO []string
			// variadic operands: stores into the varargs array
			for _, a := range call.Call.Args {
				for _, v := range varargValues(a) {
					if !isBytesOrString(stripIface(v).Type()) {
						continue
					}
					_, b := valueOrigins(p, stripIface(v), privKeyVal)
					badO = append(badO, b...)
					if passVals[stripIface(v)] {
						badO = append(badO, "secret:passphrase")
					}
				}
			}
			if len(badO) > 0 {
				c.Fail(key+"["+strings.Join(uniq(badO), ",")+"]", "an error/message string embeds "+strings.Join(uniq(badO), ", ")+": the secret is returned to the caller in clear", posOf(c, in))
			} else {
				c.OK(key, "no secret operand", posOf(c, in))
			}
		})
	}

	// ---- (3) gates --------------------------------------------------------------------------------------------------
	ruleKeyUseGated(c, false)
	c.Rule("refusal-alters-nothing", "stores that unlock the manager or cache private material happen only after a passphrase check succeeded on that path", 5)
	am := p.Type(pkgKeystore, "AddrManager")
	ma := p.Type(pkgKeystore, "ManagedAddress")
	bi := p.Type(pkgKeystore, "branchInfo")
	ai := p.Type(pkgKeystore, "accountInfo")
	type fld struct {
		t    *types.Named
		name string
	}
	var unreachable []string
	for _, fl := range []fld{{am, "unlocked"}, {am, "hashedPrivPassphrase"}, {ma, "privKey"}, {bi, "externalBranchPriv"}, {bi, "internalBranchPriv"}, {ai, "acctKeyPriv"}} {
		if fl.t == nil {
			continue
		}
		for _, f := range p.ModFuncs {
			if pk := an.FuncPkg(f); pk == nil || pk.Path() != pkgKeystore {
				continue
			}
			for i, s := range fieldStoresAny(f, fl.t, fl.name) {
				v := s.(*ssa.Store).Val
				// clearing stores (false / nil / zero value) need no gate
				if k, isK := v.(*ssa.Const); isK && (k.Value == nil || k.Value.ExactString() == "false") {
					continue
				}
				if fa, isFA := s.(*ssa.Store).Addr.(*ssa.FieldAddr); isFA {
					if _, fresh := rootBase(fa).(*ssa.Alloc); fresh {
						continue // constructor of a fresh object
					}
					if freshFromCallee(p, rootBase(fa)) {
						continue // object just built by a constructor callee: not yet part of the wallet's state
					}
				}
				key := siteKey(f, fl.t.Obj().Name()+"."+fl.name+"=", i+1)
				ok, w := gatedUse(p, G, s, 0, map[*ssa.Function]bool{}, &unreachable)
				if ok {
					c.OK(key, "after a successful passphrase check", posOf(c, s))
				} else {
					c.Fail(key, "private state is unlocked/cached on a path where no passphrase check succeeded: a refused attempt leaves the wallet unlocked or its cache altered", posOf(c, s), w...)
				}
			}
		}
	}

	ruleMasterKeyWipeAfterSuccess(c, G)
	ruleCreationPatternOnlyForNewPassphrases(c)
	rulePassphraseVerdictReturned(c, G)
	rulePassphraseHashedWhole(c)

	// ---- (4) premature wipes ------------------------------------------------------------------------------------------
	ruleUseAfterWipe(c)

	// ---- (5) the unlocked window ends with the signing call (also after an error in the middle of it) ---------------
	ruleUnlockScoped(c)

	// ---- (6) rows readable with the public passphrase hold public keys only -----------------------------------
	rulePublicRowsHoldNeuteredKeys(c)
	ruleWipedCacheDropped(c)

	// ---- the unlock state and the cached private material are touched only under the managers' locks -----------------
	secretLocs := map[string]bool{"AddrManager.unlocked": true, "AddrManager.masterKeyPriv": true, "AddrManager.cryptoKeyPriv": true, "SecretKey.Key": true, "SecretKey.Parameters": true,
		"ManagedAddress.privKey": true, "accountInfo.acctKeyPriv": true, "branchInfo.externalBranchPriv": true, "branchInfo.internalBranchPriv": true}
	ruleCommonLock(c, func(loc string) bool { return secretLocs[loc] }, "the unlock flag, the master/crypto private keys and the cached private keys are written and read under a common exclusive lock: a refused passphrase attempt that runs concurrently with a successful one cannot leave its wrongly derived key in an unlocked manager", 3)
	ruleRefusalByKeyMaterialOnly(c)
	ruleClearAllKeystores(c)
	ruleCryptoKeySealing(c)
	ruleUnlockFlagFollowsHash(c)
	ruleRemovalAnswersOnlyAfterPassphrase(c)
	ruleValidatedTokensAreDecodedTokens(c) // a revealed / exported backup restores the same wallet only if the stored entropy is that of the sentence as typed
	ruleSentenceJudgedByWords(c)
}

func rootBase(fa *ssa.FieldAddr) ssa.Value {
	cur := ssa.Value(fa)
	for {
		switch x := cur.(type) {
		case *ssa.FieldAddr:
			cur = x.X
			continue
		case *ssa.IndexAddr:
			cur = x.X
			continue
		}
		return cur
	}
}

func derefAlloc(v ssa.Value) ssa.Value {
	// &local → the value stored in the local
	if a, ok := v.(*ssa.Alloc); ok {
		for _, r := range *a.Referrers() {
			if st, ok := r.(*ssa.Store); ok && st.Addr == ssa.Value(a) {
				return st.Val
			}
		}
	}
	return v
}

func isBytesOrString(t types.Type) bool {
	switch x := t.Underlying().(type) {
	case *types.Basic:
		return x.Info()&types.IsString != 0
	case *types.Slice:
		if b, ok := x.Elem().Underlying().(*types.Basic); ok && b.Kind() == types.Byte {
			return true
		}
	}
	return false
}

// fieldStoresAny: stores whose address is exactly &x.fname (x of the named struct type, by pointer or value cell).
func fieldStoresAny(f *ssa.Function, named *types.Named, fname string) []ssa.Instruction {
	var out []ssa.Instruction
	an.Instrs(f, func(in ssa.Instruction) {
		st, ok := in.(*ssa.Store)
		if !ok {
			return
		}
		fa, ok := st.Addr.(*ssa.FieldAddr)
		if !ok {
			return
		}
		n := an.NamedOf(fa.X.Type())
		if n == nil || n.Obj() != named.Obj() {
			return
		}
		if an.FName(n.Underlying().(*types.Struct), fa.Field) == fname {
			out = append(out, in)
		}
	})
	return out
}

// varargValues: for a `slice t[:]` of a varargs array returns the stored elements; otherwise the value itself.
func varargValues(a ssa.Value) []ssa.Value {
	sl, ok := a.(*ssa.Slice)
	if !ok {
		return []ssa.Value{a}
	}
	al, ok := sl.X.(*ssa.Alloc)
	if !ok {
		return []ssa.Value{a}
	}
	var out []ssa.Value
	for _, r := range *al.Referrers() {
		ia, ok := r.(*ssa.IndexAddr)
		if !ok {
			continue
		}
		for _, rr := range *ia.Referrers() {
			if st, ok := rr.(*ssa.Store); ok && st.Addr == ssa.Value(ia) {
				out = append(out, st.Val)
			}
		}
	}
	return out
}

// freshFromCallee: v is the (pointer) result of a module call all of whose returns yield a fresh
// allocation or nil.
func freshFromCallee(p *an.Prog, v ssa.Value) bool {
	idx := 0
	if ex, ok := v.(*ssa.Extract); ok {
		idx = ex.Index
		v = ex.Tuple
	}
	call, ok := v.(*ssa.Call)
	if !ok {
		return false
	}
	cal := call.Call.StaticCallee()
	if cal == nil || !p.InModule(cal) || cal.Blocks == nil {
		return false
	}
	any := false
	for _, b := range cal.Blocks {
		r, ok := b.Instrs[len(b.Instrs)-1].(*ssa.Return)
		if !ok || idx >= len(r.Results) {
			continue
		}
		rv := an.RetOperand(r, idx)
		vals := []ssa.Value{rv}
		if ph, isPhi := rv.(*ssa.Phi); isPhi {
			vals = ph.Edges
		}
		for _, x := range vals {
			if k, isK := x.(*ssa.Const); isK && k.Value == nil {
				continue
			}
			if _, isAlloc := x.(*ssa.Alloc); isAlloc {
				any = true
				continue
			}
			return false
		}
	}
	return any
}
