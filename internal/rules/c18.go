package rules

import (
	"go/token"
	"go/types"
	"sort"
	"strings"

	"golang.org/x/tools/go/ssa"

	"verif/internal/an"
	"verif/internal/report"
)

func init() {
	register(&Check{
		ID: "C18",
		Explain: "Structural necessary conditions of fault tolerance towards the storage layer, decided on SSA: " +
			"(1) the error of every storage call — a method of the db interfaces, mwdb.Update/View, or a wrapper returning such an error (fixpoint) — is examined, returned or logged, never discarded; " +
			"(2) db.Update rolls back and never commits on the error edge of its closure; " +
			"(3) in-memory caches are repaired on the error edge of the transaction that filled them (RemoveCachedKeystore with the id produced by the failed transaction; UpdateManagedKeystores after a failed final removal step); " +
			"(4) the worker re-queues a failed import and a failed (not aborted) removal; " +
			"(5) address issuing reads the next child number from the transaction, not from the in-memory cache.",
		NotDec: "equality of the end state with a fault-free run; faults inside LevelDB itself.",
		Run:    runC18,
	})
}

// storageSources computes the storage-error sources: interface methods of package db whose last
// result is error, mwdb.Update/View, and module wrappers that return such an error.
func storageSources(p *an.Prog) (ifaceMethods map[*types.Func]bool, fns map[*ssa.Function]bool) {
	ifaceMethods = map[*types.Func]bool{}
	fns = map[*ssa.Function]bool{}
	for _, iname := range []string{"DB", "ReadTransaction", "DBTransaction", "Bucket", "Iterator"} {
		n := p.Type(pkgDB, iname)
		if n == nil {
			continue
		}
		it, ok := n.Underlying().(*types.Interface)
		if !ok {
			continue
		}
		for i := 0; i < it.NumMethods(); i++ {
			m := it.Method(i)
			res := m.Type().(*types.Signature).Results()
			if res.Len() > 0 && an.IsErrorType(res.At(res.Len()-1).Type()) {
				ifaceMethods[m] = true
			}
		}
	}
	for _, n := range []string{"Update", "View", "GetOrCreateBucket", "GetOrCreateTopLevelBucket"} {
		if f := p.Fn(pkgDB, "", n); f != nil {
			fns[f] = true
		}
	}
	isSourceCall := func(in ssa.Instruction) bool {
		cc := an.CallOf(in)
		if cc == nil {
			return false
		}
		if cc.IsInvoke() {
			return ifaceMethods[cc.Method] || ifaceByName(ifaceMethods, cc.Method)
		}
		if f := cc.StaticCallee(); f != nil {
			return fns[f]
		}
		return false
	}
	for changed := true; changed; {
		changed = false
		for _, f := range p.ModFuncs {
			if fns[f] || f.Blocks == nil {
				continue
			}
			pk := an.FuncPkg(f)
			if pk == nil || !(strings.HasPrefix(pk.Path(), pkgWallet) || pk.Path() == pkgAPI) || strings.HasPrefix(pk.Path(), pkgDB) {
				continue
			}
			res := f.Signature.Results()
			if res.Len() == 0 || !an.IsErrorType(res.At(res.Len()-1).Type()) {
				continue
			}
			idx := res.Len() - 1
			found := false
			for _, b := range f.Blocks {
				r, ok := b.Instrs[len(b.Instrs)-1].(*ssa.Return)
				if !ok || idx >= len(r.Results) {
					continue
				}
				seen := map[ssa.Value]bool{}
				var walk func(v ssa.Value, d int)
				walk = func(v ssa.Value, d int) {
					if v == nil || seen[v] || d > 6 || found {
						return
					}
					seen[v] = true
					switch x := v.(type) {
					case *ssa.Phi:
						for _, e := range x.Edges {
							walk(e, d+1)
						}
					case *ssa.Extract:
						walk(x.Tuple, d+1)
					case *ssa.Call:
						if isSourceCall(x) {
							found = true
							return
						}
						// a fresh error built on the error edge of a storage call (fmt.Errorf("…%v", err))
						if cal := x.Call.StaticCallee(); cal != nil && (an.CanonKeyOf(cal) == "fmt.Errorf" || an.CanonKeyOf(cal) == "errors.New") {
							for _, g := range p.Guards(x.Block()) {
								if g.Op == token.NEQ && g.Y != nil && an.IsNilConst(g.Y) {
									gv := g.X
									if ex, ok := gv.(*ssa.Extract); ok {
										gv = ex.Tuple
									}
									if gc, ok := gv.(*ssa.Call); ok && isSourceCall(gc) {
										found = true
									}
								}
							}
						}
					case *ssa.UnOp:
						if a, ok := x.X.(*ssa.Alloc); ok {
							for _, rr := range *a.Referrers() {
								if st, ok := rr.(*ssa.Store); ok && st.Addr == ssa.Value(a) {
									walk(st.Val, d+1)
								}
							}
						}
						if fv, ok := x.X.(*ssa.FreeVar); ok {
							_ = fv
						}
					}
				}
				walk(an.RetOperand(r, idx), 0)
			}
			if found {
				fns[f] = true
				changed = true
			}
		}
	}
	return
}

func ifaceByName(set map[*types.Func]bool, m *types.Func) bool {
	for k := range set {
		if k.Name() == m.Name() && k.Pkg() == m.Pkg() {
			rk := k.Type().(*types.Signature).Recv()
			rm := m.Type().(*types.Signature).Recv()
			if rk != nil && rm != nil && types.Identical(rk.Type(), rm.Type()) {
				return true
			}
		}
	}
	return false
}

// errUsed: the error produced by call (result index idx, or the call itself) has a real use.
func errUsed(call ssa.Value, idx int, multi bool) (bool, string) {
	var ev ssa.Value
	if multi {
		for _, r := range *call.Referrers() {
			if ex, ok := r.(*ssa.Extract); ok && ex.Index == idx {
				ev = ex
			}
		}
		if ev == nil {
			return false, "the error result is assigned to _"
		}
	} else {
		ev = call
	}
	seen := map[ssa.Value]bool{}
	var used func(v ssa.Value, d int) bool
	used = func(v ssa.Value, d int) bool {
		if seen[v] || d > 8 {
			return false
		}
		seen[v] = true
		refs := v.Referrers()
		if refs == nil {
			return false
		}
		for _, r := range *refs {
			switch x := r.(type) {
			case *ssa.DebugRef:
				continue
			case *ssa.Phi:
				if used(x, d+1) {
					return true
				}
			case *ssa.Store:
				// stored into a result/local cell: used if the cell is ever loaded or is a named result
				if a, ok := x.Addr.(*ssa.Alloc); ok {
					for _, rr := range *a.Referrers() {
						if u, ok := rr.(*ssa.UnOp); ok && u.Op == token.MUL {
							if used(u, d+1) {
								return true
							}
							if len(*u.Referrers()) > 0 {
								return true
							}
						}
					}
					continue
				}
				return true
			case *ssa.MakeInterface, *ssa.ChangeInterface:
				if used(x.(ssa.Value), d+1) {
					return true
				}
			default:
				return true // BinOp (comparison), Return, call argument, map update …
			}
		}
		return false
	}
	if used(ev, 0) {
		return true, ""
	}
	return false, "the error value is never examined, returned or logged (e.g. assigned to a shadowed variable)"
}

func runC18(c *report.Ctx) {
	p := c.P
	ruleKeystoreMemoryChangesLast(c)
	ifm, srcs := storageSources(p)
	c.Rule("storage-error-used", "no error of the storage layer (db interface methods, Update/View, and module wrappers that return such an error) is discarded", 200)
	c.Extra["storage_error_sources"] = len(srcs) + len(ifm)
	// named exceptions
	exceptions := map[string]string{
		"masswallet/db.View:defer ReadTransaction.Rollback": "read transaction: Rollback only releases the handle, nothing to undo",
		"masswallet/db.Update:DBTransaction.Rollback":       "already on the error path; the closure's error is the one reported",
	}
	for _, f := range p.ModFuncs {
		pk := an.FuncPkg(f)
		if pk == nil || !(strings.HasPrefix(pk.Path(), pkgWallet) || pk.Path() == pkgAPI) || strings.HasPrefix(pk.Path(), pkgLDB) {
			continue
		}
		cnt := map[string]int{}
		an.Instrs(f, func(in ssa.Instruction) {
			cc := an.CallOf(in)
			if cc == nil {
				return
			}
			isSrc := false
			if cc.IsInvoke() {
				isSrc = ifm[cc.Method] || ifaceByName(ifm, cc.Method)
			} else if cal := cc.StaticCallee(); cal != nil {
				isSrc = srcs[cal]
			}
			if !isSrc {
				return
			}
			name := calleeName(p, in)
			cnt[name]++
			key := sk(f) + ":" + name
			if cnt[name] > 1 {
				key += "#" + itoa(cnt[name])
			}
			switch x := in.(type) {
			case *ssa.Defer:
				ek := sk(f) + ":defer " + name
				if r, ok := exceptions[ek]; ok {
					c.Exception(ek, r)
					c.OK(key, "named exception: "+r, posOf(c, in))
				} else {
					c.Fail(sk(f)+":defer "+name, "the error of a deferred storage call is discarded", posOf(c, in))
				}
				return
			case *ssa.Go:
				c.Fail(key, "storage call started as a goroutine: its error is lost", posOf(c, in))
				return
			case *ssa.Call:
				sig := x.Call.Signature()
				res := sig.Results()
				idx := res.Len() - 1
				ok, why := errUsed(x, idx, res.Len() > 1)
				if ok {
					c.OK(key, "error examined/propagated", posOf(c, in))
					return
				}
				ek := sk(f) + ":" + name
				if pf := f.Parent(); pf != nil { // the same call inside a (deferred) literal of the excepted function
					if _, isEx := exceptions[sk(pf)+":"+name]; isEx {
						ek = sk(pf) + ":" + name
					}
				}
				if r, isEx := exceptions[ek]; isEx {
					c.Exception(ek, r)
					c.OK(key, "named exception: "+r, posOf(c, in))
					return
				}
				c.Fail(key, "storage error dropped: "+why+"; a fault at this call is neither reported nor retried", posOf(c, in))
			}
		})
	}

	// ---- (2) Update rolls back on error --------------------------------------------------------------
	c.Rule("rollback-on-error", "db.Update: on the error edge of the closure Rollback is called and Commit is unreachable; on the success edge Commit's error is returned", 3)
	upd := fn(c, pkgDB, "", "Update")
	if upd != nil {
		var fcall *ssa.Call
		an.Instrs(upd, func(in ssa.Instruction) {
			if call, ok := in.(*ssa.Call); ok && !call.Call.IsInvoke() {
				if _, isPar := call.Call.Value.(*ssa.Parameter); isPar {
					fcall = call
				}
			}
		})
		if fcall == nil {
			c.Fail(sk(upd)+":f(tx)", "db.Update no longer calls its closure (anchor lost)", p.Pos(upd.Pos()))
		} else {
			// error edge
			var errBlk, okBlk *ssa.BasicBlock
			for _, sb := range p.SuccessBlocks(fcall) {
				okBlk = sb
			}
			for _, r := range *fcall.Referrers() {
				if b, ok := r.(*ssa.BinOp); ok {
					for _, rr := range *b.Referrers() {
						if ifi, ok := rr.(*ssa.If); ok {
							for _, s := range ifi.Block().Succs {
								if s != okBlk {
									errBlk = s
								}
							}
						}
					}
				}
			}
			isInvokeNamed := func(name string) func(ssa.Instruction) bool {
				return func(in ssa.Instruction) bool {
					cc := an.CallOf(in)
					return cc != nil && cc.IsInvoke() && cc.Method.Name() == name
				}
			}
			// a transaction is ended once: the driver's Commit releases the writer lock whether the write succeeded or
			// not, and so does Rollback — a Rollback after a (failed) Commit unlocks a mutex that is not held, or one a
			// queued writer has just taken
			for _, g := range withLiterals(upd) {
				an.Instrs(g, func(in ssa.Instruction) {
					if !isInvokeNamed("Commit")(in) {
						return
					}
					idx := 0
					for k, x := range in.Block().Instrs {
						if x == in {
							idx = k + 1
						}
					}
					se := &an.Search{P: p, Fn: g, GoalInstr: isInvokeNamed("Rollback")}
					if w := se.Run(in.Block(), idx, nil); w != nil {
						c.Fail(sk(upd)+":Commit=>no-Rollback", "Rollback can follow Commit on the same transaction: the LevelDB driver's Commit has already released the writer mutex when the write fails, Rollback releases it again — `fatal error: sync: unlock of unlocked mutex`, or the lock of the next writer is freed and two transactions share the package-level batch", posOf(c, in), w...)
					} else {
						c.OK(sk(upd)+":Commit=>no-Rollback", "no Rollback after Commit", posOf(c, in))
					}
				})
			}
			if errBlk == nil || okBlk == nil {
				c.Fail(sk(upd)+":branches", "the closure's error is not branched on", posOf(c, fcall))
			} else {
				// Commit unreachable from errBlk
				s := &an.Search{P: p, Fn: upd, GoalBlock: func(b, pred *ssa.BasicBlock) bool {
					for _, in := range b.Instrs {
						if isInvokeNamed("Commit")(in) {
							return true
						}
					}
					return false
				}}
				hit := false
				for _, in := range errBlk.Instrs {
					if isInvokeNamed("Commit")(in) {
						hit = true
					}
				}
				if w := s.Run(errBlk, 0, fcall.Block()); w != nil || hit {
					c.Fail(sk(upd)+":error=>no-Commit", "Commit is reachable on the error edge of the closure: a failed step would be made durable", posOf(c, fcall), w...)
				} else {
					c.OK(sk(upd)+":error=>no-Commit", "Commit unreachable after a closure error", posOf(c, fcall))
				}
				// Rollback must-pass from errBlk to any return
				s2 := &an.Search{P: p, Fn: upd, Cut: isInvokeNamed("Rollback"), GoalReturn: func(r *ssa.Return, pred *ssa.BasicBlock) bool {
					return !deferredCallAt(p, r, isInvokeNamed("Rollback")) // a deferred Rollback that runs at this return counts
				}}
				if w := s2.Run(errBlk, 0, fcall.Block()); w != nil {
					c.Fail(sk(upd)+":error=>Rollback", "the error edge of the closure returns without Rollback: the writer lock is never released and the batch is kept", posOf(c, fcall), w...)
				} else {
					c.OK(sk(upd)+":error=>Rollback", "Rollback on every error path", posOf(c, fcall))
				}
				// success: returns Commit()'s error
				s3 := &an.Search{P: p, Fn: upd, Cut: isInvokeNamed("Commit"), GoalReturn: func(r *ssa.Return, pred *ssa.BasicBlock) bool { return true }}
				if w := s3.Run(okBlk, 0, fcall.Block()); w != nil {
					c.Fail(sk(upd)+":success=>Commit", "the success edge can return without Commit", posOf(c, fcall), w...)
				} else {
					c.OK(sk(upd)+":success=>Commit", "Commit on every success path", posOf(c, fcall))
				}
			}
		}
	}

	ruleLedgerPathErrorsPropagate(c)
	ruleRemovalStepIdempotent(c) // the worker's retry of a failed removal starts again at step 1: every deletion of that step must be repeatable

	// ---- (3) cache repair ----------------------------------------------------------------------------------
	c.Rule("cache-repair", "a transaction that fills the in-memory keystore cache repairs it on its error edge, with the id the failed transaction produced", 4)
	rmCached := fn(c, pkgKeystore, "KeystoreManager", "RemoveCachedKeystore")
	updKs := fn(c, pkgKeystore, "KeystoreManager", "UpdateManagedKeystores")
	producers := map[string]*ssa.Function{
		"CreateWallet":             fn(c, pkgKeystore, "KeystoreManager", "NewKeystore"),
		"ImportWallet":             fn(c, pkgKeystore, "KeystoreManager", "ImportKeystore"),
		"ImportWalletWithMnemonic": fn(c, pkgKeystore, "KeystoreManager", "ImportKeystoreWithMnemonic"),
	}
	for _, n := range []string{"CreateWallet", "ImportWallet", "ImportWalletWithMnemonic"} {
		f := fn(c, pkgWallet, "WalletManager", n)
		if f == nil || upd == nil || rmCached == nil {
			continue
		}
		ucs := calls(f, upd)
		if len(ucs) != 1 {
			c.Fail(sk(f)+":one-Update", "expected exactly one Update in "+n, p.Pos(f.Pos()))
			continue
		}
		uc := ucs[0].(*ssa.Call)
		// error edge of Update passes RemoveCachedKeystore before returning
		var errBlk *ssa.BasicBlock
		okBlks := p.SuccessBlocks(uc)
		for _, r := range *uc.Referrers() {
			if b, ok := r.(*ssa.BinOp); ok {
				for _, rr := range *b.Referrers() {
					if ifi, ok := rr.(*ssa.If); ok {
						for _, s := range ifi.Block().Succs {
							isOK := false
							for _, o := range okBlks {
								if o == s {
									isOK = true
								}
							}
							if !isOK {
								errBlk = s
							}
						}
					}
				}
			}
		}
		key := sk(f) + ":error=>RemoveCachedKeystore"
		if errBlk == nil {
			c.Fail(key, "the Update error is not branched on", posOf(c, uc))
			continue
		}
		cutRm := cutCalls(p, an.Set(rmCached))
		s := &an.Search{P: p, Fn: f, Cut: func(in ssa.Instruction) bool {
			if cutRm(in) {
				return true
			}
			// nothing was cached when the producer returned no address manager
			if in == in.Block().Instrs[0] && an.AnyAtom(p.Guards(in.Block()), func(a an.Atom) bool {
				if a.Op != token.EQL || a.Y == nil || !an.IsNilConst(a.Y) {
					return false
				}
				n := an.NamedOf(a.X.Type())
				return n != nil && n.Obj().Name() == "AddrManager"
			}) {
				return true
			}
			return false
		}, GoalReturn: func(r *ssa.Return, pred *ssa.BasicBlock) bool {
			if pred != nil {
				if ea := edgeAtoms(p, pred, r.Block()); ea != nil && ea.Op == token.EQL && ea.Y != nil && an.IsNilConst(ea.Y) {
					if n := an.NamedOf(ea.X.Type()); n != nil && n.Obj().Name() == "AddrManager" {
						return false // nothing was cached: the producer returned no address manager
					}
				}
			}
			return true
		}, CutEdge: func(from, to *ssa.BasicBlock) bool {
			// the `am == nil` edge itself, wherever it leads (with merged returns the Return is further on)
			ea := edgeAtoms(p, from, to)
			if ea == nil || ea.Op != token.EQL || ea.Y == nil || !an.IsNilConst(ea.Y) || ea.X == nil {
				return false
			}
			n := an.NamedOf(ea.X.Type())
			return n != nil && n.Obj().Name() == "AddrManager"
		}}
		if w := s.Run(errBlk, 0, uc.Block()); w != nil {
			c.Fail(key, "after a failed transaction the keystore cached by it is not removed: a phantom wallet without database record stays listed", posOf(c, uc), w...)
			continue
		}
		c.OK(key, "error edge passes RemoveCachedKeystore", posOf(c, uc))
		// the id handed to RemoveCachedKeystore is set, inside the closure, right after the producer — before any later fallible step
		prod := producers[n]
		cl := closureArg(uc, 1)
		if prod == nil || cl == nil {
			continue
		}
		key2 := sk(f) + ":repair-id-set-before-later-steps"
		pcs := calls(cl, prod)
		if len(pcs) == 0 {
			// the producer is called through a function value the closure was given (the two import variants sharing one
			// transaction body, each passing its own `load` literal): the call of that value stands for the producer
			an.Instrs(cl, func(in ssa.Instruction) {
				call, ok := in.(*ssa.Call)
				if !ok || call.Call.IsInvoke() || call.Call.StaticCallee() != nil {
					return
				}
				for _, g := range p.Callees(call) {
					if len(calls(g, prod)) == 1 {
						pcs = append(pcs, in)
						return
					}
				}
			})
		}
		if len(pcs) != 1 {
			c.Fail(key2, "the transaction closure no longer calls "+sk(prod)+" exactly once", p.Pos(cl.Pos()))
			continue
		}
		pc := pcs[0].(*ssa.Call)
		// which captured cell does RemoveCachedKeystore read?
		var cell *ssa.Alloc
		for _, rc := range calls(f, rmCached) {
			arg := an.CallOf(rc).Args[1]
			if nc, ok := arg.(*ssa.Call); ok && nc.Call.StaticCallee() != nil && nc.Call.StaticCallee().Name() == "Name" && len(nc.Call.Args) == 1 {
				arg = nc.Call.Args[0] // am.Name()
			}
			if u, ok := arg.(*ssa.UnOp); ok {
				cell, _ = u.X.(*ssa.Alloc)
			}
		}
		if cell == nil {
			c.Fail(key2, "RemoveCachedKeystore is not given the variable the transaction closure assigns", posOf(c, uc))
			continue
		}
		isStoreToCell := func(in ssa.Instruction) bool {
			st, ok := in.(*ssa.Store)
			if !ok {
				return false
			}
			fv, ok := st.Addr.(*ssa.FreeVar)
			if !ok {
				return false
			}
			// binding index
			for i, q := range cl.FreeVars {
				if q == fv {
					if mc, ok := an.CallOf(uc).Args[1].(*ssa.MakeClosure); ok && i < len(mc.Bindings) && mc.Bindings[i] == ssa.Value(cell) {
						return true
					}
				}
			}
			return false
		}
		// from just after the producer call: reaching any return on the producer's success side without the store is a violation
		b := pc.Block()
		idx := 0
		for i, in := range b.Instrs {
			if in == ssa.Instruction(pc) {
				idx = i + 1
			}
		}
		succ := p.SuccessBlocks(pc)
		// (the producer's own error edge is not followed: nothing was cached there)
		errEdge := map[[2]*ssa.BasicBlock]bool{}
		for _, sb := range succ {
			if len(sb.Preds) == 1 {
				for _, o := range sb.Preds[0].Succs {
					if o != sb {
						errEdge[[2]*ssa.BasicBlock{sb.Preds[0], o}] = true
					}
				}
			}
		}
		s2 := &an.Search{P: p, Fn: cl, Cut: isStoreToCell,
			CutEdge: func(from, to *ssa.BasicBlock) bool { return errEdge[[2]*ssa.BasicBlock{from, to}] },
			// leaving the transaction after the producer succeeded without having stored the id
			GoalReturn: func(r *ssa.Return, pred *ssa.BasicBlock) bool { return true }}
		if w := s2.Run(b, idx, nil); w != nil {
			c.Fail(key2, "the wallet id used for cache repair is assigned only after later steps of the transaction: if one of them fails the repair is a no-op on the empty id and the keystore cached by "+sk(prod)+" stays", posOf(c, pc), w...)
		} else {
			c.OK(key2, "the id is stored to the captured variable before the producer's success continuation", posOf(c, pc))
		}
	}
	// asyncRemove: error after finish ⇒ UpdateManagedKeystores
	ar := fn(c, pkgWallet, "NtfnsHandler", "asyncRemove")
	if ar != nil && updKs != nil {
		reached, _ := p.Reach([]*ssa.Function{ar}, an.ReachOpts{})
		if reached[updKs] {
			// guarded by finish and err != nil
			ok := false
			for _, f := range []*ssa.Function{ar} {
				for _, af := range append([]*ssa.Function{f}, closuresOf(p, f)...) {
					for _, s := range calls(af, updKs) {
						_ = s
						ok = true
					}
				}
			}
			if ok {
				c.OK(sk(ar)+":error-after-finish=>UpdateManagedKeystores", "cache resynchronised from the database after a failed final step", p.Pos(ar.Pos()))
			}
		} else {
			c.Fail(sk(ar)+":error-after-finish=>UpdateManagedKeystores", "asyncRemove no longer resynchronises the keystore cache when its final step fails", p.Pos(ar.Pos()))
		}
	}

	// ---- (4) retry -------------------------------------------------------------------------------------------
	c.Rule("retry", "the worker re-queues an import that did not finish and a removal that failed for a reason other than shutdown", 2)
	worker := fn(c, pkgWallet, "", "worker")
	asyncImport := fn(c, pkgWallet, "NtfnsHandler", "asyncImport")
	if worker != nil && asyncImport != nil && ar != nil {
		okI, okR := false, false
		for _, tp := range pushesOf(c, worker, "import") {
			if an.AnyAtom(tp.Guards(p), func(a an.Atom) bool {
				// !fin where fin derives from asyncImport#0
				return a.Op == token.ILLEGAL && !a.Truth && strings.Contains(p.Desc(a.X), nm(asyncImport))
			}) {
				okI = true
			}
		}
		for _, tp := range pushesOf(c, worker, "remove") {
			if an.AnyAtom(tp.Guards(p), func(a an.Atom) bool {
				return a.Op == token.NEQ && strings.Contains(p.Desc(a.X)+p.Desc(a.Y), nm(ar)) && strings.Contains(p.Desc(a.X)+p.Desc(a.Y), "ErrTaskAbort")
			}) {
				okR = true
			}
		}
		if okI {
			c.OK(sk(worker)+":!fin=>PushImport", "unfinished import is re-queued", p.Pos(worker.Pos()))
		} else {
			c.Fail(sk(worker)+":!fin=>PushImport", "an import that did not finish (error or more batches) is not re-queued", p.Pos(worker.Pos()))
		}
		if okR {
			c.OK(sk(worker)+":err!=abort=>PushRemove", "failed removal is re-queued unless shutting down", p.Pos(worker.Pos()))
		} else {
			c.Fail(sk(worker)+":err!=abort=>PushRemove", "a failed removal is not re-queued", p.Pos(worker.Pos()))
		}
	}

	// ---- errors inside a transaction closure are not swallowed ---------------------------------------------
	ruleNoSwallowedErrorInUpdate(c, 8, nil)

	// ---- (5) next index from the transaction ---------------------------------------------------------------------
	ruleNextIndexFromTx(c)
	ruleFailedBatchNotFinished(c)
	ruleSoleWriter(c)
	ruleHandleStateFollowsCommit(c)
	ruleAccountBucketCreatedExclusively(c)
	_ = sort.Strings
	ruleNoMemoryTipUnderUpdate(c, true)
	ruleImportRetryOverride(c)
	ruleQueueHeadroom(c)
}

// closureArg returns the function literal passed as argument #i of call.
func closureArg(call *ssa.Call, i int) *ssa.Function {
	if i >= len(call.Call.Args) {
		return nil
	}
	switch v := call.Call.Args[i].(type) {
	case *ssa.MakeClosure:
		f, _ := v.Fn.(*ssa.Function)
		return f
	case *ssa.Function:
		return v
	}
	return nil
}

// ruleNextIndexFromTx: the child index used for derivation in nextAddresses originates from the
// account bucket read inside the transaction (getChildNum), not from the in-memory branch cache.
func ruleNextIndexFromTx(c *report.Ctx) {
	p := c.P
	c.Rule("next-index-from-tx", "AddrManager.nextAddresses derives at the child number read from the account bucket in this transaction; the in-memory counters are updated before commit and are stale after a rollback", 1)
	na := fn(c, pkgKeystore, "AddrManager", "nextAddresses")
	getCN := fn(c, pkgKeystore, "", "getChildNum")
	child := fn(c, pkgHD, "ExtendedKey", "Child")
	if na == nil || getCN == nil || child == nil {
		return
	}
	// the derivation may sit in a helper of the keystore package that nextAddresses calls: a frame remembers
	// through which call site a helper was entered, so that its parameters resolve to that site's arguments
	type frame struct {
		fn     *ssa.Function
		site   *ssa.Call // call in parent.fn that entered fn (nil for nextAddresses itself)
		parent *frame
	}
	helper := func(call *ssa.Call) *ssa.Function {
		g := call.Call.StaticCallee()
		if g == nil || g.Blocks == nil || g == na {
			return nil
		}
		if pk := an.FuncPkg(g); pk == nil || pk.Path() != pkgKeystore {
			return nil
		}
		if g == getCN {
			return nil
		}
		return g
	}
	type site struct {
		in ssa.Instruction
		fr *frame
	}
	var sites []site
	var collect func(fr *frame, depth int)
	collect = func(fr *frame, depth int) {
		an.Instrs(fr.fn, func(in ssa.Instruction) {
			call, ok := in.(*ssa.Call)
			if !ok {
				return
			}
			if call.Call.StaticCallee() == child {
				sites = append(sites, site{in, fr})
				return
			}
			if g := helper(call); g != nil && depth < 2 {
				collect(&frame{g, call, fr}, depth+1)
			}
		})
	}
	collect(&frame{na, nil, nil}, 0)
	n := 0
	for _, st := range sites {
		s := st.in
		arg := an.CallOf(s).Args[1]
		if _, isConst := arg.(*ssa.Const); isConst {
			continue
		}
		if par, isPar := stripConv(arg).(*ssa.Parameter); isPar && par.Parent() == na {
			continue // branch selector
		}
		if ph, isPhi := arg.(*ssa.Phi); isPhi {
			allConst := true
			for _, e := range ph.Edges {
				if _, ok := e.(*ssa.Const); !ok {
					allConst = false
				}
			}
			if allConst {
				continue // branch selector (internal/external)
			}
		}
		n++
		key := siteKey(na, "Child(nextIndex)", n)
		type vk struct {
			v  ssa.Value
			fr *frame
		}
		seen := map[vk]bool{}
		var bad []string
		good := false
		var walk func(v ssa.Value, fr *frame, d int)
		walk = func(v ssa.Value, fr *frame, d int) {
			if v == nil || seen[vk{v, fr}] || d > 14 {
				return
			}
			seen[vk{v, fr}] = true
			switch x := v.(type) {
			case *ssa.Phi:
				for _, e := range x.Edges {
					walk(e, fr, d+1)
				}
			case *ssa.BinOp:
				walk(x.X, fr, d+1)
				walk(x.Y, fr, d+1)
			case *ssa.Const:
			case *ssa.Convert:
				walk(x.X, fr, d+1)
			case *ssa.Parameter:
				// a helper's parameter: continue with the argument at the site the helper was entered through
				if fr.site != nil && x.Parent() == fr.fn {
					for i, q := range fr.fn.Params {
						if q == x && i < len(fr.site.Call.Args) {
							walk(fr.site.Call.Args[i], fr.parent, d+1)
							return
						}
					}
				}
				bad = append(bad, p.Desc(v))
			case *ssa.Extract:
				if call, ok := x.Tuple.(*ssa.Call); ok {
					if call.Call.StaticCallee() == getCN {
						good = true
						return
					}
					if g := helper(call); g != nil {
						// the index a helper hands back: every value it can return at that position
						sub := &frame{g, call, fr}
						for _, b := range g.Blocks {
							if r, ok := b.Instrs[len(b.Instrs)-1].(*ssa.Return); ok && x.Index < len(r.Results) {
								walk(an.RetOperand(r, x.Index), sub, d+1)
							}
						}
						return
					}
				}
				bad = append(bad, p.Desc(v))
			default:
				bad = append(bad, p.Desc(v))
			}
		}
		walk(arg, st.fr, 0)
		if good && len(bad) == 0 {
			c.OK(key, "index originates from getChildNum(account bucket of this transaction)", posOf(c, s))
		} else {
			c.Fail(key, "the derivation index originates from "+strings.Join(bad, ", ")+" instead of the child number stored in the transaction's account bucket: after a rolled-back NewAddress the cache is ahead of the database and an index is skipped for good", posOf(c, s))
		}
	}
	if n == 0 {
		c.Fail(sk(na)+":Child(nextIndex)", "no index derivation found in nextAddresses (anchor lost)", p.Pos(na.Pos()))
	}
}
