package rules

import (
	"go/token"
	"go/types"
	"strings"

	"golang.org/x/tools/go/ssa"

	"verif/internal/an"
	"verif/internal/report"
)

func init() {
	register(&Check{
		ID: "C02",
		Explain: "Structural necessary conditions of transaction creation, decided on SSA guard atoms and must-pass searches: " +
			"(1) the automatic coin-selection filter submits a coin only under all of: confirmations>=maturity, not spent, not spent-by-pending, class not staking/binding, not reserved by an earlier draft (UTXOUsed), not spent in the node's pool; " +
			"(2) every success return of the four Create* methods reserves the inputs (MarkUsedUTXO); " +
			"(3) explicit inputs are added only after the current wallet's address manager resolved the input's address, automatic selection iterates only the current wallet's unspent prefix; " +
			"(4) the insufficient-funds branch reaches only error returns; " +
			"(5) every output passes the dust test and a dust verdict reaches only error returns; " +
			"(6) the fee/selection loop carries nothing but the target fee across passes (no stale change output or selection); " +
			"(7) the API create handlers check the fee ceiling before replying.",
		NotDec: "value conservation, fee adequacy and the fixed point of the fee loop (arithmetic); change-address choice; duplicate explicit inputs (constructTxIn keeps no seen-set — no non-brittle structural rule; left to a dynamic family).",
		Run:    runC02,
	})
}

// ruleEligibility checks the guard atoms at every topKSelector.submit site.
// which selects the atoms that belong to the calling property's clause: "all" (C02), "pending" (C09: the
// spent-by-pending flag), "locks" (C10: the staking/binding class atoms), "live" (C17: maturity and the
// live spent flag, which reject a coin whose state changes while the query iterates).
func ruleEligibility(c *report.Ctx, which string) {
	p := c.P
	floor := map[string]int{"all": 7, "pending": 1, "locks": 2, "live": 2}[which]
	c.Rule("eligibility-atoms", "a coin is submitted to the automatic selector only under the eligibility atoms of this property's clause ("+which+"; each atom resolved to the Credit field / method it tests)", floor)
	submit := fn(c, pkgWallet, "topKSelector", "submit")
	utxoUsed := fn(c, pkgWallet, "WalletManager", "UTXOUsed")
	if submit == nil || utxoUsed == nil {
		return
	}
	classStaking := p.Obj(pkgTxmgr, "ClassStakingUtxo")
	classBinding := p.Obj(pkgTxmgr, "ClassBindingUtxo")
	classStd := p.Obj(pkgTxmgr, "ClassStandardUtxo")
	if classStaking == nil || classBinding == nil || classStd == nil {
		c.Lost("txmgr.Class*Utxo")
		return
	}
	var sites []ssa.Instruction
	for _, f := range p.ModFuncs {
		if f == submit {
			continue
		}
		sites = append(sites, calls(f, submit)...)
	}
	if len(sites) == 0 {
		c.Fail("topKSelector.submit:no-call-site", "no call of the selector's submit found: the eligibility filter lost its anchor", "")
		return
	}
	isConst := func(v ssa.Value, o types.Object) bool {
		k, ok := v.(*ssa.Const)
		return ok && k.Value != nil && k.Value.ExactString() == constString(o)
	}
	type req struct {
		name string
		pred func(a an.Atom) bool
	}
	reqs := []req{
		{"Credit.Confirmations >= Credit.Maturity", func(a an.Atom) bool {
			return a.Op == token.GEQ && p.Desc(a.X) == "Credit.Confirmations" && p.Desc(a.Y) == "Credit.Maturity"
		}},
		{"!Credit.Flags.SpentByUnmined", func(a an.Atom) bool {
			return a.Op == token.ILLEGAL && !a.Truth && p.Desc(a.X) == "Credit.Flags.SpentByUnmined"
		}},
		{"!Credit.Flags.Spent", func(a an.Atom) bool {
			return a.Op == token.ILLEGAL && !a.Truth && p.Desc(a.X) == "Credit.Flags.Spent"
		}},
		{"Credit.Flags.Class != ClassBindingUtxo", func(a an.Atom) bool {
			if p.Desc(a.X) != "Credit.Flags.Class" {
				return false
			}
			return (a.Op == token.NEQ && isConst(a.Y, classBinding)) || (a.Op == token.EQL && isConst(a.Y, classStd))
		}},
		{"Credit.Flags.Class != ClassStakingUtxo", func(a an.Atom) bool {
			if p.Desc(a.X) != "Credit.Flags.Class" {
				return false
			}
			return (a.Op == token.NEQ && isConst(a.Y, classStaking)) || (a.Op == token.EQL && isConst(a.Y, classStd))
		}},
		{"!WalletManager.UTXOUsed(outpoint)", func(a an.Atom) bool { return an.BoolCall(a, utxoUsed, "", false) }},
		{"!TxMemPool.CheckPoolOutPointSpend(outpoint)", func(a an.Atom) bool { return an.BoolCall(a, nil, "CheckPoolOutPointSpend", false) }},
	}
	switch which {
	case "pending":
		reqs = reqs[1:2]
	case "locks":
		reqs = reqs[3:5]
	case "live":
		reqs = []req{reqs[0], reqs[2]}
	}
	for i, s := range sites {
		gs := p.GuardsOf(s)
		for _, r := range reqs {
			key := siteKey(s.Parent(), "submit~"+r.name, 0)
			if len(sites) > 1 {
				key = siteKey(s.Parent(), "submit~"+r.name, i+1)
			}
			if an.AnyAtom(gs, r.pred) {
				c.OK(key, "atom present", posOf(c, s))
			} else {
				c.Fail(key, "coin is submitted to the selector without the guard "+r.name, posOf(c, s), an.AtomTexts(gs)...)
			}
		}
		// the submitted item is the filter's own parameter (the credit the atoms were evaluated on)
		cc := an.CallOf(s)
		if len(cc.Args) >= 2 {
			if _, ok := cc.Args[1].(*ssa.Parameter); !ok {
				c.Fail(siteKey(s.Parent(), "submit~item", i+1), "the submitted coin is not the filter's own argument (atoms were evaluated on another value)", posOf(c, s))
			}
		}
	}
}

func runC02(c *report.Ctx) {
	p := c.P
	rulePendingMarkForEveryRelevantInput(c)
	ruleEligibility(c, "all")
	ruleExplicitInputsDistinct(c)
	rulePayloadBeforeFeeLoop(c)
	ruleReservationCacheOwnership(c)
	ruleEveryInputSized(c)
	ruleImportAppliesSpends(c)          // an imported wallet must not be left holding coins the chain already spent
	ruleUnminedRecordTypestate(c)       // a dropped pending transaction must release every coin it held, or funds that suffice are refused
	ruleMinedCreditShortcutBlockOnly(c) // a pending child of a pending wallet transaction must mark the change it spends

	// ---- reservation ---------------------------------------------------------------
	c.Rule("reservation", "every success return of a Create* method passes MarkUsedUTXO, so a second draft cannot select the same coins", 4)
	mark := fn(c, pkgWallet, "WalletManager", "MarkUsedUTXO")
	for _, n := range []string{"CreateRawTransaction", "AutoCreateRawTransaction", "CreateStakingTransaction", "CreateBindingTransaction"} {
		f := fn(c, pkgWallet, "WalletManager", n)
		mustPass(c, f, an.Set(mark), "MarkUsedUTXO")
		// and the marked transaction is the one that is serialised and returned
		if f != nil && mark != nil {
			toHex := fnOpt(c, pkgWallet, "", "messageToHex")
			ms := calls(f, mark)
			hs := calls(f, toHex)
			if len(ms) == 1 && len(hs) == 1 {
				ma := an.CallOf(ms[0]).Args
				ha := an.CallOf(hs[0]).Args
				same := len(ma) >= 2 && len(ha) >= 1 && sameUnderlying(ma[1], ha[0])
				if same {
					c.OK(sk(f)+":marked==returned", "MarkUsedUTXO is applied to the transaction that is serialised", posOf(c, ms[0]))
				} else {
					c.Fail(sk(f)+":marked==returned", "MarkUsedUTXO is applied to a different transaction value than the one serialised and returned", posOf(c, ms[0]))
				}
			}
		}
	}
	// MarkUsedUTXO ranges over all inputs and sets the cache entry per input
	if mark != nil {
		setCalls := 0
		an.Instrs(mark, func(in ssa.Instruction) {
			if cc := an.CallOf(in); cc != nil {
				if f := cc.StaticCallee(); f != nil && f.Name() == "Set" && loopHeaderOf(in.Block()) != nil {
					setCalls++
				}
			}
		})
		if setCalls >= 1 {
			c.OK(sk(mark)+":per-input-Set", "sets a cache entry inside the loop over TxIn", p.Pos(mark.Pos()))
		} else {
			c.Fail(sk(mark)+":per-input-Set", "MarkUsedUTXO no longer records every input in the reservation cache", p.Pos(mark.Pos()))
		}
	}

	// ---- ownership -------------------------------------------------------------------
	c.Rule("ownership", "explicit inputs are accepted only when the current wallet's address manager owns the spent output's address; automatic selection scans only the current wallet's prefix of the unspent bucket", 2)
	cti := fn(c, pkgWallet, "WalletManager", "constructTxIn")
	amAddress := fn(c, pkgKeystore, "AddrManager", "Address")
	curKs := fn(c, pkgKeystore, "KeystoreManager", "CurrentKeystore")
	addTxInM := p.Fn(pkgWire, "MsgTx", "AddTxIn")
	if addTxInM == nil {
		c.Lost("wire.(*MsgTx).AddTxIn")
	}
	if cti != nil && amAddress != nil && addTxInM != nil && curKs != nil {
		adds := calls(cti, addTxInM)
		if len(adds) == 0 {
			c.Fail(sk(cti)+":AddTxIn", "constructTxIn no longer adds inputs through MsgTx.AddTxIn (anchor lost)", p.Pos(cti.Pos()))
		}
		for i, a := range adds {
			key := siteKey(cti, "AddTxIn~owned", i+1)
			dom := p.DominatedBySuccess(a, an.Set(amAddress))
			ok := false
			if dom != nil {
				// receiver of Address is the CurrentKeystore() result; argument derives from the parsed script of the spent output
				cc := an.CallOf(dom)
				if rc, isCall := cc.Args[0].(*ssa.Call); isCall && rc.Call.StaticCallee() == curKs {
					d := p.Desc(cc.Args[1])
					if strings.Contains(d, "StdEncodeAddress") && strings.Contains(d, "ParsePkScript") {
						ok = true
					}
				}
			}
			if ok {
				c.OK(key, "dominated by success of CurrentKeystore().Address(ParsePkScript(prevOut).StdEncodeAddress())", posOf(c, a))
			} else {
				c.Fail(key, "an explicit input is added without the current wallet's address manager having resolved the spent output's address (foreign input accepted)", posOf(c, a))
			}
		}
	}
	sau := fn(c, pkgTxmgr, "UtxoStore", "ScriptAddressUnspents")
	sab := fn(c, pkgTxmgr, "UtxoStore", "ScriptAddressBalance")
	for _, f := range []*ssa.Function{sau, sab} {
		if f == nil {
			continue
		}
		ok := false
		var site ssa.Instruction
		instrsWithLiterals(f, func(in ssa.Instruction) {
			cc := an.CallOf(in)
			if cc == nil || !cc.IsInvoke() || cc.Method.Name() != "NewIterator" || !isBucketIface(cc.Value.Type()) {
				return
			}
			site = in
			d := p.Desc(cc.Args[0])
			if strings.Contains(d, "db.BytesPrefix(") && strings.Contains(d, "CurrentKeystore(") && strings.Contains(d, ".Name(") {
				// and the bucket is the unspent bucket
				for _, op := range schemaOps(p) {
					if op.Site == in && op.Bucket == "nsUnspent" {
						ok = true
					}
				}
			}
		})
		if !ok {
			// the scan may sit in a helper of the package that receives the wallet id: follow the prefix back to f's argument
			tr := &an.Tracer{P: p, ThroughSlice: true, Leaf: func(v ssa.Value) bool { _, isCall := v.(*ssa.Call); return isCall }}
			for _, g := range reachIn(p, f, pkgTxmgr) {
				if g == f {
					continue
				}
				instrsWithLiterals(g, func(in ssa.Instruction) {
					cc := an.CallOf(in)
					if cc == nil || !cc.IsInvoke() || cc.Method.Name() != "NewIterator" || !isBucketIface(cc.Value.Type()) || ok {
						return
					}
					onUnspent := false
					for _, op := range schemaOps(p) {
						if op.Site == in && op.Bucket == "nsUnspent" {
							onUnspent = true
						}
					}
					pre, isCall := cc.Args[0].(*ssa.Call)
					if !onUnspent || !isCall || pre.Call.StaticCallee() == nil || nm(pre.Call.StaticCallee()) != "BytesPrefix" {
						return
					}
					all, any := true, false
					for _, o := range tr.Origins(stripConv(pre.Call.Args[0])) {
						// only the contexts that come from f count
						fromF := false
						for _, a := range o.Ascent {
							if apiOwnerOrSelf(p, a.Parent()) == f {
								fromF = true
							}
						}
						if !fromF {
							continue
						}
						any = true
						d := p.Desc(o.V)
						if !(strings.Contains(d, "CurrentKeystore(") && strings.Contains(d, ".Name(")) {
							all = false
						}
					}
					if any && all {
						ok = true
						site = in
					}
				})
			}
		}
		key := sk(f) + ":iterates-current-wallet-prefix"
		if ok {
			c.OK(key, "NewIterator(BytesPrefix(CurrentKeystore().Name())) on the unspent bucket", posOf(c, site))
		} else {
			c.Fail(key, "the coin scan is not restricted to the current wallet's prefix of the unspent bucket (another wallet's coins could be selected/counted)", p.Pos(f.Pos()))
		}
	}

	// ---- insufficient funds → error -----------------------------------------------------
	c.Rule("insufficient-funds", "when the coins found are less than wanted, only error returns are reachable", 1)
	auto := fn(c, pkgWallet, "WalletManager", "autoConstructTxInAndChangeTxOut")
	amtCmp := p.Fn("github.com/massnetorg/mass-core/massutil", "Amount", "Cmp")
	feli := fn(c, pkgWallet, "WalletManager", "findEligibleUtxos")
	if auto != nil && amtCmp != nil && feli != nil {
		found := false
		for _, b := range auto.Blocks {
			ifi, ok := b.Instrs[len(b.Instrs)-1].(*ssa.If)
			if !ok {
				continue
			}
			a := p.MkAtom(ifi.Cond, true, ifi)
			// found.Cmp(wantAdj) < 0 where found is result #2 of findEligibleUtxos
			if a.Op != token.LSS {
				continue
			}
			call, ok := a.X.(*ssa.Call)
			if !ok || call.Call.StaticCallee() != amtCmp {
				continue
			}
			if ex, ok := call.Call.Args[0].(*ssa.Extract); !ok || ex.Index != 2 {
				continue
			} else if fc, ok := ex.Tuple.(*ssa.Call); !ok || fc.Call.StaticCallee() != feli {
				continue
			}
			if k, ok := a.Y.(*ssa.Const); !ok || k.Value == nil || k.Value.ExactString() != "0" {
				continue
			}
			found = true
			s := &an.Search{P: p, Fn: auto, GoalReturn: func(r *ssa.Return, pred *ssa.BasicBlock) bool {
				return p.ClassifyReturn(r, pred) != an.RetError
			}, GoalBlock: func(nb, pred *ssa.BasicBlock) bool {
				// leaving the branch back into the loop is also a violation
				return nb == b
			}}
			if w := s.Run(b.Succs[0], 0, b); w != nil {
				c.Fail(sk(auto)+":found<want", "with insufficient eligible funds a non-error path is reachable (some other transaction would be returned)", posOf(c, ifi), w...)
			} else {
				c.OK(sk(auto)+":found<want", "only error returns reachable (ErrOverfullUtxo / ErrInsufficientFunds)", posOf(c, ifi))
			}
		}
		if !found {
			c.Fail(sk(auto)+":found<want", "no comparison of the found amount with the wanted amount (anchor lost): insufficient funds would not be detected", p.Pos(auto.Pos()))
		}
	}

	// ---- dust gate -----------------------------------------------------------------------
	c.Rule("dust-gate", "constructTxOut tests every output with IsDust and a dust verdict reaches only error returns", 2)
	cto := fn(c, pkgWallet, "WalletManager", "constructTxOut")
	isDust := p.Fn(pkgChain, "", "IsDust")
	if isDust == nil {
		c.Lost("blockchain.IsDust")
	}
	if cto != nil && isDust != nil {
		ds := calls(cto, isDust)
		if len(ds) == 0 {
			c.Fail(sk(cto)+":IsDust", "constructTxOut no longer tests outputs for dust", p.Pos(cto.Pos()))
		}
		for i, d := range ds {
			key := siteKey(cto, "IsDust", i+1)
			hdr := loopHeaderOf(d.Block())
			if hdr == nil {
				c.Fail(key+":per-output", "the dust test is not inside a loop over the outputs", posOf(c, d))
				continue
			}
			// the loop ranges over MsgTx.TxOut of the transaction being returned
			if !strings.Contains(p.Desc(an.CallOf(d).Args[0]), "MsgTx.TxOut[") {
				c.Fail(key+":per-output", "the dust test is not applied to the elements of MsgTx.TxOut", posOf(c, d))
			} else {
				c.OK(key+":per-output", "applied to each element of MsgTx.TxOut", posOf(c, d))
			}
			// success return only after the loop: from function entry, a success return must not be reachable
			// without entering the loop header
			w := p.MustPassOnSuccess(cto, func(in ssa.Instruction) bool { return in.Block() == hdr })
			if w != nil {
				c.Fail(key+":before-success", "constructTxOut can return successfully without running the dust loop", posOf(c, d), w...)
			} else {
				c.OK(key+":before-success", "every success return is after the dust loop", posOf(c, d))
			}
			// dust verdict → only errors
			dv := d.(*ssa.Call)
			okv := false
			for _, r := range *dv.Referrers() {
				ex, ok := r.(*ssa.Extract)
				if !ok || ex.Index != 0 {
					continue
				}
				for _, rr := range *ex.Referrers() {
					ifi, ok := rr.(*ssa.If)
					if !ok {
						continue
					}
					s := &an.Search{P: p, Fn: cto, GoalReturn: func(r *ssa.Return, pred *ssa.BasicBlock) bool {
						return p.ClassifyReturn(r, pred) != an.RetError
					}, GoalBlock: func(nb, pred *ssa.BasicBlock) bool { return nb == hdr }}
					if w := s.Run(ifi.Block().Succs[0], 0, ifi.Block()); w != nil {
						c.Fail(key+":dust=>error", "a dust output does not force an error return", posOf(c, ifi), w...)
					} else {
						okv = true
						c.OK(key+":dust=>error", "dust verdict reaches only error returns", posOf(c, ifi))
					}
				}
			}
			if !okv {
				c.Fail(key+":dust=>error", "the dust verdict is not branched on", posOf(c, d))
			}
		}
	}

	// ---- fee loop state ---------------------------------------------------------------------
	c.Rule("fee-loop-state", "the fee/selection loop carries only the target fee from one pass to the next: change output, output count and selected coins are re-derived in every pass", 1)
	calcFee := p.Fn(pkgChain, "", "CalcMinRequiredTxRelayFee")
	if calcFee == nil {
		c.Lost("blockchain.CalcMinRequiredTxRelayFee")
	}
	if auto != nil && calcFee != nil {
		cs := calls(auto, calcFee)
		if len(cs) != 1 {
			c.Fail(sk(auto)+":fee-loop", "expected one relay-fee computation in the fee loop", p.Pos(auto.Pos()))
		} else {
			// outermost loop containing the call
			var hdr *ssa.BasicBlock
			for h := loopHeaderOf(cs[0].Block()); h != nil; h = outerLoopHeader(h) {
				hdr = h
			}
			if hdr == nil {
				c.Fail(sk(auto)+":fee-loop", "the relay-fee computation is not inside a loop", posOf(c, cs[0]))
			} else {
				bad := false
				for _, in := range hdr.Instrs {
					ph, ok := in.(*ssa.Phi)
					if !ok {
						break
					}
					if n := an.NamedOf(ph.Type()); n != nil && n.Obj().Name() == "Amount" {
						if _, isPtr := ph.Type().Underlying().(*types.Pointer); !isPtr {
							continue
						}
					}
					// loop-carried value of another kind: is any back-edge operand something other than nil/zero?
					for i, e := range ph.Edges {
						if !hdr.Dominates(hdr.Preds[i]) {
							continue
						}
						if k, ok := e.(*ssa.Const); ok && (k.Value == nil || k.Value.ExactString() == "0") {
							continue
						}
						bad = true
						c.Fail(sk(auto)+":fee-loop-carries:"+ph.Comment, "the fee loop carries "+ph.Comment+" ("+typeStr(ph.Type())+") from one pass into the next: a stale change output / selection of an earlier pass can end up in the transaction", posOf(c, cs[0]))
					}
				}
				if !bad {
					c.OK(sk(auto)+":fee-loop", "only Amount-typed state (the target fee) is loop-carried", posOf(c, cs[0]))
				}
			}
		}
	}

	// ---- fee subtraction base ------------------------------------------------------------------------------
	c.Rule("fee-subtraction-base", "recipients' fee shares are always computed from the requested amounts, never from amounts that already had a share subtracted", 2)
	crt := fn(c, pkgWallet, "WalletManager", "CreateRawTransaction")
	msf := fn(c, pkgWallet, "", "maybeSubtractFeeFromAmounts")
	if crt != nil && msf != nil {
		ss := calls(crt, msf)
		if len(ss) == 0 {
			c.Fail(sk(crt)+":maybeSubtractFeeFromAmounts", "anchor lost: CreateRawTransaction no longer computes fee shares through maybeSubtractFeeFromAmounts", p.Pos(crt.Pos()))
		}
		for i, s2 := range ss {
			key := siteKey(crt, "maybeSubtractFeeFromAmounts(amounts)", i+1)
			if par, ok := an.CallOf(s2).Args[0].(*ssa.Parameter); ok && par.Parent() == crt {
				c.OK(key, "first argument is the request's amounts parameter", posOf(c, s2))
			} else {
				c.Fail(key, "fee shares are subtracted from "+p.Desc(an.CallOf(s2).Args[0])+" instead of the requested amounts: recipients chosen to bear the fee are reduced twice and the surplus silently goes to the change output", posOf(c, s2))
			}
		}
	}

	// ---- selector heap ----------------------------------------------------------------------------------
	c.Rule("selector-heap", "when the top-K buffer fills, the heap is built by sifting down every inner node including the root (index 0): otherwise the minimum is not at the root and eligible coins larger than it are rejected", 1)
	submitF := fn(c, pkgWallet, "topKSelector", "submit")
	adjust := fn(c, pkgWallet, "topKSelector", "adjust")
	if submitF != nil && adjust != nil {
		found := false
		for _, s := range calls(submitF, adjust) {
			if loopHeaderOf(s.Block()) == nil {
				continue
			}
			found = true
			idx := an.CallOf(s).Args[1]
			ok := an.AnyAtom(p.GuardsOf(s), func(a an.Atom) bool {
				if a.X != idx {
					return false
				}
				k, isK := a.Y.(*ssa.Const)
				if !isK || k.Value == nil {
					return false
				}
				return (a.Op == token.GEQ && k.Value.ExactString() == "0") || (a.Op == token.GTR && k.Value.ExactString() == "-1")
			})
			if ok {
				c.OK(sk(submitF)+":heapify-includes-root", "sift-down loop runs while i >= 0", posOf(c, s))
			} else {
				c.Fail(sk(submitF)+":heapify-includes-root", "the heap-building loop stops before index 0: the root is never sifted down, so base[0] is not the minimum and the selector does not keep the K largest eligible coins (creation fails with insufficient funds although funds suffice)", posOf(c, s), an.AtomTexts(p.GuardsOf(s))...)
			}
		}
		if !found {
			c.Fail(sk(submitF)+":heapify-includes-root", "no heap-building loop found in topKSelector.submit (anchor lost)", p.Pos(submitF.Pos()))
		}
	}

	// ---- API fee ceiling ------------------------------------------------------------------------
	ruleFeeCeiling(c)
	ruleFeeShareRoundsUp(c)
	ruleChangeToFirstInput(c)
	ruleInsufficientAgainstRequested(c)
}

func typeStr(t types.Type) string {
	return types.TypeString(t, func(pk *types.Package) string { return shortPkg(pk.Path()) })
}

func sameUnderlying(a, b ssa.Value) bool {
	strip := func(v ssa.Value) ssa.Value {
		for {
			switch x := v.(type) {
			case *ssa.MakeInterface:
				v = x.X
			case *ssa.ChangeInterface:
				v = x.X
			case *ssa.ChangeType:
				v = x.X
			default:
				return v
			}
		}
	}
	return strip(a) == strip(b)
}

// ruleFeeCeiling: API create handlers compare the fee with the configured ceiling before a success reply.
func ruleFeeCeiling(c *report.Ctx) {
	p := c.P
	c.Rule("fee-ceiling", "every success reply of an API create handler is preceded by the fee-limit check on the fee the wallet reported", 4)
	check := fnOpt(c, pkgAPI, "", "checkTxFeeLimit")
	if check == nil {
		// find by shape: any api function named *FeeLimit*
		for _, f := range p.ModFuncs {
			if pk := an.FuncPkg(f); pk != nil && pk.Path() == pkgAPI && strings.Contains(f.Name(), "FeeLimit") {
				check = f
			}
		}
	}
	amtCmp0 := p.Fn("github.com/massnetorg/mass-core/massutil", "Amount", "Cmp")
	// the limit test written out in a handler (the check function spliced in): `max.Cmp(fee) < 0` whose over-limit side
	// reaches no reply
	isReply := func(f *ssa.Function) func(r *ssa.Return, pred *ssa.BasicBlock) bool {
		return func(r *ssa.Return, pred *ssa.BasicBlock) bool {
			return len(r.Results) > 0 && p.ValState(an.RetOperand(r, 0), r.Block(), pred) != an.IsNil
		}
	}
	inlineTests := func(f *ssa.Function) []*ssa.Call {
		var out []*ssa.Call
		for _, b := range f.Blocks {
			ifi, ok := b.Instrs[len(b.Instrs)-1].(*ssa.If)
			if !ok || amtCmp0 == nil {
				continue
			}
			for i := range b.Succs {
				a := p.MkAtom(ifi.Cond, i == 0, ifi)
				call, isCall := a.X.(*ssa.Call)
				if a.Op != token.LSS || !isCall || call.Call.StaticCallee() != amtCmp0 {
					continue
				}
				if k, isK := constInt(a.Y); !isK || k != 0 {
					continue
				}
				s := &an.Search{P: p, Fn: f, GoalReturn: isReply(f)}
				if s.Run(b.Succs[i], 0, b) == nil {
					out = append(out, call)
				}
			}
		}
		return out
	}
	if check == nil && amtCmp0 == nil {
		c.Lost("api.checkTxFeeLimit")
		return
	}
	fromWallet := func(v ssa.Value) bool {
		v = soleNonNil(v)
		for i := 0; i < 3; i++ {
			switch x := v.(type) {
			case *ssa.ChangeType:
				v = soleNonNil(x.X)
				continue
			case *ssa.Convert:
				v = soleNonNil(x.X)
				continue
			}
			break
		}
		if ex, isEx := v.(*ssa.Extract); isEx {
			if call, isCall := ex.Tuple.(*ssa.Call); isCall && call.Call.StaticCallee() != nil && an.FuncPkg(call.Call.StaticCallee()) != nil && an.FuncPkg(call.Call.StaticCallee()).Path() == pkgWallet {
				return true
			}
		}
		return false
	}
	for _, n := range []string{"CreateRawTransaction", "AutoCreateTransaction", "CreateStakingTransaction", "CreateBindingTransaction"} {
		f := fn(c, pkgAPI, "APIServer", n)
		if f == nil {
			continue
		}
		key := sk(f) + "=>checkTxFeeLimit"
		tests := inlineTests(f)
		isTest := func(in ssa.Instruction) bool {
			for _, t := range tests {
				if in == ssa.Instruction(t) {
					return true
				}
			}
			return false
		}
		cut := func(in ssa.Instruction) bool {
			if isTest(in) {
				return true
			}
			return check != nil && cutCalls(p, an.Set(check))(in)
		}
		s := &an.Search{P: p, Fn: f, Cut: cut, GoalReturn: isReply(f)}
		if w := s.Run(f.Blocks[0], 0, nil); w != nil {
			c.Fail(key, "a non-nil response can be returned without the fee-limit check", p.Pos(f.Pos()), w...)
		} else {
			// and the checked value is the fee reported by the wallet's create call
			ok := false
			if check != nil {
				for _, cs := range calls(f, check) {
					if a := an.CallOf(cs).Args; len(a) > 0 && fromWallet(a[len(a)-1]) {
						ok = true
					}
				}
			}
			for _, t := range tests {
				if fromWallet(t.Call.Args[1]) {
					ok = true
				}
			}
			if ok {
				c.OK(key, "every non-nil response is preceded by checkTxFeeLimit(fee reported by the wallet)", p.Pos(f.Pos()))
			} else {
				c.Fail(key, "checkTxFeeLimit is not applied to the fee returned by the wallet's create call", p.Pos(f.Pos()))
			}
		}
	}
	if check == nil {
		return // the test lives in the handlers (judged above: its over-limit side reaches no reply)
	}
	// the check itself: the over-limit branch reaches only a non-nil error
	amtCmp := p.Fn("github.com/massnetorg/mass-core/massutil", "Amount", "Cmp")
	found := false
	for _, b := range check.Blocks {
		ifi, ok := b.Instrs[len(b.Instrs)-1].(*ssa.If)
		if !ok {
			continue
		}
		// the successor on which max.Cmp(fee) < 0 holds (the test may be written either way round)
		over := -1
		for i := range b.Succs {
			a := p.MkAtom(ifi.Cond, i == 0, ifi)
			call, isCall := a.X.(*ssa.Call)
			if a.Op != token.LSS || !isCall || call.Call.StaticCallee() != amtCmp {
				continue
			}
			if k, isK := constInt(a.Y); !isK || k != 0 {
				continue
			}
			if _, isPar := call.Call.Args[1].(*ssa.Parameter); isPar {
				over = i
			}
		}
		if over < 0 {
			continue
		}
		found = true
		s := &an.Search{P: p, Fn: check, GoalReturn: func(r *ssa.Return, pred *ssa.BasicBlock) bool {
			return p.ClassifyReturn(r, pred) != an.RetError
		}}
		if w := s.Run(b.Succs[over], 0, b); w != nil {
			c.Fail(sk(check)+":max<fee=>error", "the over-limit branch of checkTxFeeLimit can return success", posOf(c, ifi), w...)
		} else {
			c.OK(sk(check)+":max<fee=>error", "max.Cmp(fee) < 0 reaches only error returns", posOf(c, ifi))
		}
	}
	if !found {
		c.Fail(sk(check)+":max<fee=>error", "checkTxFeeLimit no longer compares the limit with its fee parameter", p.Pos(check.Pos()))
	}
}
