package rules

import (
	"go/token"
	"go/types"
	"strings"

	"golang.org/x/tools/go/ssa"

	"verif/internal/an"
	"verif/internal/report"
)

func init() {
	register(&Check{
		ID: "C20",
		Explain: "Structural necessary conditions of shutdown and liveness between follower and worker, decided on SSA + call graph: " +
			"(1) every blocking channel operation reachable from the two goroutines Stop waits for (handle, worker) is a case of a select that also receives from the quit channel (or the select has a default); " +
			"(2) quitWg.Add(n) equals the number of goroutines started after it, each deferring Done; Stop closes quit, then waits, then closes the database; the API server is stopped before the wallet; " +
			"(3) lock order over all module locks is acyclic, no transaction is opened inside a transaction, and no channel operation or transaction happens while the handler's memory mutex is held; " +
			"(4) suspend/resume typestate: after a successful suspend every path to a return or to the next suspend passes resume, and every transaction of the background tasks lies between them.",
		NotDec: "bounded time, fairness, eventual processing of every queued tip.",
		Run:    runC20,
	})
}

// goroutineReach: module functions reachable from the goroutine bodies started in NtfnsHandler.Start.
func quitWgGoroutines(c *report.Ctx) (roots []*ssa.Function, start *ssa.Function) {
	start = fn(c, pkgWallet, "NtfnsHandler", "Start")
	if start == nil {
		return
	}
	an.Instrs(start, func(in ssa.Instruction) {
		if g, ok := in.(*ssa.Go); ok {
			roots = append(roots, c.P.Callees(g)...)
		}
	})
	return
}

func chanDesc(p *an.Prog, v ssa.Value) string { return p.Desc(v) }

func runC20(c *report.Ctx) {
	p := c.P
	ruleBusyGateBeforeAcceptedTask(c)
	roots, start := quitWgGoroutines(c)

	// ---- (1) channel discipline -------------------------------------------------------------------------
	c.Rule("quit-interruptible", "a goroutine that Stop waits for never blocks on a channel without also watching quit", 6)
	isQuit := func(v ssa.Value) bool { return strings.HasSuffix(p.Desc(v), "NtfnsHandler.quit") }
	if len(roots) < 2 {
		c.Fail("NtfnsHandler.Start:goroutines", "expected the handler and worker goroutines to be started in NtfnsHandler.Start", "")
	}
	reached, parent := p.Reach(roots, an.ReachOpts{SkipEdge: func(from *ssa.Function, e an.Edge) bool { return e.Kind == "go" }})
	for f := range reached {
		if !p.InModule(f) || f.Blocks == nil {
			continue
		}
		k := 0
		an.Instrs(f, func(in ssa.Instruction) {
			switch x := in.(type) {
			case *ssa.Select:
				k++
				key := siteKey(f, "select", k)
				if !x.Blocking {
					c.OK(key, "non-blocking (default case)", posOf(c, in))
					return
				}
				hasQuit := false
				var chans []string
				for _, st := range x.States {
					chans = append(chans, map[types.ChanDir]string{types.SendOnly: "send ", types.RecvOnly: "recv "}[st.Dir]+chanDesc(p, st.Chan))
					if st.Dir == types.RecvOnly && isQuit(st.Chan) {
						hasQuit = true
					}
				}
				if hasQuit {
					c.OK(key, "blocking select with a quit case: "+strings.Join(chans, ", "), posOf(c, in))
				} else {
					c.Fail(sk(f)+":select{"+strings.Join(chans, ",")+"}", "blocking select without a receive from quit in a goroutine Stop waits for: if the peer is gone the goroutine never returns and Stop hangs in quitWg.Wait", posOf(c, in), p.Witness(parent, f)...)
				}
			case *ssa.Send:
				k++
				c.Fail(sk(f)+":send:"+chanDesc(p, x.Chan), "blocking send outside a select in a goroutine Stop waits for: when Stop closes quit while the receiver has already returned, this goroutine blocks forever and quitWg.Wait never returns", posOf(c, in), p.Witness(parent, f)...)
			case *ssa.UnOp:
				if x.Op != token.ARROW {
					return
				}
				k++
				if isQuit(x.X) {
					c.OK(siteKey(f, "recv-quit", k), "receive from quit", posOf(c, in))
					return
				}
				c.Fail(sk(f)+":recv:"+chanDesc(p, x.X), "blocking receive outside a select in a goroutine Stop waits for: if the sender is gone the goroutine never returns and Stop hangs", posOf(c, in), p.Witness(parent, f)...)
			}
		})
	}

	// ---- (2) wait group / stop order -------------------------------------------------------------------------
	c.Rule("stop-protocol", "quitWg.Add(n) matches the goroutines started, each defers Done; Stop: close(quit) → quitWg.Wait → CloseDB → db.Close; API server stopped before the wallet", 6)
	nh := p.Type(pkgWallet, "NtfnsHandler")
	if start != nil && nh != nil {
		var addN int64 = -1
		var addIn ssa.Instruction
		ngo := 0
		an.Instrs(start, func(in ssa.Instruction) {
			if cc := an.CallOf(in); cc != nil && cc.StaticCallee() != nil && an.CanonKeyOf(cc.StaticCallee()) == "(*sync.WaitGroup).Add" && strings.HasSuffix(p.Desc(cc.Args[0]), "NtfnsHandler.quitWg") {
				if n, ok := constInt(cc.Args[1]); ok {
					addN = n
					addIn = in
				}
			}
			if _, ok := in.(*ssa.Go); ok {
				ngo++
			}
		})
		if addN == int64(ngo) && ngo == len(roots) && addIn != nil {
			c.OK(sk(start)+":Add==go", "quitWg.Add("+itoa(int(addN))+") and "+itoa(ngo)+" goroutines", posOf(c, addIn))
		} else {
			c.Fail(sk(start)+":Add==go", "quitWg.Add("+itoa(int(addN))+") does not match the "+itoa(ngo)+" goroutines started: Wait returns early (database closed under a running goroutine) or never", p.Pos(start.Pos()))
		}
		// Add dominates both go statements
		an.Instrs(start, func(in ssa.Instruction) {
			if g, ok := in.(*ssa.Go); ok && addIn != nil {
				if !instrDominates(addIn, g) {
					c.Fail(sk(start)+":Add-before-go", "a goroutine is started before quitWg.Add", posOf(c, in))
				}
			}
		})
		for _, r := range roots {
			okDone := false
			for _, in := range r.Blocks[0].Instrs {
				if d, ok := in.(*ssa.Defer); ok && d.Call.StaticCallee() != nil && an.CanonKeyOf(d.Call.StaticCallee()) == "(*sync.WaitGroup).Done" && strings.HasSuffix(p.Desc(d.Call.Args[0]), "NtfnsHandler.quitWg") {
					okDone = true
				}
			}
			if okDone {
				c.OK(sk(r)+":defer-Done", "defers quitWg.Done in its entry block", p.Pos(r.Pos()))
			} else {
				c.Fail(sk(r)+":defer-Done", "goroutine does not defer quitWg.Done unconditionally: Stop waits forever", p.Pos(r.Pos()))
			}
		}
	}
	stop := fn(c, pkgWallet, "NtfnsHandler", "Stop")
	closeDB := fn(c, pkgWallet, "WalletManager", "CloseDB")
	if stop != nil && closeDB != nil {
		var closeQuit, wait, cdb ssa.Instruction
		an.Instrs(stop, func(in ssa.Instruction) {
			cc := an.CallOf(in)
			if cc == nil {
				return
			}
			if b, ok := cc.Value.(*ssa.Builtin); ok && b.Name() == "close" && isQuit(cc.Args[0]) {
				closeQuit = in
			}
			if cc.StaticCallee() != nil && an.CanonKeyOf(cc.StaticCallee()) == "(*sync.WaitGroup).Wait" && strings.HasSuffix(p.Desc(cc.Args[0]), "NtfnsHandler.quitWg") {
				wait = in
			}
			if cc.StaticCallee() == closeDB {
				cdb = in
			}
		})
		if closeQuit != nil && wait != nil && cdb != nil && instrDominates(closeQuit, wait) && instrDominates(wait, cdb) {
			c.OK(sk(stop)+":close-wait-closedb", "close(quit) → quitWg.Wait() → CloseDB()", p.Pos(stop.Pos()))
		} else {
			c.Fail(sk(stop)+":close-wait-closedb", "Stop does not close quit, then wait for both goroutines, then close the database — the database could be closed under a running goroutine, or never", p.Pos(stop.Pos()))
		}
		// CloseDB closes the db
		okClose := false
		an.Instrs(closeDB, func(in ssa.Instruction) {
			if cc := an.CallOf(in); cc != nil && cc.IsInvoke() && cc.Method.Name() == "Close" && isNamedIface(cc.Value.Type(), pkgDB, "DB") {
				okClose = true
			}
		})
		if okClose {
			c.OK(sk(closeDB)+":db.Close", "closes the wallet database", p.Pos(closeDB.Pos()))
		} else {
			c.Fail(sk(closeDB)+":db.Close", "CloseDB no longer closes the wallet database", p.Pos(closeDB.Pos()))
		}
	}
	wstop := fn(c, pkgWallet, "WalletManager", "Stop")
	if wstop != nil && stop != nil {
		mustPass(c, wstop, an.Set(stop), "NtfnsHandler.Stop")
		// the wait in WalletManager.Stop is released by CloseDB's Done: Add(1) before, Wait after
		var add, st, wt ssa.Instruction
		an.Instrs(wstop, func(in ssa.Instruction) {
			cc := an.CallOf(in)
			if cc == nil || cc.StaticCallee() == nil {
				return
			}
			switch {
			case an.CanonKeyOf(cc.StaticCallee()) == "(*sync.WaitGroup).Add":
				add = in
			case cc.StaticCallee() == stop:
				st = in
			case an.CanonKeyOf(cc.StaticCallee()) == "(*sync.WaitGroup).Wait":
				wt = in
			}
		})
		if add != nil && st != nil && wt != nil && instrDominates(add, st) && instrDominates(st, wt) {
			c.OK(sk(wstop)+":Add-Stop-Wait", "wg.Add(1) → handler.Stop() (→ CloseDB → wg.Done) → wg.Wait()", p.Pos(wstop.Pos()))
		} else {
			c.Fail(sk(wstop)+":Add-Stop-Wait", "WalletManager.Stop does not wait for the database to be closed", p.Pos(wstop.Pos()))
		}
	}
	unload := fn(c, pkgMain, "Loader", "UnloadWallet")
	if unload != nil && wstop != nil {
		var apiStop, wmStop ssa.Instruction
		an.Instrs(unload, func(in ssa.Instruction) {
			cc := an.CallOf(in)
			if cc == nil || cc.StaticCallee() == nil {
				return
			}
			if cc.StaticCallee() == wstop {
				wmStop = in
			}
			if cc.StaticCallee().Name() == "Stop" && an.FuncPkg(cc.StaticCallee()) != nil && an.FuncPkg(cc.StaticCallee()).Path() == pkgAPI {
				apiStop = in
			}
		})
		if apiStop != nil && wmStop != nil && instrDominates(apiStop, wmStop) {
			c.OK(sk(unload)+":api-before-wallet", "API server stopped before the wallet", p.Pos(unload.Pos()))
		} else {
			c.Fail(sk(unload)+":api-before-wallet", "the wallet is stopped while the API server may still deliver requests to it", p.Pos(unload.Pos()))
		}
	}

	// ---- (3) lock order, nesting ---------------------------------------------------------------------------------
	ruleNoTxUnderUpdate(c, 8)
	ruleLockOrder(c)

	// ---- (4) suspend / resume typestate ----------------------------------------------------------------------------
	ruleSuspendResume(c)
	ruleSuspendRefusesOnlyOnQuit(c)
	ruleParkedHandlerOnlyWaits(c)
	ruleQueueHeadroom(c)
	ruleRemovalRoundProgress(c)
	ruleCloseDBAlwaysDone(c)
	ruleNotificationsQueued(c)
	ruleImportRetryOverride(c)
	ruleWriterLock(c)
	ruleUnregisterBeforeStop(c)
}

// ruleSuspendResume is shared with C07.
// handShake describes where the suspend/resume rendezvous of the background tasks happens, by what the code does:
// a send on NtfnsHandler.sigSuspend / sigResume (plain or as a select case). The functions that do nothing but that
// (the recorded suspend and resume, or whatever replaced them) are the mechanism functions; a task may also carry the
// operation in line.
type handShake struct {
	p          *an.Prog
	suspendFns map[*ssa.Function]bool
	resumeFns  map[*ssa.Function]bool
}

func sendsOn(p *an.Prog, in ssa.Instruction, field string) bool {
	switch x := in.(type) {
	case *ssa.Send:
		return strings.HasSuffix(p.Desc(x.Chan), "NtfnsHandler."+field)
	case *ssa.Select:
		for _, st := range x.States {
			if st.Dir == types.SendOnly && strings.HasSuffix(p.Desc(st.Chan), "NtfnsHandler."+field) {
				return true
			}
		}
	}
	return false
}

var handShakeCache = map[*an.Prog]*handShake{}

func handShakeOf(p *an.Prog) *handShake {
	if h, ok := handShakeCache[p]; ok {
		return h
	}
	h := &handShake{p: p, suspendFns: map[*ssa.Function]bool{}, resumeFns: map[*ssa.Function]bool{}}
	tasks := map[string]bool{"asyncImport": true, "asyncRemove": true}
	for _, f := range p.ModFuncs {
		pk := an.FuncPkg(f)
		if pk == nil || pk.Path() != pkgWallet || f.Blocks == nil || tasks[nm(f)] {
			continue
		}
		an.Instrs(f, func(in ssa.Instruction) {
			if sendsOn(p, in, "sigSuspend") {
				h.suspendFns[f] = true
			}
			if sendsOn(p, in, "sigResume") {
				h.resumeFns[f] = true
			}
		})
	}
	// a wrapper that only adds logging around a mechanism function is one too
	for round := 0; round < 2; round++ {
		for _, f := range p.ModFuncs {
			pk := an.FuncPkg(f)
			if pk == nil || pk.Path() != pkgWallet || f.Blocks == nil || tasks[nm(f)] || f.Parent() != nil {
				continue
			}
			if nm(f) != "suspend" && nm(f) != "resume" {
				continue
			}
			an.Instrs(f, func(in ssa.Instruction) {
				if cc := an.CallOf(in); cc != nil && cc.StaticCallee() != nil {
					if h.suspendFns[cc.StaticCallee()] {
						h.suspendFns[f] = true
					}
					if h.resumeFns[cc.StaticCallee()] {
						h.resumeFns[f] = true
					}
				}
			})
		}
	}
	handShakeCache[p] = h
	return h
}

// isSuspend / isResume: the instruction performs (or calls a mechanism function that performs) the hand-shake step.
func (h *handShake) isSuspend(in ssa.Instruction) bool {
	if sendsOn(h.p, in, "sigSuspend") {
		return true
	}
	if _, isDefer := in.(*ssa.Defer); isDefer {
		return false
	}
	cc := an.CallOf(in)
	return cc != nil && cc.StaticCallee() != nil && h.suspendFns[cc.StaticCallee()]
}

func (h *handShake) isResume(in ssa.Instruction) bool {
	if sendsOn(h.p, in, "sigResume") {
		return true
	}
	cc := an.CallOf(in)
	if cc == nil {
		return false
	}
	if cc.StaticCallee() != nil && h.resumeFns[cc.StaticCallee()] {
		return true
	}
	if d, ok := in.(*ssa.Defer); ok {
		for _, cal := range h.p.Callees(d) {
			found := false
			an.Instrs(cal, func(x ssa.Instruction) {
				if _, nested := x.(*ssa.Defer); !nested && h.isResume(x) {
					found = true
				}
			})
			if found {
				return true
			}
		}
	}
	return false
}

// successStart: where the search starts after a suspend step — the continuation on which the follower is parked.
func (h *handShake) successStart(s ssa.Instruction) (*ssa.BasicBlock, int, *ssa.BasicBlock) {
	p := h.p
	startBlk, startIdx, pred := s.Block(), 0, (*ssa.BasicBlock)(nil)
	for j, in := range startBlk.Instrs {
		if in == s {
			startIdx = j + 1
		}
	}
	switch sv := s.(type) {
	case *ssa.Call:
		// a mechanism function that reports success as a bool
		if b, isB := sv.Type().Underlying().(*types.Basic); isB && b.Info()&types.IsBoolean != 0 {
			for _, r := range *sv.Referrers() {
				if ifi := ifOf(r); ifi != nil {
					a := p.MkAtom(ifi.Cond, true, ifi)
					if a.Truth {
						return ifi.Block().Succs[0], 0, ifi.Block()
					}
					return ifi.Block().Succs[1], 0, ifi.Block()
				}
			}
		}
	case *ssa.Select:
		// the case that sent on sigSuspend
		idx := -1
		for i, st := range sv.States {
			if st.Dir == types.SendOnly && strings.HasSuffix(p.Desc(st.Chan), "NtfnsHandler.sigSuspend") {
				idx = i
			}
		}
		for _, r := range *sv.Referrers() {
			ex, ok := r.(*ssa.Extract)
			if !ok || ex.Index != 0 {
				continue
			}
			for _, u := range *ex.Referrers() {
				bo, ok := u.(*ssa.BinOp)
				if !ok || bo.Op != token.EQL {
					continue
				}
				if k, isK := constInt(bo.Y); !isK || int(k) != idx {
					continue
				}
				for _, rr := range *bo.Referrers() {
					if ifi, ok := rr.(*ssa.If); ok {
						return ifi.Block().Succs[0], 0, ifi.Block()
					}
				}
			}
		}
	}
	return startBlk, startIdx, pred
}

func ruleSuspendResume(c *report.Ctx) {
	p := c.P
	c.Rule("suspend-resume", "in the background tasks every successful suspend is followed by resume on every path to a return or to the next suspend, and every transaction lies between them", 5)
	upd := fn(c, pkgDB, "", "Update")
	if upd == nil {
		return
	}
	hs := handShakeOf(p)
	callsResume := hs.isResume
	for _, name := range []string{"asyncImport", "asyncRemove"} {
		f := fn(c, pkgWallet, "NtfnsHandler", name)
		if f == nil {
			continue
		}
		var ss, rs []ssa.Instruction
		an.Instrs(f, func(in ssa.Instruction) {
			if hs.isSuspend(in) {
				ss = append(ss, in)
			}
			if _, isDefer := in.(*ssa.Defer); !isDefer && hs.isResume(in) {
				rs = append(rs, in)
			}
		})
		if len(ss) == 0 {
			c.Fail(sk(f)+":suspend", "the task no longer parks the follower before touching the database", p.Pos(f.Pos()))
			continue
		}
		for i, s := range ss {
			key := siteKey(f, "suspend~resume", i+1)
			// start from the success continuation of suspend (its bool result true / the select case that sent), or right after it
			startBlk, startIdx, pred := hs.successStart(s)
			srch := &an.Search{P: p, Fn: f, Cut: callsResume,
				GoalReturn: func(r *ssa.Return, pr *ssa.BasicBlock) bool { return true },
				GoalBlock: func(b, pr *ssa.BasicBlock) bool {
					for _, in := range b.Instrs {
						if callsResume(in) {
							return false
						}
						if hs.isSuspend(in) && in != s {
							return true
						}
						if in == s && b != startBlk {
							return true // looped back to this suspend without a resume
						}
					}
					return false
				}}
			if w := srch.Run(startBlk, startIdx, pred); w != nil {
				c.Fail(key, "after a successful suspend a path reaches a return (or the next suspend) without resume: the follower stays parked, tips queue up unprocessed and the next suspend blocks forever", posOf(c, s), w...)
			} else {
				c.OK(key, "every path from the successful suspend passes resume", posOf(c, s))
			}
		}
		// every Update of the task is dominated by a suspend and not reachable from a resume without a new suspend
		for i, u := range calls(f, upd) {
			key := siteKey(f, "Update-while-parked", i+1)
			dom := false
			for _, s := range ss {
				if instrDominates(s, u) {
					dom = true
				}
			}
			if !dom {
				c.Fail(key, "a background-task transaction runs without the follower having been parked: it interleaves with block processing", posOf(c, u))
				continue
			}
			bad := false
			for _, r := range rs {
				b := r.Block()
				idx := 0
				for j, in := range b.Instrs {
					if in == r {
						idx = j + 1
					}
				}
				srch := &an.Search{P: p, Fn: f, Cut: hs.isSuspend, GoalInstr: func(in ssa.Instruction) bool { return in == u }}
				w := srch.Run(b, idx, nil)
				if w != nil {
					bad = true
					c.Fail(key, "a transaction of the task is reachable after resume without a new suspend", posOf(c, u), w...)
				}
			}
			if !bad {
				c.OK(key, "dominated by suspend, not reachable from resume without a new suspend", posOf(c, u))
			}
		}
	}
	// the handler side: the only receive from sigSuspend is a select case of handle, followed by a wait for sigResume
	handle := fn(c, pkgWallet, "", "handle")
	if handle != nil {
		okShape := false
		an.Instrs(handle, func(in ssa.Instruction) {
			sel, ok := in.(*ssa.Select)
			if !ok {
				return
			}
			for _, st := range sel.States {
				if st.Dir == types.RecvOnly && strings.HasSuffix(p.Desc(st.Chan), "NtfnsHandler.sigSuspend") {
					okShape = true
				}
			}
		})
		waitsResume := false
		// (the wait may be factored into a helper of the handler)
		for _, hf := range reachIn(p, handle, pkgWallet) {
			an.Instrs(hf, func(in ssa.Instruction) {
				switch x := in.(type) {
				case *ssa.Select:
					for _, st := range x.States {
						if st.Dir == types.RecvOnly && strings.HasSuffix(p.Desc(st.Chan), "NtfnsHandler.sigResume") {
							waitsResume = true
						}
					}
				case *ssa.UnOp:
					if x.Op == token.ARROW && strings.HasSuffix(p.Desc(x.X), "NtfnsHandler.sigResume") {
						waitsResume = true
					}
				}
			})
		}
		if okShape && waitsResume {
			c.OK(sk(handle)+":park-shape", "handle receives sigSuspend in its select and then waits for sigResume", p.Pos(handle.Pos()))
		} else {
			c.Fail(sk(handle)+":park-shape", "the handler no longer parks on sigSuspend/sigResume: suspend() does not stop block processing", p.Pos(handle.Pos()))
		}
		// both channels are unbuffered (a buffered sigSuspend lets suspend return before the handler parked)
		nh := fn(c, pkgWallet, "", "NewNtfnsHandler")
		nht := p.Type(pkgWallet, "NtfnsHandler")
		if nh != nil && nht != nil {
			for _, fname := range []string{"sigSuspend", "sigResume"} {
				ok := false
				for _, st := range fieldStores(nh, nht, fname) {
					if mc, isMC := st.(*ssa.Store).Val.(*ssa.MakeChan); isMC {
						if n, isK := constInt(mc.Size); isK && n == 0 {
							ok = true
						}
					}
				}
				if ok {
					c.OK(sk(nh)+":"+fname+"-unbuffered", "rendezvous channel", p.Pos(nh.Pos()))
				} else {
					c.Fail(sk(nh)+":"+fname+"-unbuffered", fname+" is not an unbuffered channel: suspend() can return before the handler goroutine has actually parked, so the task's transaction interleaves with block processing", p.Pos(nh.Pos()))
				}
			}
		}
	}
}
