package rules

// Rules added after the second round of independently seeded changes showed gaps.
// Each is attached to the property whose clause it is a necessary condition of.

import (
	"go/constant"
	"go/token"
	"go/types"
	"sort"
	"strings"

	"golang.org/x/tools/go/ssa"

	"verif/internal/an"
	"verif/internal/report"
)

// rulePrefixLimit (C11): db.BytesPrefix builds the exclusive upper bound of a prefix scan by
// incrementing the last byte below 0xff and truncating after it: the limit has length i+1.
func rulePrefixLimit(c *report.Ctx) {
	p := c.P
	c.Rule("prefix-limit", "BytesPrefix truncates the upper bound right after the incremented byte (length i+1): a longer bound lets a prefix scan run into foreign keys", 1)
	f := fn(c, pkgDB, "", "BytesPrefix")
	if f == nil {
		return
	}
	ok := false
	var site ssa.Instruction
	an.Instrs(f, func(in ssa.Instruction) {
		isIPlus1 := func(v ssa.Value) bool {
			b, isB := v.(*ssa.BinOp)
			if !isB || b.Op != token.ADD {
				return false
			}
			_, isPhi := b.X.(*ssa.Phi)
			k, isK := constInt(b.Y)
			return isPhi && isK && k == 1
		}
		switch x := in.(type) {
		case *ssa.MakeSlice:
			site = in
			if isIPlus1(x.Len) {
				ok = true
			}
		case *ssa.Slice:
			// append(nil, prefix[:i+1]...)
			if x.High != nil && isIPlus1(x.High) && x.X == ssa.Value(f.Params[0]) {
				ok = true
				site = in
			}
		}
	})
	// and the incremented byte is stored at index i of the limit
	stored := false
	an.Instrs(f, func(in ssa.Instruction) {
		st, isSt := in.(*ssa.Store)
		if !isSt {
			return
		}
		if ia, isIA := st.Addr.(*ssa.IndexAddr); isIA {
			if _, isPhi := ia.Index.(*ssa.Phi); isPhi {
				if b, isB := st.Val.(*ssa.BinOp); isB && b.Op == token.ADD {
					if k, isK := constInt(b.Y); isK && k == 1 {
						stored = true
					}
				}
			}
		}
	})
	if ok && stored {
		c.OK(sk(f)+":limit-length", "limit has length i+1 and limit[i] = prefix[i]+1", posOf(c, site))
	} else {
		c.Fail(sk(f)+":limit-length", "the upper bound of a prefix range is not truncated after the incremented byte: for a prefix ending in 0xff bytes the range [prefix, limit) contains keys that do not have the prefix, so prefix iteration returns foreign entries", p.Pos(f.Pos()))
	}
}

// ruleBucketCacheKey (C11): the per-transaction bucket cache is keyed by the whole bucket
// identity (the meta object or its full path), not by a leaf name.
func ruleBucketCacheKey(c *report.Ctx) {
	p := c.P
	c.Rule("bucket-cache-key", "the transaction's bucket cache is keyed by the full bucket identity: two buckets with the same leaf name must not share a handle", 1)
	f := fn(c, pkgLDB, "transaction", "FetchBucket")
	if f == nil {
		return
	}
	n := 0
	an.Instrs(f, func(in ssa.Instruction) {
		var key ssa.Value
		var m ssa.Value
		switch x := in.(type) {
		case *ssa.Lookup:
			key, m = x.Index, x.X
		case *ssa.MapUpdate:
			key, m = x.Key, x.Map
		default:
			return
		}
		if !strings.HasSuffix(p.Desc(m), "transaction.cache") {
			return
		}
		n++
		k := stripIface(key)
		okKey := false
		if par, isPar := k.(*ssa.Parameter); isPar && par.Parent() == f {
			okKey = true // the BucketMeta itself
		}
		d := p.Desc(k)
		if strings.Contains(d, nm(fnOpt(c, pkgLDB, "", "joinBucketPath"))+"(") && strings.Contains(d, ".Paths(") {
			okKey = true
		}
		kk := siteKey(f, "cache-key", n)
		if okKey {
			c.OK(kk, "keyed by the bucket meta / its full path", posOf(c, in))
		} else {
			c.Fail(kk, "the bucket cache is keyed by "+d+": two different buckets that share this value (e.g. the same leaf name under different parents) get the same handle inside one transaction — writes go to the wrong bucket and reads leak another bucket's data", posOf(c, in))
		}
	})
	if n == 0 {
		c.OK(sk(f)+":no-cache", "FetchBucket keeps no cache", p.Pos(f.Pos()))
	}
	// a handle is found by its key only — never by scanning the cached handles for a look-alike
	an.Instrs(f, func(in ssa.Instruction) {
		rg, ok := in.(*ssa.Range)
		if !ok || !strings.HasSuffix(p.Desc(rg.X), "transaction.cache") {
			return
		}
		c.Fail(sk(f)+":cache-scan", "FetchBucket walks the cached handles and reuses one chosen by a partial comparison (name, depth, …) instead of by the full bucket identity: two buckets that agree on the compared attributes but lie under different parents share a handle inside one transaction — one's writes land in the other", posOf(c, in))
	})
}

// ruleFailedBatchNotFinished (C18): after the import batch's Update, an error return never reports finish=true.
func ruleFailedBatchNotFinished(c *report.Ctx) {
	p := c.P
	c.Rule("failed-batch-not-finished", "when the import batch's transaction fails, asyncImport reports finish=false so that the worker re-queues the task", 1)
	f := fn(c, pkgWallet, "NtfnsHandler", "asyncImport")
	upd := fn(c, pkgDB, "", "Update")
	if f == nil || upd == nil {
		return
	}
	us := calls(f, upd)
	if len(us) != 1 {
		c.Fail(sk(f)+":Update", "expected one Update in asyncImport", p.Pos(f.Pos()))
		return
	}
	bad := false
	nErr := 0
	for _, b := range f.Blocks {
		r, isRet := b.Instrs[len(b.Instrs)-1].(*ssa.Return)
		if !isRet || !us[0].Block().Dominates(b) || us[0].Block() == b {
			continue
		}
		for _, pr := range predsOrNil(b) {
			if p.ClassifyReturn(r, pr) != an.RetError {
				continue
			}
			nErr++
			fv := an.RetOperand(r, 0)
			if k, isK := fv.(*ssa.Const); isK && k.Value != nil && k.Value.ExactString() == "false" {
				continue
			}
			bad = true
			c.Fail(sk(f)+":error-return-finish", "after a failed batch transaction asyncImport returns finish="+p.Desc(fv)+": when the failing batch was the one that reached the tip, the worker treats the import as finished, does not re-queue it, and the wallet stays not-ready until restart", posOf(c, r))
		}
	}
	if nErr == 0 {
		c.Fail(sk(f)+":error-return-finish", "anchor lost: no error return after the batch Update in asyncImport", posOf(c, us[0]))
	} else if !bad {
		c.OK(sk(f)+":error-return-finish", "every error return after the Update reports finish=false", posOf(c, us[0]))
	}
}

// rulePendingInputsAppend (C09): the pending-inputs writer appends the spender to the existing list.
func rulePendingInputsAppend(c *report.Ctx) {
	p := c.P
	c.Rule("pending-inputs-append", "putRawUnminedInput keeps every pending spender of an outpoint: the value written is the existing list with the new hash appended", 1)
	f := fn(c, pkgTxmgr, "", "putRawUnminedInput")
	if f == nil {
		return
	}
	ok := false
	var site ssa.Instruction
	an.Instrs(f, func(in ssa.Instruction) {
		cc := an.CallOf(in)
		if cc == nil || !cc.IsInvoke() || cc.Method.Name() != "Put" || !isBucketIface(cc.Value.Type()) {
			return
		}
		site = in
		v := cc.Args[1]
		call, isCall := v.(*ssa.Call)
		if !isCall {
			return
		}
		b, isB := call.Call.Value.(*ssa.Builtin)
		if !isB || b.Name() != "append" {
			return
		}
		// first operand derives from Get on the same bucket value; second from the new spender parameter
		base := call.Call.Args[0]
		if ph, isPhi := base.(*ssa.Phi); isPhi && len(ph.Edges) > 0 {
			base = ph.Edges[0]
		}
		if ex, isEx := base.(*ssa.Extract); isEx {
			if g, isG := ex.Tuple.(*ssa.Call); isG && g.Call.IsInvoke() && g.Call.Method.Name() == "Get" && g.Call.Value == cc.Value {
				ok = true
			}
		}
	})
	if site == nil {
		c.Fail(sk(f)+":Put", "anchor lost: putRawUnminedInput no longer writes the bucket", p.Pos(f.Pos()))
		return
	}
	if ok {
		c.OK(sk(f)+":append", "Put(k, append(Get(k), spender...))", posOf(c, site))
	} else {
		c.Fail(sk(f)+":append", "the pending-inputs row is overwritten instead of appended to: when two pending transactions spend the same coin only the last one is remembered, and when it confirms the other one (and the coins it holds) is never released", posOf(c, site))
	}
}

// ruleRollbackReverseOrder (C09/C01): Rollback undoes the transactions of a block in reverse order.
func ruleRollbackReverseOrder(c *report.Ctx) {
	p := c.P
	c.Rule("rollback-reverse-order", "Rollback visits a block's transactions last-to-first (a later transaction may spend an output of an earlier one of the same block; undoing the parent first orphans the child's debit)", 1)
	f := fn(c, pkgTxmgr, "TxStore", "Rollback")
	if f == nil {
		return
	}
	found := false
	an.Instrs(f, func(in ssa.Instruction) {
		ia, ok := in.(*ssa.IndexAddr)
		if !ok || !strings.HasSuffix(p.Desc(ia.X), "blockRecord.transactions") {
			return
		}
		ph, isPhi := ia.Index.(*ssa.Phi)
		if !isPhi {
			if found {
				return
			}
			// range loop: index = phi + 1 (forward)
			found = true
			c.Fail(sk(f)+":block-tx-order", "the transactions of a rolled-back block are visited in block order (forward): a transaction spending an output of an earlier one in the same block is undone after its parent, its debit points at a deleted credit and the whole reorg transaction fails", posOf(c, in))
			return
		}
		if found {
			return
		}
		found = true
		initOK, stepOK := false, false
		for i, e := range ph.Edges {
			pred := ph.Block().Preds[i]
			b, isB := e.(*ssa.BinOp)
			if !isB || b.Op != token.SUB {
				continue
			}
			k, isK := constInt(b.Y)
			if !isK || k != 1 {
				continue
			}
			if ph.Block().Dominates(pred) {
				if b.X == ssa.Value(ph) {
					stepOK = true
				}
			} else if strings.HasPrefix(p.Desc(b.X), "len(") {
				initOK = true
			}
		}
		if initOK && stepOK {
			c.OK(sk(f)+":block-tx-order", "i := len(transactions)-1; i--", posOf(c, in))
		} else {
			c.Fail(sk(f)+":block-tx-order", "the transactions of a rolled-back block are not visited last-to-first", posOf(c, in))
		}
	})
	if !found {
		c.Fail(sk(f)+":block-tx-order", "anchor lost: no loop over blockRecord.transactions in Rollback", p.Pos(f.Pos()))
	}
}

// ruleDecoderTotality (C01): a decoder that fills a caller-supplied record stores, on every success
// path, every field it stores on some path (callers reuse one record across iterations).
func ruleDecoderTotality(c *report.Ctx) {
	p := c.P
	c.Rule("decoder-totality", "record decoders assign every field they ever assign on every success path: callers reuse one record for many rows, so a field skipped for one row keeps the previous row's value", 3)
	for _, name := range []string{"readCreditValue", "readRawCreditKey", "readUnminedCreditKey", "readBlockOfUnspent", "readCanonicalUnspentKey"} {
		f := fn(c, pkgTxmgr, "", name)
		if f == nil {
			continue
		}
		// fields stored through the record parameter
		fields := map[string]bool{}
		isParamRooted := func(addr ssa.Value) (string, bool) {
			var names []string
			cur := addr
			for {
				switch x := cur.(type) {
				case *ssa.FieldAddr:
					st := derefStructT(x.X.Type())
					if st == nil {
						return "", false
					}
					names = append([]string{an.FName(st, x.Field)}, names...)
					cur = x.X
					continue
				case *ssa.UnOp:
					if x.Op == token.MUL {
						cur = x.X
						continue
					}
				case *ssa.IndexAddr, *ssa.Slice:
					return "", false
				}
				break
			}
			if _, isPar := cur.(*ssa.Parameter); !isPar || len(names) == 0 {
				return "", false
			}
			return strings.Join(names, "."), true
		}
		an.Instrs(f, func(in ssa.Instruction) {
			if st, ok := in.(*ssa.Store); ok {
				if n, ok := isParamRooted(st.Addr); ok {
					fields[n] = true
				}
			}
		})
		for fld := range fields {
			fl := fld
			w := p.MustPassOnSuccess(f, func(in ssa.Instruction) bool {
				st, ok := in.(*ssa.Store)
				if !ok {
					return false
				}
				n, ok := isParamRooted(st.Addr)
				return ok && n == fl
			})
			key := sk(f) + ":assigns:" + fl
			if w != nil {
				c.Fail(key, "decoder "+name+" leaves field "+fl+" untouched on some success path: a record reused for several rows keeps the previous row's "+fl+" (e.g. a standard coin read after a staking coin is classified as staking)", p.Pos(f.Pos()), w...)
			} else {
				c.OK(key, "assigned on every success path", p.Pos(f.Pos()))
			}
		}
	}
}

func derefStructT(t types.Type) *types.Struct {
	if pt, ok := t.Underlying().(*types.Pointer); ok {
		t = pt.Elem()
	}
	st, _ := t.Underlying().(*types.Struct)
	return st
}

// ruleInBlockParentFirst (C01): filterTx consults the transactions seen earlier in the same block
// before it asks the store whether the previous transaction created a wallet credit.
func ruleInBlockParentFirst(c *report.Ctx) {
	p := c.P
	c.Rule("in-block-parent-first", "for a block being applied, an input's previous transaction is looked up among the block's own earlier transactions before the 'no credit in the store → irrelevant' shortcut is taken (credits of the block are written only after filtering)", 1)
	f := fn(c, pkgWallet, "NtfnsHandler", "filterTx")
	ecf := fn(c, pkgTxmgr, "UtxoStore", "ExistCreditFromTx")
	if f == nil || ecf == nil {
		return
	}
	ss := calls(f, ecf)
	if len(ss) == 0 {
		c.OK(sk(f)+":no-shortcut", "filterTx has no store-based irrelevance shortcut", p.Pos(f.Pos()))
		return
	}
	for i, s := range ss {
		key := siteKey(f, "ExistCreditFromTx-after-in-block-miss", i+1)
		ok := an.AnyAtom(p.GuardsOf(s), func(a an.Atom) bool {
			if a.Op != token.ILLEGAL || a.Truth {
				return false
			}
			ex, isEx := a.X.(*ssa.Extract)
			if !isEx || ex.Index != 1 {
				return false
			}
			lk, isLk := ex.Tuple.(*ssa.Lookup)
			if !isLk {
				return false
			}
			_, isPar := lk.X.(*ssa.Parameter)
			return isPar
		})
		if ok {
			c.OK(key, "reached only when the previous transaction is not among the block's earlier transactions", posOf(c, s))
		} else {
			c.Fail(key, "the store-based shortcut runs before the block's own earlier transactions are consulted: an input spending an output created earlier in the same block is skipped as irrelevant, no debit is recorded and the spent coin stays in the unspent set", posOf(c, s))
		}
	}
}

// ruleQueueHeadroom (C20): the task queue's minimum capacity exceeds the admission threshold.
func ruleQueueHeadroom(c *report.Ctx) {
	p := c.P
	c.Rule("queue-headroom", "the task queue is always larger than the number of waiting tasks the API admits, so the worker's non-blocking re-queue of its in-flight task cannot be dropped", 1)
	nw := fn(c, pkgWallet, "", "NewWalletTaskChan")
	busy := fn(c, pkgWallet, "WalletTaskChan", "IsBusy")
	if nw == nil || busy == nil {
		return
	}
	var minCap, threshold int64 = -1, -1
	an.Instrs(nw, func(in ssa.Instruction) {
		mc, ok := in.(*ssa.MakeChan)
		if !ok {
			return
		}
		if ph, isPhi := mc.Size.(*ssa.Phi); isPhi {
			for _, e := range ph.Edges {
				if k, isK := constInt(e); isK {
					minCap = k
				}
			}
		} else if k, isK := constInt(mc.Size); isK {
			minCap = k
		}
	})
	an.Instrs(busy, func(in ssa.Instruction) {
		b, ok := in.(*ssa.BinOp)
		if !ok {
			return
		}
		if k, isK := constInt(b.Y); isK && (b.Op == token.GEQ || b.Op == token.GTR) {
			threshold = k
			if b.Op == token.GTR {
				threshold = k + 1
			}
		}
	})
	key := sk(nw) + ":min-capacity>admission-threshold"
	if minCap > threshold && threshold >= 0 {
		c.OK(key, "minimum capacity "+itoa(int(minCap))+" > IsBusy threshold "+itoa(int(threshold)), p.Pos(nw.Pos()))
	} else {
		c.Fail(key, "the queue's minimum capacity ("+itoa(int(minCap))+") does not exceed the IsBusy admission threshold ("+itoa(int(threshold))+"): with the queue full of admitted tasks the worker's re-queue of an unfinished import/removal is silently dropped and the task never finishes", p.Pos(nw.Pos()))
	}
}

// ruleCloseDBAlwaysDone (C20): CloseDB signals the wait group on every path.
func ruleCloseDBAlwaysDone(c *report.Ctx) {
	p := c.P
	c.Rule("closedb-always-done", "CloseDB calls wg.Done() on every path: WalletManager.Stop waits for it", 1)
	f := fn(c, pkgWallet, "WalletManager", "CloseDB")
	if f == nil {
		return
	}
	isDone := func(in ssa.Instruction) bool {
		cc := an.CallOf(in)
		return cc != nil && cc.StaticCallee() != nil && an.CanonKeyOf(cc.StaticCallee()) == "(*sync.WaitGroup).Done"
	}
	s := &an.Search{P: p, Fn: f, Cut: isDone, GoalReturn: func(r *ssa.Return, pred *ssa.BasicBlock) bool { return true }}
	if w := s.Run(f.Blocks[0], 0, nil); w != nil {
		c.Fail(sk(f)+":Done-on-every-path", "CloseDB can return without wg.Done() (e.g. when db.Close reports an error): WalletManager.Stop blocks forever in wg.Wait and shutdown never completes", p.Pos(f.Pos()), w...)
	} else {
		c.OK(sk(f)+":Done-on-every-path", "every return passes wg.Done()", p.Pos(f.Pos()))
	}
}

// ---------------------------------------------------------------------------------------------------------
// second batch

func isAddOne(v ssa.Value, base ssa.Value) bool {
	b, ok := v.(*ssa.BinOp)
	if !ok || b.Op != token.ADD {
		return false
	}
	k, isK := constInt(b.Y)
	return isK && k == 1 && (base == nil || b.X == base)
}

// reachesThroughPhi: does pred hold for v or (recursively) for some phi edge of v?
func reachesThroughPhi(v ssa.Value, pred func(ssa.Value) bool, seen map[ssa.Value]bool) bool {
	if seen[v] {
		return false
	}
	seen[v] = true
	if pred(v) {
		return true
	}
	if ph, ok := v.(*ssa.Phi); ok {
		for _, e := range ph.Edges {
			if reachesThroughPhi(e, pred, seen) {
				return true
			}
		}
	}
	return false
}

// ruleGapWindowExtends (C12/C07): the restore scan's window is re-anchored at (index of the used address)+1.
func ruleGapWindowExtends(c *report.Ctx) {
	p := c.P
	c.Rule("restore-window-extends", "the restore scan continues while i < (last used index + 1) + gapLimit: finding a used address moves the window, and the window covers every index the issuing rule could have handed out after it", 2)
	f := fn(c, pkgKeystore, "", "createManagerKeyScope")
	if f == nil {
		return
	}
	var gap ssa.Value
	// the gap limit is the function's only uint32 parameter (whatever it is called, wherever it stands)
	if par := onlyParamOfType(f, "uint32"); par != nil {
		gap = par
	}
	// index phis: i with an edge i+1
	type loop struct {
		i     *ssa.Phi
		bases []ssa.Value // N in  i < add(N, gap)
		pos   ssa.Instruction
	}
	var loops []*loop
	byPhi := map[*ssa.Phi]*loop{}
	var expand func(y ssa.Value, l *loop, seen map[ssa.Value]bool)
	expand = func(y ssa.Value, l *loop, seen map[ssa.Value]bool) {
		if seen[y] {
			return
		}
		seen[y] = true
		switch x := y.(type) {
		case *ssa.Phi:
			for _, e := range x.Edges {
				expand(e, l, seen)
			}
		case *ssa.Call:
			if len(x.Call.Args) == 2 && x.Call.Args[1] == gap {
				l.bases = append(l.bases, x.Call.Args[0])
			}
		case *ssa.BinOp:
			if x.Op == token.ADD && x.Y == gap {
				l.bases = append(l.bases, x.X)
			}
		}
	}
	an.Instrs(f, func(in ssa.Instruction) {
		b, ok := in.(*ssa.BinOp)
		if !ok || b.Op != token.LSS {
			return
		}
		ph, isPhi := b.X.(*ssa.Phi)
		if !isPhi {
			return
		}
		hasInc := false
		for _, e := range ph.Edges {
			if isAddOne(e, ph) {
				hasInc = true
			}
		}
		if !hasInc {
			return
		}
		l := byPhi[ph]
		if l == nil {
			l = &loop{i: ph, pos: in}
			byPhi[ph] = l
			loops = append(loops, l)
		}
		expand(b.Y, l, map[ssa.Value]bool{})
	})
	n := 0
	for _, l := range loops {
		if len(l.bases) == 0 {
			continue // not a gap-window loop
		}
		n++
		key := siteKey(f, "scan-loop", n)
		ok := false
		for _, base := range l.bases {
			if reachesThroughPhi(base, func(v ssa.Value) bool { return isAddOne(v, l.i) }, map[ssa.Value]bool{l.i: true}) {
				ok = true
			}
		}
		if ok {
			c.OK(key, "loop bound contains add(nextIndex, gap) with nextIndex = i+1 on a used address", posOf(c, l.pos))
		} else {
			var bs []string
			for _, b := range l.bases {
				bs = append(bs, p.Desc(b))
			}
			c.Fail(key, "the restore scan's bound is built from "+strings.Join(bs, ", ")+" + gap and never from (used index + 1) + gap: the scan stops short of addresses the issuing rule can hand out after a used address, so their funds are not found by a restore", posOf(c, l.pos))
		}
	}
}

// keyBranchConst walks back from an extended key to the constant branch it was derived under:
// acct.Child(B)[.Neuter()].Child(i)
func keyBranchConst(v ssa.Value, depth int, seen map[ssa.Value]bool) (vals []int64, okAll bool) {
	if depth > 12 || seen[v] {
		return nil, true
	}
	seen[v] = true
	switch x := v.(type) {
	case *ssa.Phi:
		okAll = true
		for _, e := range x.Edges {
			if k, isK := e.(*ssa.Const); isK && k.Value == nil {
				continue
			}
			vs, ok := keyBranchConst(e, depth+1, seen)
			vals = append(vals, vs...)
			okAll = okAll && ok
		}
		return vals, okAll
	case *ssa.Extract:
		return keyBranchConst(x.Tuple, depth+1, seen)
	case *ssa.Call:
		callee := x.Call.StaticCallee()
		if callee == nil || len(x.Call.Args) == 0 {
			return nil, false
		}
		switch callee.Name() {
		case "Neuter":
			return keyBranchConst(x.Call.Args[0], depth+1, seen)
		case "Child":
			if k, isK := constInt(x.Call.Args[1]); isK {
				return []int64{k}, true
			}
			return keyBranchConst(x.Call.Args[0], depth+1, seen)
		}
	}
	return nil, false
}

// ruleBranchKeyAgreement (C04): in the restore scan, the branch recorded for an address is the branch
// of the key the address was derived from.
func ruleBranchKeyAgreement(c *report.Ctx) {
	c.Rule("restore-branch-agreement", "an address recovered by the restore scan records the branch constant of the branch key it was derived from (signing later re-derives from the recorded path)", 2)
	f := fn(c, pkgKeystore, "", "createManagerKeyScope")
	mk := fn(c, pkgKeystore, "", "newManagedAddressFromExtKey")
	if f == nil || mk == nil {
		return
	}
	for i, s := range calls(f, mk) {
		cc := an.CallOf(s)
		key := siteKey(f, "newManagedAddressFromExtKey", i+1)
		// derivation path argument: load of a local struct
		var recorded []int64
		if ld, ok := cc.Args[1].(*ssa.UnOp); ok && ld.Op == token.MUL {
			an.Instrs(f, func(in ssa.Instruction) {
				st, ok := in.(*ssa.Store)
				if !ok {
					return
				}
				fa, ok := st.Addr.(*ssa.FieldAddr)
				if !ok || fa.X != ld.X {
					return
				}
				if an.FName(derefStructT(fa.X.Type()), fa.Field) == "Branch" {
					if k, isK := constInt(st.Val); isK {
						recorded = append(recorded, k)
					}
				}
			})
		}
		derived, okAll := keyBranchConst(cc.Args[2], 0, map[ssa.Value]bool{})
		if len(recorded) != 1 || len(derived) == 0 || !okAll {
			c.Fail(key, "undecided: could not resolve the recorded branch / the branch key of this derivation", posOf(c, s))
			continue
		}
		bad := false
		for _, d := range derived {
			if d != recorded[0] {
				bad = true
			}
		}
		if bad {
			c.Fail(key, "the address is derived from the branch-"+itoa(int(derived[0]))+" key but recorded under branch "+itoa(int(recorded[0]))+": after a restore the wallet shows another branch's addresses at these paths and signs for them with the wrong private key", posOf(c, s))
		} else {
			c.OK(key, "derived from and recorded under branch "+itoa(int(recorded[0])), posOf(c, s))
		}
	}
	// every record one scan loop fills names one branch: the derivation path handed to the address and the entry under
	// which its public key is stored (unlockDeriveInfo.branch → the (branch, index) key loadAddrManager rebuilds the
	// path from) are written in the same iteration
	type lab struct {
		k  int64
		in ssa.Instruction
	}
	perLoop := map[*ssa.BasicBlock][]lab{}
	var hdrs []*ssa.BasicBlock
	an.Instrs(f, func(in ssa.Instruction) {
		st, ok := in.(*ssa.Store)
		if !ok {
			return
		}
		fa, ok := st.Addr.(*ssa.FieldAddr)
		if !ok {
			return
		}
		stT := derefStructT(fa.X.Type())
		if stT == nil || !strings.EqualFold(an.FName(stT, fa.Field), "branch") {
			return
		}
		k, isK := constInt(st.Val)
		if !isK {
			return
		}
		h := loopHeaderOf(in.Block())
		if h == nil {
			return
		}
		// the outermost loop of the scan
		for {
			id := h.Idom()
			if id == nil {
				break
			}
			o := loopHeaderOf(id)
			if o == nil || o == h {
				break
			}
			h = o
		}
		if _, seen := perLoop[h]; !seen {
			hdrs = append(hdrs, h)
		}
		perLoop[h] = append(perLoop[h], lab{k, in})
	})
	for i, h := range hdrs {
		key := siteKey(f, "branch-labels-of-one-scan", i+1)
		ls := perLoop[h]
		bad := -1
		for j := range ls {
			if ls[j].k != ls[0].k {
				bad = j
			}
		}
		if bad >= 0 {
			c.Fail(key, "one restore scan labels what it recovers with two different branches ("+itoa(int(ls[0].k))+" and "+itoa(int(ls[bad].k))+"): the public keys are stored under another branch than the one they were derived on, the reloaded wallet rebuilds the paths from those labels and signs for these addresses with the other branch's key", posOf(c, ls[bad].in))
		} else {
			c.OK(key, itoa(len(ls))+" branch labels, all "+itoa(int(ls[0].k)), posOf(c, ls[0].in))
		}
	}
}

// ruleByteOrder: within one codec source file every encoding/binary access uses one byte order
// (the writer and the reader of a record live in the same file).
func ruleByteOrder(c *report.Ctx, pkgs []string, floor int) {
	p := c.P
	c.Rule("codec-byte-order", "the writer and the reader of a stored record use the same byte order: every encoding/binary call of one codec file uses one order", floor)
	type use struct {
		order string
		in    ssa.Instruction
	}
	perFile := map[string][]use{}
	want := map[string]bool{}
	for _, k := range pkgs {
		want[k] = true
	}
	for _, f := range p.ModFuncs {
		pk := an.FuncPkg(f)
		if pk == nil || !want[pk.Path()] {
			continue
		}
		an.Instrs(f, func(in ssa.Instruction) {
			cc := an.CallOf(in)
			if cc == nil {
				return
			}
			callee := cc.StaticCallee()
			if callee == nil {
				return
			}
			k := an.CanonKeyOf(callee)
			var order string
			switch {
			case strings.HasPrefix(k, "(encoding/binary.littleEndian)."):
				order = "little-endian"
			case strings.HasPrefix(k, "(encoding/binary.bigEndian)."):
				order = "big-endian"
			default:
				return
			}
			pos := p.InstrPos(in)
			file := pos
			if i := strings.Index(pos, ":"); i > 0 {
				file = pos[:i]
			}
			perFile[file] = append(perFile[file], use{order, in})
		})
	}
	var files []string
	for f := range perFile {
		files = append(files, f)
	}
	sort.Strings(files)
	for _, file := range files {
		cnt := map[string]int{}
		for _, u := range perFile[file] {
			cnt[u.order]++
		}
		major := "big-endian"
		if cnt["little-endian"] > cnt["big-endian"] {
			major = "little-endian"
		}
		bad := false
		for _, u := range perFile[file] {
			if u.order != major {
				bad = true
				fnk := sk(u.in.Parent())
				c.Fail(file+":"+fnk+":"+u.order, fnk+" uses "+u.order+" while the rest of "+file+" ("+itoa(cnt[major])+" calls) uses "+major+": the record's other side decodes the bytes swapped (an index 1 becomes 16777216), so a stored row is found under / describes another entity", posOf(c, u.in))
			}
		}
		if !bad {
			c.OK(file, itoa(len(perFile[file]))+" calls, all "+major, "")
		}
	}
}

// extKeyIsPublic: is the extended key value (statically) the result of Neuter(), or a child of one?
func extKeyIsPublic(v ssa.Value, depth int) bool {
	if depth > 10 {
		return false
	}
	switch x := v.(type) {
	case *ssa.Extract:
		return extKeyIsPublic(x.Tuple, depth+1)
	case *ssa.Phi:
		for _, e := range x.Edges {
			if k, isK := e.(*ssa.Const); isK && k.Value == nil {
				continue
			}
			if !extKeyIsPublic(e, depth+1) {
				return false
			}
		}
		return true
	case *ssa.Call:
		callee := x.Call.StaticCallee()
		if callee == nil || len(x.Call.Args) == 0 {
			return false
		}
		switch callee.Name() {
		case "Neuter":
			return true
		case "Child":
			return extKeyIsPublic(x.Call.Args[0], depth+1)
		}
	}
	return false
}

// rulePublicRowsHoldNeuteredKeys (C05): what is encrypted with the key that protects the public rows
// is never the serialisation of a private extended key.
func rulePublicRowsHoldNeuteredKeys(c *report.Ctx) {
	p := c.P
	c.Rule("public-rows-neutered", "every extended key serialised under the crypto key that protects the account's public rows (readable with the public passphrase alone) went through Neuter()", 3)
	f := fn(c, pkgKeystore, "", "createManagerKeyScope")
	pbk := fn(c, pkgKeystore, "", "putBranchPubKeys")
	hdString := fn(c, pkgHD, "ExtendedKey", "String")
	if f == nil || pbk == nil || hdString == nil {
		return
	}
	// the Encrypt call feeding putBranchPubKeys fixes the receiver that plays the public role
	encOf := func(v ssa.Value) *ssa.Call {
		if ex, ok := v.(*ssa.Extract); ok {
			if call, ok := ex.Tuple.(*ssa.Call); ok && call.Call.IsInvoke() && call.Call.Method.Name() == "Encrypt" {
				return call
			}
		}
		return nil
	}
	var pubRecv ssa.Value
	for _, s := range calls(f, pbk) {
		cc := an.CallOf(s)
		for _, a := range cc.Args[1:] {
			if e := encOf(a); e != nil {
				pubRecv = e.Call.Value
			} else {
				c.Fail(sk(f)+":putBranchPubKeys-arg", "a branch public-key row is not the output of Encrypt", posOf(c, s))
			}
		}
	}
	if pubRecv == nil {
		c.Fail(sk(f)+":public-crypto-key", "anchor lost: cannot identify the crypto key protecting the public rows", p.Pos(f.Pos()))
		return
	}
	n := 0
	an.Instrs(f, func(in ssa.Instruction) {
		call, ok := in.(*ssa.Call)
		if !ok || !call.Call.IsInvoke() || call.Call.Method.Name() != "Encrypt" || call.Call.Value != pubRecv {
			return
		}
		// data: []byte(K.String())  or other bytes
		d := call.Call.Args[0]
		if cv, ok := d.(*ssa.Convert); ok {
			d = cv.X
		}
		sc, ok := d.(*ssa.Call)
		if !ok || sc.Call.StaticCallee() != hdString {
			return // not an extended-key serialisation (compressed public keys)
		}
		n++
		key := siteKey(f, "public-Encrypt(ExtendedKey.String)", n)
		if extKeyIsPublic(sc.Call.Args[0], 0) {
			c.OK(key, "serialises a Neuter()ed key", posOf(c, in))
		} else {
			c.Fail(key, "an extended key that did not go through Neuter() ("+p.Desc(sc.Call.Args[0])+") is serialised under the crypto key of the public rows: whoever has the database and the public passphrase reads a private extended key and can sign for every address below it", posOf(c, in))
		}
	})
}

// rulePrevOutputPerInput (C03): the output handed to the signer and to the engine is prevTx.TxOut[thisInput.PreviousOutPoint.Index].
func rulePrevOutputPerInput(c *report.Ctx) {
	p := c.P
	c.Rule("prev-output-per-input", "each input is signed and verified against TxOut[PreviousOutPoint.Index] of its previous transaction, looked up for that input", 2)
	f := fn(c, pkgWallet, "WalletManager", "signWitnessTx")
	signTx := p.Fn(pkgTxscript, "", "SignTxOutputWit")
	newEng := p.Fn(pkgTxscript, "", "NewEngine")
	if f == nil || signTx == nil || newEng == nil {
		c.Lost("signWitnessTx / txscript.SignTxOutputWit / txscript.NewEngine")
		return
	}
	check := func(s ssa.Instruction, what string, args ...int) {
		cc := an.CallOf(s)
		for _, ai := range args {
			key := sk(f) + ":" + what + "#arg" + itoa(ai)
			v := cc.Args[ai]
			// v = *(&PT.Field)
			ld, ok := v.(*ssa.UnOp)
			if !ok {
				c.Fail(key, "undecided: argument is not a field of the previous output", posOf(c, s))
				continue
			}
			fa, ok := ld.X.(*ssa.FieldAddr)
			if !ok {
				c.Fail(key, "undecided: argument is not a field of the previous output", posOf(c, s))
				continue
			}
			pt := fa.X
			ptl, ok := pt.(*ssa.UnOp)
			var ia *ssa.IndexAddr
			if ok {
				ia, _ = ptl.X.(*ssa.IndexAddr)
			}
			if ia == nil {
				c.Fail(key, "the previous output handed to "+what+" is "+p.Desc(pt)+", not TxOut[PreviousOutPoint.Index] evaluated for this input: an input can be signed and self-checked against another output (e.g. a cached output of the same previous transaction), so SignRawTx reports success for a transaction the consensus engine rejects", posOf(c, s))
				continue
			}
			idx := p.Desc(ia.Index)
			if strings.HasSuffix(idx, "PreviousOutPoint.Index") && strings.HasSuffix(p.Desc(ia.X), "MsgTx.TxOut") {
				c.OK(key, "TxOut["+idx+"]", posOf(c, s))
			} else {
				c.Fail(key, "the previous output is indexed by "+idx+" in "+p.Desc(ia.X)+", not by this input's PreviousOutPoint.Index", posOf(c, s))
			}
		}
	}
	for _, s := range calls(f, signTx) {
		check(s, "SignTxOutputWit", 3, 4)
	}
	for _, s := range calls(f, newEng) {
		check(s, "NewEngine", 0, 6)
	}
}

// ruleBranchCacheComplete (C03): once the branch keys were derived after an unlock, the master key is not needed again.
func ruleBranchCacheComplete(c *report.Ctx) {
	p := c.P
	c.Rule("branch-cache-complete", "every cached branch key whose absence sends getPrivKeyBtcec back to the master key is filled by that visit, so one unlock needs the master key once (a concurrent passphrase check may wipe it in between two inputs)", 2)
	f := fn(c, pkgKeystore, "AddrManager", "getPrivKeyBtcec")
	if f == nil {
		return
	}
	var dec ssa.Instruction
	an.Instrs(f, func(in ssa.Instruction) {
		cc := an.CallOf(in)
		if dec != nil || cc == nil {
			return
		}
		var recv ssa.Value
		switch {
		case cc.IsInvoke() && cc.Method.Name() == "Decrypt":
			recv = cc.Value
		case cc.StaticCallee() != nil && nm(cc.StaticCallee()) == "Decrypt" && len(cc.Args) > 0:
			recv = cc.Args[0]
		default:
			return
		}
		if strings.HasSuffix(p.Desc(recv), "masterKeyPriv") {
			dec = in
		}
	})
	if dec == nil {
		c.Fail(sk(f)+":masterKeyPriv.Decrypt", "anchor lost: getPrivKeyBtcec no longer decrypts with the master key", p.Pos(f.Pos()))
		return
	}
	fieldOf := func(v ssa.Value) string {
		ld, ok := v.(*ssa.UnOp)
		if !ok || ld.Op != token.MUL {
			return ""
		}
		fa, ok := ld.X.(*ssa.FieldAddr)
		if !ok {
			return ""
		}
		st := derefStructT(fa.X.Type())
		if st == nil {
			return ""
		}
		return an.FName(st, fa.Field)
	}
	fields := map[string]bool{}
	var collect func(a an.Atom)
	collect = func(a an.Atom) {
		for _, o := range a.Or {
			collect(o)
		}
		if a.Op == token.EQL && a.Y != nil && an.IsNilConst(a.Y) {
			if n := fieldOf(a.X); strings.HasSuffix(n, "BranchPriv") {
				fields[n] = true
			}
		}
	}
	for _, a := range p.GuardsOf(dec) {
		collect(a)
	}
	if len(fields) == 0 {
		c.Fail(sk(f)+":guard", "anchor lost: the master-key branch is not guarded by the absence of a cached branch key", posOf(c, dec))
		return
	}
	var names []string
	for n := range fields {
		names = append(names, n)
	}
	sort.Strings(names)
	for _, n := range names {
		name := n
		s := &an.Search{P: p, Fn: f,
			Cut: func(in ssa.Instruction) bool {
				st, ok := in.(*ssa.Store)
				if !ok {
					return false
				}
				fa, ok := st.Addr.(*ssa.FieldAddr)
				if !ok {
					return false
				}
				stt := derefStructT(fa.X.Type())
				return stt != nil && an.FName(stt, fa.Field) == name && !an.IsNilConst(st.Val)
			},
			GoalReturn: func(r *ssa.Return, pred *ssa.BasicBlock) bool { return p.ClassifyReturn(r, pred) != an.RetError },
		}
		idx := 0
		for i, in := range dec.Block().Instrs {
			if in == dec {
				idx = i
			}
		}
		if w := s.Run(dec.Block(), idx+1, nil); w != nil {
			c.Fail(sk(f)+":fills:"+name, "the master-key branch is entered whenever "+name+" is nil but a successful visit can leave it nil: every later address needs the master key again, and a passphrase-checking request that wipes the master key between two inputs makes signing with the right passphrase fail", posOf(c, dec), w...)
		} else {
			c.OK(sk(f)+":fills:"+name, "filled on every successful visit", posOf(c, dec))
		}
	}
}

// ruleScanToCursorInclusive (C07): the scanned range ends (exclusively) one above the height the cursor is advanced to.
func ruleScanToCursorInclusive(c *report.Ctx) {
	p := c.P
	c.Rule("scan-to-cursor-inclusive", "the block range handed to the index query is [cursor+1, stop+1) for the stop the cursor is then advanced to: no height is stepped over", 1)
	ai := fn(c, pkgWallet, "NtfnsHandler", "asyncImport")
	ws := p.Type(pkgTxmgr, "WalletStatus")
	if ai == nil || ws == nil {
		return
	}
	cellOf := func(v ssa.Value) ssa.Value {
		if ld, ok := v.(*ssa.UnOp); ok && ld.Op == token.MUL {
			return ld.X
		}
		return v
	}
	n := 0
	for _, cl := range append([]*ssa.Function{ai}, closuresOf(p, ai)...) {
		an.Instrs(cl, func(in ssa.Instruction) {
			cc := an.CallOf(in)
			if cc == nil || !cc.IsInvoke() || cc.Method.Name() != "FetchScriptHashRelatedTx" {
				return
			}
			n++
			key := siteKey(cl, "FetchScriptHashRelatedTx-stop", n)
			b, ok := cc.Args[2].(*ssa.BinOp)
			if !ok || !isAddOne(b, nil) {
				c.Fail(key, "the exclusive upper bound of the scanned range is "+p.Desc(cc.Args[2])+", not (new cursor)+1: the last block of every batch is stepped over, so credits and spends at the batch boundaries are missing after an import that reports success", posOf(c, in))
				return
			}
			stopCell := cellOf(b.X)
			okStore := false
			for _, st := range fieldStores(cl, ws, "SyncedHeight") {
				if cellOf(st.(*ssa.Store).Val) == stopCell {
					okStore = true
				}
			}
			if okStore {
				c.OK(key, "upper bound = stop+1 and the cursor is advanced to stop", posOf(c, in))
			} else {
				c.Fail(key, "the cursor is not advanced to the height the scanned range ended at", posOf(c, in))
			}
		})
	}
}

// ruleRemovalStepIdempotent (C06/C08): the first removal step can be re-run on a database where it already ran.
func ruleRemovalStepIdempotent(c *report.Ctx) {
	p := c.P
	c.Rule("removal-step-idempotent", "no store operation of removal step 1 turns an already-absent row into an error: a removal interrupted after step 1 is resumed by running step 1 again", 4)
	ar := fn(c, pkgWallet, "NtfnsHandler", "asyncRemove")
	if ar == nil || len(ar.AnonFuncs) == 0 {
		return
	}
	step1 := ar.AnonFuncs[0]
	reached, parent := p.Reach([]*ssa.Function{step1}, an.ReachOpts{})
	var fs []*ssa.Function
	for f := range reached {
		pk := an.FuncPkg(f)
		if pk == nil || pk.Path() != pkgTxmgr || f.Blocks == nil {
			continue
		}
		fs = append(fs, f)
	}
	sort.Slice(fs, func(i, j int) bool { return sk(fs[i]) < sk(fs[j]) })
	for _, f := range fs {
		bad := false
		for _, b := range f.Blocks {
			r, ok := b.Instrs[len(b.Instrs)-1].(*ssa.Return)
			if !ok {
				continue
			}
			for i := range r.Results {
				v := an.RetOperand(r, i)
				if !an.IsErrorType(v.Type()) {
					continue
				}
				ld, ok := v.(*ssa.UnOp)
				if !ok {
					continue
				}
				g, ok := ld.X.(*ssa.Global)
				if !ok || !strings.Contains(g.Name(), "NotFound") && !strings.Contains(g.Name(), "NotExist") {
					continue
				}
				bad = true
				c.Fail(sk(f)+":returns:"+g.Name(), sk(f)+" is part of removal step 1 and reports "+g.Name()+" when the row is absent: after a stop between step 1 and the final step the resumed removal fails on every retry and the wallet is never removed", posOf(c, r), p.Witness(parent, f)...)
			}
		}
		if !bad {
			c.OK(sk(f), "no not-found error", p.Pos(f.Pos()))
		}
	}
}

// ruleChildPure (C14): child derivation reads its parent and writes nothing into it except the memoised public key.
func ruleChildPure(c *report.Ctx) {
	p := c.P
	c.Rule("derivation-pure", "Child / Neuter / String / ECPubKey derive from the receiver without storing into it (only the idempotent public-key memo): a derived key is a function of (parent, index), not of earlier or concurrent derivations", 4)
	ek := p.Type(pkgHD, "ExtendedKey")
	if ek == nil {
		c.Lost("hdkeychain.ExtendedKey")
		return
	}
	allowed := map[string]string{"pubKey": "idempotent memo of the compressed public key of a private key"}
	c.Exception("ExtendedKey.pubKey", allowed["pubKey"])
	for _, name := range []string{"Child", "Neuter", "String", "ECPubKey", "ECPrivKey", "pubKeyBytes", "ParentFingerprint", "IsPrivate", "Depth"} {
		f := p.Fn(pkgHD, "ExtendedKey", name)
		if f == nil {
			continue
		}
		bad := false
		an.Instrs(f, func(in ssa.Instruction) {
			st, ok := in.(*ssa.Store)
			if !ok {
				return
			}
			fa, ok := st.Addr.(*ssa.FieldAddr)
			if !ok || len(f.Params) == 0 || fa.X != ssa.Value(f.Params[0]) {
				return
			}
			fname := an.FName(derefStructT(fa.X.Type()), fa.Field)
			if _, isOK := allowed[fname]; isOK {
				return
			}
			bad = true
			c.Fail(sk(f)+":stores:"+fname, sk(f)+" stores into its receiver's field "+fname+": derivation now depends on (and races with) other derivations from the same key object, so a child key or chain code can differ from the BIP-32 value", posOf(c, in))
		})
		if !bad {
			c.OK(sk(f), "no store into the receiver beyond the public-key memo", p.Pos(f.Pos()))
		}
	}
}

// ruleExplicitInputsDistinct (C02): the explicit-input path rejects a repeated outpoint.
func ruleExplicitInputsDistinct(c *report.Ctx) {
	p := c.P
	c.Rule("explicit-inputs-distinct", "constructTxIn adds an input only after a membership test on the set of outpoints already added failed, and records it in that set: the same output cannot be spent twice by one draft (its value would be counted twice)", 1)
	f := fn(c, pkgWallet, "WalletManager", "constructTxIn")
	addTxIn := p.Fn(pkgWire, "MsgTx", "AddTxIn")
	if f == nil || addTxIn == nil {
		c.Lost("constructTxIn / wire.MsgTx.AddTxIn")
		return
	}
	sites := calls(f, addTxIn)
	if len(sites) == 0 {
		c.Fail(sk(f)+":AddTxIn", "anchor lost: constructTxIn no longer adds inputs through MsgTx.AddTxIn", p.Pos(f.Pos()))
		return
	}
	isOutPointKey := func(v ssa.Value) bool {
		t := v.Type()
		if n := an.NamedOf(t); n != nil && n.Obj().Name() == "OutPoint" {
			return true
		}
		d := p.Desc(v)
		return strings.Contains(d, "PreviousOutPoint") || strings.Contains(d, "NewOutPoint")
	}
	for i, s := range sites {
		key := siteKey(f, "AddTxIn-after-duplicate-test", i+1)
		var set ssa.Value
		tested := an.AnyAtom(p.GuardsOf(s), func(a an.Atom) bool {
			if a.Op != token.ILLEGAL || a.Truth {
				return false
			}
			ex, ok := a.X.(*ssa.Extract)
			if !ok || ex.Index != 1 {
				return false
			}
			lk, ok := ex.Tuple.(*ssa.Lookup)
			if !ok || !lk.CommaOk || !isOutPointKey(lk.Index) {
				return false
			}
			set = lk.X
			return true
		})
		recorded := false
		if tested {
			an.Instrs(f, func(in ssa.Instruction) {
				if mu, ok := in.(*ssa.MapUpdate); ok && mu.Map == set && isOutPointKey(mu.Key) && loopHeaderOf(in.Block()) != nil {
					recorded = true
				}
			})
		}
		switch {
		case tested && recorded:
			c.OK(key, "guarded by a failed lookup in the set of outpoints added so far; the outpoint is then recorded", posOf(c, s))
		case tested:
			c.Fail(key, "the duplicate test reads a set that the loop never fills", posOf(c, s))
		default:
			c.Fail(key, "an explicit input is added without testing whether the same outpoint was already added: a request naming one output twice yields a transaction that spends it twice and whose input total (and therefore change) counts its value twice", posOf(c, s), an.AtomTexts(p.GuardsOf(s))...)
		}
	}
}

// ruleOverlaySequence (C11): every write to the transaction overlay takes a fresh sequence number.
func ruleOverlaySequence(c *report.Ctx) {
	p := c.P
	c.Rule("overlay-sequence", "batch.Put / batch.Delete increment the overlay's sequence counter and record the new number with the entry on every path: reads inside the transaction order a key's put and delete by these numbers", 2)
	bt := p.Type(pkgLDB, "batch")
	if bt == nil {
		c.Lost("ldb.batch")
		return
	}
	for _, t := range []struct{ fn, field string }{{"Put", "puts"}, {"Delete", "deletes"}} {
		f := fn(c, pkgLDB, "batch", t.fn)
		if f == nil {
			continue
		}
		// (1) every return passes a store seqNo = seqNo + 1
		incr := func(in ssa.Instruction) bool {
			st, ok := in.(*ssa.Store)
			if !ok {
				return false
			}
			fa, ok := st.Addr.(*ssa.FieldAddr)
			if !ok || an.FName(derefStructT(fa.X.Type()), fa.Field) != "seqNo" {
				return false
			}
			return isAddOne(st.Val, nil)
		}
		s := &an.Search{P: p, Fn: f, Cut: incr, GoalReturn: func(r *ssa.Return, pred *ssa.BasicBlock) bool { return true }}
		key := sk(f) + ":fresh-sequence-number"
		if w := s.Run(f.Blocks[0], 0, nil); w != nil {
			c.Fail(key, sk(f)+" can return without taking a new sequence number: a key that is put, deleted and put again in one transaction keeps the older number, so reads inside the transaction (Get, prefix reads, Clear) still treat it as deleted although the value is committed", p.Pos(f.Pos()), w...)
			continue
		}
		// (2) every return passes a map update of the overlay table
		upd := func(in ssa.Instruction) bool {
			mu, ok := in.(*ssa.MapUpdate)
			return ok && strings.HasSuffix(p.Desc(mu.Map), "batch."+t.field)
		}
		s2 := &an.Search{P: p, Fn: f, Cut: upd, GoalReturn: func(r *ssa.Return, pred *ssa.BasicBlock) bool { return true }}
		if w := s2.Run(f.Blocks[0], 0, nil); w != nil {
			c.Fail(key, sk(f)+" can return without recording the entry (with its new sequence number) in batch."+t.field, p.Pos(f.Pos()), w...)
			continue
		}
		c.OK(key, "seqNo++ and batch."+t.field+"[k] updated on every path", p.Pos(f.Pos()))
	}
}

// ruleWholeBucketLimit (C11): an iterator without an upper bound ends at the prefix successor of the bucket prefix.
func ruleWholeBucketLimit(c *report.Ctx) {
	p := c.P
	c.Rule("whole-bucket-limit", "when no upper bound is given, the iterator's limit is BytesPrefix(bucket prefix).Limit (the smallest key greater than every key of the bucket), not a constant suffix", 1)
	f := fn(c, pkgLDB, "levelBucket", "NewIterator")
	bp := fn(c, pkgDB, "", "BytesPrefix")
	rng := p.Type(pkgDB, "Range")
	if f == nil || bp == nil || rng == nil {
		return
	}
	n := 0
	for _, st := range fieldStores(f, rng, "Limit") {
		empty := an.AnyAtom(p.GuardsOf(st), func(a an.Atom) bool {
			return a.Op == token.EQL && strings.HasPrefix(p.Desc(a.X), "len(") && strings.HasSuffix(p.Desc(a.X), "Range.Limit)") && p.Desc(a.Y) == "0"
		})
		if !empty {
			continue
		}
		n++
		key := siteKey(f, "limit-when-unbounded", n)
		v := st.(*ssa.Store).Val
		ok := false
		if ld, isLd := v.(*ssa.UnOp); isLd && ld.Op == token.MUL {
			if fa, isFA := ld.X.(*ssa.FieldAddr); isFA {
				if call, isCall := fa.X.(*ssa.Call); isCall && call.Call.StaticCallee() == bp {
					ok = true
				}
			}
		}
		if ok {
			c.OK(key, "= BytesPrefix(innerKeyForIterator(…)).Limit", posOf(c, st))
		} else {
			c.Fail(key, "the limit of an unbounded iteration is "+p.Desc(v)+", not the prefix successor of the bucket prefix: keys of the bucket at or above that value (e.g. keys starting with 0xff) are skipped by whole-bucket iteration and Seek", posOf(c, st))
		}
	}
	if n == 0 {
		c.Fail(sk(f)+":limit-when-unbounded", "anchor lost: NewIterator no longer sets the limit for the unbounded case", p.Pos(f.Pos()))
	}
}

// rulePayloadBeforeFeeLoop (C02): the payload is attached before the fee loop estimates the size.
func rulePayloadBeforeFeeLoop(c *report.Ctx) {
	p := c.P
	c.Rule("payload-before-fee-loop", "EstimateTxFee attaches the payload to the draft before autoConstructTxInAndChangeTxOut sizes it: the fee loop reads len(msgTx.Payload)", 1)
	f := fn(c, pkgWallet, "WalletManager", "EstimateTxFee")
	ac := fn(c, pkgWallet, "WalletManager", "autoConstructTxInAndChangeTxOut")
	sp := p.Fn(pkgWire, "MsgTx", "SetPayload")
	if f == nil || ac == nil || sp == nil {
		c.Lost("EstimateTxFee / autoConstructTxInAndChangeTxOut / wire.MsgTx.SetPayload")
		return
	}
	// the fee loop really reads the payload length (otherwise the order is immaterial)
	reads := false
	an.Instrs(ac, func(in ssa.Instruction) {
		if fa, ok := in.(*ssa.FieldAddr); ok {
			if st := derefStructT(fa.X.Type()); st != nil && an.FName(st, fa.Field) == "Payload" {
				reads = true
			}
		}
	})
	sps, acs := calls(f, sp), calls(f, ac)
	if len(acs) == 0 {
		c.Fail(sk(f)+":fee-loop", "anchor lost: EstimateTxFee no longer calls autoConstructTxInAndChangeTxOut", p.Pos(f.Pos()))
		return
	}
	for i, a := range acs {
		key := siteKey(f, "SetPayload-dominates-fee-loop", i+1)
		ok := false
		for _, s := range sps {
			if instrDominates(s, a) && an.CallOf(s).Args[0] == an.CallOf(a).Args[1] {
				ok = true
			}
		}
		switch {
		case ok:
			c.OK(key, "payload attached to the same draft before it is sized", posOf(c, a))
		case !reads:
			c.OK(key, "the fee loop does not read the draft's payload", posOf(c, a))
		default:
			c.Fail(key, "the draft is sized by the fee loop before the payload is attached: the reported fee ignores the payload bytes and falls below the relay minimum for the signed size of a payload-carrying transaction", posOf(c, a))
		}
	}
}

var bigMutators = map[string]bool{"Add": true, "Sub": true, "Mul": true, "Div": true, "Mod": true, "DivMod": true, "Quo": true, "Rem": true, "QuoRem": true,
	"And": true, "AndNot": true, "Or": true, "Xor": true, "Not": true, "Lsh": true, "Rsh": true, "Neg": true, "Abs": true, "Exp": true, "ModInverse": true, "Sqrt": true,
	"Set": true, "SetInt64": true, "SetUint64": true, "SetBytes": true, "SetBit": true, "SetBits": true, "SetString": true, "GCD": true, "ModSqrt": true, "Rand": true}

// fromPackageVar: does v come (without a copy) from a package-level variable?
func fromPackageVar(v ssa.Value, depth int) *ssa.Global {
	if depth > 6 {
		return nil
	}
	switch x := v.(type) {
	case *ssa.UnOp:
		if x.Op == token.MUL {
			if g, ok := x.X.(*ssa.Global); ok {
				return g
			}
			return fromPackageVar(x.X, depth+1)
		}
	case *ssa.Lookup:
		return fromPackageVar(x.X, depth+1)
	case *ssa.Extract:
		return fromPackageVar(x.Tuple, depth+1)
	case *ssa.IndexAddr:
		return fromPackageVar(x.X, depth+1)
	case *ssa.FieldAddr:
		return fromPackageVar(x.X, depth+1)
	case *ssa.Global:
		return x
	case *ssa.Phi:
		for _, e := range x.Edges {
			if g := fromPackageVar(e, depth+1); g != nil {
				return g
			}
		}
	}
	return nil
}

// ruleSharedBigIntsImmutable (C13/C14): the package-level big.Int constants are never the receiver of a mutating method.
func ruleSharedBigIntsImmutable(c *report.Ctx, pkgs []string, floor int) {
	p := c.P
	c.Rule("shared-bigints-immutable", "package-level *big.Int values (masks, moduli, curve constants) are only read: a mutating big.Int method never has one of them as its receiver outside package initialisation, so encoding/decoding stays a function of its input", floor)
	want := map[string]bool{}
	for _, k := range pkgs {
		want[k] = true
	}
	for _, f := range p.ModFuncs {
		pk := an.FuncPkg(f)
		if pk == nil || !want[pk.Path()] || f.Name() == "init" || strings.HasPrefix(f.Name(), "init#") {
			continue
		}
		an.Instrs(f, func(in ssa.Instruction) {
			cc := an.CallOf(in)
			if cc == nil {
				return
			}
			callee := cc.StaticCallee()
			if callee == nil || !strings.HasPrefix(an.CanonKeyOf(callee), "(*math/big.Int).") || len(cc.Args) == 0 {
				return
			}
			g := fromPackageVar(cc.Args[0], 0)
			readsGlobal := false
			for _, a := range cc.Args {
				if fromPackageVar(a, 0) != nil {
					readsGlobal = true
				}
			}
			if !readsGlobal {
				return
			}
			key := sk(f) + ":" + callee.Name() + "@" + func() string {
				if g != nil {
					return g.Name()
				}
				return "arg"
			}()
			if g != nil && bigMutators[callee.Name()] {
				c.Fail(key, sk(f)+" calls big.Int."+callee.Name()+" with the package-level value "+g.Name()+" as its receiver: the shared constant changes with every call, so the second encode/decode in one process uses a different mask/modulus than the first", posOf(c, in))
			} else {
				c.OK(key, "package-level big.Int only read", posOf(c, in))
			}
		})
	}
}

// ruleValidatedTokensAreDecodedTokens (C13): the membership test and the index lookup see the same words.
func ruleValidatedTokensAreDecodedTokens(c *report.Ctx) {
	p := c.P
	c.Rule("validated-tokens", "IsMnemonicValid tests membership of exactly the tokens the decoders index with (strings.Fields of the sentence, no case folding or other rewriting): otherwise a sentence with a non-list word passes the test and the unguarded wordMap[word] lookup decodes it as index 0", 2)
	fields := p.Fn("strings", "", "Fields")
	trim := p.Fn("strings", "", "TrimSpace")
	if fields == nil {
		c.Lost("strings.Fields")
		return
	}
	for _, name := range []string{"IsMnemonicValid", "MnemonicToByteArray", "EntropyFromMnemonic"} {
		f := fn(c, pkgKeystore, "", name)
		if f == nil {
			continue
		}
		// strings.Fields may be called by a same-package helper that is handed the sentence unchanged
		type fsite struct {
			in  ssa.Instruction
			arg ssa.Value
		}
		var fsites []fsite
		for _, s := range calls(f, fields) {
			fsites = append(fsites, fsite{s, an.CallOf(s).Args[0]})
		}
		an.Instrs(f, func(in ssa.Instruction) {
			call, ok := in.(*ssa.Call)
			if !ok {
				return
			}
			g := call.Call.StaticCallee()
			if g == nil || g == f || g.Blocks == nil || an.FuncPkg(g) != an.FuncPkg(f) {
				return
			}
			for _, s := range calls(g, fields) {
				a := an.CallOf(s).Args[0]
				for {
					if tc, ok := a.(*ssa.Call); ok && trim != nil && tc.Call.StaticCallee() == trim {
						a = tc.Call.Args[0]
						continue
					}
					break
				}
				// helper's own parameter → the argument f passes
				if par, ok := a.(*ssa.Parameter); ok && par.Parent() == g {
					for i, q := range g.Params {
						if q == par && i < len(call.Call.Args) {
							fsites = append(fsites, fsite{in, call.Call.Args[i]})
						}
					}
				} else {
					fsites = append(fsites, fsite{in, a})
				}
			}
		})
		for i, fs := range fsites {
			s := fs.in
			arg := fs.arg
			for {
				if call, ok := arg.(*ssa.Call); ok && trim != nil && call.Call.StaticCallee() == trim {
					arg = call.Call.Args[0]
					continue
				}
				break
			}
			key := siteKey(f, "Fields(sentence)", i+1)
			if par, ok := arg.(*ssa.Parameter); ok && par.Parent() == f {
				c.OK(key, "tokens of the sentence as given", posOf(c, s))
			} else {
				c.Fail(key, name+" splits "+p.Desc(arg)+" instead of the sentence as given: the words it validates / decodes are not the words the other functions (and the seed derivation, which hashes the original string) see", posOf(c, s))
			}
		}
	}
}

// ruleRelevantIndex (C01/C09): loops over a record's relevant inputs/outputs address the transaction through the element's Index.
func ruleRelevantIndex(c *report.Ctx, floor int) {
	p := c.P
	c.Rule("relevant-index", "a loop over TxRecord.RelevantTxIn / RelevantTxOut addresses MsgTx.TxIn / TxOut through the element's own Index (the relevant list is a sparse subset: position in the list is not position in the transaction)", floor)
	for _, f := range p.ModFuncs {
		pk := an.FuncPkg(f)
		if pk == nil || pk.Path() != pkgTxmgr {
			continue
		}
		rel := map[string]bool{}
		an.Instrs(f, func(in ssa.Instruction) {
			// any use of the field (range, len, index) makes this a walk over the relevant list
			if fa, ok := in.(*ssa.FieldAddr); ok {
				if st := derefStructT(fa.X.Type()); st != nil {
					switch an.FName(st, fa.Field) {
					case "RelevantTxIn":
						rel["TxIn"] = true
					case "RelevantTxOut":
						rel["TxOut"] = true
					}
				}
			}
		})
		if len(rel) == 0 {
			continue
		}
		n := 0
		an.Instrs(f, func(in ssa.Instruction) {
			ia, ok := in.(*ssa.IndexAddr)
			if !ok {
				return
			}
			d := p.Desc(ia.X)
			var which string
			switch {
			case strings.HasSuffix(d, "TxRecord.MsgTx.TxIn") && rel["TxIn"]:
				which = "TxIn"
			case strings.HasSuffix(d, "TxRecord.MsgTx.TxOut") && rel["TxOut"]:
				which = "TxOut"
			default:
				return
			}
			n++
			key := siteKey(f, "MsgTx."+which+"[rel.Index]", n)
			id := p.Desc(stripConv(ia.Index))
			if strings.HasSuffix(id, "RelevantMeta.Index") {
				c.OK(key, "indexed by the relevant element's Index", posOf(c, in))
			} else {
				c.Fail(key, sk(f)+" walks the record's relevant "+which+" list but addresses MsgTx."+which+" by "+id+": when a foreign input/output precedes a wallet one, the wrong outpoint is recorded (a foreign coin is flagged, the wallet's own pending-spent coin stays selectable and a confirmed conflict no longer purges the pending transaction)", posOf(c, in))
			}
		})
	}
}

// ruleSelectionResetOnDelete (C19): removing the selected keystore from the cache clears the selection.
func ruleSelectionResetOnDelete(c *report.Ctx) {
	p := c.P
	c.Rule("selection-reset-on-delete", "DeleteKeystore clears km.currentKeystore when it names the deleted wallet (itself or through the helper that drops the cache entry): readers of the selection index managedKeystores[currentKeystore.accountName] without a nil test and rely on 'selected ⇒ cached'", 1)
	f := fn(c, pkgKeystore, "KeystoreManager", "DeleteKeystore")
	if f == nil {
		return
	}
	isDelete := func(in ssa.Instruction) bool {
		cc := an.CallOf(in)
		if cc == nil {
			return false
		}
		b, ok := cc.Value.(*ssa.Builtin)
		return ok && b.Name() == "delete" && strings.HasSuffix(p.Desc(cc.Args[0]), "KeystoreManager.managedKeystores")
	}
	isResetStore := func(in ssa.Instruction) bool {
		st, ok := in.(*ssa.Store)
		if !ok || !an.IsNilConst(st.Val) {
			return false
		}
		fa, ok := st.Addr.(*ssa.FieldAddr)
		return ok && an.FName(derefStructT(fa.X.Type()), fa.Field) == "currentKeystore"
	}
	calleeOf := func(in ssa.Instruction) *ssa.Function {
		if cc := an.CallOf(in); cc != nil {
			if cal := cc.StaticCallee(); cal != nil && an.FuncPkg(cal) != nil && an.FuncPkg(cal).Path() == pkgKeystore {
				return cal
			}
		}
		return nil
	}
	// the steps may be factored into helpers of the keystore package
	var contains func(g *ssa.Function, pred func(ssa.Instruction) bool, depth int) bool
	contains = func(g *ssa.Function, pred func(ssa.Instruction) bool, depth int) bool {
		if g == nil || g.Blocks == nil || depth > 2 {
			return false
		}
		found := false
		an.Instrs(g, func(in ssa.Instruction) {
			if found {
				return
			}
			if pred(in) {
				found = true
				return
			}
			if cal := calleeOf(in); cal != nil && cal != g && contains(cal, pred, depth+1) {
				found = true
			}
		})
		return found
	}
	var dels []ssa.Instruction
	an.Instrs(f, func(in ssa.Instruction) {
		if isDelete(in) {
			dels = append(dels, in)
		} else if cal := calleeOf(in); cal != nil && cal != f && contains(cal, isDelete, 0) {
			dels = append(dels, in)
		}
	})
	if len(dels) == 0 {
		c.Fail(sk(f)+":delete", "anchor lost: DeleteKeystore no longer removes the wallet from managedKeystores", p.Pos(f.Pos()))
		return
	}
	isReset := func(in ssa.Instruction) bool {
		if isResetStore(in) {
			return true
		}
		cal := calleeOf(in)
		return cal != nil && cal != f && contains(cal, isResetStore, 0)
	}
	for i, d := range dels {
		key := siteKey(f, "delete=>currentKeystore-reset", i+1)
		if cal := calleeOf(d); cal != nil && contains(cal, isResetStore, 0) {
			c.OK(key, "the helper that drops the entry also clears the selection", posOf(c, d))
			continue
		}
		idx := 0
		for k, in := range d.Block().Instrs {
			if in == d {
				idx = k
			}
		}
		s := &an.Search{P: p, Fn: f, Cut: isReset,
			CutEdge: func(from, to *ssa.BasicBlock) bool {
				a := edgeAtoms(p, from, to)
				if a == nil {
					return false
				}
				// the edges on which the selection is known not to name the deleted wallet
				if a.Op == token.EQL && a.Y != nil && an.IsNilConst(a.Y) && strings.HasSuffix(p.Desc(a.X), "currentKeystore") {
					return true
				}
				if a.Op == token.NEQ && (strings.HasSuffix(p.Desc(a.X), "currentKeystore.accountName") || strings.HasSuffix(p.Desc(a.Y), "currentKeystore.accountName")) {
					return true
				}
				return false
			},
			GoalReturn: func(r *ssa.Return, pred *ssa.BasicBlock) bool { return true },
		}
		if w := s.Run(d.Block(), idx+1, nil); w != nil {
			c.Fail(key, "after the wallet is dropped from managedKeystores DeleteKeystore can return with currentKeystore still naming it: GetManagedAddressByScriptHashInCurrent (ValidateAddress) then indexes a nil *AddrManager and panics instead of reporting that no wallet is in use, and restoring the same mnemonic silently selects the half-imported wallet", posOf(c, d), w...)
		} else {
			c.OK(key, "reset or provably not the selected wallet on every path", posOf(c, d))
		}
	}
}

// ruleNoMemoryTipUnderUpdate (C01/C18/C06): the follower's in-memory tip is not written by code that runs inside a write transaction.
// withPushes adds the task-queue half (C18: a reported failure must not have been acted upon).
func ruleNoMemoryTipUnderUpdate(c *report.Ctx, withPushes bool) {
	p := c.P
	c.Rule("memory-tip-outside-transaction", "nothing reachable from the closure of a write transaction stores NtfnsHandler.bestBlock or queues a background task: in-memory effects happen only after the commit succeeded, so a failed commit is retried / reported without having been acted upon", 5)
	nh := p.Type(pkgWallet, "NtfnsHandler")
	if nh == nil {
		c.Lost("masswallet.NtfnsHandler")
		return
	}
	_, _, us, _ := updateSites(c)
	for _, s := range us {
		if s.Closure == nil || s.Closure.Blocks == nil {
			continue
		}
		pk := an.FuncPkg(s.Caller)
		if pk == nil || pk.Path() != pkgWallet {
			continue
		}
		reached, parent := p.ReachNil([]*ssa.Function{s.Closure}, an.ReachOpts{})
		bad := false
		var fs []*ssa.Function
		for f := range reached {
			fs = append(fs, f)
		}
		sort.Slice(fs, func(i, j int) bool { return sk(fs[i]) < sk(fs[j]) })
		for _, f := range fs {
			if withPushes {
				for _, tp := range taskPushes(c, f) {
					bad = true
					pn := map[string]string{"import": "PushImport", "remove": "PushRemove", "?": "Push"}[tp.Kind]
					ps := tp.Site
					c.Fail(sk(s.Closure)+"~>"+sk(f)+":"+pn, "a background task is queued from inside the write transaction started by "+sk(s.Caller)+": when the commit fails the caller reports the failure but the worker carries the task out anyway (a wallet whose removal was reported failed is deleted)", posOf(c, ps), p.Witness(parent, f)...)
				}
			}
			for _, st := range fieldStores(f, nh, "bestBlock") {
				bad = true
				c.Fail(sk(s.Closure)+"~>"+sk(f)+":bestBlock=", "the in-memory tip is written inside the write transaction started by "+sk(s.Caller)+": when the commit fails the handler believes it is one block further than the database, the next tip is applied on the direct path and rejected by SetSyncedTo, and block processing stalls until restart", posOf(c, st), p.Witness(parent, f)...)
			}
		}
		if !bad {
			c.OK(sk(s.Closure), "no store to bestBlock and no task push reachable", posOf(c, s.Site))
		}
	}
}

// ruleFastForwardGate (C06): start-up may skip unfiltered blocks only when no wallet at all is ready.
func ruleFastForwardGate(c *report.Ctx) {
	p := c.P
	c.Rule("fast-forward-gate", "the start-up fast-forward (SetSyncedTo without filtering the block) runs only when the set of ready wallets is empty: the gate variable is len(getReadyWallets()) > 0 (or a monotone OR over the wallets), never the verdict of the last wallet only", 2)
	st := fn(c, pkgWallet, "NtfnsHandler", "Start")
	grw := fn(c, pkgWallet, "NtfnsHandler", "getReadyWallets")
	sst := fn(c, pkgTxmgr, "SyncStore", "SetSyncedTo")
	upd := fn(c, pkgDB, "", "Update")
	if st == nil || grw == nil || sst == nil || upd == nil {
		return
	}
	// the skip-ahead transaction: an Update in Start whose closure calls SetSyncedTo directly
	var skip ssa.Instruction
	for _, u := range calls(st, upd) {
		uc, isCall := u.(*ssa.Call)
		if !isCall {
			continue
		}
		if cl := closureArg(uc, 1); cl != nil && len(calls(cl, sst)) > 0 {
			skip = u
		}
	}
	if skip == nil {
		c.OK(sk(st)+":no-fast-forward", "Start has no skip-ahead transaction", p.Pos(st.Pos()))
		c.Count(1)
		return
	}
	// gate: a false-valued load of a local bool cell
	var cell ssa.Value
	gated := an.AnyAtom(p.GuardsOf(skip), func(a an.Atom) bool {
		if a.Op != token.ILLEGAL || a.Truth {
			return false
		}
		if ld, ok := a.X.(*ssa.UnOp); ok && ld.Op == token.MUL {
			if al, ok := ld.X.(*ssa.Alloc); ok {
				cell = al
				return true
			}
		}
		// ResolveCell may have replaced the load by the stored value
		return false
	})
	if !gated || cell == nil {
		// single-store cells are resolved by the guard engine: accept a guard that is directly !(len(getReadyWallets)>0)
		direct := an.AnyAtom(p.GuardsOf(skip), func(a an.Atom) bool {
			d := p.Desc(a.X)
			return strings.Contains(d, nm(grw)) && (a.Op == token.LEQ || a.Op == token.EQL)
		})
		if direct {
			c.OK(sk(st)+":fast-forward-gate", "guarded by len(getReadyWallets()) == 0", posOf(c, skip))
			c.Count(1)
			return
		}
		c.Fail(sk(st)+":fast-forward-gate", "the skip-ahead transaction is not guarded by a 'no ready wallet' flag: blocks paying a ready wallet can be skipped after a restart", posOf(c, skip), an.AtomTexts(p.GuardsOf(skip))...)
		return
	}
	c.OK(sk(st)+":fast-forward-gate", "guarded by !flag", posOf(c, skip))
	// every store into the flag
	n := 0
	for _, f := range append([]*ssa.Function{st}, closuresOf(p, st)...) {
		an.Instrs(f, func(in ssa.Instruction) {
			s, ok := in.(*ssa.Store)
			if !ok {
				return
			}
			addr := s.Addr
			if fv, isFV := addr.(*ssa.FreeVar); isFV {
				// captured cell: match by binding position
				for i, b := range f.FreeVars {
					if b == fv {
						if mc := makeClosureOf(st, f); mc != nil && i < len(mc.Bindings) {
							addr = mc.Bindings[i]
						}
					}
				}
			}
			if addr != cell {
				return
			}
			n++
			key := siteKey(st, "flag-store", n)
			v := s.Val
			okv := false
			why := ""
			switch x := v.(type) {
			case *ssa.Const:
				okv, why = true, "constant"
			case *ssa.BinOp:
				if x.Op == token.GTR && strings.HasPrefix(p.Desc(x.X), "len(") && strings.Contains(p.Desc(x.X), nm(grw)) {
					if k, isK := constInt(x.Y); isK && k == 0 {
						okv, why = true, "len(getReadyWallets()) > 0"
					}
				}
			case *ssa.Phi:
				// flag = flag || cond  ⇒  phi(true | cond) with the true edge taken when the flag already holds
				for _, e := range x.Edges {
					if k, isK := e.(*ssa.Const); isK && k.Value != nil && k.Value.ExactString() == "true" {
						okv, why = true, "monotone OR"
					}
				}
			}
			if okv {
				c.OK(key, why, posOf(c, in))
			} else {
				c.Fail(key, "the 'a wallet is ready' flag is overwritten with "+p.Desc(v)+": it reflects one wallet (the last examined), so with a ready wallet and a later importing/removal-flagged one the restart fast-forwards over blocks that pay the ready wallet and their transactions are lost for good", posOf(c, in))
			}
		})
	}
}

func makeClosureOf(parent, anon *ssa.Function) *ssa.MakeClosure {
	var out *ssa.MakeClosure
	an.Instrs(parent, func(in ssa.Instruction) {
		if mc, ok := in.(*ssa.MakeClosure); ok && mc.Fn == ssa.Value(anon) {
			out = mc
		}
	})
	return out
}

// ruleFlagByteRMW (C10/C09/C01): rewriting the flag byte of an existing credit keeps the other bits.
func ruleFlagByteRMW(c *report.Ctx) {
	p := c.P
	c.Rule("flag-byte-preserved", "spendCredit / unspendRawCredit change the spent bit of an existing credit value by read-modify-write of the flag byte (old | bit, old &^ bit): the change / staking / binding class bits written at creation survive a spend and its rollback", 2)
	for _, name := range []string{"spendCredit", "unspendRawCredit"} {
		f := fn(c, pkgTxmgr, "", name)
		if f == nil {
			continue
		}
		n := 0
		an.Instrs(f, func(in ssa.Instruction) {
			st, ok := in.(*ssa.Store)
			if !ok {
				return
			}
			ia, ok := st.Addr.(*ssa.IndexAddr)
			if !ok || !isByteSlice(ia.X.Type()) {
				return
			}
			if k, isK := constInt(ia.Index); !isK || k != 8 {
				return
			}
			n++
			key := siteKey(f, "flag-byte-store", n)
			good := false
			if b, isB := st.Val.(*ssa.BinOp); isB && (b.Op == token.OR || b.Op == token.AND_NOT) {
				if _, isK := constInt(b.Y); isK {
					if ld, isLd := b.X.(*ssa.UnOp); isLd && ld.Op == token.MUL {
						if ia2, isIA := ld.X.(*ssa.IndexAddr); isIA && ia2.X == ia.X {
							if k2, isK2 := constInt(ia2.Index); isK2 && k2 == 8 {
								good = true
							}
						}
					}
				}
			}
			if good {
				c.OK(key, "old "+st.Val.(*ssa.BinOp).Op.String()+" constant", posOf(c, in))
			} else {
				c.Fail(key, name+" stores "+p.Desc(st.Val)+" into the flag byte of an existing credit instead of setting/clearing one bit of the old byte: the staking/binding (or change) class written at creation is lost when the coin is spent, so after the spend is rolled back the deposit is an ordinary spendable coin and its history entry is not restored", posOf(c, in))
			}
		})
		if n == 0 {
			c.Fail(sk(f)+":flag-byte-store", "anchor lost: "+name+" no longer rewrites the flag byte", p.Pos(f.Pos()))
		}
	}
}

// ruleMaturityPerTemplate (C16/C10): ParsePkScript sets a maturity only where the consensus template has one.
func ruleMaturityPerTemplate(c *report.Ctx) {
	p := c.P
	c.Rule("maturity-per-template", "ParsePkScript assigns maturity = frozen period + 1 under the staking class only, and the binding locked period under the binding class with a new-style (non 20-byte) target only; standard and legacy binding outputs keep maturity 0, as the consensus templates have no lock for them", 2)
	f := fn(c, pkgUtils, "", "ParsePkScript")
	info := p.Type(pkgUtils, "pkScriptInfo")
	if f == nil || info == nil {
		c.Lost("utils.ParsePkScript / pkScriptInfo")
		return
	}
	stakingTy := p.Obj(pkgTxscript, "StakingScriptHashTy")
	bindingTy := p.Obj(pkgTxscript, "BindingScriptHashTy")
	if stakingTy == nil || bindingTy == nil {
		c.Lost("txscript.*ScriptHashTy")
		return
	}
	classIs := func(gs []an.Atom, o types.Object) bool {
		return an.AnyAtom(gs, func(a an.Atom) bool {
			return a.Op == token.EQL && strings.Contains(p.Desc(a.X), "GetScriptInfo") && p.Desc(a.Y) == constString(o)
		})
	}
	n := 0
	for _, st := range fieldStores(f, info, "maturity") {
		n++
		key := siteKey(f, "maturity-store", n)
		v := st.(*ssa.Store).Val
		gs := p.GuardsOf(st)
		switch {
		case isAddOne(v, nil):
			if classIs(gs, stakingTy) {
				c.OK(key, "frozen period + 1 under the staking class", posOf(c, st))
			} else {
				c.Fail(key, "maturity = height+1 is assigned outside the staking class", posOf(c, st))
			}
		default:
			_, isK := constInt(v)
			if strings.Contains(p.Desc(v), "MASSIP0002BindingLockedPeriod") {
				isK = true
			}
			newStyle := an.AnyAtom(gs, func(a an.Atom) bool {
				if a.Op != token.NEQ || !strings.HasPrefix(p.Desc(a.X), "len(") || !strings.Contains(p.Desc(a.X), "GetParsedBindingOpcode") {
					return false
				}
				k, ok := constInt(a.Y)
				return ok && k == 20
			})
			if isK && classIs(gs, bindingTy) && newStyle {
				c.OK(key, "binding locked period under the binding class with a new-style target", posOf(c, st))
			} else {
				c.Fail(key, "a maturity of "+p.Desc(v)+" is assigned on a path that is not restricted to new-style binding outputs: a legacy binding output (20-byte target), which consensus lets be withdrawn as soon as it is confirmed, is recorded with the locked period and never becomes withdrawable", posOf(c, st), an.AtomTexts(gs)...)
			}
		}
	}
	if n < 2 {
		c.Fail(sk(f)+":maturity-store", "anchor lost: ParsePkScript no longer assigns both maturities", p.Pos(f.Pos()))
	}
}

// ruleAPIOwnerOfStaking (C16): the API's view of a staking output names the owner in standard (witness-v0) form.
func ruleAPIOwnerOfStaking(c *report.Ctx) {
	p := c.P
	c.Rule("api-owner-standard-form", "api.extractAddressInfos reports as recipient of a staking output the witness-v0 address rebuilt from the script hash (what ParsePkScript().StdEncodeAddress() and the address index use), not the staking-form address the consensus extractor returns", 2)
	f := fn(c, pkgAPI, "", "extractAddressInfos")
	stakingTy := p.Obj(pkgTxscript, "StakingScriptHashTy")
	if f == nil || stakingTy == nil {
		return
	}
	// values flowing into result #1 (recipient)
	type src struct {
		v  ssa.Value
		at *ssa.BasicBlock
	}
	var srcs []src
	var walk func(v ssa.Value, at *ssa.BasicBlock, seen map[ssa.Value]bool)
	walk = func(v ssa.Value, at *ssa.BasicBlock, seen map[ssa.Value]bool) {
		if seen[v] {
			return
		}
		seen[v] = true
		if ph, ok := v.(*ssa.Phi); ok {
			for i, e := range ph.Edges {
				walk(e, ph.Block().Preds[i], seen)
			}
			return
		}
		srcs = append(srcs, src{v, at})
	}
	// the recipient is the result named so (the first string result if the results are unnamed)
	ri := -1
	for i := 0; i < f.Signature.Results().Len(); i++ {
		rv := f.Signature.Results().At(i)
		if rv.Name() == "recipient" || (ri < 0 && rv.Name() == "" && rv.Type().String() == "string") {
			ri = i
		}
	}
	if ri < 0 {
		// the results gathered in a record: the recipient is what is stored into the field named so
		nrec := 0
		an.Instrs(f, func(in ssa.Instruction) {
			st, ok := in.(*ssa.Store)
			if !ok {
				return
			}
			fa, ok := st.Addr.(*ssa.FieldAddr)
			if !ok || an.FName(derefStructT(fa.X.Type()), fa.Field) != "recipient" {
				return
			}
			nrec++
			walk(st.Val, in.Block(), map[ssa.Value]bool{})
		})
		if nrec == 0 {
			c.Fail(sk(f)+":recipient-source", "anchor lost: extractAddressInfos has no recipient result", p.Pos(f.Pos()))
			return
		}
	} else {
		for _, b := range f.Blocks {
			if r, ok := b.Instrs[len(b.Instrs)-1].(*ssa.Return); ok && len(r.Results) > ri {
				walk(an.RetOperand(r, ri), b, map[ssa.Value]bool{})
			}
		}
	}
	n := 0
	for _, s := range srcs {
		if k, isK := s.v.(*ssa.Const); isK && k.Value != nil && k.Value.ExactString() == `""` {
			continue
		}
		n++
		key := siteKey(f, "recipient-source", n)
		d := p.Desc(s.v)
		if strings.Contains(d, "NewAddressWitnessScriptHash") {
			c.OK(key, "rebuilt in witness-v0 form", p.Pos(s.v.Pos()))
			continue
		}
		// any other source must be computed on a path that excludes the staking class
		at := s.at
		if in, isIn := s.v.(ssa.Instruction); isIn && in.Block() != nil {
			at = in.Block()
		}
		excl := an.AnyAtom(p.Guards(at), func(a an.Atom) bool {
			ex, isEx := a.X.(*ssa.Extract)
			if !isEx || ex.Index != 0 || !strings.Contains(p.Desc(a.X), "ExtractPkScriptAddrs") {
				return false
			}
			if _, isK := a.Y.(*ssa.Const); !isK {
				return false
			}
			if a.Op == token.NEQ && p.Desc(a.Y) == constString(stakingTy) {
				return true
			}
			return a.Op == token.EQL && p.Desc(a.Y) != constString(stakingTy)
		})
		if excl {
			c.OK(key, "consensus address used for a non-staking class", p.Pos(s.v.Pos()))
		} else {
			c.Fail(key, "the recipient reported for an output can be "+d+" on a path that includes the staking class: for a staking output the consensus extractor returns the staking-form address, so the API names another owner address than the wallet (ParsePkScript/StdEncodeAddress) does for the same output", p.Pos(s.v.Pos()), an.AtomTexts(p.Guards(at))...)
		}
	}
	if n < 2 {
		c.Fail(sk(f)+":recipient-source", "anchor lost: extractAddressInfos no longer assigns a recipient", p.Pos(f.Pos()))
	}
}

// ruleAddressRowKeyForm (C12): the writers and the rollback of an address row pick the address encoding the same way.
func ruleAddressRowKeyForm(c *report.Ctx) {
	p := c.P
	c.Rule("address-row-key-form", "every address-row key built from an output script uses the staking-form address for staking outputs and the standard form otherwise — in AddCredits (which writes the first-use height) and in Rollback (which clears it) alike", 3)
	ar := p.Type(pkgTxmgr, "addressRecord")
	if ar == nil {
		c.Lost("txmgr.addressRecord")
		return
	}
	for _, f := range p.ModFuncs {
		pk := an.FuncPkg(f)
		if pk == nil || pk.Path() != pkgTxmgr {
			continue
		}
		n := 0
		for _, st := range fieldStores(f, ar, "encodeAddress") {
			v := st.(*ssa.Store).Val
			if _, isPar := v.(*ssa.Parameter); isPar {
				continue // PutNewAddress: the caller's address string
			}
			n++
			key := siteKey(f, "encodeAddress-store", n)
			method := ""
			if call, ok := v.(*ssa.Call); ok {
				if call.Call.IsInvoke() {
					method = call.Call.Method.Name()
				} else if cal := call.Call.StaticCallee(); cal != nil {
					method = cal.Name()
				}
			}
			gs := p.GuardsOf(st)
			staking := an.AnyAtom(gs, func(a an.Atom) bool { return an.BoolCall(a, nil, "IsStaking", true) })
			notStaking := an.AnyAtom(gs, func(a an.Atom) bool { return an.BoolCall(a, nil, "IsStaking", false) })
			switch {
			case method == "SecondEncodeAddress" && staking:
				c.OK(key, "staking form under IsStaking()", posOf(c, st))
			case method == "StdEncodeAddress" && notStaking:
				c.OK(key, "standard form under !IsStaking()", posOf(c, st))
			default:
				c.Fail(key, sk(f)+" builds an address-row key from "+p.Desc(v)+" without the staking / standard selection the other sites use: for a staking output the key differs from the row AddCredits wrote, so the row's first-use height is not cleared when its only payment is reorganised away (the address stays 'used')", posOf(c, st), an.AtomTexts(gs)...)
			}
		}
	}
}

// rulePersistedIndexClamped (C12): the restore persists max(discovered next index, requested child number).
func rulePersistedIndexClamped(c *report.Ctx) {
	p := c.P
	c.Rule("persisted-index-clamped", "createManagerKeyScope persists, per branch, the larger of the discovered next index and the child number the restore was asked to cover: every address it lists lies below the persisted index, so the next issued address is new", 2)
	f := fn(c, pkgKeystore, "", "createManagerKeyScope")
	ucn := fn(c, pkgKeystore, "", "updateChildNum")
	if f == nil || ucn == nil {
		return
	}
	for i, s := range calls(f, ucn) {
		cc := an.CallOf(s)
		key := siteKey(f, "updateChildNum", i+1)
		want := "ExternalChildNum"
		if k := foldConst(cc.Args[1], 0); k != nil && k.Kind() == constant.Bool && constant.BoolVal(k) {
			want = "InternalChildNum"
		}
		ok := false
		if ph, isPhi := cc.Args[2].(*ssa.Phi); isPhi {
			for _, e := range ph.Edges {
				if cv, isConv := e.(*ssa.Convert); isConv && types.Identical(cv.Type(), cv.X.Type()) {
					e = cv.X
				}
				if strings.HasSuffix(p.Desc(e), "hdPath."+want) {
					ok = true
				}
			}
		}
		if ok {
			c.OK(key, "max(nextIndex, hdpath."+want+")", posOf(c, s))
		} else {
			c.Fail(key, "the child number persisted for this branch is "+p.Desc(cc.Args[2])+", not clamped up to hdpath."+want+": after a restore that was asked to cover more addresses than have history, the stored next index lies below addresses the wallet already lists, and the next NewAddress hands out an address that was issued before", posOf(c, s))
		}
	}
}

// ruleParsedKeyFixedWidth (C14): a parsed key keeps the fixed-width key bytes of the serialisation.
func ruleParsedKeyFixedWidth(c *report.Ctx) {
	p := c.P
	c.Rule("parsed-key-fixed-width", "NewKeyFromString hands NewExtendedKey the key bytes as sliced from the decoded payload (33 bytes public, 32 bytes private), never a re-encoded integer: big.Int.Bytes() drops leading zero bytes and hardened derivation copies the parent key at a fixed offset", 1)
	f := fn(c, pkgHD, "", "NewKeyFromString")
	nek := fn(c, pkgHD, "", "NewExtendedKey")
	if f == nil || nek == nil {
		return
	}
	for i, s := range calls(f, nek) {
		key := siteKey(f, "NewExtendedKey-key-arg", i+1)
		bad := ""
		var walk func(v ssa.Value, seen map[ssa.Value]bool)
		walk = func(v ssa.Value, seen map[ssa.Value]bool) {
			if seen[v] {
				return
			}
			seen[v] = true
			switch x := v.(type) {
			case *ssa.Phi:
				for _, e := range x.Edges {
					walk(e, seen)
				}
			case *ssa.Slice:
				// fine: a window of the decoded buffer
			case *ssa.Const:
				if x.Value != nil {
					bad = p.Desc(v)
				}
				// nil: the error returns of a parsing step merged in; they leave before the key is built
			default:
				bad = p.Desc(v)
			}
		}
		walk(an.CallOf(s).Args[1], map[ssa.Value]bool{})
		if bad == "" {
			c.OK(key, "slices of the decoded payload", posOf(c, s))
		} else {
			c.Fail(key, "the key material of a parsed extended key is "+bad+", not the fixed-width bytes of the serialisation: a private scalar with leading zero bytes becomes shorter than 32 bytes and every hardened child derived from the parsed key differs from BIP-32", posOf(c, s))
		}
	}
}

// ruleNoAppendToKeyFields (C14): serialisation never appends onto a slice that belongs to a key.
func ruleNoAppendToKeyFields(c *report.Ctx) {
	p := c.P
	c.Rule("no-append-to-key-fields", "no append in hdkeychain has a field of an ExtendedKey as its destination: the fields of a parsed key are windows of one decoded buffer (version has capacity for the whole payload), so appending to one overwrites the key's — and its parent's — fingerprint, chain code and key", 3)
	ek := p.Type(pkgHD, "ExtendedKey")
	if ek == nil {
		c.Lost("hdkeychain.ExtendedKey")
		return
	}
	for _, f := range p.ModFuncs {
		pk := an.FuncPkg(f)
		if pk == nil || pk.Path() != pkgHD {
			continue
		}
		n := 0
		an.Instrs(f, func(in ssa.Instruction) {
			cc := an.CallOf(in)
			if cc == nil {
				return
			}
			b, ok := cc.Value.(*ssa.Builtin)
			if !ok || b.Name() != "append" || len(cc.Args) == 0 {
				return
			}
			n++
			key := siteKey(f, "append", n)
			dst := cc.Args[0]
			for {
				if sl, isSl := dst.(*ssa.Slice); isSl {
					dst = sl.X
					continue
				}
				break
			}
			isField := false
			if ld, isLd := dst.(*ssa.UnOp); isLd && ld.Op == token.MUL {
				if fa, isFA := ld.X.(*ssa.FieldAddr); isFA {
					if n2 := an.NamedOf(fa.X.Type()); n2 != nil && n2.Obj() == ek.Obj() {
						isField = true
					}
				}
			}
			if isField {
				c.Fail(key, sk(f)+" appends onto "+p.Desc(dst)+": when the key was parsed from a string this writes into the decoded buffer its other fields (and the same fields of keys derived from it) alias, so serialising a child corrupts its parent", posOf(c, in))
			} else {
				c.OK(key, "destination is not a key field", posOf(c, in))
			}
		})
	}
}

// ruleChildNumberRoles (C04): the two child counters are not swapped between their store, fetchChildNum and its callers.
func ruleChildNumberRoles(c *report.Ctx) {
	p := c.P
	c.Rule("child-number-roles", "fetchChildNum returns (internal, external) read under the matching keys, and every caller stores result #0 into an *internal* and result #1 into an *external* field (export → Keystore.HDpath, cache refresh → branchInfo): a swap makes an imported keystore re-derive the wrong number of addresses per branch", 5)
	f := fn(c, pkgKeystore, "", "fetchChildNum")
	if f == nil {
		return
	}
	// (1) each of the two counters is returned once, read under its own key; which result carries which counter is
	// read off the code (the order of the results is the function's own business)
	role := map[int]string{} // result index → "internal" / "external"
	for _, b := range f.Blocks {
		r, ok := b.Instrs[len(b.Instrs)-1].(*ssa.Return)
		if !ok || p.ClassifyReturn(r, nil) == an.RetError {
			continue
		}
		for idx := 0; idx < 2 && idx < len(r.Results); idx++ {
			d := p.Desc(an.RetOperand(r, idx))
			in, ex := strings.Contains(d, "internalChildNumName"), strings.Contains(d, "externalChildNumName")
			switch {
			case in && !ex:
				role[idx] = "internal"
			case ex && !in:
				role[idx] = "external"
			default:
				role[idx] = "?" + d
			}
		}
	}
	recIdx := map[string]int{"internal": 0, "external": 1} // the recorded numbering, for stable keys
	for _, want := range []string{"internal", "external"} {
		key := sk(f) + ":result#" + itoa(recIdx[want])
		n, other := 0, ""
		for idx := 0; idx < 2; idx++ {
			if role[idx] == want {
				n++
			} else if strings.HasPrefix(role[idx], "?") {
				other = role[idx][1:]
			}
		}
		if n == 1 {
			c.OK(key, "the "+want+" counter is read under "+want+"ChildNumName", p.Pos(f.Pos()))
		} else {
			c.Fail(key, "result #"+itoa(recIdx[want])+" of fetchChildNum is "+other+", not the value stored under "+want+"ChildNumName (the "+want+" counter is returned "+itoa(n)+" times)", p.Pos(f.Pos()))
		}
	}
	// (2) callers
	for _, g := range p.ModFuncs {
		for _, s := range calls(g, f) {
			call, ok := s.(*ssa.Call)
			if !ok {
				continue
			}
			for _, r := range *call.Referrers() {
				ex, ok := r.(*ssa.Extract)
				if !ok || ex.Index > 1 {
					continue
				}
				rl := role[ex.Index]
				if rl != "internal" && rl != "external" {
					continue // reported above
				}
				for _, u := range *ex.Referrers() {
					st, ok := u.(*ssa.Store)
					if !ok || st.Val != ssa.Value(ex) {
						continue
					}
					fa, ok := st.Addr.(*ssa.FieldAddr)
					if !ok {
						continue
					}
					name := an.FName(derefStructT(fa.X.Type()), fa.Field)
					ln := strings.ToLower(name)
					isInt, isExt := strings.Contains(ln, "internal"), strings.Contains(ln, "external")
					if !isInt && !isExt {
						continue
					}
					key := sk(g) + ":fetchChildNum#" + itoa(recIdx[rl]) + "=>" + name
					if (rl == "internal" && isInt) || (rl == "external" && isExt) {
						c.OK(key, "role preserved", posOf(c, u))
					} else {
						c.Fail(key, sk(g)+" stores the "+rl+" counter returned by fetchChildNum into "+name+": the two branch counters are swapped, so an exported keystore restores fewer receive addresses than were issued and invents change addresses", posOf(c, u))
					}
				}
			}
		}
	}
}

// ruleWipedCacheDropped (C04/C05): a cached private key that is wiped is also removed from the cache.
func ruleWipedCacheDropped(c *report.Ctx) {
	p := c.P
	c.Rule("wiped-cache-dropped", "clearPrivKeys sets to nil every cache field whose key material it wipes (per-address privKey, account key, both branch keys): their presence tests (`!= nil`) are what getPrivKeyBtcec uses to skip re-derivation, so a wiped-but-present entry would sign with a zero scalar", 4)
	f := fn(c, pkgKeystore, "AddrManager", "clearPrivKeys")
	if f == nil {
		return
	}
	fields := []string{"privKey", "acctKeyPriv", "externalBranchPriv", "internalBranchPriv"}
	found := map[string]bool{}
	an.Instrs(f, func(in ssa.Instruction) {
		cc := an.CallOf(in)
		if cc == nil || len(cc.Args) == 0 {
			return
		}
		callee := cc.StaticCallee()
		if callee == nil {
			return
		}
		k := an.CanonKeyOf(callee)
		if !(strings.HasSuffix(k, "zero.BigInt") || strings.HasSuffix(k, "ExtendedKey).Zero")) {
			return
		}
		d := p.Desc(cc.Args[0])
		var field string
		for _, fl := range fields {
			if strings.HasSuffix(d, "."+fl) || strings.HasSuffix(d, "."+fl+".D") {
				field = fl
			}
		}
		if field == "" {
			return
		}
		found[field] = true
		key := sk(f) + ":wipe=>nil:" + field
		idx := 0
		for i, x := range in.Block().Instrs {
			if x == in {
				idx = i
			}
		}
		hdr := loopHeaderOf(in.Block())
		s := &an.Search{P: p, Fn: f,
			Cut: func(x ssa.Instruction) bool {
				st, ok := x.(*ssa.Store)
				if !ok || !an.IsNilConst(st.Val) {
					return false
				}
				fa, ok := st.Addr.(*ssa.FieldAddr)
				return ok && an.FName(derefStructT(fa.X.Type()), fa.Field) == field
			},
			GoalBlock:  func(b, pred *ssa.BasicBlock) bool { return hdr != nil && b == hdr },
			GoalReturn: func(r *ssa.Return, pred *ssa.BasicBlock) bool { return true },
		}
		if w := s.Run(in.Block(), idx+1, nil); w != nil {
			c.Fail(key, "clearPrivKeys wipes the key behind "+field+" but leaves the field set: the next signature for that address takes the 'already derived' fast path and signs with a zeroed private key — SignRawTx reports success with a signature that does not verify against the address", posOf(c, in), w...)
		} else {
			c.OK(key, "field set to nil after the wipe", posOf(c, in))
		}
	})
	for _, fl := range fields {
		if !found[fl] {
			c.Fail(sk(f)+":wipe:"+fl, "anchor lost: clearPrivKeys no longer wipes "+fl, p.Pos(f.Pos()))
		}
	}
}

// ruleNotificationsQueued (C01/C20): a chain notification is never dropped on a full queue.
func ruleNotificationsQueued(c *report.Ctx) {
	p := c.P
	c.Rule("notifications-queued", "every chain notification handed to the follower (queueBlock, queueMsgTx) is queued by a blocking send: a non-blocking send drops the newest tips when the queue is full (e.g. while the handler is parked), and nothing re-delivers them", 2)
	nh := p.Type(pkgWallet, "NtfnsHandler")
	if nh == nil {
		c.Lost("masswallet.NtfnsHandler")
		return
	}
	isQueue := func(ch ssa.Value) string {
		d := p.Desc(ch)
		for _, q := range []string{"queueBlock", "queueMsgTx"} {
			if strings.HasSuffix(d, "NtfnsHandler."+q) {
				return q
			}
		}
		return ""
	}
	seen := map[string]bool{}
	for _, f := range p.ModFuncs {
		pk := an.FuncPkg(f)
		if pk == nil || pk.Path() != pkgWallet {
			continue
		}
		an.Instrs(f, func(in ssa.Instruction) {
			switch x := in.(type) {
			case *ssa.Send:
				if q := isQueue(x.Chan); q != "" {
					seen[q] = true
					c.OK(sk(f)+":send:"+q, "blocking send", posOf(c, in))
				}
			case *ssa.Select:
				for _, st := range x.States {
					if st.Dir != types.SendOnly {
						continue
					}
					q := isQueue(st.Chan)
					if q == "" {
						continue
					}
					seen[q] = true
					if x.Blocking {
						c.OK(sk(f)+":send:"+q, "blocking select", posOf(c, in))
					} else {
						c.Fail(sk(f)+":send:"+q, sk(f)+" offers the notification to "+q+" in a select with a default case: when the queue is full the notification is dropped and the method still reports success, so the wallet stops short of the best chain until some later block happens to be announced", posOf(c, in))
					}
				}
			}
		})
	}
	for _, q := range []string{"queueBlock", "queueMsgTx"} {
		if !seen[q] {
			c.Fail("send:"+q, "anchor lost: nothing sends on NtfnsHandler."+q, "")
		}
	}
}

// ruleImportRetryOverride (C20/C18): a failed import round is dropped only for the one unrecoverable error.
func ruleImportRetryOverride(c *report.Ctx) {
	p := c.P
	c.Rule("import-retry-override", "in worker(), an import round that returned an error is treated as finished only under equality with a named unrecoverable sentinel; every other error (reorg during the round, transient read or commit error) leaves fin as reported, so the task is queued again", 1)
	w := fn(c, pkgWallet, "", "worker")
	ai := fn(c, pkgWallet, "NtfnsHandler", "asyncImport")
	if w == nil || ai == nil {
		return
	}
	n := 0
	for _, f := range append([]*ssa.Function{w}, closuresOf(p, w)...) {
		for _, s := range pushSites(c, f, "import") {
			// the guard !fin: fin = phi(asyncImport#0 | true …)
			for _, a := range p.GuardsOf(s) {
				if a.Op != token.ILLEGAL || a.Truth {
					continue
				}
				ph, ok := a.X.(*ssa.Phi)
				if !ok || !strings.Contains(p.Desc(ph), nm(ai)) {
					continue
				}
				for i, e := range ph.Edges {
					k, isK := e.(*ssa.Const)
					if !isK || k.Value == nil || k.Value.ExactString() != "true" {
						continue
					}
					n++
					key := siteKey(f, "fin-override", n)
					pred := ph.Block().Preds[i]
					gs := p.Guards(pred)
					if ea := edgeAtoms(p, pred, ph.Block()); ea != nil {
						gs = append(gs, *ea)
					}
					// a verdict merged over the kinds of task (`done := run(task)`): only the ways of an import are ours
					if io := p.Obj(pkgWallet, "WalletTaskImport"); io != nil && an.AnyAtom(gs, func(g an.Atom) bool {
						if g.X == nil || g.Y == nil || !strings.HasSuffix(p.Desc(g.X), "taskType") {
							return false
						}
						k := foldConst(g.Y, 0)
						if k == nil {
							return false
						}
						isImport := k.ExactString() == constString(io)
						return (g.Op == token.EQL && !isImport) || (g.Op == token.NEQ && isImport)
					}) {
						n--
						continue
					}
					okEq := an.AnyAtom(gs, func(g an.Atom) bool {
						if g.Op != token.EQL {
							return false
						}
						isErr := func(v ssa.Value) bool { return v != nil && strings.Contains(p.Desc(v), nm(ai)) }
						isSent := func(v ssa.Value) bool {
							ld, ok := v.(*ssa.UnOp)
							if !ok {
								return false
							}
							g2, ok := ld.X.(*ssa.Global)
							return ok && p.Sentinel(g2)
						}
						return (isErr(g.X) && isSent(g.Y)) || (isErr(g.Y) && isSent(g.X))
					})
					if okEq {
						c.OK(key, "override only under err == <unrecoverable sentinel>", p.Pos(ph.Pos()))
					} else {
						c.Fail(key, "a failed import round is marked finished on a path that is not restricted to one named unrecoverable error: a round that failed because a reorg or a transient storage/chain error hit it is dropped instead of queued again, and the wallet stays 'importing' until restart", p.Pos(ph.Pos()), an.AtomTexts(gs)...)
					}
				}
			}
		}
	}
	if n == 0 {
		c.OK(sk(w)+":no-override", "fin is used as reported by asyncImport", p.Pos(w.Pos()))
	}
}

// ruleEngineFlagsPerInput (C03): the verification flags handed to the engine are computed for that input alone.
func ruleEngineFlagsPerInput(c *report.Ctx) {
	p := c.P
	c.Rule("engine-flags-per-input", "the script flags passed to NewEngine in signWitnessTx do not depend on earlier inputs (no loop-carried value): an input whose previous output pre-dates the warm-up height must be checked without the flag a later-style input turned on", 1)
	f := fn(c, pkgWallet, "WalletManager", "signWitnessTx")
	newEng := p.Fn(pkgTxscript, "", "NewEngine")
	if f == nil || newEng == nil {
		return
	}
	for i, s := range calls(f, newEng) {
		key := siteKey(f, "NewEngine-flags", i+1)
		hdr := loopHeaderOf(s.Block())
		for hdr != nil {
			if o := outerLoopHeader(hdr); o != nil && o != hdr {
				hdr = o
				continue
			}
			break
		}
		if hdr == nil {
			c.Fail(key, "anchor lost: NewEngine is no longer called inside the input loop", posOf(c, s))
			continue
		}
		carried := false
		var walk func(v ssa.Value, seen map[ssa.Value]bool)
		walk = func(v ssa.Value, seen map[ssa.Value]bool) {
			if seen[v] {
				return
			}
			seen[v] = true
			switch x := v.(type) {
			case *ssa.Phi:
				if x.Block() == hdr {
					carried = true
					return
				}
				for _, e := range x.Edges {
					walk(e, seen)
				}
			case *ssa.BinOp:
				walk(x.X, seen)
				walk(x.Y, seen)
			case *ssa.UnOp:
				if al, ok := x.X.(*ssa.Alloc); ok {
					// a cell declared outside the loop and updated inside it is loop-carried too
					if !hdr.Dominates(al.Block()) {
						for _, r := range *al.Referrers() {
							if st, ok := r.(*ssa.Store); ok && hdr.Dominates(st.Block()) && st.Block() != al.Block() {
								carried = true
							}
						}
					}
				}
			}
		}
		walk(an.CallOf(s).Args[3], map[ssa.Value]bool{})
		if carried {
			c.Fail(key, "the flags given to the engine accumulate across the inputs of one transaction: after an input whose previous output is pending or post-warm-up, every later input is verified with ScriptMASSip2, so a legitimate withdrawal of a pre-warm-up binding output fails to sign although the passphrase is right", posOf(c, s))
		} else {
			c.OK(key, "flags computed from this input's previous output only", posOf(c, s))
		}
	}
}

// ruleTipFromTransaction (C17): the tip a query works with is read through the query's own transaction.
func ruleTipFromTransaction(c *report.Ctx) {
	p := c.P
	c.Rule("tip-from-transaction", "SyncStore.SyncedTo / SyncedBlock return what fetchSyncedTo / fetchSyncedBlock read from the bucket of the transaction they were given — never a value remembered outside the database (a write transaction publishes nothing before it commits and takes nothing back when it rolls back)", 2)
	for _, t := range []struct{ m, fetch string }{{"SyncedTo", "fetchSyncedTo"}, {"SyncedBlock", "fetchSyncedBlock"}} {
		f := fn(c, pkgTxmgr, "SyncStore", t.m)
		fetch := fn(c, pkgTxmgr, "", t.fetch)
		if f == nil || fetch == nil {
			continue
		}
		key := sk(f) + ":result-from:" + t.fetch
		bad := ""
		n := 0
		for _, b := range f.Blocks {
			r, ok := b.Instrs[len(b.Instrs)-1].(*ssa.Return)
			if !ok || p.ClassifyReturn(r, nil) == an.RetError {
				continue
			}
			v := an.RetOperand(r, 0)
			if an.IsNilConst(v) {
				continue
			}
			n++
			okv := false
			var walk func(v ssa.Value, depth int) bool
			walk = func(v ssa.Value, depth int) bool {
				if depth > 4 {
					return false
				}
				switch x := v.(type) {
				case *ssa.Extract:
					if call, ok := x.Tuple.(*ssa.Call); ok && call.Call.StaticCallee() == fetch {
						// and the bucket comes from the tx parameter
						return strings.Contains(p.Desc(call.Call.Args[0]), "FetchBucket(param:")
					}
				case *ssa.Phi:
					for _, e := range x.Edges {
						if an.IsNilConst(e) {
							continue
						}
						if !walk(e, depth+1) {
							return false
						}
					}
					return true
				case *ssa.UnOp:
					// named result cell
					if al, ok := x.X.(*ssa.Alloc); ok {
						all, any := true, false
						for _, ref := range *al.Referrers() {
							if st, ok := ref.(*ssa.Store); ok && st.Addr == ssa.Value(al) && !an.IsNilConst(st.Val) {
								any = true
								if !walk(st.Val, depth+1) {
									all = false
								}
							}
						}
						return any && all
					}
				}
				return false
			}
			okv = walk(v, 0)
			if !okv {
				bad = p.Desc(v)
			}
		}
		if n == 0 {
			c.Fail(key, "anchor lost: "+t.m+" has no success return with a value", p.Pos(f.Pos()))
		} else if bad != "" {
			c.Fail(key, t.m+" can answer with "+bad+" instead of what "+t.fetch+" reads through the caller's transaction: queries then combine a tip height published by an uncommitted (or rolled-back) block batch with the coins of the committed state, and report coins mature or confirmed too early", p.Pos(f.Pos()))
		} else {
			c.OK(key, "every success value is "+t.fetch+"(tx.FetchBucket(…))", p.Pos(f.Pos()))
		}
	}
}

// rulePrefixTerminated (C11): a scan over a bucket's entries uses the bucket path plus the separator as prefix.
func rulePrefixTerminated(c *report.Ctx) {
	p := c.P
	c.Rule("prefix-terminated", "every prefix a bucket operation scans with (store iterator and overlay scan) is built by joinBucketPath with a terminating empty element, or by innerKey: a bare bucket path is also a prefix of every sibling whose name merely starts with the same bytes", 6)
	join := fn(c, pkgLDB, "", "joinBucketPath")
	if join == nil {
		return
	}
	// does this joinBucketPath call end its arguments with ""?
	terminated := func(call *ssa.Call) bool {
		if len(call.Call.Args) != 1 {
			return false
		}
		sl, ok := call.Call.Args[0].(*ssa.Slice)
		if !ok {
			// joinBucketPath(ss...) with ss = append(x, "")
			if ap, ok := call.Call.Args[0].(*ssa.Call); ok {
				if b, isB := ap.Call.Value.(*ssa.Builtin); isB && b.Name() == "append" && len(ap.Call.Args) == 2 {
					if s2, ok := ap.Call.Args[1].(*ssa.Slice); ok {
						sl = s2
					}
				}
			}
			if sl == nil {
				return false
			}
		}
		arr, ok := sl.X.(*ssa.Alloc)
		if !ok {
			return false
		}
		at, ok := arr.Type().Underlying().(*types.Pointer).Elem().Underlying().(*types.Array)
		if !ok {
			return false
		}
		last := at.Len() - 1
		for _, r := range *arr.Referrers() {
			ia, ok := r.(*ssa.IndexAddr)
			if !ok {
				continue
			}
			if k, isK := constInt(ia.Index); !isK || k != last {
				continue
			}
			for _, rr := range *ia.Referrers() {
				if st, ok := rr.(*ssa.Store); ok {
					if kc, isK := st.Val.(*ssa.Const); isK && kc.Value != nil && kc.Value.ExactString() == `""` {
						return true
					}
				}
			}
		}
		return false
	}
	var okPrefix func(v ssa.Value, depth int) (bool, string)
	okPrefix = func(v ssa.Value, depth int) (bool, string) {
		if depth > 5 {
			return false, "undecided"
		}
		switch x := v.(type) {
		case *ssa.Const:
			return x.Value == nil, "constant" // nil prefix = everything (BucketNames-style full scans are not bucket scans)
		case *ssa.Convert:
			return okPrefix(x.X, depth+1)
		case *ssa.Extract:
			return okPrefix(x.Tuple, depth+1)
		case *ssa.Call:
			cal := x.Call.StaticCallee()
			if cal == nil {
				return false, p.Desc(v)
			}
			switch {
			case cal == join:
				if terminated(x) {
					return true, ""
				}
				// nested: joinBucketPath(a, joinBucketPath(ss...))
				if sl, ok := x.Call.Args[0].(*ssa.Slice); ok {
					if arr, ok := sl.X.(*ssa.Alloc); ok {
						for _, r := range *arr.Referrers() {
							if ia, ok := r.(*ssa.IndexAddr); ok {
								for _, rr := range *ia.Referrers() {
									if st, ok := rr.(*ssa.Store); ok {
										if inner, ok := st.Val.(*ssa.Call); ok && inner.Call.StaticCallee() == join && terminated(inner) {
											return true, ""
										}
									}
								}
							}
						}
					}
				}
				return false, "joinBucketPath(…) without the terminating empty element"
			case cal == fnOpt(c, pkgLDB, "levelBucket", "innerKey") || cal == fnOpt(c, pkgLDB, "levelBucket", "innerKeyForIterator"):
				return true, ""
			}
			return false, p.Desc(v)
		case *ssa.Parameter:
			return true, "" // checked at the callers
		case *ssa.UnOp:
			// a variable assigned once (possibly read in a literal of the function that captures it)
			if r := an.ResolveCell(x); r != ssa.Value(x) {
				return okPrefix(r, depth+1)
			}
		case *ssa.Phi:
			for _, e := range x.Edges {
				if an.IsNilConst(e) {
					continue // the nil of an error return merged in; the caller leaves on the error
				}
				if ok, why := okPrefix(e, depth+1); !ok {
					return false, why
				}
			}
			return true, ""
		}
		return false, p.Desc(v)
	}
	for _, f := range p.ModFuncs {
		if pk := an.FuncPkg(f); pk == nil || pk.Path() != pkgLDB {
			continue
		}
		n := 0
		an.Instrs(f, func(in ssa.Instruction) {
			cc := an.CallOf(in)
			if cc == nil || cc.StaticCallee() == nil || len(cc.Args) == 0 {
				return
			}
			k := an.CanonKeyOf(cc.StaticCallee())
			var arg ssa.Value
			switch {
			case strings.HasSuffix(k, "leveldb/util.BytesPrefix"):
				arg = cc.Args[0]
			case strings.HasSuffix(k, "ldb.batch).GetNetPutsByPrefix"):
				arg = cc.Args[1]
			default:
				return
			}
			n++
			key := siteKey(f, "scan-prefix", n)
			if ok, why := okPrefix(arg, 0); ok {
				c.OK(key, "prefix ends with the separator / is an inner key", posOf(c, in))
			} else {
				c.Fail(key, sk(f)+" scans with the prefix "+why+": without the separator that ends the bucket name the scan also covers every sibling bucket whose name starts with the same bytes — deleting or clearing bucket \"ab\" wipes the entries of \"abc\"", posOf(c, in))
			}
		})
	}
}
