package rules

// Rules added after the second round of independently seeded changes showed gaps.
// Each is attached to the property whose clause it is a necessary condition of.

import (
	"go/token"
	"go/types"
	"strings"

	"golang.org/x/tools/go/ssa"

	"verif/internal/an"
	"verif/internal/report"
)

// rulePrefixLimit (C11): db.BytesPrefix builds the exclusive upper bound of a prefix scan by
// incrementing the last byte below 0xff and truncating after it: the limit has length i+1.
func rulePrefixLimit(c *report.Ctx) {
	p := c.P
	c.Rule("prefix-limit", "BytesPrefix truncates the upper bound right after the incremented byte (length i+1): a longer bound lets a prefix scan run into foreign keys", 1)
	f := fn(c, pkgDB, "", "BytesPrefix")
	if f == nil {
		return
	}
	ok := false
	var site ssa.Instruction
	an.Instrs(f, func(in ssa.Instruction) {
		isIPlus1 := func(v ssa.Value) bool {
			b, isB := v.(*ssa.BinOp)
			if !isB || b.Op != token.ADD {
				return false
			}
			_, isPhi := b.X.(*ssa.Phi)
			k, isK := constInt(b.Y)
			return isPhi && isK && k == 1
		}
		switch x := in.(type) {
		case *ssa.MakeSlice:
			site = in
			if isIPlus1(x.Len) {
				ok = true
			}
		case *ssa.Slice:
			// append(nil, prefix[:i+1]...)
			if x.High != nil && isIPlus1(x.High) && x.X == ssa.Value(f.Params[0]) {
				ok = true
				site = in
			}
		}
	})
	// and the incremented byte is stored at index i of the limit
	stored := false
	an.Instrs(f, func(in ssa.Instruction) {
		st, isSt := in.(*ssa.Store)
		if !isSt {
			return
		}
		if ia, isIA := st.Addr.(*ssa.IndexAddr); isIA {
			if _, isPhi := ia.Index.(*ssa.Phi); isPhi {
				if b, isB := st.Val.(*ssa.BinOp); isB && b.Op == token.ADD {
					if k, isK := constInt(b.Y); isK && k == 1 {
						stored = true
					}
				}
			}
		}
	})
	if ok && stored {
		c.OK(sk(f)+":limit-length", "limit has length i+1 and limit[i] = prefix[i]+1", posOf(c, site))
	} else {
		c.Fail(sk(f)+":limit-length", "the upper bound of a prefix range is not truncated after the incremented byte: for a prefix ending in 0xff bytes the range [prefix, limit) contains keys that do not have the prefix, so prefix iteration returns foreign entries", p.Pos(f.Pos()))
	}
}

// ruleBucketCacheKey (C11): the per-transaction bucket cache is keyed by the whole bucket
// identity (the meta object or its full path), not by a leaf name.
func ruleBucketCacheKey(c *report.Ctx) {
	p := c.P
	c.Rule("bucket-cache-key", "the transaction's bucket cache is keyed by the full bucket identity: two buckets with the same leaf name must not share a handle", 1)
	f := fn(c, pkgLDB, "transaction", "FetchBucket")
	if f == nil {
		return
	}
	n := 0
	an.Instrs(f, func(in ssa.Instruction) {
		var key ssa.Value
		var m ssa.Value
		switch x := in.(type) {
		case *ssa.Lookup:
			key, m = x.Index, x.X
		case *ssa.MapUpdate:
			key, m = x.Key, x.Map
		default:
			return
		}
		if !strings.HasSuffix(p.Desc(m), "transaction.cache") {
			return
		}
		n++
		k := stripIface(key)
		okKey := false
		if par, isPar := k.(*ssa.Parameter); isPar && par.Parent() == f {
			okKey = true // the BucketMeta itself
		}
		d := p.Desc(k)
		if strings.Contains(d, "joinBucketPath(") && strings.Contains(d, ".Paths(") {
			okKey = true
		}
		kk := siteKey(f, "cache-key", n)
		if okKey {
			c.OK(kk, "keyed by the bucket meta / its full path", posOf(c, in))
		} else {
			c.Fail(kk, "the bucket cache is keyed by "+d+": two different buckets that share this value (e.g. the same leaf name under different parents) get the same handle inside one transaction — writes go to the wrong bucket and reads leak another bucket's data", posOf(c, in))
		}
	})
	if n == 0 {
		c.OK(sk(f)+":no-cache", "FetchBucket keeps no cache", p.Pos(f.Pos()))
	}
}

// ruleFailedBatchNotFinished (C18): after the import batch's Update, an error return never reports finish=true.
func ruleFailedBatchNotFinished(c *report.Ctx) {
	p := c.P
	c.Rule("failed-batch-not-finished", "when the import batch's transaction fails, asyncImport reports finish=false so that the worker re-queues the task", 1)
	f := fn(c, pkgWallet, "NtfnsHandler", "asyncImport")
	upd := fn(c, pkgDB, "", "Update")
	if f == nil || upd == nil {
		return
	}
	us := calls(f, upd)
	if len(us) != 1 {
		c.Fail(sk(f)+":Update", "expected one Update in asyncImport", p.Pos(f.Pos()))
		return
	}
	bad := false
	nErr := 0
	for _, b := range f.Blocks {
		r, isRet := b.Instrs[len(b.Instrs)-1].(*ssa.Return)
		if !isRet || !us[0].Block().Dominates(b) || us[0].Block() == b {
			continue
		}
		for _, pr := range predsOrNil(b) {
			if p.ClassifyReturn(r, pr) != an.RetError {
				continue
			}
			nErr++
			fv := an.RetOperand(r, 0)
			if k, isK := fv.(*ssa.Const); isK && k.Value != nil && k.Value.ExactString() == "false" {
				continue
			}
			bad = true
			c.Fail(sk(f)+":error-return-finish", "after a failed batch transaction asyncImport returns finish="+p.Desc(fv)+": when the failing batch was the one that reached the tip, the worker treats the import as finished, does not re-queue it, and the wallet stays not-ready until restart", posOf(c, r))
		}
	}
	if nErr == 0 {
		c.Fail(sk(f)+":error-return-finish", "anchor lost: no error return after the batch Update in asyncImport", posOf(c, us[0]))
	} else if !bad {
		c.OK(sk(f)+":error-return-finish", "every error return after the Update reports finish=false", posOf(c, us[0]))
	}
}

// rulePendingInputsAppend (C09): the pending-inputs writer appends the spender to the existing list.
func rulePendingInputsAppend(c *report.Ctx) {
	p := c.P
	c.Rule("pending-inputs-append", "putRawUnminedInput keeps every pending spender of an outpoint: the value written is the existing list with the new hash appended", 1)
	f := fn(c, pkgTxmgr, "", "putRawUnminedInput")
	if f == nil {
		return
	}
	ok := false
	var site ssa.Instruction
	an.Instrs(f, func(in ssa.Instruction) {
		cc := an.CallOf(in)
		if cc == nil || !cc.IsInvoke() || cc.Method.Name() != "Put" || !isBucketIface(cc.Value.Type()) {
			return
		}
		site = in
		v := cc.Args[1]
		call, isCall := v.(*ssa.Call)
		if !isCall {
			return
		}
		b, isB := call.Call.Value.(*ssa.Builtin)
		if !isB || b.Name() != "append" {
			return
		}
		// first operand derives from Get on the same bucket value; second from the new spender parameter
		base := call.Call.Args[0]
		if ph, isPhi := base.(*ssa.Phi); isPhi && len(ph.Edges) > 0 {
			base = ph.Edges[0]
		}
		if ex, isEx := base.(*ssa.Extract); isEx {
			if g, isG := ex.Tuple.(*ssa.Call); isG && g.Call.IsInvoke() && g.Call.Method.Name() == "Get" && g.Call.Value == cc.Value {
				ok = true
			}
		}
	})
	if site == nil {
		c.Fail(sk(f)+":Put", "anchor lost: putRawUnminedInput no longer writes the bucket", p.Pos(f.Pos()))
		return
	}
	if ok {
		c.OK(sk(f)+":append", "Put(k, append(Get(k), spender...))", posOf(c, site))
	} else {
		c.Fail(sk(f)+":append", "the pending-inputs row is overwritten instead of appended to: when two pending transactions spend the same coin only the last one is remembered, and when it confirms the other one (and the coins it holds) is never released", posOf(c, site))
	}
}

// ruleRollbackReverseOrder (C09/C01): Rollback undoes the transactions of a block in reverse order.
func ruleRollbackReverseOrder(c *report.Ctx) {
	p := c.P
	c.Rule("rollback-reverse-order", "Rollback visits a block's transactions last-to-first (a later transaction may spend an output of an earlier one of the same block; undoing the parent first orphans the child's debit)", 1)
	f := fn(c, pkgTxmgr, "TxStore", "Rollback")
	if f == nil {
		return
	}
	found := false
	an.Instrs(f, func(in ssa.Instruction) {
		ia, ok := in.(*ssa.IndexAddr)
		if !ok || !strings.HasSuffix(p.Desc(ia.X), "blockRecord.transactions") {
			return
		}
		ph, isPhi := ia.Index.(*ssa.Phi)
		if !isPhi {
			if found {
				return
			}
			// range loop: index = phi + 1 (forward)
			found = true
			c.Fail(sk(f)+":block-tx-order", "the transactions of a rolled-back block are visited in block order (forward): a transaction spending an output of an earlier one in the same block is undone after its parent, its debit points at a deleted credit and the whole reorg transaction fails", posOf(c, in))
			return
		}
		if found {
			return
		}
		found = true
		initOK, stepOK := false, false
		for i, e := range ph.Edges {
			pred := ph.Block().Preds[i]
			b, isB := e.(*ssa.BinOp)
			if !isB || b.Op != token.SUB {
				continue
			}
			k, isK := constInt(b.Y)
			if !isK || k != 1 {
				continue
			}
			if ph.Block().Dominates(pred) {
				if b.X == ssa.Value(ph) {
					stepOK = true
				}
			} else if strings.HasPrefix(p.Desc(b.X), "len(") {
				initOK = true
			}
		}
		if initOK && stepOK {
			c.OK(sk(f)+":block-tx-order", "i := len(transactions)-1; i--", posOf(c, in))
		} else {
			c.Fail(sk(f)+":block-tx-order", "the transactions of a rolled-back block are not visited last-to-first", posOf(c, in))
		}
	})
	if !found {
		c.Fail(sk(f)+":block-tx-order", "anchor lost: no loop over blockRecord.transactions in Rollback", p.Pos(f.Pos()))
	}
}

// ruleDecoderTotality (C01): a decoder that fills a caller-supplied record stores, on every success
// path, every field it stores on some path (callers reuse one record across iterations).
func ruleDecoderTotality(c *report.Ctx) {
	p := c.P
	c.Rule("decoder-totality", "record decoders assign every field they ever assign on every success path: callers reuse one record for many rows, so a field skipped for one row keeps the previous row's value", 3)
	for _, name := range []string{"readCreditValue", "readRawCreditKey", "readUnminedCreditKey", "readBlockOfUnspent", "readCanonicalUnspentKey"} {
		f := fn(c, pkgTxmgr, "", name)
		if f == nil {
			continue
		}
		// fields stored through the record parameter
		fields := map[string]bool{}
		isParamRooted := func(addr ssa.Value) (string, bool) {
			var names []string
			cur := addr
			for {
				switch x := cur.(type) {
				case *ssa.FieldAddr:
					st := derefStructT(x.X.Type())
					if st == nil {
						return "", false
					}
					names = append([]string{st.Field(x.Field).Name()}, names...)
					cur = x.X
					continue
				case *ssa.UnOp:
					if x.Op == token.MUL {
						cur = x.X
						continue
					}
				case *ssa.IndexAddr, *ssa.Slice:
					return "", false
				}
				break
			}
			if _, isPar := cur.(*ssa.Parameter); !isPar || len(names) == 0 {
				return "", false
			}
			return strings.Join(names, "."), true
		}
		an.Instrs(f, func(in ssa.Instruction) {
			if st, ok := in.(*ssa.Store); ok {
				if n, ok := isParamRooted(st.Addr); ok {
					fields[n] = true
				}
			}
		})
		for fld := range fields {
			fl := fld
			w := p.MustPassOnSuccess(f, func(in ssa.Instruction) bool {
				st, ok := in.(*ssa.Store)
				if !ok {
					return false
				}
				n, ok := isParamRooted(st.Addr)
				return ok && n == fl
			})
			key := sk(f) + ":assigns:" + fl
			if w != nil {
				c.Fail(key, "decoder "+name+" leaves field "+fl+" untouched on some success path: a record reused for several rows keeps the previous row's "+fl+" (e.g. a standard coin read after a staking coin is classified as staking)", p.Pos(f.Pos()), w...)
			} else {
				c.OK(key, "assigned on every success path", p.Pos(f.Pos()))
			}
		}
	}
}

func derefStructT(t types.Type) *types.Struct {
	if pt, ok := t.Underlying().(*types.Pointer); ok {
		t = pt.Elem()
	}
	st, _ := t.Underlying().(*types.Struct)
	return st
}

// ruleInBlockParentFirst (C01): filterTx consults the transactions seen earlier in the same block
// before it asks the store whether the previous transaction created a wallet credit.
func ruleInBlockParentFirst(c *report.Ctx) {
	p := c.P
	c.Rule("in-block-parent-first", "for a block being applied, an input's previous transaction is looked up among the block's own earlier transactions before the 'no credit in the store → irrelevant' shortcut is taken (credits of the block are written only after filtering)", 1)
	f := fn(c, pkgWallet, "NtfnsHandler", "filterTx")
	ecf := fn(c, pkgTxmgr, "UtxoStore", "ExistCreditFromTx")
	if f == nil || ecf == nil {
		return
	}
	ss := calls(f, ecf)
	if len(ss) == 0 {
		c.OK(sk(f)+":no-shortcut", "filterTx has no store-based irrelevance shortcut", p.Pos(f.Pos()))
		return
	}
	for i, s := range ss {
		key := siteKey(f, "ExistCreditFromTx-after-in-block-miss", i+1)
		ok := an.AnyAtom(p.GuardsOf(s), func(a an.Atom) bool {
			if a.Op != token.ILLEGAL || a.Truth {
				return false
			}
			ex, isEx := a.X.(*ssa.Extract)
			if !isEx || ex.Index != 1 {
				return false
			}
			lk, isLk := ex.Tuple.(*ssa.Lookup)
			if !isLk {
				return false
			}
			_, isPar := lk.X.(*ssa.Parameter)
			return isPar
		})
		if ok {
			c.OK(key, "reached only when the previous transaction is not among the block's earlier transactions", posOf(c, s))
		} else {
			c.Fail(key, "the store-based shortcut runs before the block's own earlier transactions are consulted: an input spending an output created earlier in the same block is skipped as irrelevant, no debit is recorded and the spent coin stays in the unspent set", posOf(c, s))
		}
	}
}

// ruleQueueHeadroom (C20): the task queue's minimum capacity exceeds the admission threshold.
func ruleQueueHeadroom(c *report.Ctx) {
	p := c.P
	c.Rule("queue-headroom", "the task queue is always larger than the number of waiting tasks the API admits, so the worker's non-blocking re-queue of its in-flight task cannot be dropped", 1)
	nw := fn(c, pkgWallet, "", "NewWalletTaskChan")
	busy := fn(c, pkgWallet, "WalletTaskChan", "IsBusy")
	if nw == nil || busy == nil {
		return
	}
	var minCap, threshold int64 = -1, -1
	an.Instrs(nw, func(in ssa.Instruction) {
		mc, ok := in.(*ssa.MakeChan)
		if !ok {
			return
		}
		if ph, isPhi := mc.Size.(*ssa.Phi); isPhi {
			for _, e := range ph.Edges {
				if k, isK := constInt(e); isK {
					minCap = k
				}
			}
		} else if k, isK := constInt(mc.Size); isK {
			minCap = k
		}
	})
	an.Instrs(busy, func(in ssa.Instruction) {
		b, ok := in.(*ssa.BinOp)
		if !ok {
			return
		}
		if k, isK := constInt(b.Y); isK && (b.Op == token.GEQ || b.Op == token.GTR) {
			threshold = k
			if b.Op == token.GTR {
				threshold = k + 1
			}
		}
	})
	key := sk(nw) + ":min-capacity>admission-threshold"
	if minCap > threshold && threshold >= 0 {
		c.OK(key, "minimum capacity "+itoa(int(minCap))+" > IsBusy threshold "+itoa(int(threshold)), p.Pos(nw.Pos()))
	} else {
		c.Fail(key, "the queue's minimum capacity ("+itoa(int(minCap))+") does not exceed the IsBusy admission threshold ("+itoa(int(threshold))+"): with the queue full of admitted tasks the worker's re-queue of an unfinished import/removal is silently dropped and the task never finishes", p.Pos(nw.Pos()))
	}
}

// ruleCloseDBAlwaysDone (C20): CloseDB signals the wait group on every path.
func ruleCloseDBAlwaysDone(c *report.Ctx) {
	p := c.P
	c.Rule("closedb-always-done", "CloseDB calls wg.Done() on every path: WalletManager.Stop waits for it", 1)
	f := fn(c, pkgWallet, "WalletManager", "CloseDB")
	if f == nil {
		return
	}
	isDone := func(in ssa.Instruction) bool {
		cc := an.CallOf(in)
		return cc != nil && cc.StaticCallee() != nil && an.FuncKey(cc.StaticCallee()) == "(*sync.WaitGroup).Done"
	}
	s := &an.Search{P: p, Fn: f, Cut: isDone, GoalReturn: func(r *ssa.Return, pred *ssa.BasicBlock) bool { return true }}
	if w := s.Run(f.Blocks[0], 0, nil); w != nil {
		c.Fail(sk(f)+":Done-on-every-path", "CloseDB can return without wg.Done() (e.g. when db.Close reports an error): WalletManager.Stop blocks forever in wg.Wait and shutdown never completes", p.Pos(f.Pos()), w...)
	} else {
		c.OK(sk(f)+":Done-on-every-path", "every return passes wg.Done()", p.Pos(f.Pos()))
	}
}
