package rules

import (
	"crypto/sha256"
	"encoding/hex"
	"fmt"
	"go/ast"
	"go/constant"
	"go/token"
	"go/types"
	"sort"
	"strings"

	"golang.org/x/tools/go/ssa"

	"verif/internal/an"
	"verif/internal/report"
)

func init() {
	register(&Check{
		ID: "C13",
		Explain: "Structural necessary conditions of BIP-39 exactness, decided statically: " +
			"(1) every big.Int.Bytes() result (variable length, leading zeros stripped) is padded or re-parsed before any fixed-width use (hashing, indexing, comparison, return); " +
			"(2) the specification's tables and parameters are the specification's: word list (SHA-256 of the literal, 2048 unique sorted words), 11-bit masks, checksum mask/shift tables, entropy-size test, PBKDF2-HMAC-SHA512 with 2048 iterations, 64 bytes, salt \"mnemonic\"+passphrase; " +
			"(3) acceptance gates: success of the decoders is dominated by the word-count test, a found-test of every word lookup, and the checksum comparison.",
		NotDec: "bit-exact encode/decode round trip as values; Unicode normalisation (NFKD) of mnemonic and passphrase; canonical spacing of the sentence hashed by PBKDF2 (BIP-39 reference implementations do not canonicalise spacing either — the rule drafted for it was dropped as demanding more than the property states).",
		Run:    runC13,
	})
}

const bip39EnglishSHA256 = "2f5eed53a4727b4bf8880d8f3f199efc90e58503646d9ff8eff3a2ed3b24dbda"

// ruleBigIntBytes: T-bigint over the functions of one package file set.
func ruleBigIntBytes(c *report.Ctx, pkgPath string, floor int, sanitizers map[string]bool, extraOK func(use ssa.Instruction, v ssa.Value) (bool, string)) {
	p := c.P
	c.Rule("bigint-bytes", "big.Int.Bytes() strips leading zero bytes: its result may only flow into a padding/re-parsing function before it is hashed, indexed, copied at a fixed offset, compared or returned as fixed-width data", floor)
	bytesFn := p.Fn("math/big", "Int", "Bytes")
	if bytesFn == nil {
		c.Lost("math/big.(*Int).Bytes")
		return
	}
	for _, f := range p.ModFuncs {
		if pk := an.FuncPkg(f); pk == nil || pk.Path() != pkgPath {
			continue
		}
		k := 0
		an.Instrs(f, func(in ssa.Instruction) {
			call, ok := in.(*ssa.Call)
			if !ok || call.Call.StaticCallee() != bytesFn {
				return
			}
			k++
			key := siteKey(f, "big.Int.Bytes", k)
			bad, why := flowsUnpadded(p, call, sanitizers, extraOK, map[ssa.Value]bool{}, 0)
			if bad != nil {
				c.Fail(key, "variable-length big-integer bytes reach "+why+" without being padded to their fixed width: a value with leading zero bytes is mis-encoded", posOf(c, in), "use at "+posOf(c, bad))
			} else {
				c.OK(key, "only flows into padding / re-parsing", posOf(c, in))
			}
		})
	}
}

// flowsUnpadded follows v forward; returns the first offending use.
func flowsUnpadded(p *an.Prog, v ssa.Value, san map[string]bool, extraOK func(ssa.Instruction, ssa.Value) (bool, string), seen map[ssa.Value]bool, depth int) (ssa.Instruction, string) {
	if seen[v] || depth > 12 {
		return nil, ""
	}
	seen[v] = true
	refs := v.Referrers()
	if refs == nil {
		return nil, ""
	}
	for _, r := range *refs {
		switch x := r.(type) {
		case *ssa.DebugRef:
			continue
		case *ssa.Phi:
			if bad, why := flowsUnpadded(p, x, san, extraOK, seen, depth+1); bad != nil {
				return bad, why
			}
		case *ssa.Call:
			callee := x.Call.StaticCallee()
			if callee != nil && san[an.CanonKeyOf(callee)] {
				continue
			}
			if b, ok := x.Call.Value.(*ssa.Builtin); ok && b.Name() == "len" {
				continue
			}
			if extraOK != nil {
				if ok, _ := extraOK(x, v); ok {
					continue
				}
			}
			// passing into a module function: follow the parameter
			if callee != nil && p.InModule(callee) && callee.Blocks != nil {
				for i, a := range x.Call.Args {
					if a == v && i < len(callee.Params) {
						if bad, why := flowsUnpadded(p, callee.Params[i], san, extraOK, seen, depth+1); bad != nil {
							return bad, why + " (via " + sk(callee) + ")"
						}
					}
				}
				continue
			}
			return x, "a call of " + calleeName(p, x)
		case *ssa.Return:
			// follow to every caller's use of the result
			fn := x.Parent()
			idx := -1
			for i, res := range x.Results {
				if res == v {
					idx = i
				}
			}
			for _, cl := range p.Callers(fn) {
				call, ok := cl.E.Site.(*ssa.Call)
				if !ok {
					continue
				}
				var rv ssa.Value = call
				if fn.Signature.Results().Len() > 1 {
					rv = nil
					for _, rr := range *call.Referrers() {
						if ex, ok := rr.(*ssa.Extract); ok && ex.Index == idx {
							rv = ex
						}
					}
				}
				if rv != nil {
					if bad, why := flowsUnpadded(p, rv, san, extraOK, seen, depth+1); bad != nil {
						return bad, why
					}
				}
			}
			if len(p.Callers(fn)) == 0 && ast.IsExported(fn.Name()) {
				return x, "the result of exported " + sk(fn)
			}
		case *ssa.Store:
			if x.Val == v {
				if extraOK != nil {
					if ok, _ := extraOK(x, v); ok {
						continue
					}
				}
				return x, "a store (" + p.Desc(x.Addr) + ")"
			}
		case *ssa.Slice, *ssa.Index, *ssa.IndexAddr, *ssa.Lookup, *ssa.BinOp, *ssa.MakeInterface, *ssa.Convert, *ssa.ChangeType:
			return r, "fixed-position use (" + fmt.Sprintf("%T", r)[5:] + ")"
		default:
			return r, fmt.Sprintf("%T", r)[5:]
		}
	}
	return nil, ""
}

func runC13(c *report.Ctx) {
	p := c.P
	san := map[string]bool{
		an.Module + "/masswallet/keystore.padByteSlice": true,
		"(*math/big.Int).SetBytes":                      true,
	}
	ruleBigIntBytes(c, pkgKeystore, 3, san, nil)
	// padByteSlice itself left-pads
	pad := fn(c, pkgKeystore, "", "padByteSlice")
	if pad != nil {
		ok := false
		an.Instrs(pad, func(in ssa.Instruction) {
			call, isCall := in.(*ssa.Call)
			if !isCall {
				return
			}
			if b, isB := call.Call.Value.(*ssa.Builtin); isB && b.Name() == "copy" {
				// copy(newSlice[offset:], slice) with offset = length - len(slice)
				d := p.Desc(call.Call.Args[0])
				if strings.Contains(d, "[:]") && call.Call.Args[1] == ssa.Value(pad.Params[0]) {
					if sl, isS := call.Call.Args[0].(*ssa.Slice); isS && sl.Low != nil && strings.Contains(p.Desc(sl.Low), "- len(param:[]byte)") {
						ok = true
					}
				}
			}
		})
		if ok {
			c.OK(sk(pad)+":left-pads", "copies the input at offset length-len(input)", p.Pos(pad.Pos()))
		} else {
			c.Fail(sk(pad)+":left-pads", "padByteSlice no longer left-pads (copy at offset length-len(input))", p.Pos(pad.Pos()))
		}
	}

	// ---- tables ----------------------------------------------------------------------------------
	c.Rule("tables", "the BIP-39 constants are the specification's", 12)
	// word list
	if pk := p.All[pkgKeystore+"/wordlists"]; pk == nil {
		c.Lost("keystore/wordlists")
	} else {
		var lit string
		found := false
		for _, f := range pk.Syntax {
			ast.Inspect(f, func(n ast.Node) bool {
				vs, ok := n.(*ast.ValueSpec)
				if !ok || len(vs.Names) != 1 || vs.Names[0].Name != "english" || len(vs.Values) != 1 {
					return true
				}
				if tv, ok := pk.TypesInfo.Types[vs.Values[0]]; ok && tv.Value != nil && tv.Value.Kind() == constant.String {
					lit = constant.StringVal(tv.Value)
					found = true
				}
				return true
			})
		}
		if !found {
			c.Lost("wordlists.english literal")
		} else {
			words := strings.Split(strings.TrimSpace(lit), "\n")
			sum := sha256.Sum256([]byte(strings.Join(words, "\n") + "\n"))
			uniq := map[string]bool{}
			for _, w := range words {
				uniq[w] = true
			}
			if hex.EncodeToString(sum[:]) == bip39EnglishSHA256 && len(words) == 2048 && len(uniq) == 2048 && sort.StringsAreSorted(words) {
				c.OK("wordlists.english", "2048 unique sorted words, SHA-256 equals BIP-39 english.txt", "")
			} else {
				c.Fail("wordlists.english", fmt.Sprintf("word list differs from BIP-39 english.txt (words=%d unique=%d sha256=%s)", len(words), len(uniq), hex.EncodeToString(sum[:])[:16]), "")
			}
		}
		// English is derived from the literal by Split(TrimSpace(english), "\n")
		if g, ok := p.SSAPkgs[pkgKeystore+"/wordlists"].Members["English"].(*ssa.Global); ok {
			okInit := false
			initf := p.SSAPkgs[pkgKeystore+"/wordlists"].Func("init")
			an.Instrs(initf, func(in ssa.Instruction) {
				if st, isSt := in.(*ssa.Store); isSt && st.Addr == ssa.Value(g) {
					d := p.Desc(st.Val)
					if strings.HasPrefix(d, "strings.Split(strings.TrimSpace(") && strings.HasSuffix(d, `,"\n")`) {
						okInit = true
					}
				}
			})
			if okInit {
				c.OK("wordlists.English", "= strings.Split(strings.TrimSpace(english), \"\\n\")", "")
			} else {
				c.Fail("wordlists.English", "the exported word list is no longer the literal split on newlines", "")
			}
		}
	}
	// SetWordList(wordlists.English) in init
	kinit := p.SSAPkgs[pkgKeystore].Func("init")
	setWL := fn(c, pkgKeystore, "", "SetWordList")
	if kinit != nil && setWL != nil {
		ok := false
		for _, f := range append([]*ssa.Function{kinit}, initFuncs(p, pkgKeystore)...) {
			for _, s := range calls(f, setWL) {
				if p.Desc(an.CallOf(s).Args[0]) == "global:wordlists.English" {
					ok = true
				}
			}
		}
		if ok {
			c.OK("keystore.init:SetWordList(English)", "word map built from the English list", "")
		} else {
			c.Fail("keystore.init:SetWordList(English)", "the package no longer installs wordlists.English at init", "")
		}
	}
	// big.NewInt globals and tables
	wantInt := map[string]int64{"last11BitsMask": 2047, "shift11BitsMask": 2048, "bigOne": 1, "bigTwo": 2}
	wantMap := map[string]map[int64]int64{
		"wordLengthChecksumMasksMapping": {12: 15, 15: 31, 18: 63, 21: 127, 24: 255},
		"wordLengthChecksumShiftMapping": {12: 16, 15: 8, 18: 4, 21: 2},
	}
	gotInt, gotMap := bigGlobals(p, pkgKeystore)
	for n, w := range wantInt {
		if g, ok := gotInt[n]; ok && g == w {
			c.OK("keystore."+n, fmt.Sprintf("= big.NewInt(%d)", w), "")
		} else {
			c.Fail("keystore."+n, fmt.Sprintf("constant %s is %v, BIP-39 needs %d", n, gotInt[n], w), "")
		}
	}
	for n, w := range wantMap {
		g := gotMap[n]
		same := len(g) == len(w)
		for k, v := range w {
			if g[k] != v {
				same = false
			}
		}
		if same {
			c.OK("keystore."+n, fmt.Sprintf("%v", w), "")
		} else {
			c.Fail("keystore."+n, fmt.Sprintf("table %s is %v, BIP-39 needs %v (mask 2^(words/3)-1, shift 2^(8-words/3))", n, g, w), "")
		}
	}
	// MnemonicToByteArray's modulo 2048
	m2b := fn(c, pkgKeystore, "", "MnemonicToByteArray")
	if m2b != nil {
		has := false
		an.Instrs(m2b, func(in ssa.Instruction) {
			if call, ok := in.(*ssa.Call); ok && call.Call.StaticCallee() != nil && an.CanonKeyOf(call.Call.StaticCallee()) == "math/big.NewInt" {
				if k, ok := call.Call.Args[0].(*ssa.Const); ok && k.Value != nil && k.Value.ExactString() == "2048" {
					has = true
				}
			}
		})
		if has {
			c.OK(sk(m2b)+":modulo", "11-bit radix 2048", p.Pos(m2b.Pos()))
		} else {
			c.Fail(sk(m2b)+":modulo", "MnemonicToByteArray no longer accumulates words in radix 2048", p.Pos(m2b.Pos()))
		}
	}
	// validateEntropyBitSize and word-count tests
	checkRangeTest(c, fn(c, pkgKeystore, "", "validateEntropyBitSize"), 32, 128, 256, "entropy bits")
	checkRangeTest(c, fn(c, pkgKeystore, "", "IsMnemonicValid"), 3, 12, 24, "word count")
	checkRangeTest(c, fn(c, pkgKeystore, "", "splitMnemonicWords"), 3, 12, 24, "word count")
	// PBKDF2
	newSeed := fn(c, pkgKeystore, "", "NewSeed")
	if newSeed != nil {
		ok := false
		var site ssa.Instruction
		an.Instrs(newSeed, func(in ssa.Instruction) {
			call, isCall := in.(*ssa.Call)
			if !isCall || call.Call.StaticCallee() == nil || an.CanonKeyOf(call.Call.StaticCallee()) != "golang.org/x/crypto/pbkdf2.Key" {
				return
			}
			site = in
			a := call.Call.Args
			iter, _ := a[2].(*ssa.Const)
			klen, _ := a[3].(*ssa.Const)
			h, _ := a[4].(*ssa.Function)
			pw := p.Desc(a[0])
			salt := p.Desc(a[1])
			if iter != nil && klen != nil && h != nil && iter.Value.ExactString() == "2048" && klen.Value.ExactString() == "64" && an.CanonKeyOf(h) == "crypto/sha512.New" &&
				pw == "param:string" && salt == `("mnemonic" + param:string)` &&
				a[0].(*ssa.Convert).X == ssa.Value(newSeed.Params[0]) {
				ok = true
			}
		})
		if ok {
			c.OK(sk(newSeed)+":pbkdf2", "PBKDF2-HMAC-SHA512(mnemonic, \"mnemonic\"+passphrase, 2048, 64)", posOf(c, site))
		} else {
			c.Fail(sk(newSeed)+":pbkdf2", "seed derivation is not PBKDF2-HMAC-SHA512(mnemonic, \"mnemonic\"+passphrase, 2048 iterations, 64 bytes)", p.Pos(newSeed.Pos()))
		}
	}

	// ---- acceptance gates ----------------------------------------------------------------------------
	c.Rule("acceptance-gates", "a word sequence is accepted only after the word-count test, a found-test for every word and the checksum comparison", 6)
	efm := fn(c, pkgKeystore, "", "EntropyFromMnemonic")
	split := fn(c, pkgKeystore, "", "splitMnemonicWords")
	valid := fn(c, pkgKeystore, "", "IsMnemonicValid")
	cmpBS := fnOpt(c, pkgKeystore, "", "compareByteSlices") // (or bytes.Equal)
	bigCmp := p.Fn("math/big", "Int", "Cmp")
	var successAlt func(b *ssa.BasicBlock) bool // another way the gate can hold at a success return
	successGuard := func(f *ssa.Function, name string, pred func(an.Atom) bool) {
		if f == nil {
			return
		}
		alt := successAlt
		successAlt = nil
		okAll, any := true, false
		var pos string
		for _, b := range f.Blocks {
			r, isRet := b.Instrs[len(b.Instrs)-1].(*ssa.Return)
			if !isRet {
				continue
			}
			if p.ClassifyReturn(r, nil) == an.RetError {
				continue
			}
			any = true
			pos = posOf(c, r)
			if !an.AnyAtom(p.Guards(b), pred) && !(alt != nil && alt(b)) {
				okAll = false
			}
		}
		key := sk(f) + ":success-needs:" + name
		if any && okAll {
			c.OK(key, "dominates every success return", pos)
		} else {
			c.Fail(key, "a success return of "+sk(f)+" is not dominated by "+name+": sequences that BIP-39 rejects are accepted", pos)
		}
	}
	if efm != nil && split != nil && bigCmp != nil {
		successGuard(efm, "word-count test", func(a an.Atom) bool {
			if a.Op != token.ILLEGAL || !a.Truth {
				return false
			}
			ex, ok := a.X.(*ssa.Extract)
			if !ok {
				return false
			}
			call, ok := ex.Tuple.(*ssa.Call)
			return ok && call.Call.StaticCallee() == split && ex.Index == 1
		})
		successGuard(efm, "checksum comparison", func(a an.Atom) bool {
			call, ok := a.X.(*ssa.Call)
			if !ok || call.Call.StaticCallee() != bigCmp || a.Op != token.EQL {
				return false
			}
			k, ok := a.Y.(*ssa.Const)
			return ok && k.Value != nil && k.Value.ExactString() == "0"
		})
	}
	// word lookups: found flag tested, or dominated by IsMnemonicValid
	getWI := fn(c, pkgKeystore, "", "GetWordIndex")
	wordMapG, _ := p.SSAPkgs[pkgKeystore].Members["wordMap"].(*ssa.Global)
	if wordMapG == nil {
		c.Lost("keystore.wordMap")
	}
	type lookupSite struct {
		in     ssa.Instruction
		tested bool // the found flag is branched on and "not found" reaches only rejection
	}
	lookupsOf := func(f *ssa.Function) []lookupSite {
		var out []lookupSite
		an.Instrs(f, func(in ssa.Instruction) {
			var okVal ssa.Value
			isLookup := false
			switch x := in.(type) {
			case *ssa.Lookup:
				if u, ok := x.X.(*ssa.UnOp); ok && u.X == ssa.Value(wordMapG) {
					isLookup = true
					if x.CommaOk {
						for _, r := range *x.Referrers() {
							if ex, ok := r.(*ssa.Extract); ok && ex.Index == 1 {
								okVal = ex
							}
						}
					}
				}
			case *ssa.Call:
				if getWI != nil && x.Call.StaticCallee() == getWI {
					isLookup = true
					for _, r := range *x.Referrers() {
						if ex, ok := r.(*ssa.Extract); ok && ex.Index == 1 {
							okVal = ex
						}
					}
				}
			}
			if !isLookup {
				return
			}
			// the found flag must be branched on, and its false edge must not reach a success return
			tested := false
			if okVal != nil {
				for _, r := range *okVal.Referrers() {
					ifi := ifOf(r)
					if ifi == nil {
						continue
					}
					a := p.MkAtom(ifi.Cond, true, ifi)
					// which successor is "not found"?
					notFound := ifi.Block().Succs[1]
					if a.Op == token.ILLEGAL && !a.Truth {
						notFound = ifi.Block().Succs[0]
					}
					// (going round the loop again is not acceptance in itself: the search carries the flags set on the
					// way — `if !found { allKnown = false }` — and judges the returns it reaches with them)
					var s *an.Search
					s = &an.Search{P: p, Fn: f, GoalReturn: func(r *ssa.Return, pred *ssa.BasicBlock) bool {
						if res := f.Signature.Results(); res.Len() == 1 {
							// bool result: returning true is acceptance
							rv := an.RetOperand(r, 0)
							if v, known := s.Flag(rv); known {
								return v
							}
							k, ok := rv.(*ssa.Const)
							return !(ok && k.Value != nil && !constant.BoolVal(k.Value))
						}
						return p.ClassifyReturn(r, pred) != an.RetError
					}}
					if w := s.Run(notFound, 0, ifi.Block()); w == nil {
						tested = true
					}
				}
			}
			out = append(out, lookupSite{in, tested})
		})
		return out
	}
	// validatedBefore: b is reached only after a loop of f that looked every word up and rejected the unknown ones
	// (IsMnemonicValid's work done in place — the shape its inlined body has)
	validatedBefore := func(f *ssa.Function, sites []lookupSite, b *ssa.BasicBlock) bool {
		for _, ls := range sites {
			if !ls.tested {
				continue
			}
			hdr := loopHeaderOf(ls.in.Block())
			if hdr == nil || b == ls.in.Block() {
				continue
			}
			// every feasible way into b goes through the loop (the search knows the flags a merged return sets)
			s := &an.Search{P: p, Fn: f, Cut: func(in ssa.Instruction) bool { return in.Block() == hdr },
				GoalBlock: func(x, _ *ssa.BasicBlock) bool { return x == b }}
			if b == f.Blocks[0] || s.Run(f.Blocks[0], 0, nil) != nil {
				continue
			}
			inLoop := false
			for _, pr := range hdr.Preds {
				if hdr.Dominates(pr) && loopContains(hdr, pr, b) {
					inLoop = true
				}
			}
			if !inLoop {
				return true
			}
		}
		return false
	}
	// word validators: functions of the package that answer true only when every word they looked up was found
	// (IsMnemonicValid, or a helper it was split into)
	validators := map[*ssa.Function]bool{}
	for _, g := range p.ModFuncs {
		if pk := an.FuncPkg(g); pk == nil || pk.Path() != pkgKeystore || g.Blocks == nil || wordMapG == nil {
			continue
		}
		res := g.Signature.Results()
		if res.Len() != 1 {
			continue
		}
		if b, isB := res.At(0).Type().Underlying().(*types.Basic); !isB || b.Kind() != types.Bool {
			continue
		}
		sites := lookupsOf(g)
		all := len(sites) > 0
		for _, ls := range sites {
			if !ls.tested {
				all = false
			}
		}
		if all {
			validators[g] = true
		}
	}
	isValidated := func(a an.Atom) bool {
		if a.Op != token.ILLEGAL || !a.Truth || a.X == nil {
			return false
		}
		call, ok := a.X.(*ssa.Call)
		return ok && call.Call.StaticCallee() != nil && validators[call.Call.StaticCallee()]
	}
	isSplitOK := func(a an.Atom) bool {
		if a.Op != token.ILLEGAL || !a.Truth {
			return false
		}
		ex, ok := a.X.(*ssa.Extract)
		if !ok || ex.Index != 1 {
			return false
		}
		call, ok := ex.Tuple.(*ssa.Call)
		return ok && split != nil && call.Call.StaticCallee() == split
	}
	isBytesEqual := func(a an.Atom) bool {
		if cmpBS != nil && an.BoolCall(a, cmpBS, "", true) {
			return true
		}
		call, ok := a.X.(*ssa.Call)
		return ok && a.Op == token.ILLEGAL && a.Truth && call.Call.StaticCallee() != nil && an.CanonKeyOf(call.Call.StaticCallee()) == "bytes.Equal"
	}
	if m2b != nil && valid != nil {
		m2bSites := lookupsOf(m2b)
		successAlt = func(b *ssa.BasicBlock) bool {
			gs := p.Guards(b)
			if an.AnyAtom(gs, isValidated) && (an.AnyAtom(gs, isSplitOK) || hasRangeTest(m2b, 3, 12, 24)) {
				return true // the two halves of IsMnemonicValid asked one after the other
			}
			return hasRangeTest(m2b, 3, 12, 24) && validatedBefore(m2b, m2bSites, b)
		}
		successGuard(m2b, "IsMnemonicValid", func(a an.Atom) bool { return an.BoolCall(a, valid, "", true) })
		successGuard(m2b, "checksum comparison", isBytesEqual)
	}
	nsec := fn(c, pkgKeystore, "", "NewSeedWithErrorChecking")
	mustPass(c, nsec, an.Set(m2b), "MnemonicToByteArray")
	for _, f := range []*ssa.Function{efm, m2b, valid} {
		if f == nil || wordMapG == nil {
			continue
		}
		sites := lookupsOf(f)
		for k, ls := range sites {
			in := ls.in
			key := siteKey(f, "word-lookup", k+1)
			switch {
			case valid != nil && an.AnyAtom(p.GuardsOf(in), func(a an.Atom) bool { return an.BoolCall(a, valid, "", true) || isValidated(a) }):
				c.OK(key, "after IsMnemonicValid accepted every word", posOf(c, in))
			case ls.tested:
				c.OK(key, "found flag tested; a word outside the list reaches only rejection", posOf(c, in))
			case validatedBefore(f, sites, in.Block()):
				c.OK(key, "after a loop of the function itself looked every word up and rejected the unknown ones", posOf(c, in))
			default:
				c.Fail(key, "a word is looked up without acting on the found flag: a word outside the list is decoded as index 0 and the sequence can be accepted", posOf(c, in))
			}
		}
	}
	ruleSharedBigIntsImmutable(c, []string{pkgKeystore}, 3)
	ruleValidatedTokensAreDecodedTokens(c)
	ruleSentenceJudgedByWords(c)
	ruleCodecSharesNoState(c)
	ruleMnemonicLengthGateAdmitsEverySentence(c)
	ruleMnemonicWordCount(c)
	ruleWordMapExact(c)
	ruleStoredEntropyIsRaw(c)
}

func ifOf(r ssa.Instruction) *ssa.If {
	switch x := r.(type) {
	case *ssa.If:
		return x
	case *ssa.BinOp:
		for _, rr := range *x.Referrers() {
			if i := ifOf(rr); i != nil {
				return i
			}
		}
	case *ssa.UnOp:
		for _, rr := range *x.Referrers() {
			if i := ifOf(rr); i != nil {
				return i
			}
		}
	}
	return nil
}

func initFuncs(p *an.Prog, pkg string) []*ssa.Function {
	var out []*ssa.Function
	for _, f := range p.ModFuncs {
		if pk := an.FuncPkg(f); pk != nil && pk.Path() == pkg && strings.HasPrefix(f.Name(), "init#") {
			out = append(out, f)
		}
	}
	return out
}

// bigGlobals evaluates package-level `big.NewInt(k)` variables and map[int]*big.Int tables from the init function.
func bigGlobals(p *an.Prog, pkg string) (map[string]int64, map[string]map[int64]int64) {
	ints := map[string]int64{}
	maps := map[string]map[int64]int64{}
	sp := p.SSAPkgs[pkg]
	if sp == nil {
		return ints, maps
	}
	initf := sp.Func("init")
	newInt := func(v ssa.Value) (int64, bool) {
		call, ok := v.(*ssa.Call)
		if !ok || call.Call.StaticCallee() == nil || an.CanonKeyOf(call.Call.StaticCallee()) != "math/big.NewInt" {
			return 0, false
		}
		return constInt(call.Call.Args[0])
	}
	mapOf := map[ssa.Value]string{}
	an.Instrs(initf, func(in ssa.Instruction) {
		st, ok := in.(*ssa.Store)
		if !ok {
			return
		}
		g, ok := st.Addr.(*ssa.Global)
		if !ok {
			return
		}
		if n, ok := newInt(st.Val); ok {
			ints[an.GName(g)] = n
		}
		if mm, ok := st.Val.(*ssa.MakeMap); ok {
			mapOf[mm] = an.GName(g)
			maps[an.GName(g)] = map[int64]int64{}
		}
	})
	an.Instrs(initf, func(in ssa.Instruction) {
		mu, ok := in.(*ssa.MapUpdate)
		if !ok {
			return
		}
		name, ok := mapOf[mu.Map]
		if !ok {
			return
		}
		k, ok1 := constInt(mu.Key)
		v, ok2 := newInt(mu.Value)
		if ok1 && ok2 {
			maps[name][k] = v
		} else {
			maps[name][-1] = -1
		}
	})
	return ints, maps
}

// hasRangeTest: f (or a helper of its package it calls) tests x%mod != 0 || x < lo || x > hi, in one of its forms.
func hasRangeTest(f *ssa.Function, mod, lo, hi int64) bool {
	var hasMod, hasLo, hasHi bool
	// the test may live in a helper of the same package that f calls (depth 1)
	scan := []*ssa.Function{f}
	an.Instrs(f, func(in ssa.Instruction) {
		if cc := an.CallOf(in); cc != nil {
			if g := cc.StaticCallee(); g != nil && g.Blocks != nil && g != f && an.FuncPkg(g) == an.FuncPkg(f) {
				scan = append(scan, g)
			}
		}
	})
	eq := map[ssa.Value]map[int64]bool{} // operand → constants it is compared equal with (a switch over the legal values)
	for _, sf := range scan {
		an.Instrs(sf, func(in ssa.Instruction) {
			b, ok := in.(*ssa.BinOp)
			if !ok {
				return
			}
			k, isK := constInt(b.Y)
			switch b.Op {
			case token.EQL:
				if isK {
					if eq[b.X] == nil {
						eq[b.X] = map[int64]bool{}
					}
					eq[b.X][k] = true
				}
			case token.REM:
				if isK && k == mod {
					hasMod = true
				}
			case token.LSS: // x < lo rejects; x < hi+1 accepts
				if isK && k == lo {
					hasLo = true
				}
				if isK && k == hi+1 {
					hasHi = true
				}
			case token.GTR: // x > hi rejects; x > lo-1 accepts
				if isK && k == hi {
					hasHi = true
				}
				if isK && k == lo-1 {
					hasLo = true
				}
			case token.LEQ:
				if isK && k == lo-1 {
					hasLo = true
				}
				if isK && k == hi {
					hasHi = true
				}
			case token.GEQ:
				if isK && k == hi+1 {
					hasHi = true
				}
				if isK && k == lo {
					hasLo = true
				}
			}
		})
	}
	for _, ks := range eq {
		// exactly the legal values, enumerated
		all := true
		n := 0
		for v := lo; v <= hi; v += mod {
			n++
			if !ks[v] {
				all = false
			}
		}
		if all && len(ks) == n && lo%mod == 0 {
			hasMod, hasLo, hasHi = true, true, true
		}
	}
	return hasMod && hasLo && hasHi
}

// checkRangeTest: f rejects when x%mod != 0 || x < lo || x > hi.
func checkRangeTest(c *report.Ctx, f *ssa.Function, mod, lo, hi int64, what string) {
	if f == nil {
		return
	}
	p := c.P
	key := sk(f) + ":range-test"
	if hasRangeTest(f, mod, lo, hi) {
		c.OK(key, fmt.Sprintf("%s: multiple of %d within [%d,%d]", what, mod, lo, hi), p.Pos(f.Pos()))
	} else {
		c.Fail(key, fmt.Sprintf("%s test is not {%%%d, <%d, >%d}", what, mod, lo, hi), p.Pos(f.Pos()))
	}
	_ = types.Typ
}
