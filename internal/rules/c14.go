package rules

import (
	"fmt"
	"go/constant"
	"go/token"
	"go/types"
	"strings"

	"golang.org/x/tools/go/ssa"

	"verif/internal/an"
	"verif/internal/report"
)

func init() {
	register(&Check{
		ID: "C14",
		Explain: "Structural necessary conditions of BIP-32 exactness, decided statically: " +
			"(1) variable-length big.Int.Bytes() results and the private scalar kept in ExtendedKey.key are only used through padding / integer-reinterpreting functions, never copied at a fixed offset; " +
			"(2) the specification's constants (hardened offset 2^31, 78-byte serialisation, HMAC key \"Bitcoin seed\", 33+4-byte HMAC input, HMAC-SHA512) are the specification's; " +
			"(3) gates: derivation and parsing succeed only after the depth, hardened-from-public, scalar-range (0 < k < n), length, checksum and on-curve tests; " +
			"(4) a derived child owns its wipeable buffers (key, chain code, parent fingerprint are not aliases of the parent's fields), so wiping one key cannot corrupt another.",
		NotDec: "numerical equality with the specification (HMAC, curve arithmetic, base58).",
		Run:    runC14,
	})
}

func runC14(c *report.Ctx) {
	p := c.P
	ruleKeyLengthTolerant(c)
	ruleBranchKeyAgreement(c) // the key stored for a labelled path is the BIP-32 key of that path
	ek := p.Type(pkgHD, "ExtendedKey")
	if ek == nil {
		c.Lost("hdkeychain.ExtendedKey")
		return
	}
	san := map[string]bool{
		an.Module + "/masswallet/keystore/hdkeychain.paddedAppend": true,
		"(*math/big.Int).SetBytes":                                 true,
	}
	// a store of the scalar into ExtendedKey.key is judged by the field rule below
	ruleBigIntBytes(c, pkgHD, 1, san, func(use ssa.Instruction, v ssa.Value) (bool, string) {
		if st, ok := use.(*ssa.Store); ok && addrRootsAtField(st.Addr, ek, "key") {
			return true, "stored as ExtendedKey.key (judged by key-field rule)"
		}
		return false, ""
	})

	c.Rule("key-field", "ExtendedKey.key holds a private scalar of variable length when isPrivate: every read of it is consumed by a padding/integer-reinterpreting function, a length test or a wipe — or happens where the key is known to be public (a fixed 33-byte point)", 6)
	okCallee := map[string]string{
		an.Module + "/masswallet/keystore/hdkeychain.paddedAppend":      "left-pads to 32 bytes",
		"(*math/big.Int).SetBytes":                                      "big-endian integer",
		"(*github.com/btcsuite/btcd/btcec.KoblitzCurve).ScalarBaseMult": "scalar as big-endian integer",
		"github.com/btcsuite/btcd/btcec.PrivKeyFromBytes":               "scalar as big-endian integer",
		an.Module + "/masswallet/keystore/hdkeychain.zero":              "wipe",
	}
	notPrivate := func(in ssa.Instruction) bool {
		return an.AnyAtom(p.GuardsOf(in), func(a an.Atom) bool {
			return a.Op == token.ILLEGAL && !a.Truth && p.Desc(a.X) == "ExtendedKey.isPrivate"
		})
	}
	for _, f := range p.ModFuncs {
		if pk := an.FuncPkg(f); pk == nil || pk.Path() != pkgHD {
			continue
		}
		k := 0
		an.Instrs(f, func(in ssa.Instruction) {
			u, ok := in.(*ssa.UnOp)
			if !ok || !isFieldLoad(u, ek, "key") {
				return
			}
			for _, r := range *u.Referrers() {
				if _, isDbg := r.(*ssa.DebugRef); isDbg {
					continue
				}
				k++
				key := siteKey(f, "use-of-key", k)
				switch x := r.(type) {
				case *ssa.Call:
					if b, isB := x.Call.Value.(*ssa.Builtin); isB {
						if b.Name() == "len" {
							c.OK(key, "len()", posOf(c, r))
							continue
						}
						if b.Name() == "append" && paddedAppendLoop(p, x, u, ek) {
							c.OK(key, "appended after a loop that appends 32-len(key) zero bytes (left-padded to 32)", posOf(c, r))
							continue
						}
						if b.Name() == "copy" && x.Call.Args[1] == ssa.Value(u) {
							if notPrivate(r) {
								c.OK(key, "copy of a public key (fixed 33 bytes)", posOf(c, r))
								continue
							}
							// right-aligned in the 1+32 bytes of `0x00 || ser256(k)`: dst[33-len(key):]
							if sl, isSl := x.Call.Args[0].(*ssa.Slice); isSl && sl.Low != nil {
								if sub, isSub := sl.Low.(*ssa.BinOp); isSub && sub.Op == token.SUB {
									if kk, isK := constInt(sub.X); isK && kk == 33 {
										if ln, isLen := sub.Y.(*ssa.Call); isLen {
											if b2, isB2 := ln.Call.Value.(*ssa.Builtin); isB2 && b2.Name() == "len" && len(ln.Call.Args) == 1 {
												if l2, isLd := ln.Call.Args[0].(*ssa.UnOp); isLd && isFieldLoad(l2, ek, "key") {
													c.OK(key, "copied right-aligned into the 33 bytes of 0x00 || ser256(k) (offset 33-len(key))", posOf(c, r))
													continue
												}
											}
										}
									}
								}
							}
							dst := "dst"
							if sl, isSl := x.Call.Args[0].(*ssa.Slice); isSl {
								lo := "0"
								if sl.Low != nil {
									lo = p.Desc(sl.Low)
								}
								dst = "dst[" + lo + ":]"
							}
							c.Fail(sk(apiOwner(p, f))+":copy("+dst+",k.key)", "the private scalar is copied at a fixed offset: a scalar shorter than 32 bytes (leading zeros stripped by big.Int.Bytes) is left-aligned and the HMAC input is wrong (BIP-32 test vector 4)", posOf(c, r))
							continue
						}
					}
					if callee := x.Call.StaticCallee(); callee != nil {
						if why, ok := okCallee[an.CanonKeyOf(callee)]; ok {
							c.OK(key, why, posOf(c, r))
							continue
						}
						if notPrivate(r) {
							c.OK(key, calleeName(p, x)+" on a public key", posOf(c, r))
							continue
						}
						c.Fail(sk(f)+":key->"+calleeName(p, x), "the private scalar (variable length) is handed to "+calleeName(p, x)+" as if it were fixed width", posOf(c, r))
						continue
					}
					c.Fail(sk(f)+":key->dynamic-call", "the private scalar is handed to an unresolved call", posOf(c, r))
				case *ssa.Return:
					if notPrivate(r) {
						c.OK(key, "returned as the public key", posOf(c, r))
					} else {
						c.Fail(sk(f)+":returns-key", "the variable-length private scalar is returned as fixed-width data", posOf(c, r))
					}
				default:
					if notPrivate(r) {
						c.OK(key, "use on a public key", posOf(c, r))
					} else {
						c.Fail(sk(f)+":key->"+fmt.Sprintf("%T", r)[5:], "fixed-position use of the variable-length private scalar", posOf(c, r))
					}
				}
			}
		})
	}
	c.Exception("okCallee", fmt.Sprintf("%v", okCallee))

	// ---- constants -----------------------------------------------------------------------------------
	c.Rule("constants", "BIP-32 constants", 5)
	wantConst := map[string]string{"HardenedKeyStart": "2147483648", "serializedKeyLen": "78", "maxUint8": "255", "MinSeedBytes": "16", "MaxSeedBytes": "64"}
	for n, w := range wantConst {
		o := p.Obj(pkgHD, n)
		if o == nil {
			c.Lost("hdkeychain." + n)
			continue
		}
		if constString(o) == w {
			c.OK("hdkeychain."+n, "= "+w, "")
		} else {
			c.Fail("hdkeychain."+n, "constant "+n+" is "+constString(o)+", BIP-32 needs "+w, "")
		}
	}
	// masterKey = []byte("Bitcoin seed")
	if sp := p.SSAPkgs[pkgHD]; sp != nil {
		g, _ := sp.Members["masterKey"].(*ssa.Global)
		ok := false
		if g != nil {
			an.Instrs(sp.Func("init"), func(in ssa.Instruction) {
				if st, isSt := in.(*ssa.Store); isSt && st.Addr == ssa.Value(g) {
					if cv, isC := st.Val.(*ssa.Convert); isC {
						if k, isK := cv.X.(*ssa.Const); isK && k.Value != nil && k.Value.Kind() == constant.String && constant.StringVal(k.Value) == "Bitcoin seed" {
							ok = true
						}
					}
				}
			})
		}
		if ok {
			c.OK("hdkeychain.masterKey", `= []byte("Bitcoin seed")`, "")
		} else {
			c.Fail("hdkeychain.masterKey", `the master HMAC key is not "Bitcoin seed"`, "")
		}
	}
	child := fn(c, pkgHD, "ExtendedKey", "Child")
	newMaster := fn(c, pkgHD, "", "NewMaster")
	fromStr := fn(c, pkgHD, "", "NewKeyFromString")
	newEK := fn(c, pkgHD, "", "NewExtendedKey")
	for _, f := range []*ssa.Function{child, newMaster} {
		if f == nil {
			continue
		}
		ok := false
		an.Instrs(f, func(in ssa.Instruction) {
			call, isCall := in.(*ssa.Call)
			if !isCall || call.Call.StaticCallee() == nil || an.CanonKeyOf(call.Call.StaticCallee()) != "crypto/hmac.New" {
				return
			}
			if h, isF := call.Call.Args[0].(*ssa.Function); isF && an.CanonKeyOf(h) == "crypto/sha512.New" {
				d := p.Desc(call.Call.Args[1])
				if (f == child && d == "ExtendedKey.chainCode") || (f == newMaster && d == "global:hdkeychain.masterKey") {
					ok = true
				}
			}
		})
		if ok {
			c.OK(sk(f)+":hmac", "HMAC-SHA512 keyed with the chain code / master key", p.Pos(f.Pos()))
		} else {
			c.Fail(sk(f)+":hmac", "derivation is not HMAC-SHA512 keyed with the parent chain code (Child) / \"Bitcoin seed\" (NewMaster)", p.Pos(f.Pos()))
		}
	}
	if child != nil {
		// data = make([]byte, 33+4); index written at data[33:]
		ok := false
		for _, cf := range reachIn(p, child, pkgHD) {
			if cf != child && len(calls(child, cf)) == 0 {
				continue // Child itself and the helpers it calls directly
			}
			an.Instrs(cf, func(in ssa.Instruction) {
				if al, isAl := in.(*ssa.Alloc); isAl && (al.Comment == "makeslice" || isByteArray(al.Type(), 37)) { // make([]byte, 37) or a [37]byte variable
					if pt, isP := al.Type().Underlying().(*types.Pointer); isP {
						if at, isA := pt.Elem().Underlying().(*types.Array); isA && at.Len() == 37 {
							ok = true
						}
					}
				}
				if ms, isMS := in.(*ssa.MakeSlice); isMS {
					if n, isK := constInt(ms.Len); isK && n == 37 {
						ok = true
					}
					if b, isB := ms.Len.(*ssa.BinOp); isB && b.Op == token.ADD {
						x, okx := constInt(b.X)
						y, oky := constInt(b.Y)
						if okx && oky && x+y == 37 {
							ok = true
						}
					}
				}
			})
		}
		if ok {
			c.OK(sk(child)+":hmac-input-len", "33-byte key + 4-byte index", p.Pos(child.Pos()))
		} else {
			c.Fail(sk(child)+":hmac-input-len", "the HMAC input buffer is not 33+4 bytes", p.Pos(child.Pos()))
		}
	}

	// ---- gates ---------------------------------------------------------------------------------------------
	c.Rule("gates", "success of Child / NewMaster / NewKeyFromString is dominated by the specification's rejections", 8)
	bigCmp := p.Fn("math/big", "Int", "Cmp")
	bigSign := p.Fn("math/big", "Int", "Sign")
	inRange := []struct {
		name string
		pred func(a an.Atom) bool
	}{
		{"scalar < n", func(a an.Atom) bool {
			call, ok := a.X.(*ssa.Call)
			if !ok || call.Call.StaticCallee() != bigCmp || a.Op != token.LSS {
				return false
			}
			k, ok := a.Y.(*ssa.Const)
			return ok && k.Value != nil && k.Value.ExactString() == "0" && strings.HasSuffix(p.Desc(call.Call.Args[1]), ".N")
		}},
		{"scalar != 0", func(a an.Atom) bool {
			call, ok := a.X.(*ssa.Call)
			if !ok || call.Call.StaticCallee() != bigSign || a.Op != token.NEQ {
				return false
			}
			k, ok := a.Y.(*ssa.Const)
			return ok && k.Value != nil && k.Value.ExactString() == "0"
		}},
	}
	// successSites: the NewExtendedKey calls that produce the returned key
	gate := func(f *ssa.Function, name string, pred func(an.Atom) bool, onlyIf func(ssa.Instruction) bool) {
		if f == nil || newEK == nil {
			return
		}
		sites := calls(f, newEK)
		key := sk(f) + ":gate:" + name
		if len(sites) == 0 {
			c.Fail(key, "anchor lost: no NewExtendedKey call", p.Pos(f.Pos()))
			return
		}
		for _, s := range sites {
			if onlyIf != nil && !onlyIf(s) {
				continue
			}
			if an.AnyAtom(p.GuardsOf(s), pred) {
				c.OK(key, "dominates key construction", posOf(c, s))
			} else {
				c.Fail(key, "a key can be produced without the test "+name, posOf(c, s), an.AtomTexts(p.GuardsOf(s))...)
			}
		}
	}
	for _, r := range inRange {
		gate(child, r.name, r.pred, nil)
		gate(newMaster, r.name, r.pred, nil)
	}
	gate(child, "depth != 255", func(a an.Atom) bool {
		k, ok := a.Y.(*ssa.Const)
		return ok && k.Value != nil && a.Op == token.NEQ && p.Desc(a.X) == "ExtendedKey.depth" && k.Value.ExactString() == "255"
	}, nil)
	if child != nil {
		// hardened from public rejected: the block guarded by (!isPrivate && i >= 2^31) reaches only errors
		found := false
		for _, b := range child.Blocks {
			for _, g := range p.Guards(b) {
				if g.Op == token.GEQ && g.Y != nil {
					if k, ok := g.Y.(*ssa.Const); ok && k.Value != nil && k.Value.ExactString() == "2147483648" {
						if _, isPar := g.X.(*ssa.Parameter); isPar && an.AnyAtom(p.Guards(b), func(a an.Atom) bool {
							return a.Op == token.ILLEGAL && !a.Truth && p.Desc(a.X) == "ExtendedKey.isPrivate"
						}) && len(b.Preds) == 1 {
							found = true
							s := &an.Search{P: p, Fn: child, GoalReturn: func(r *ssa.Return, pred *ssa.BasicBlock) bool {
								return p.ClassifyReturn(r, pred) != an.RetError
							}}
							if w := s.Run(b, 0, b.Preds[0]); w != nil {
								c.Fail(sk(child)+":gate:hardened-from-public", "a hardened child can be derived from a public key", p.Pos(child.Pos()), w...)
							} else {
								c.OK(sk(child)+":gate:hardened-from-public", "!isPrivate && i >= 2^31 reaches only an error", p.Pos(child.Pos()))
							}
						}
					}
				}
			}
		}
		if !found {
			// the hardened test may be materialised as a bool first: look for the sentinel return guarded by !isPrivate
			sp := p.SSAPkgs[pkgHD]
			sent, _ := sp.Members["ErrDeriveHardFromPublic"].(*ssa.Global)
			ok := false
			an.Instrs(child, func(in ssa.Instruction) {
				if r, isRet := in.(*ssa.Return); isRet && len(r.Results) == 2 {
					if u, isU := an.RetOperand(r, 1).(*ssa.UnOp); isU && u.X == ssa.Value(sent) {
						gs := p.GuardsOf(r)
						priv := an.AnyAtom(gs, func(a an.Atom) bool {
							return a.Op == token.ILLEGAL && !a.Truth && p.Desc(a.X) == "ExtendedKey.isPrivate"
						})
						hard := an.AnyAtom(gs, func(a an.Atom) bool {
							if a.Op == token.ILLEGAL && a.Truth {
								if b, isB := a.X.(*ssa.BinOp); isB && b.Op == token.GEQ {
									if k, isK := b.Y.(*ssa.Const); isK && k.Value != nil && k.Value.ExactString() == "2147483648" {
										return true
									}
								}
							}
							if a.Op == token.GEQ {
								if k, isK := a.Y.(*ssa.Const); isK && k.Value != nil && k.Value.ExactString() == "2147483648" {
									return true
								}
							}
							return false
						})
						if priv && hard {
							ok = true
						}
					}
				}
			})
			if ok {
				c.OK(sk(child)+":gate:hardened-from-public", "returns ErrDeriveHardFromPublic under !isPrivate && i >= 2^31", p.Pos(child.Pos()))
			} else {
				c.Fail(sk(child)+":gate:hardened-from-public", "no rejection of hardened derivation from a public key found", p.Pos(child.Pos()))
			}
		}
	}
	// NewMaster seed length
	gate(newMaster, "len(seed) >= 16", func(a an.Atom) bool {
		k, ok := a.Y.(*ssa.Const)
		return ok && k.Value != nil && a.Op == token.GEQ && p.Desc(a.X) == "len(param:[]byte)" && k.Value.ExactString() == "16"
	}, nil)
	gate(newMaster, "len(seed) <= 64", func(a an.Atom) bool {
		k, ok := a.Y.(*ssa.Const)
		return ok && k.Value != nil && a.Op == token.LEQ && p.Desc(a.X) == "len(param:[]byte)" && k.Value.ExactString() == "64"
	}, nil)
	// NewKeyFromString
	bytesEqual := p.Fn("bytes", "", "Equal")
	gate(fromStr, "len(decoded) == 82", func(a an.Atom) bool {
		k, ok := a.Y.(*ssa.Const)
		return ok && k.Value != nil && a.Op == token.EQL && strings.HasPrefix(p.Desc(a.X), "len(") && k.Value.ExactString() == "82"
	}, nil)
	gate(fromStr, "checksum matches", func(a an.Atom) bool { return bytesEqual != nil && an.BoolCall(a, bytesEqual, "", true) }, nil)
	if fromStr != nil && newEK != nil {
		// private branch: range gates; public branch: ParsePubKey success — judged on the paths into the construction site
		parsePub := p.Fn("github.com/btcsuite/btcd/btcec", "", "ParsePubKey")
		// the same stated on paths: no feasible path reaches the construction without the edge on which gate holds or
		// the edge on which ParsePubKey succeeded (a parser split into steps joins its branches before constructing)
		everyPathPasses := func(site ssa.Instruction, gate func(an.Atom) bool) bool {
			se := &an.Search{P: p, Fn: fromStr, GoalInstr: func(in ssa.Instruction) bool { return in == site },
				CutEdge: func(from, to *ssa.BasicBlock) bool {
					for _, a := range p.GuardsOnEdge(from, to) {
						if a.If == nil || a.If.Block() != from {
							continue
						}
						if gate(a) || (parsePub != nil && atomNilCmpOfCallErr(a, parsePub)) {
							return true
						}
					}
					return false
				}}
			return se.Run(fromStr.Blocks[0], 0, nil) == nil
		}
		for _, s := range calls(fromStr, newEK) {
			b := s.Block()
			allOnPaths := parsePub != nil
			for _, r := range inRange {
				if !everyPathPasses(s, r.pred) {
					allOnPaths = false
				}
			}
			if allOnPaths {
				key := sk(fromStr) + ":gate:"
				for _, r := range inRange {
					c.OK(key+"private:"+r.name, "every path to the construction passes the test or a successful ParsePubKey", posOf(c, s))
				}
				c.OK(key+"public:on-curve", "every path to the construction passes ParsePubKey's success or the private range tests", posOf(c, s))
				continue
			}
			for _, pr := range b.Preds {
				gs := p.Guards(pr)
				if ea := edgeAtoms(p, pr, b); ea != nil {
					gs = append(gs, *ea)
				}
				private := an.AnyAtom(gs, func(a an.Atom) bool {
					return a.Op == token.EQL && strings.Contains(p.Desc(a.X), "[0]") && a.Y != nil && p.Desc(a.Y) == "0"
				})
				key := sk(fromStr) + ":gate:"
				if private {
					for _, r := range inRange {
						if an.AnyAtom(gs, r.pred) {
							c.OK(key+"private:"+r.name, "dominates construction of a private key", posOf(c, s))
						} else {
							c.Fail(key+"private:"+r.name, "a serialised private key is accepted without the test "+r.name+" (out-of-range key material)", posOf(c, s), an.AtomTexts(gs)...)
						}
					}
				} else {
					okp := parsePub != nil && an.AnyAtom(gs, func(a an.Atom) bool { return atomNilCmpOfCallErr(a, parsePub) })
					if okp {
						c.OK(key+"public:on-curve", "ParsePubKey succeeded", posOf(c, s))
					} else {
						c.Fail(key+"public:on-curve", "a serialised public key is accepted without ParsePubKey succeeding (off-curve point)", posOf(c, s), an.AtomTexts(gs)...)
					}
				}
			}
		}
	}

	// ---- child owns its buffers ----------------------------------------------------------------------------
	c.Rule("child-buffers-fresh", "the key, chain code and parent fingerprint of a derived child are freshly allocated: none is (a slice of) a field of another ExtendedKey, because Zero() wipes them in place", 3)
	if child != nil && newEK != nil {
		names := []string{"version", "key", "chainCode", "parentFP"}
		for _, s := range calls(child, newEK) {
			args := an.CallOf(s).Args
			for i := 1; i <= 3 && i < len(args); i++ {
				tr := &an.Tracer{P: p, ThroughSlice: true, Leaf: func(v ssa.Value) bool {
					if u, ok := v.(*ssa.UnOp); ok && u.Op == token.MUL {
						if _, isFA := u.X.(*ssa.FieldAddr); isFA {
							return true
						}
					}
					return false
				}}
				bad := ""
				for _, o := range tr.Origins(args[i]) {
					if u, ok := o.V.(*ssa.UnOp); ok {
						if fa, isFA := u.X.(*ssa.FieldAddr); isFA {
							if n := an.NamedOf(fa.X.Type()); n != nil && n.Obj() == ek.Obj() {
								bad = p.Desc(o.V)
							}
						}
					}
				}
				key := sk(child) + ":child." + names[i]
				if bad != "" {
					c.Fail(key, "the child's "+names[i]+" aliases "+bad+": Zero() on one key wipes the other's "+names[i]+" (later serialisations/fingerprints are wrong)", posOf(c, s))
				} else {
					c.OK(key, "freshly allocated", posOf(c, s))
				}
			}
		}
	}
	ruleChildPure(c)
	ruleParsedKeyFixedWidth(c)
	ruleNoAppendToKeyFields(c)
	ruleBranchCacheComplete(c) // the signing key is the BIP-32 child of the address's own branch
	ruleSetNetRepoints(c)
	ruleMasterAcceptsEverySeed(c)
}

// edgeAtoms returns the atom of edge from→to.
func edgeAtoms(p *an.Prog, from, to *ssa.BasicBlock) *an.Atom {
	if len(from.Instrs) == 0 {
		return nil
	}
	ifi, ok := from.Instrs[len(from.Instrs)-1].(*ssa.If)
	if !ok || from.Succs[0] == from.Succs[1] {
		return nil
	}
	a := p.MkAtom(ifi.Cond, from.Succs[0] == to, ifi)
	return &a
}

// atomNilCmpOfCallErr: atom is `error result of call to f == nil`.
func atomNilCmpOfCallErr(a an.Atom, f *ssa.Function) bool {
	if a.Op != token.EQL || a.Y == nil || !an.IsNilConst(a.Y) {
		return false
	}
	ex, ok := a.X.(*ssa.Extract)
	if !ok {
		return false
	}
	call, ok := ex.Tuple.(*ssa.Call)
	return ok && call.Call.StaticCallee() == f
}

// paddedAppendLoop recognises the left-padding idiom written in line:
//
//	for i := 0; i < 32-len(k.key); i++ { dst = append(dst, 0) }
//	dst = append(dst, k.key...)
//
// call is the final append of the key (load u of ExtendedKey.key): its destination is the loop-carried slice of a
// counting loop whose bound is 32 - len(k.key) and whose body appends one zero byte; the call sits on the loop's exit.
func paddedAppendLoop(p *an.Prog, call *ssa.Call, u *ssa.UnOp, ek *types.Named) bool {
	if len(call.Call.Args) != 2 || call.Call.Args[1] != ssa.Value(u) {
		return false
	}
	d, ok := call.Call.Args[0].(*ssa.Phi)
	if !ok {
		return false
	}
	h := d.Block()
	ifi, ok := h.Instrs[len(h.Instrs)-1].(*ssa.If)
	if !ok || len(h.Succs) != 2 || h.Succs[1] != call.Block() {
		return false
	}
	cond, ok := ifi.Cond.(*ssa.BinOp)
	if !ok || cond.Op != token.LSS {
		return false
	}
	// the counter: phi(0, counter+1) in the header
	ctr, ok := cond.X.(*ssa.Phi)
	if !ok || ctr.Block() != h {
		return false
	}
	zero, inc := false, false
	for _, e := range ctr.Edges {
		if k, isK := constInt(e); isK && k == 0 {
			zero = true
		} else if bo, isBo := e.(*ssa.BinOp); isBo && bo.Op == token.ADD && bo.X == ssa.Value(ctr) {
			if k, isK := constInt(bo.Y); isK && k == 1 {
				inc = true
			}
		}
	}
	if !zero || !inc {
		return false
	}
	// the bound: 32 - len(k.key)
	sub, ok := cond.Y.(*ssa.BinOp)
	if !ok || sub.Op != token.SUB {
		return false
	}
	if k, isK := constInt(sub.X); !isK || k != 32 {
		return false
	}
	ln, ok := sub.Y.(*ssa.Call)
	if !ok {
		return false
	}
	if b, isB := ln.Call.Value.(*ssa.Builtin); !isB || b.Name() != "len" {
		return false
	}
	if lu, isU := ln.Call.Args[0].(*ssa.UnOp); !isU || !isFieldLoad(lu, ek, "key") {
		return false
	}
	// the body: dst = append(dst, 0)
	pad := false
	for _, e := range d.Edges {
		ap, isCall := e.(*ssa.Call)
		if !isCall || len(ap.Call.Args) != 2 || ap.Call.Args[0] != ssa.Value(d) {
			continue
		}
		if b, isB := ap.Call.Value.(*ssa.Builtin); !isB || b.Name() != "append" {
			continue
		}
		sl, isSl := ap.Call.Args[1].(*ssa.Slice)
		if !isSl {
			continue
		}
		al, isAl := sl.X.(*ssa.Alloc)
		if !isAl {
			continue
		}
		arr, isArr := al.Type().Underlying().(*types.Pointer).Elem().Underlying().(*types.Array)
		if !isArr || arr.Len() != 1 {
			continue
		}
		allZero := true
		for _, r := range *al.Referrers() {
			if ia, isIA := r.(*ssa.IndexAddr); isIA {
				for _, rr := range *ia.Referrers() {
					if st, isSt := rr.(*ssa.Store); isSt {
						if k, isK := constInt(st.Val); !isK || k != 0 {
							allZero = false
						}
					}
				}
			}
		}
		if allZero {
			pad = true
		}
	}
	return pad
}

// isByteArray: t is *[n]byte.
func isByteArray(t types.Type, n int64) bool {
	pt, ok := t.Underlying().(*types.Pointer)
	if !ok {
		return false
	}
	at, ok := pt.Elem().Underlying().(*types.Array)
	if !ok || at.Len() != n {
		return false
	}
	b, ok := at.Elem().Underlying().(*types.Basic)
	return ok && b.Kind() == types.Byte
}
