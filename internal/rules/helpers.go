package rules

import (
	"fmt"
	"go/constant"
	"go/token"
	"go/types"
	"sort"
	"strings"

	"golang.org/x/tools/go/ssa"

	"verif/internal/an"
	"verif/internal/report"
)

// fn resolves an anchor or reports it lost.
func fn(c *report.Ctx, pkg, recv, name string) *ssa.Function {
	f := c.P.Fn(pkg, recv, name)
	if f == nil {
		if recv != "" {
			c.Lost(shortPkg(pkg) + ".(" + recv + ")." + name)
		} else {
			c.Lost(shortPkg(pkg) + "." + name)
		}
	}
	return f
}

// fnOpt resolves without reporting.
func fnOpt(c *report.Ctx, pkg, recv, name string) *ssa.Function { return c.P.Fn(pkg, recv, name) }

func shortPkg(path string) string {
	if i := strings.LastIndex(path, "/"); i >= 0 {
		return path[i+1:]
	}
	return path
}

func sk(f *ssa.Function) string { return an.ShortKey(f) }

// closureSite describes one call of a higher-order wrapper with a function argument.
type closureSite struct {
	Caller  *ssa.Function
	Site    ssa.Instruction
	Closure *ssa.Function // nil when the argument is not a visible function value
}

// wrapperSites finds every module call of wrapper and resolves the function-typed argument argIdx.
func wrapperSites(p *an.Prog, wrapper *ssa.Function, argIdx int) []closureSite {
	var out []closureSite
	for _, f := range p.ModFuncs {
		an.Instrs(f, func(in ssa.Instruction) {
			cc := an.CallOf(in)
			if cc == nil || cc.StaticCallee() != wrapper {
				return
			}
			cs := closureSite{Caller: f, Site: in}
			if argIdx < len(cc.Args) {
				switch v := cc.Args[argIdx].(type) {
				case *ssa.MakeClosure:
					cs.Closure, _ = v.Fn.(*ssa.Function)
				case *ssa.Function:
					cs.Closure = v
				}
			}
			out = append(out, cs)
		})
	}
	sort.Slice(out, func(i, j int) bool {
		return an.FuncKey(out[i].Caller)+p.InstrPos(out[i].Site) < an.FuncKey(out[j].Caller)+p.InstrPos(out[j].Site)
	})
	return out
}

// calls lists instructions of f that statically call callee.
func calls(f *ssa.Function, callee *ssa.Function) []ssa.Instruction {
	var out []ssa.Instruction
	if f == nil || callee == nil {
		return nil
	}
	an.Instrs(f, func(in ssa.Instruction) {
		if cc := an.CallOf(in); cc != nil && cc.StaticCallee() == callee {
			out = append(out, in)
		}
	})
	return out
}

// callsAny lists instructions of f that may call a member of set (resolved).
func callsAny(p *an.Prog, f *ssa.Function, set map[*ssa.Function]bool) []ssa.Instruction {
	if f == nil {
		return nil
	}
	return p.CallSitesTo(f, set)
}

// invokes lists interface invokes in f of a method with this name on a named interface type.
func invokes(f *ssa.Function, ifacePkg, iface, method string) []ssa.Instruction {
	var out []ssa.Instruction
	if f == nil {
		return nil
	}
	an.Instrs(f, func(in ssa.Instruction) {
		cc := an.CallOf(in)
		if cc == nil || !cc.IsInvoke() || cc.Method.Name() != method {
			return
		}
		if n := an.NamedOf(cc.Value.Type()); n != nil && n.Obj().Name() == iface && n.Obj().Pkg() != nil && n.Obj().Pkg().Path() == ifacePkg {
			out = append(out, in)
		}
	})
	return out
}

// cutCalls builds a cut predicate: instruction may call a member of set.
func cutCalls(p *an.Prog, set map[*ssa.Function]bool) func(ssa.Instruction) bool {
	return func(in ssa.Instruction) bool {
		if _, isDefer := in.(*ssa.Defer); isDefer {
			return false
		}
		return p.IsCallTo(in, set)
	}
}

// mustPass records the obligation "every success return of f passes a call to set".
func mustPass(c *report.Ctx, f *ssa.Function, set map[*ssa.Function]bool, what string) {
	if f == nil {
		return
	}
	for m := range set {
		if m == nil {
			delete(set, m)
		}
	}
	if len(set) == 0 {
		return
	}
	construct := sk(f) + "=>" + what
	w := c.P.MustPassOnSuccess(f, cutCalls(c.P, set))
	if w != nil {
		c.Fail(construct, "a success return of "+sk(f)+" is reachable without passing "+what, c.P.Pos(f.Pos()), w...)
	} else {
		c.OK(construct, "every success return passes "+what, c.P.Pos(f.Pos()))
	}
}

// fieldStoreSites lists stores into field fname of struct type (by pointer) within f.
// It also reports stores to sub-fields (h.bestBlock.Height).
func fieldStores(f *ssa.Function, named *types.Named, fname string) []ssa.Instruction {
	var out []ssa.Instruction
	an.Instrs(f, func(in ssa.Instruction) {
		st, ok := in.(*ssa.Store)
		if !ok {
			return
		}
		if addrRootsAtField(st.Addr, named, fname) {
			out = append(out, in)
		}
	})
	return out
}

// addrRootsAtField: addr is &x.fname or &x.fname.sub… with x of type *named.
func addrRootsAtField(addr ssa.Value, named *types.Named, fname string) bool {
	for {
		fa, ok := addr.(*ssa.FieldAddr)
		if !ok {
			if ia, ok := addr.(*ssa.IndexAddr); ok {
				addr = ia.X
				continue
			}
			return false
		}
		if n := an.NamedOf(fa.X.Type()); n != nil && n.Obj() == named.Obj() {
			st := n.Underlying().(*types.Struct)
			if an.FName(st, fa.Field) == fname {
				return true
			}
		}
		addr = fa.X
	}
}

// isFieldLoad: v is a load (*) of &x.fname with x of type *named (possibly through nested loads).
func isFieldLoad(v ssa.Value, named *types.Named, fname string) bool {
	u, ok := v.(*ssa.UnOp)
	if !ok || u.Op != token.MUL {
		return false
	}
	fa, ok := u.X.(*ssa.FieldAddr)
	if !ok {
		return false
	}
	n := an.NamedOf(fa.X.Type())
	if n == nil || n.Obj() != named.Obj() {
		return false
	}
	return an.FName(n.Underlying().(*types.Struct), fa.Field) == fname
}

// mapMutations lists MapUpdate instructions (and delete() calls) in f whose map operand is a load of named.fname.
func mapMutations(f *ssa.Function, named *types.Named, fname string) []ssa.Instruction {
	var out []ssa.Instruction
	an.Instrs(f, func(in ssa.Instruction) {
		switch x := in.(type) {
		case *ssa.MapUpdate:
			if isFieldLoad(x.Map, named, fname) {
				out = append(out, in)
			}
		case *ssa.Call:
			if b, ok := x.Call.Value.(*ssa.Builtin); ok && b.Name() == "delete" && len(x.Call.Args) > 0 && isFieldLoad(x.Call.Args[0], named, fname) {
				out = append(out, in)
			}
		}
	})
	return out
}

func posOf(c *report.Ctx, in ssa.Instruction) string { return c.P.InstrPos(in) }

// siteKey gives a line-free key for the n-th call to callee inside f.
func siteKey(f *ssa.Function, what string, n int) string {
	if n > 0 {
		return fmt.Sprintf("%s:%s#%d", sk(f), what, n)
	}
	return sk(f) + ":" + what
}

// calleeName renders the (first) callee of a call-like instruction.
func calleeName(p *an.Prog, in ssa.Instruction) string {
	cc := an.CallOf(in)
	if cc == nil {
		return "?"
	}
	if cc.IsInvoke() {
		n := an.NamedOf(cc.Value.Type())
		if n != nil {
			return n.Obj().Name() + "." + cc.Method.Name()
		}
		return cc.Method.Name()
	}
	if f := cc.StaticCallee(); f != nil {
		return sk(f)
	}
	if b, ok := cc.Value.(*ssa.Builtin); ok {
		return b.Name()
	}
	return "dynamic"
}

// hasGuard reports whether instruction in is guarded by an atom whose text satisfies match.
func hasGuard(p *an.Prog, in ssa.Instruction, match func(string) bool) bool {
	return an.HasAtom(p.GuardsOf(in), match)
}

func contains(sub string) func(string) bool {
	return func(s string) bool { return strings.Contains(s, sub) }
}

// dominatedBySuccessOf: site is dominated by the success edge of the given call instruction.
func dominatedBySuccessOf(p *an.Prog, site ssa.Instruction, call ssa.Instruction) bool {
	cv, ok := call.(ssa.Value)
	if !ok {
		return false
	}
	for _, sb := range p.SuccessBlocks(cv) {
		if sb.Dominates(site.Block()) {
			return true
		}
	}
	return false
}

// constString returns the exact constant value of a package-level constant object.
func constString(o types.Object) string {
	if k, ok := o.(*types.Const); ok {
		return k.Val().ExactString()
	}
	return "?"
}

// stripConv removes Convert/ChangeType wrappers.
func stripConv(v ssa.Value) ssa.Value {
	for {
		switch x := v.(type) {
		case *ssa.Convert:
			v = x.X
		case *ssa.ChangeType:
			v = x.X
		default:
			return v
		}
	}
}

// loopHeaderOf returns the innermost loop header dominating b: the nearest dominator that is
// the target of a back edge (one of its predecessors is dominated by it).
func loopHeaderOf(b *ssa.BasicBlock) *ssa.BasicBlock {
	for x := b; x != nil; x = x.Idom() {
		for _, pr := range x.Preds {
			if x.Dominates(pr) && loopContains(x, pr, b) {
				return x
			}
		}
	}
	return nil
}

// loopContains: b belongs to the natural loop of back edge latch→header.
func loopContains(header, latch, b *ssa.BasicBlock) bool {
	seen := map[*ssa.BasicBlock]bool{header: true}
	stack := []*ssa.BasicBlock{latch}
	for len(stack) > 0 {
		x := stack[len(stack)-1]
		stack = stack[:len(stack)-1]
		if seen[x] {
			continue
		}
		seen[x] = true
		stack = append(stack, x.Preds...)
	}
	return seen[b]
}

// perIteration: f ranges over its slice parameter #paramIdx; in every iteration the loop header
// must not be reachable again (nor the loop left on a success path) without passing a call to set.
func perIteration(c *report.Ctx, f *ssa.Function, paramIdx int, set map[*ssa.Function]bool, what string) {
	if f == nil || paramIdx >= len(f.Params) {
		return
	}
	p := c.P
	par := f.Params[paramIdx]
	construct := sk(f) + "=>each:" + what
	var start ssa.Instruction
	cutOf := cutCalls(p, set)
	inLoopOf := func(hdr *ssa.BasicBlock) bool { // does the loop headed by hdr contain a call to set?
		found := false
		an.Instrs(f, func(in ssa.Instruction) {
			if found || !cutOf(in) {
				return
			}
			for h := loopHeaderOf(in.Block()); h != nil; h = outerLoopHeader(h) {
				if h == hdr {
					found = true
				}
			}
		})
		return found
	}
	var first ssa.Instruction
	an.Instrs(f, func(in ssa.Instruction) {
		if ia, ok := in.(*ssa.IndexAddr); ok && ia.X == ssa.Value(par) {
			if first == nil {
				first = in
			}
			// the loop that is meant is the one that makes the call (another loop over the same slice may precede it)
			if h := loopHeaderOf(in.Block()); start == nil && h != nil && inLoopOf(h) {
				start = in
			}
		}
	})
	if start == nil {
		start = first
	}
	if start == nil {
		c.Fail(construct, "no loop over parameter "+par.Name()+" found", p.Pos(f.Pos()))
		return
	}
	hdr := loopHeaderOf(start.Block())
	if hdr == nil {
		c.Fail(construct, "element access of "+par.Name()+" is not inside a loop", posOf(c, start))
		return
	}
	idx := 0
	for i, in := range start.Block().Instrs {
		if in == start {
			idx = i
		}
	}
	w := p.ReachBlockWithout(start.Block(), idx, nil, func(b, pred *ssa.BasicBlock) bool { return b == hdr }, cutCalls(p, set))
	if w != nil {
		c.Fail(construct, "an iteration over "+par.Name()+" can complete without calling "+what, posOf(c, start), w...)
		return
	}
	c.OK(construct, "every iteration over "+par.Name()+" calls "+what+" before the next one", posOf(c, start))
}

// errSource names where an error value comes from (callee of the producing call), line-free.
func errSource(p *an.Prog, v ssa.Value) string {
	if ex, ok := v.(*ssa.Extract); ok {
		v = ex.Tuple
	}
	switch x := v.(type) {
	case *ssa.Call:
		return calleeName(p, x)
	case *ssa.Phi:
		var parts []string
		seen := map[string]bool{}
		for _, e := range x.Edges {
			s := errSource(p, e)
			if !seen[s] {
				seen[s] = true
				parts = append(parts, s)
			}
		}
		sort.Strings(parts)
		return strings.Join(parts, "|")
	}
	return p.Desc(v)
}

// pairedInIteration: after instruction site (inside a loop or not), neither the loop header of
// site's loop nor a success return may be reached without passing a call to set. Blocks guarded
// by an atom satisfying excuse count as satisfied (the obligation does not apply there).
func pairedInIteration(c *report.Ctx, key string, site ssa.Instruction, set map[*ssa.Function]bool, what string, excuse func(an.Atom) bool, excuseWhy string) {
	p := c.P
	b := site.Block()
	idx := 0
	for i, in := range b.Instrs {
		if in == site {
			idx = i + 1
		}
	}
	hdr := loopHeaderOf(b)
	cut := cutCalls(p, set)
	excused := false
	s := &an.Search{P: p, Fn: b.Parent(),
		Cut: func(in ssa.Instruction) bool {
			if cut(in) {
				return true
			}
			return false
		},
		GoalBlock: func(nb, pred *ssa.BasicBlock) bool {
			return hdr != nil && nb == hdr
		},
		GoalReturn: func(r *ssa.Return, pred *ssa.BasicBlock) bool {
			return p.ClassifyReturn(r, pred) != an.RetError
		},
	}
	if excuse != nil {
		inner := s.Cut
		s.Cut = func(in ssa.Instruction) bool {
			if inner(in) {
				return true
			}
			// first instruction of an excused block cuts the path
			if in == in.Block().Instrs[0] && in.Block() != b && an.AnyAtom(p.Guards(in.Block()), excuse) {
				excused = true
				return true
			}
			return false
		}
	}
	w := s.Run(b, idx, nil)
	if w != nil {
		c.Fail(key, "after "+calleeName(p, site)+" the iteration/function can complete successfully without "+what, posOf(c, site), w...)
		return
	}
	d := "always followed by " + what
	if excused {
		d += " (not required where " + excuseWhy + ")"
	}
	c.OK(key, d, posOf(c, site))
}

// fieldLoads lists loads/addresses of field fname of named struct type in f.
func fieldReads(f *ssa.Function, named *types.Named, fname string) []ssa.Instruction {
	var out []ssa.Instruction
	an.Instrs(f, func(in ssa.Instruction) {
		switch x := in.(type) {
		case *ssa.FieldAddr:
			if n := an.NamedOf(x.X.Type()); n != nil && n.Obj() == named.Obj() && an.FName(n.Underlying().(*types.Struct), x.Field) == fname {
				// a FieldAddr used only as a store target is a write, not a read
				onlyStore := true
				for _, r := range *x.Referrers() {
					if st, ok := r.(*ssa.Store); ok && st.Addr == ssa.Value(x) {
						continue
					}
					onlyStore = false
				}
				if !onlyStore {
					out = append(out, in)
				}
			}
		case *ssa.Field:
			if n := an.NamedOf(x.X.Type()); n != nil && n.Obj() == named.Obj() && an.FName(n.Underlying().(*types.Struct), x.Field) == fname {
				out = append(out, in)
			}
		}
	})
	return out
}

// outerLoopHeader returns the header of the innermost loop that strictly contains loop header h.
func outerLoopHeader(h *ssa.BasicBlock) *ssa.BasicBlock {
	for x := h.Idom(); x != nil; x = x.Idom() {
		for _, pr := range x.Preds {
			if x.Dominates(pr) && loopContains(x, pr, h) {
				return x
			}
		}
	}
	return nil
}

// reachIn: root, its closures and the functions of the given packages reachable from it — the place to look for an
// anchor that a maintainer may have moved into a helper or turned from a closure into a method.
func reachIn(p *an.Prog, root *ssa.Function, pkgs ...string) []*ssa.Function {
	if root == nil {
		return nil
	}
	want := map[string]bool{}
	for _, k := range pkgs {
		want[k] = true
	}
	reached, _ := p.Reach([]*ssa.Function{root}, an.ReachOpts{Within: func(f *ssa.Function) bool {
		pk := an.FuncPkg(f)
		return pk != nil && want[pk.Path()]
	}})
	var out []*ssa.Function
	for f := range reached {
		pk := an.FuncPkg(f)
		if f.Blocks != nil && pk != nil && want[pk.Path()] {
			out = append(out, f)
		}
	}
	sort.Slice(out, func(i, j int) bool { return sk(out[i]) < sk(out[j]) })
	return out
}

// apiOwner names a finding's site by the exported function it belongs to: an unexported helper with a single
// module caller is attributed to that caller (transitively), so that factoring a block out of a method does not
// rename the construct a known finding is keyed by.
func apiOwner(p *an.Prog, f *ssa.Function) *ssa.Function {
	for i := 0; i < 4; i++ {
		if f.Object() == nil || f.Object().Exported() {
			return f
		}
		var from *ssa.Function
		n := 0
		for _, cl := range p.Callers(f) {
			if cl.From != nil && cl.From != f && p.InModule(cl.From) {
				if from != cl.From {
					n++
				}
				from = cl.From
			}
		}
		if n != 1 || from == nil {
			return f
		}
		f = from
	}
	return f
}

// nm: the current name of a resolved anchor function ("" if it did not resolve) — rules that recognise a call in a
// rendered description use it instead of a literal, so that a renamed anchor keeps matching.
func nm(f *ssa.Function) string {
	if f == nil {
		return "\x00unresolved"
	}
	return an.CanonNameOf(f) // the recorded name, if the function was renamed
}

// onlyParamOfType: the single parameter of f (receiver excluded) whose type prints as t, or nil.
func onlyParamOfType(f *ssa.Function, t string) *ssa.Parameter {
	var out *ssa.Parameter
	for i, par := range f.Params {
		if i == 0 && f.Signature.Recv() != nil {
			continue
		}
		if par.Type().String() == t {
			if out != nil {
				return nil
			}
			out = par
		}
	}
	return out
}

// closuresOf: the function literals of f and — when the tree has functions the reviewed tree did not have — those of
// them (in f's package) that f reaches through the call graph: a literal turned into a method of a small struct, a
// callback object implementing a library interface. On the reviewed tree this is just f.AnonFuncs.
func closuresOf(p *an.Prog, f *ssa.Function) []*ssa.Function {
	if f == nil {
		return nil
	}
	out := append([]*ssa.Function{}, f.AnonFuncs...)
	fresh := p.Fresh()
	if len(fresh) == 0 {
		return out
	}
	isFresh := map[*ssa.Function]bool{}
	for _, g := range fresh {
		if an.FuncPkg(g) == an.FuncPkg(f) {
			isFresh[g] = true
		}
	}
	if len(isFresh) == 0 {
		return out
	}
	reached, _ := p.Reach([]*ssa.Function{f}, an.ReachOpts{})
	// a callback object: f builds a value of a (new) struct type and hands it on — its methods run on f's behalf
	made := map[*types.TypeName]bool{}
	for _, h := range append([]*ssa.Function{f}, f.AnonFuncs...) {
		an.Instrs(h, func(in ssa.Instruction) {
			var t types.Type
			switch x := in.(type) {
			case *ssa.Alloc:
				t = x.Type()
			case *ssa.MakeInterface:
				t = x.X.Type()
			}
			if t != nil {
				if n := an.NamedOf(t); n != nil {
					made[n.Obj()] = true
				}
			}
		})
	}
	for g := range isFresh {
		if rv := g.Signature.Recv(); rv != nil {
			if n := an.NamedOf(rv.Type()); n != nil && made[n.Obj()] {
				reached[g] = true
			}
		}
	}
	var add []*ssa.Function
	for g := range reached {
		if isFresh[g] && g != f {
			add = append(add, g)
			add = append(add, g.AnonFuncs...)
		}
	}
	sort.Slice(add, func(i, j int) bool { return sk(add[i]) < sk(add[j]) })
	return append(out, add...)
}

// deferredCallAt: does a `defer` registered on every path to ret (its block dominates ret's) make a call matching
// isCut run when the function returns through ret? Accepted shapes: the deferred call itself matches; a deferred
// function literal every path of which passes a matching call; a deferred literal whose matching call is skipped
// only under tests of one captured boolean cell (`if !finished { tx.Rollback() }`) when no store that flips the
// cell to the skipping value can reach ret in the parent's CFG.
func deferredCallAt(p *an.Prog, ret *ssa.Return, isCut func(ssa.Instruction) bool) bool {
	f := ret.Parent()
	for _, b := range f.Blocks {
		if !b.Dominates(ret.Block()) {
			continue
		}
		for _, in := range b.Instrs {
			d, ok := in.(*ssa.Defer)
			if !ok {
				continue
			}
			if b == ret.Block() {
				// must come before the return in the same block: a Return is the last instruction, so it does
			}
			if isCut(d) {
				return true
			}
			mc, ok := d.Call.Value.(*ssa.MakeClosure)
			if !ok {
				continue
			}
			lit, _ := mc.Fn.(*ssa.Function)
			if lit == nil || len(lit.Blocks) == 0 {
				continue
			}
			// (a) every path of the literal passes a matching call
			s := &an.Search{P: p, Fn: lit, Cut: isCut, GoalReturn: func(*ssa.Return, *ssa.BasicBlock) bool { return true }}
			if s.Run(lit.Blocks[0], 0, nil) == nil {
				return true
			}
			// (b) skipped only under tests of one captured boolean cell
			for i, fv := range lit.FreeVars {
				if i >= len(mc.Bindings) {
					break
				}
				cell, ok := mc.Bindings[i].(*ssa.Alloc)
				if !ok || freeVarWritten(fv) {
					continue
				}
				pt, ok := cell.Type().Underlying().(*types.Pointer)
				if !ok {
					continue
				}
				if bt, ok := pt.Elem().Underlying().(*types.Basic); !ok || bt.Kind() != types.Bool {
					continue
				}
				for _, want := range []bool{false, true} {
					// with *cell == want, does every path of the literal pass a matching call?
					s := &an.Search{P: p, Fn: lit, Cut: isCut, GoalReturn: func(*ssa.Return, *ssa.BasicBlock) bool { return true }}
					s.CutEdge = func(from, to *ssa.BasicBlock) bool {
						ifi, ok := from.Instrs[len(from.Instrs)-1].(*ssa.If)
						if !ok {
							return false
						}
						cond, pol := ifi.Cond, true
						for {
							if u, ok := cond.(*ssa.UnOp); ok && u.Op == token.NOT {
								cond, pol = u.X, !pol
								continue
							}
							break
						}
						ld, ok := cond.(*ssa.UnOp)
						if !ok || ld.Op != token.MUL || ld.X != ssa.Value(fv) {
							return false
						}
						// value of the condition when *cell == want
						cv := want == pol
						taken := from.Succs[0]
						if !cv {
							taken = from.Succs[1]
						}
						return to != taken // the other edge is infeasible: do not follow it
					}
					if s.Run(lit.Blocks[0], 0, nil) != nil {
						continue
					}
					// the cell must hold `want` at ret: its stores of anything else must not reach ret
					okCell := true
					sawInit := !want // a fresh bool cell is false
					for _, r := range *cell.Referrers() {
						st, ok := r.(*ssa.Store)
						if !ok || st.Addr != ssa.Value(cell) {
							continue
						}
						k, isConst := st.Val.(*ssa.Const)
						if isConst && k.Value != nil && constant.BoolVal(k.Value) == want {
							if st.Block().Dominates(d.Block()) {
								sawInit = true
							}
							continue
						}
						if blockReaches(st.Block(), ret.Block()) {
							okCell = false
						}
					}
					if okCell && sawInit {
						return true
					}
				}
			}
		}
	}
	return false
}

func freeVarWritten(fv *ssa.FreeVar) bool {
	for _, r := range *fv.Referrers() {
		switch x := r.(type) {
		case *ssa.Store:
			if x.Addr == ssa.Value(fv) {
				return true
			}
		case *ssa.MakeClosure:
			return true
		}
	}
	return false
}

// blockReaches: plain CFG reachability (from's successors onward; from == to counts when to is in a cycle or equal).
func blockReaches(from, to *ssa.BasicBlock) bool {
	if from == to {
		return true
	}
	seen := map[*ssa.BasicBlock]bool{from: true}
	q := []*ssa.BasicBlock{from}
	for len(q) > 0 {
		b := q[0]
		q = q[1:]
		for _, s := range b.Succs {
			if s == to {
				return true
			}
			if !seen[s] {
				seen[s] = true
				q = append(q, s)
			}
		}
	}
	return false
}

// withLiterals: f and the function literals written inside it (recursively) — the unit a rule about "what f does"
// looks at, so that a loop body moved into a callback literal is still part of f.
func withLiterals(f *ssa.Function) []*ssa.Function {
	if f == nil {
		return nil
	}
	out := []*ssa.Function{f}
	for _, l := range f.AnonFuncs {
		out = append(out, withLiterals(l)...)
	}
	return out
}

// instrsWithLiterals visits the instructions of f and of its literals.
func instrsWithLiterals(f *ssa.Function, fn func(ssa.Instruction)) {
	for _, g := range withLiterals(f) {
		an.Instrs(g, fn)
	}
}

// foldConst: the constant value of v when it is a constant, a conversion of one, a single-store local holding one,
// or a comparison / arithmetic of such (the shape an inlined helper's constant argument takes); nil otherwise.
func foldConst(v ssa.Value, depth int) constant.Value {
	if depth > 6 {
		return nil
	}
	switch x := v.(type) {
	case *ssa.Const:
		return x.Value
	case *ssa.Convert:
		return foldConst(x.X, depth+1)
	case *ssa.ChangeType:
		return foldConst(x.X, depth+1)
	case *ssa.UnOp:
		if x.Op == token.MUL {
			if r := an.ResolveCell(x); r != ssa.Value(x) {
				return foldConst(r, depth+1)
			}
			return nil
		}
		if x.Op == token.NOT {
			if k := foldConst(x.X, depth+1); k != nil && k.Kind() == constant.Bool {
				return constant.MakeBool(!constant.BoolVal(k))
			}
		}
	case *ssa.Phi:
		var k constant.Value
		for _, e := range x.Edges {
			ke := foldConst(e, depth+1)
			if ke == nil || (k != nil && !constant.Compare(k, token.EQL, ke)) {
				return nil
			}
			k = ke
		}
		return k
	case *ssa.BinOp:
		a, b := foldConst(x.X, depth+1), foldConst(x.Y, depth+1)
		if a == nil || b == nil || a.Kind() != b.Kind() {
			return nil
		}
		switch x.Op {
		case token.EQL, token.NEQ, token.LSS, token.LEQ, token.GTR, token.GEQ:
			return constant.MakeBool(constant.Compare(a, x.Op, b))
		}
	}
	return nil
}

// soleNonNil: v seen through the merges an inlined helper's results go through — a single-store cell, a phi whose
// other edges are the nil of the helper's error returns: the one value it is when it is not nil.
func soleNonNil(v ssa.Value) ssa.Value {
	for i := 0; i < 6; i++ {
		v = an.ResolveCell(v)
		ph, ok := v.(*ssa.Phi)
		if !ok {
			return v
		}
		var one ssa.Value
		for _, e := range ph.Edges {
			if an.IsNilConst(e) {
				continue
			}
			if one != nil && one != e {
				return v
			}
			one = e
		}
		if one == nil {
			return v
		}
		v = one
	}
	return v
}

// reachesWithout: is there a feasible path (nil-ness of errors and boolean flags followed along the path) from the
// start of block from to instruction goal that does not execute instruction cut? The semantic form of "cut dominates
// goal within this iteration" — an inlined helper's early exits join before the caller tests what it returned, so
// the later lookups of the helper do not dominate structurally although no path that skipped them goes on.
func reachesWithout(p *an.Prog, f *ssa.Function, from *ssa.BasicBlock, cut, goal ssa.Instruction) bool {
	s := &an.Search{P: p, Fn: f,
		Cut:       func(in ssa.Instruction) bool { return in == cut },
		GoalInstr: func(in ssa.Instruction) bool { return in == goal }}
	return s.Run(from, 0, nil) != nil
}

// forwardsTo: f does nothing but call g with its own parameters, in order, and return g's results, in order.
func forwardsTo(f, g *ssa.Function) bool {
	if f == nil || g == nil || len(f.Blocks) != 1 || f.Signature.Recv() != nil {
		return false
	}
	var call *ssa.Call
	var ret *ssa.Return
	for _, in := range f.Blocks[0].Instrs {
		switch x := in.(type) {
		case *ssa.Call:
			if call != nil {
				return false
			}
			call = x
		case *ssa.Extract:
		case *ssa.Return:
			ret = x
		case *ssa.DebugRef:
		default:
			return false
		}
	}
	if call == nil || ret == nil || call.Call.StaticCallee() != g || len(call.Call.Args) != len(f.Params) {
		return false
	}
	for i, a := range call.Call.Args {
		if a != ssa.Value(f.Params[i]) {
			return false
		}
	}
	for i, r := range ret.Results {
		if len(ret.Results) == 1 {
			if r != ssa.Value(call) {
				return false
			}
			continue
		}
		ex, ok := r.(*ssa.Extract)
		if !ok || ex.Tuple != ssa.Value(call) || ex.Index != i {
			return false
		}
	}
	return true
}
