package rules

import (
	"fmt"
	"go/constant"
	"go/token"
	"go/types"
	"sort"
	"strings"

	"golang.org/x/tools/go/ssa"

	"verif/internal/an"
	"verif/internal/report"
)

// bucketOp is one (operation site, bucket binding) pair of the wallet's key/value schema.
type bucketOp struct {
	Fn     *ssa.Function
	Site   ssa.Instruction
	Method string
	Bucket string // label: StoreBucketMeta field / keystore bucket description
	Ascent []ssa.Instruction
	Keys   []string // key width classes (Put/Get/Delete)
	Vals   []string // value provenance (Put): "valueof:<bucket>" for verbatim cross reads
	Ctx    string   // outermost function of the binding context (for reports)
}

var schemaCache = map[*an.Prog][]bucketOp{}

func isBucketIface(t types.Type) bool {
	n := an.NamedOf(t)
	return n != nil && n.Obj().Pkg() != nil && n.Obj().Pkg().Path() == pkgDB && n.Obj().Name() == "Bucket"
}

func isNamedIface(t types.Type, pkg, name string) bool {
	n := an.NamedOf(t)
	return n != nil && n.Obj().Pkg() != nil && n.Obj().Pkg().Path() == pkg && n.Obj().Name() == name
}

// bucketLeaf: values at which a Bucket is produced.
func bucketLeaf(v ssa.Value) bool {
	call, ok := v.(*ssa.Call)
	if !ok {
		if ex, isEx := v.(*ssa.Extract); isEx {
			call, ok = ex.Tuple.(*ssa.Call)
			if !ok {
				return false
			}
		} else {
			return false
		}
	}
	cc := &call.Call
	if cc.IsInvoke() {
		switch cc.Method.Name() {
		case "FetchBucket", "Bucket", "NewBucket", "TopLevelBucket", "CreateTopLevelBucket":
			return true
		}
		return false
	}
	if f := cc.StaticCallee(); f != nil && f.Pkg != nil && f.Pkg.Pkg.Path() == pkgDB && f.Name() == "GetOrCreateBucket" {
		return true
	}
	return false
}

// bucketLabel names the bucket produced at leaf v (in context stack/ascent).
func bucketLabel(p *an.Prog, o an.Origin) string {
	v := o.V
	if ex, ok := v.(*ssa.Extract); ok {
		v = ex.Tuple
	}
	call := v.(*ssa.Call)
	cc := &call.Call
	var arg ssa.Value
	name := ""
	if cc.IsInvoke() {
		name = cc.Method.Name()
		if len(cc.Args) > 0 {
			arg = cc.Args[0]
		}
	} else {
		name = "GetOrCreateBucket"
		if len(cc.Args) > 1 {
			arg = cc.Args[1]
		}
	}
	if arg == nil {
		return name + "()"
	}
	// resolve the argument (meta field or name constant) in the same context
	tr := &an.Tracer{P: p, Follow: o.Ascent, Leaf: func(x ssa.Value) bool {
		switch y := x.(type) {
		case *ssa.UnOp:
			_, isFA := y.X.(*ssa.FieldAddr)
			_, isG := y.X.(*ssa.Global)
			return y.Op == token.MUL && (isFA || isG)
		case *ssa.Const:
			return true
		}
		return false
	}}
	var labels []string
	for _, ao := range tr.OriginsFrom(arg, o.Stack) {
		d := p.Desc(ao.V)
		if i := strings.LastIndex(d, "."); i >= 0 && !strings.HasPrefix(d, "\"") {
			d = d[i+1:]
		}
		labels = append(labels, d)
	}
	labels = uniq(labels)
	if name == "FetchBucket" {
		return strings.Join(labels, "|")
	}
	return name + "(" + strings.Join(labels, "|") + ")"
}

func uniq(s []string) []string {
	sort.Strings(s)
	var out []string
	for i, x := range s {
		if i == 0 || x != s[i-1] {
			out = append(out, x)
		}
	}
	return out
}

func constInt(v ssa.Value) (int64, bool) {
	c, ok := v.(*ssa.Const)
	if !ok || c.Value == nil || c.Value.Kind() != constant.Int {
		return 0, false
	}
	return c.Int64(), true
}

// keyLeaf decides where the key trace stops.
func keyLeaf(v ssa.Value) bool {
	switch x := v.(type) {
	case *ssa.MakeSlice, *ssa.Const, *ssa.Global, *ssa.Alloc:
		return true
	case *ssa.Slice:
		_, lok := constInt(x.Low)
		_, hok := constInt(x.High)
		if x.High != nil && hok && (x.Low == nil || lok) {
			return true
		}
		if x.Low == nil && x.High == nil {
			if pt, ok := x.X.Type().Underlying().(*types.Pointer); ok {
				if _, isArr := pt.Elem().Underlying().(*types.Array); isArr {
					return true
				}
			}
			return false // full slice of a slice: look through
		}
		return true // partial slice with non-constant bound: opaque
	case *ssa.Convert:
		return true
	case *ssa.Call:
		if _, isB := x.Call.Value.(*ssa.Builtin); isB {
			return true
		}
		if x.Call.IsInvoke() {
			return true
		}
	case *ssa.UnOp:
		if x.Op == token.MUL {
			if _, ok := x.X.(*ssa.FieldAddr); ok {
				return true
			}
			if _, ok := x.X.(*ssa.Global); ok {
				return true
			}
		}
	}
	return false
}

// keyClass names the width class of a key origin.
func keyClass(p *an.Prog, o an.Origin, follow []ssa.Instruction) string {
	switch x := o.V.(type) {
	case *ssa.MakeSlice:
		if n, ok := constInt(x.Len); ok {
			return fmt.Sprintf("len:%d", n)
		}
		return "make@" + sk(x.Parent())
	case *ssa.Const:
		if x.Value == nil {
			return "nil"
		}
		return "const"
	case *ssa.Slice:
		lo, lok := int64(0), true
		if x.Low != nil {
			lo, lok = constInt(x.Low)
		}
		if x.High != nil {
			if hi, hok := constInt(x.High); hok && lok {
				return fmt.Sprintf("len:%d", hi-lo)
			}
		}
		if x.Low == nil && x.High == nil {
			if pt, ok := x.X.Type().Underlying().(*types.Pointer); ok {
				if arr, isArr := pt.Elem().Underlying().(*types.Array); isArr {
					return fmt.Sprintf("len:%d", arr.Len())
				}
			}
		}
		return "opaque:slice@" + sk(x.Parent())
	case *ssa.Convert:
		if b, ok := x.X.Type().Underlying().(*types.Basic); ok && b.Info()&types.IsString != 0 {
			return "str"
		}
		return "opaque:convert"
	case *ssa.Call:
		if b, isB := x.Call.Value.(*ssa.Builtin); isB {
			return b.Name() + "@" + sk(x.Parent())
		}
		if x.Call.IsInvoke() && x.Call.Method.Name() == "Key" && isNamedIface(x.Call.Value.Type(), pkgDB, "Iterator") {
			// bucket of the iterator
			tr := &an.Tracer{P: p, Follow: follow, Leaf: func(v ssa.Value) bool {
				c, ok := v.(*ssa.Call)
				return ok && c.Call.IsInvoke() && c.Call.Method.Name() == "NewIterator"
			}}
			var bl []string
			for _, io := range tr.OriginsFrom(x.Call.Value, o.Stack) {
				if c, ok := io.V.(*ssa.Call); ok && c.Call.IsInvoke() && c.Call.Method.Name() == "NewIterator" {
					btr := &an.Tracer{P: p, Follow: follow, Leaf: bucketLeaf}
					for _, bo := range btr.OriginsFrom(c.Call.Value, io.Stack) {
						if bucketLeaf(bo.V) {
							bl = append(bl, bucketLabel(p, bo))
						}
					}
				}
			}
			bl = uniq(bl)
			if len(bl) > 0 {
				return "keyof:" + strings.Join(bl, "|")
			}
			return "opaque:Iterator.Key"
		}
		return "opaque:" + calleeName(p, x)
	case *ssa.UnOp:
		if fa, ok := x.X.(*ssa.FieldAddr); ok {
			d := p.Desc(x)
			_ = fa
			if strings.HasSuffix(d, "Entry.Key") {
				return "entry-key"
			}
			return "field:" + d
		}
		if g, ok := x.X.(*ssa.Global); ok {
			return "global:" + an.GName(g)
		}
	case *ssa.Global:
		return "global:" + x.Name()
	case *ssa.Alloc:
		return "opaque:alloc"
	case *ssa.Parameter:
		return "entry-param:" + sk(x.Parent())
	}
	return "opaque:" + p.Desc(o.V)
}

// valueLeaf: stop at bucket reads.
func valueLeaf(v ssa.Value) bool {
	if ex, ok := v.(*ssa.Extract); ok {
		v = ex.Tuple
	}
	switch x := v.(type) {
	case *ssa.Call:
		if x.Call.IsInvoke() {
			return true
		}
		if _, isB := x.Call.Value.(*ssa.Builtin); isB {
			return true
		}
	case *ssa.MakeSlice, *ssa.Const, *ssa.Convert:
		return true
	case *ssa.UnOp:
		if x.Op == token.MUL {
			if _, ok := x.X.(*ssa.FieldAddr); ok {
				return true
			}
		}
	}
	return false
}

// schemaOps computes the operation table of the module (cached per program).
func schemaOps(p *an.Prog) []bucketOp {
	if ops, ok := schemaCache[p]; ok {
		return ops
	}
	var ops []bucketOp
	for _, f := range p.ModFuncs {
		pk := an.FuncPkg(f)
		if pk == nil {
			continue
		}
		switch pk.Path() {
		case pkgTxmgr, pkgKeystore, pkgWallet:
		default:
			continue
		}
		an.Instrs(f, func(in ssa.Instruction) {
			cc := an.CallOf(in)
			if cc == nil || !cc.IsInvoke() || !isBucketIface(cc.Value.Type()) {
				return
			}
			m := cc.Method.Name()
			switch m {
			case "Put", "Get", "Delete", "NewIterator", "GetByPrefix", "Clear", "DeleteBucket":
			default:
				return
			}
			btr := &an.Tracer{P: p, Leaf: bucketLeaf}
			for _, bo := range btr.Origins(cc.Value) {
				op := bucketOp{Fn: f, Site: in, Method: m, Ascent: bo.Ascent}
				if bucketLeaf(bo.V) {
					op.Bucket = bucketLabel(p, bo)
				} else {
					op.Bucket = "?" + p.Desc(bo.V)
				}
				op.Ctx = sk(f)
				if len(bo.Ascent) > 0 {
					op.Ctx = sk(bo.Ascent[len(bo.Ascent)-1].Parent())
				}
				if (m == "Put" || m == "Get" || m == "Delete") && len(cc.Args) > 0 {
					ktr := &an.Tracer{P: p, Follow: bo.Ascent, Leaf: keyLeaf}
					var ks []string
					for _, ko := range ktr.Origins(cc.Args[0]) {
						ks = append(ks, keyClass(p, ko, bo.Ascent))
					}
					op.Keys = uniq(ks)
				}
				if m == "Put" && len(cc.Args) > 1 {
					vtr := &an.Tracer{P: p, Follow: bo.Ascent, Leaf: valueLeaf, ThroughSlice: true}
					var vs []string
					for _, vo := range vtr.Origins(cc.Args[1]) {
						if vo.ViaArg {
							continue // passed through a function as an argument: transformed
						}
						vv := vo.V
						if ex, ok := vv.(*ssa.Extract); ok {
							vv = ex.Tuple
						}
						call, ok := vv.(*ssa.Call)
						if !ok || !call.Call.IsInvoke() {
							continue
						}
						var recv ssa.Value
						switch {
						case call.Call.Method.Name() == "Get" && isBucketIface(call.Call.Value.Type()):
							recv = call.Call.Value
						case call.Call.Method.Name() == "Value" && isNamedIface(call.Call.Value.Type(), pkgDB, "Iterator"):
							// iterator → its bucket
							itr := &an.Tracer{P: p, Follow: bo.Ascent, Leaf: func(v ssa.Value) bool {
								c, ok := v.(*ssa.Call)
								return ok && c.Call.IsInvoke() && c.Call.Method.Name() == "NewIterator"
							}}
							for _, io := range itr.OriginsFrom(call.Call.Value, vo.Stack) {
								if c, ok := io.V.(*ssa.Call); ok && c.Call.IsInvoke() {
									b2 := &an.Tracer{P: p, Follow: bo.Ascent, Leaf: bucketLeaf}
									for _, bo2 := range b2.OriginsFrom(c.Call.Value, io.Stack) {
										if bucketLeaf(bo2.V) {
											vs = append(vs, "valueof:"+bucketLabel(p, bo2))
										}
									}
								}
							}
							continue
						default:
							continue
						}
						b2 := &an.Tracer{P: p, Follow: bo.Ascent, Leaf: bucketLeaf}
						for _, bo2 := range b2.OriginsFrom(recv, vo.Stack) {
							if bucketLeaf(bo2.V) {
								vs = append(vs, "valueof:"+bucketLabel(p, bo2))
							}
						}
					}
					op.Vals = uniq(vs)
				}
				ops = append(ops, op)
			}
		})
	}
	schemaCache[p] = ops
	return ops
}

// ruleSchema: key agreement + no raw cross-bucket copy on the given bucket labels.
func ruleSchema(c *report.Ctx, buckets []string, floorKey, floorVal int) {
	p := c.P
	ops := schemaOps(p)
	want := map[string]bool{}
	for _, b := range buckets {
		want[b] = true
	}
	// Kput per bucket
	kput := map[string]map[string]bool{}
	for _, op := range ops {
		if op.Method == "Put" {
			if kput[op.Bucket] == nil {
				kput[op.Bucket] = map[string]bool{}
			}
			for _, k := range op.Keys {
				kput[op.Bucket][k] = true
			}
		}
	}
	// expand keyof:B into Kput(B)
	expand := func(k string) []string {
		if strings.HasPrefix(k, "keyof:") {
			var out []string
			for _, b := range strings.Split(k[len("keyof:"):], "|") {
				for kk := range kput[b] {
					if !strings.HasPrefix(kk, "keyof:") {
						out = append(out, kk)
					}
				}
			}
			return uniq(out)
		}
		return []string{k}
	}
	undecided := func(k string) bool {
		return strings.HasPrefix(k, "opaque:") || k == "entry-key" || strings.HasPrefix(k, "field:") || strings.HasPrefix(k, "entry-param:") || strings.HasSuffix(k, "@"+"") || strings.HasPrefix(k, "append@")
	}

	c.Rule("key-agreement", "for every bucket the width class of each Get/Delete key is one the bucket's Put sites use (the writers define the schema; a reader with another key layout can never hit)", floorKey)
	seenBuckets := map[string]bool{}
	nUndecided := 0
	for _, op := range ops {
		if !want[op.Bucket] {
			continue
		}
		seenBuckets[op.Bucket] = true
		if op.Method != "Get" && op.Method != "Delete" {
			continue
		}
		site := sk(op.Fn) + ":" + op.Bucket + "." + op.Method
		if op.Ctx != sk(op.Fn) {
			site = op.Ctx + "~>" + site
		}
		allowed := map[string]bool{}
		for k := range kput[op.Bucket] {
			for _, e := range expand(k) {
				allowed[e] = true
			}
		}
		var bad, und []string
		for _, k := range op.Keys {
			for _, e := range expand(k) {
				if e == "nil" {
					continue // nil key: only on the error-return paths of the key constructors (callers check the error first)
				}
				if undecided(e) {
					und = append(und, e)
					continue
				}
				if !allowed[e] {
					bad = append(bad, k)
				}
			}
		}
		if len(und) > 0 {
			nUndecided++
		}
		akeys := keysOf(allowed)
		if len(bad) > 0 {
			c.Fail(site+"["+strings.Join(uniq(bad), ",")+"]", fmt.Sprintf("key of class %v is used against bucket %s whose writers use %v: the lookup can never match what was stored", uniq(bad), op.Bucket, akeys), posOf(c, op.Site), ascentText(p, op)...)
		} else {
			c.OK(site, fmt.Sprintf("key classes %v ⊆ Kput(%s)=%v", op.Keys, op.Bucket, akeys), posOf(c, op.Site))
		}
	}
	c.Extra["schema_undecided_sites"] = nUndecided
	for b := range want {
		if !seenBuckets[b] {
			c.Fail("bucket:"+b, "no operation on bucket "+b+" resolved; the schema rule lost this bucket", "")
		}
	}

	c.Rule("put-key-uniform", "the writers of a fixed-width-key bucket agree on one key width (a row written with another layout's key is decoded at the wrong offsets by the bucket's readers and is never found by its deleters)", 1)
	{
		type ws struct {
			op bucketOp
			w  string
		}
		per := map[string][]ws{}
		for _, op := range ops {
			if !want[op.Bucket] || op.Method != "Put" {
				continue
			}
			for _, k := range op.Keys {
				if strings.HasPrefix(k, "len:") {
					per[op.Bucket] = append(per[op.Bucket], ws{op, k})
				}
			}
		}
		var bs []string
		for b := range per {
			bs = append(bs, b)
		}
		sort.Strings(bs)
		for _, b := range bs {
			cnt := map[string]int{}
			for _, x := range per[b] {
				cnt[x.w]++
			}
			// majority width = the schema (ties: smaller string, deterministic)
			major := ""
			for w, n := range cnt {
				if major == "" || n > cnt[major] || n == cnt[major] && w < major {
					major = w
				}
			}
			if b == "nsSyncBucketName" || strings.HasPrefix(b, "GetOrCreateBucket(") {
				continue // mixed by design: string-named singletons next to 8-byte height keys
			}
			bad := false
			for _, x := range per[b] {
				if x.w != major {
					bad = true
					site := sk(x.op.Fn) + ":" + b + ".Put"
					if x.op.Ctx != sk(x.op.Fn) {
						site = x.op.Ctx + "~>" + site
					}
					c.Fail(site+"["+x.w+"]", fmt.Sprintf("this writer stores a %s key into bucket %s whose other writers use %s: readers decode the key at the wrong offsets and the row's deleters (which build %s keys) never remove it", x.w, b, major, major), posOf(c, x.op.Site), ascentText(p, x.op)...)
				}
			}
			if !bad {
				c.OK("bucket:"+b, fmt.Sprintf("%d Put sites, all %s", len(per[b]), major), "")
			}
		}
	}

	c.Rule("no-raw-cross-bucket-copy", "a value read from bucket B' is never stored verbatim into another bucket B (each bucket has its own value layout, txmgr/type.go); it must pass through a conversion function", floorVal)
	for _, op := range ops {
		if !want[op.Bucket] || op.Method != "Put" {
			continue
		}
		site := sk(op.Fn) + ":" + op.Bucket + ".Put"
		if op.Ctx != sk(op.Fn) {
			site = op.Ctx + "~>" + site
		}
		var bad []string
		for _, v := range op.Vals {
			if strings.HasPrefix(v, "valueof:") && v[len("valueof:"):] != op.Bucket {
				bad = append(bad, v)
			}
		}
		if len(bad) > 0 {
			c.Fail(site+"["+strings.Join(bad, ",")+"]", fmt.Sprintf("the value stored into bucket %s is the raw value read from %v: readers of %s expect its own layout", op.Bucket, bad, op.Bucket), posOf(c, op.Site), ascentText(p, op)...)
		} else {
			c.OK(site, fmt.Sprintf("value provenance %v", op.Vals), posOf(c, op.Site))
		}
	}
}

func keysOf(m map[string]bool) []string {
	var s []string
	for k := range m {
		s = append(s, k)
	}
	sort.Strings(s)
	return s
}

func ascentText(p *an.Prog, op bucketOp) []string {
	var s []string
	for _, a := range op.Ascent {
		s = append(s, "via "+sk(a.Parent())+" @"+p.InstrPos(a))
	}
	return s
}
