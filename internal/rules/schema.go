package rules

import "verif/internal/report"

// ruleSchema is the E5 bucket schema rule (key agreement, no raw cross-bucket copy).
func ruleSchema(c *report.Ctx, buckets []string) {
}
