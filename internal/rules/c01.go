package rules

import (
	"go/token"
	"go/types"
	"strings"

	"golang.org/x/tools/go/ssa"

	"verif/internal/an"
	"verif/internal/report"
)

func init() {
	register(&Check{
		ID: "C01",
		Explain: "Structural necessary conditions of the block apply/rollback path, decided on the SSA form and call graph of /repo: " +
			"(1) no read transaction (mwdb.View) and no second write transaction (mwdb.Update) is reachable from the closure of any mwdb.Update (a View sees only committed state, so a spend of an output created earlier in the same reorg batch would be missed); " +
			"(2) every success exit of filterBlock/disconnectBlock/AddRelevantTx/onRelevantBlockConnected passes its ledger step (SetSyncedTo, Rollback+ResetSyncedTo, InsertTx+AddCredits, UpdateMinedBalances); " +
			"(3) every unspent-row delete/put on the apply/rollback path is paired with the matching Sub/Add store into the balance map before success; " +
			"(4) in processConnectedBlock the in-memory tip/mempool state is written only on the success edge of the Update; " +
			"(5) the spendable/withdrawable classification in ScriptAddressBalance is guarded by the confirmation, maturity, pool-spend and class atoms, and AddCredits stores coinbase maturity under the coinbase atom; " +
			"(6) every error ParsePkScript returns for a script class outside the supported set is the sentinel the block filter skips; " +
			"(7) bucket key/value schema agreement on the ledger buckets (shared with C09).",
		NotDec: "equality of the reported UTXO set/balance with the chain's; maturity arithmetic; queue ordering; which outputs are relevant beyond the error mapping.",
		Run:    runC01,
	})
}

// updateClosures resolves mwdb.Update / mwdb.View and their call sites.
func updateSites(c *report.Ctx) (update, view *ssa.Function, us, vs []closureSite) {
	update = fn(c, pkgDB, "", "Update")
	view = fn(c, pkgDB, "", "View")
	if update != nil {
		us = wrapperSites(c.P, update, 1)
	}
	if view != nil {
		vs = wrapperSites(c.P, view, 1)
	}
	return
}

// ruleNoTxUnderUpdate: from each Update closure, neither View nor Update is reachable
// (nil-ness-specialised edges).
func ruleNoTxUnderUpdate(c *report.Ctx, floorClosures int) {
	p := c.P
	c.Rule("no-tx-under-update", "from the closure passed to mwdb.Update no mwdb.View (stale read: sees committed state only) and no nested mwdb.Update (second batch; self-deadlock on the writer mutex) is reachable", floorClosures)
	update, view, us, _ := updateSites(c)
	if update == nil || view == nil {
		return
	}
	targets := map[*ssa.Function]string{update: "Update", view: "View"}
	for _, s := range us {
		if s.Closure == nil {
			c.Fail(sk(s.Caller)+":Update(non-literal)", "mwdb.Update called with a function value that is not a visible closure; cannot bind its body to this transaction", posOf(c, s.Site))
			continue
		}
		type hit struct {
			from *ssa.Function
			e    an.Edge
			what string
		}
		var hits []hit
		seenHit := map[string]bool{}
		reached, parent := p.ReachNil([]*ssa.Function{s.Closure}, an.ReachOpts{
			Stop: func(f *ssa.Function) bool { return targets[f] != "" },
			Visit: func(from *ssa.Function, e an.Edge) {
				if w := targets[e.Callee]; w != "" && e.Kind != "ref" {
					k := sk(from) + ":" + w
					if !seenHit[k] {
						seenHit[k] = true
						hits = append(hits, hit{from, e, w})
					}
				}
			},
		})
		_ = reached
		if len(hits) == 0 {
			c.OK(sk(s.Closure), "no View/Update reachable from this Update closure", posOf(c, s.Site))
			continue
		}
		for _, h := range hits {
			w := p.Witness(parent, h.from)
			w = append(w, sk(h.from)+" -> mwdb."+h.what+" @"+p.InstrPos(h.e.Site))
			msg := "mwdb." + h.what + " is reachable inside the write transaction opened at " + posOf(c, s.Site)
			if h.what == "View" {
				msg += ": the read transaction sees only committed state and ignores this transaction's batch"
			} else {
				msg += ": a nested write transaction splits the step into two batches and blocks on the writer mutex"
			}
			c.Fail(sk(s.Closure)+"~>"+sk(h.from)+":"+h.what, msg, p.InstrPos(h.e.Site), w...)
		}
	}
}

func runC01(c *report.Ctx) {
	p := c.P
	ruleBalanceRowIsTheCoinsWallet(c)
	ruleNoTxUnderUpdate(c, 8)
	ruleReorgReachesNewTip(c)
	ruleRollbackBeforeCursorMoves(c)
	ruleRollbackHeightFollowsTheWalk(c)
	ruleBlockRecordKeepsOrder(c)
	ruleBestHeightReadWhileParked(c) // an import that reads the tip before the follower is parked scans to a stale tip and declares the wallet ready
	ruleEveryRelevantOutputCredited(c)
	ruleMemoryTipFollowsPersistedTip(c)
	c.Rule("background-selected-wallet-free", "no code the follower or the worker reaches consults the API's currently selected wallet: which wallet owns an output, and whether a record another wallet needs may be deleted, must not depend on what a client selected (a record deleted because its co-owner was not the selected wallet makes a later rollback of its block leave that wallet a phantom coin)", 1)
	ruleBackgroundSelectedWalletFree(c)

	// ---- must-pass ---------------------------------------------------------
	c.Rule("must-pass", "every success exit of a ledger step passes the call that makes the step durable/complete", 5)
	setSyncedTo := fn(c, pkgTxmgr, "SyncStore", "SetSyncedTo")
	resetSyncedTo := fn(c, pkgTxmgr, "SyncStore", "ResetSyncedTo")
	rollback := fn(c, pkgTxmgr, "TxStore", "Rollback")
	insertTx := fn(c, pkgTxmgr, "TxStore", "InsertTx")
	addCredits := fn(c, pkgTxmgr, "UtxoStore", "AddCredits")
	addRelevantTx := fn(c, pkgTxmgr, "TxStore", "AddRelevantTx")
	updMined := fn(c, pkgTxmgr, "UtxoStore", "UpdateMinedBalances")
	filterBlock := fn(c, pkgWallet, "NtfnsHandler", "filterBlock")
	disconnectBlock := fn(c, pkgWallet, "NtfnsHandler", "disconnectBlock")
	onRelBlk := fn(c, pkgWallet, "NtfnsHandler", "onRelevantBlockConnected")
	insertMined := fn(c, pkgTxmgr, "TxStore", "insertMinedTx")
	insertMempool := fn(c, pkgTxmgr, "TxStore", "insertMemPoolTx")
	updMinedBal := fn(c, pkgTxmgr, "TxStore", "updateMinedBalance")
	putTxRecord := fn(c, pkgTxmgr, "", "putTxRecord")
	removeDS := fn(c, pkgTxmgr, "TxStore", "removeDoubleSpends")
	addForImp := fn(c, pkgTxmgr, "TxStore", "AddRelevantTxForImporting")
	insForImp := fn(c, pkgTxmgr, "TxStore", "insertMinedTxForImporting")

	mustPass(c, filterBlock, an.Set(setSyncedTo), "SyncStore.SetSyncedTo")
	mustPass(c, filterBlock, an.Set(onRelBlk), "onRelevantBlockConnected")
	mustPassExcept(c, disconnectBlock, an.Set(rollback), "TxStore.Rollback", func(t string) bool {
		return strings.Contains(t, "> BlockMeta.Height") || strings.Contains(t, "BlockMeta.Height <")
	}, "block above the synced height: nothing was applied")
	mustPassExcept(c, disconnectBlock, an.Set(resetSyncedTo), "SyncStore.ResetSyncedTo", func(t string) bool {
		return strings.Contains(t, "> BlockMeta.Height") || strings.Contains(t, "BlockMeta.Height <")
	}, "block above the synced height: nothing was applied")
	mustPass(c, addRelevantTx, an.Set(insertTx), "TxStore.InsertTx")
	mustPass(c, addRelevantTx, an.Set(addCredits), "UtxoStore.AddCredits")
	mustPass(c, addForImp, an.Set(insForImp), "insertMinedTxForImporting")
	mustPass(c, addForImp, an.Set(addCredits), "UtxoStore.AddCredits")
	mustPass(c, insertTx, an.Set(insertMined, insertMempool), "insertMinedTx|insertMemPoolTx")
	mustPassExcept(c, onRelBlk, an.Set(updMined), "UtxoStore.UpdateMinedBalances", func(t string) bool {
		return strings.HasPrefix(t, "len(") && strings.HasSuffix(t, "== 0")
	}, "no relevant transaction in the block")
	perIteration(c, onRelBlk, 4, an.Set(addRelevantTx), "TxStore.AddRelevantTx")
	existsName := nm(fnOpt(c, pkgTxmgr, "", "existsTxRecord")) + "("
	existsAtom := func(t string) bool { return strings.Contains(t, existsName) && strings.Contains(t, "!= nil") }
	mustPassExcept(c, insertMined, an.Set(putTxRecord), "putTxRecord", existsAtom, "record already present (idempotent re-insert)")
	mustPassExcept(c, insertMined, an.Set(updMinedBal), "updateMinedBalance", existsAtom, "record already present (idempotent re-insert)")
	mustPassExcept(c, insertMined, an.Set(removeDS), "removeDoubleSpends", existsAtom, "record already present (idempotent re-insert)")
	mustPass(c, insForImp, an.Set(updMinedBal), "updateMinedBalance")
	// the per-block loop of filterBlock: every iteration that found a relevant tx appends it (covered by data flow into onRelevantBlockConnected)
	if filterBlock != nil && onRelBlk != nil {
		// relevantTxs handed to onRelevantBlockConnected must be the slice accumulated from filterTx results
		ok := false
		for _, in := range calls(filterBlock, onRelBlk) {
			cc := an.CallOf(in)
			if len(cc.Args) >= 5 {
				if ph, isPhi := cc.Args[4].(*ssa.Phi); isPhi && phiHasAppend(ph, 0) {
					ok = true
				}
			}
		}
		if ok {
			c.OK(sk(filterBlock)+":relevantTxs", "the slice passed to onRelevantBlockConnected is the accumulation (append) over the block's transactions", p.Pos(filterBlock.Pos()))
		} else {
			c.Fail(sk(filterBlock)+":relevantTxs", "the slice passed to onRelevantBlockConnected is not the append-accumulated list of relevant transactions", p.Pos(filterBlock.Pos()))
		}
	}

	// ---- balance pairing ------------------------------------------------------
	ruleBalancePairing(c)

	// ---- tip cache after commit --------------------------------------------------
	c.Rule("tip-after-commit", "in processConnectedBlock the in-memory tip (bestBlock) and mempool maps are written only on the success edge of the block's Update", 3)
	pcb := fn(c, pkgWallet, "NtfnsHandler", "processConnectedBlock")
	nh := p.Type(pkgWallet, "NtfnsHandler")
	update := fnOpt(c, pkgDB, "", "Update")
	if pcb != nil && nh != nil && update != nil {
		ucalls := calls(pcb, update)
		if len(ucalls) != 1 {
			c.Fail(sk(pcb)+":Update-count", "processConnectedBlock must apply a block/reorg in exactly one mwdb.Update", p.Pos(pcb.Pos()))
		} else {
			var sites []ssa.Instruction
			sites = append(sites, fieldStores(pcb, nh, "bestBlock")...)
			sites = append(sites, mapMutations(pcb, nh, "mempool")...)
			sites = append(sites, mapMutations(pcb, nh, "expiredMempool")...)
			n := map[string]int{}
			for _, s := range sites {
				what := "store"
				switch x := s.(type) {
				case *ssa.Store:
					what = "bestBlock="
					_ = x
				case *ssa.MapUpdate:
					what = "map-update:" + p.Desc(x.Map)
				case *ssa.Call:
					what = "delete:" + p.Desc(x.Call.Args[0])
				}
				n[what]++
				key := siteKey(pcb, what, n[what])
				if dominatedBySuccessOf(p, s, ucalls[0]) {
					c.OK(key, "dominated by err==nil of the Update", posOf(c, s))
				} else {
					c.Fail(key, "in-memory tip/mempool state is modified on a path where the block's Update may have failed (a failed block would become the tip)", posOf(c, s))
				}
			}
		}
	}

	// ---- maturity classification atoms ----------------------------------------------
	ruleMaturityAtoms(c, nil)

	// ---- relevance filter totality (shared with C16/C19) --------------------------------
	ruleClassGate(c)

	ruleUnspentValueProvenance(c)
	ruleNoSwallowedErrorInUpdate(c, 2, func(caller *ssa.Function) bool {
		// the block apply / rollback / rescan transactions only (C01 is about the ledger of ready wallets)
		switch caller.Name() {
		case "processConnectedBlock", "Start", "asyncImport", "onRelevantBlockConnected":
			return true
		}
		return false
	})
	ruleDecoderTotality(c)
	ruleInBlockParentFirst(c)
	ruleRollbackReverseOrder(c)

	// ---- schema (shared with C09) -------------------------------------------------
	ruleSchema(c, []string{"nsUnspent", "nsCredits", "nsDebits", "nsMinedBalance", "nsTxRecords", "nsBlocks", "nsUnmined", "nsUnminedInputs", "nsUnminedCredits", "nsAddresses"}, 40, 20)
	ruleByteOrder(c, []string{pkgTxmgr}, 3)
	ruleLayout(c, []string{"unspent-key", "credit-key", "outpoint-key", "txrecord-key", "credit-value", "unspent-value", "txrecord-value", "block-value", "block-key", "debit-value", "synced-block-value", "synced-to-value", "address-value", "balance-value"}, 40)
	ruleRelevantIndex(c, 4)
	ruleNoMemoryTipUnderUpdate(c, false)
	ruleFlagByteRMW(c)
	ruleCursorPullback(c)
	ruleNotificationsQueued(c)
}

func phiHasAppend(ph *ssa.Phi, depth int) bool {
	if depth > 4 {
		return false
	}
	for _, e := range ph.Edges {
		switch x := e.(type) {
		case *ssa.Call:
			if b, ok := x.Call.Value.(*ssa.Builtin); ok && b.Name() == "append" {
				return true
			}
		case *ssa.Phi:
			if x != ph && phiHasAppend(x, depth+1) {
				return true
			}
		}
	}
	return false
}

// mustPassExcept is mustPass where success returns guarded by an excusing atom are not obligations.
func mustPassExcept(c *report.Ctx, f *ssa.Function, set map[*ssa.Function]bool, what string, excuse func(string) bool, reason string) {
	if f == nil {
		return
	}
	for m := range set {
		if m == nil {
			delete(set, m)
		}
	}
	if len(set) == 0 {
		return
	}
	p := c.P
	construct := sk(f) + "=>" + what
	excused := 0
	s := &an.Search{P: p, Fn: f, Cut: cutCalls(p, set), GoalReturn: func(r *ssa.Return, pred *ssa.BasicBlock) bool {
		if p.ClassifyReturn(r, pred) == an.RetError {
			return false
		}
		if an.HasAtom(p.GuardsOf(r), excuse) {
			excused++
			return false
		}
		return true
	}}
	w := s.Run(f.Blocks[0], 0, nil)
	if w != nil {
		c.Fail(construct, "a success return of "+sk(f)+" is reachable without passing "+what, p.Pos(f.Pos()), w...)
	} else {
		d := "every success return passes " + what
		if excused > 0 {
			d += " (excused early return: " + reason + ")"
		}
		c.OK(construct, d, p.Pos(f.Pos()))
	}
}

// ruleBalancePairing: after every unspent-row delete (put) on the apply/rollback path, no success
// return is reachable before a store into the balance map of a value produced by Amount.Sub (Add).
func ruleBalancePairing(c *report.Ctx) {
	p := c.P
	c.Rule("balance-pairing", "mined balance = sum of unspent rows: every deleteRawUnspent is followed (before any success return) by a balance-map store of an Amount.Sub result, every putUnspent/putRawUnspent by an Amount.Add result", 3)
	del := fn(c, pkgTxmgr, "", "deleteRawUnspent")
	put := fn(c, pkgTxmgr, "", "putUnspent")
	putRaw := fn(c, pkgTxmgr, "", "putRawUnspent")
	amtSub := p.Fn("github.com/massnetorg/mass-core/massutil", "Amount", "Sub")
	amtAdd := p.Fn("github.com/massnetorg/mass-core/massutil", "Amount", "Add")
	if amtSub == nil || amtAdd == nil {
		c.Lost("massutil.Amount.Sub/Add")
		return
	}
	isBalStore := func(op *ssa.Function) func(ssa.Instruction) bool {
		return func(in ssa.Instruction) bool {
			mu, ok := in.(*ssa.MapUpdate)
			if !ok {
				return false
			}
			mt, ok := mu.Map.Type().Underlying().(interface{ Elem() interface{} })
			_ = mt
			v := mu.Value
			if ex, ok := v.(*ssa.Extract); ok {
				if call, ok := ex.Tuple.(*ssa.Call); ok && call.Call.StaticCallee() == op {
					return true
				}
			}
			return false
		}
	}
	scope := []*ssa.Function{
		fnOpt(c, pkgTxmgr, "TxStore", "updateMinedBalance"),
		fnOpt(c, pkgTxmgr, "UtxoStore", "AddCredits"),
		fnOpt(c, pkgTxmgr, "TxStore", "Rollback"),
	}
	// any other module function that deletes/puts an unspent row must be on the exception list
	exceptions := map[string]string{
		"txmgr.deleteByPrefix": "generic prefix delete used by RemoveUnspentByWalletId: the whole wallet is removed together with its balance row",
	}
	for _, f := range p.ModFuncs {
		inScope := false
		for _, s := range scope {
			if s == f {
				inScope = true
			}
		}
		var sites []ssa.Instruction
		sites = append(sites, calls(f, del)...)
		np := len(sites)
		sites = append(sites, calls(f, put)...)
		sites = append(sites, calls(f, putRaw)...)
		if len(sites) == 0 {
			continue
		}
		if !inScope {
			if f == put || f == putRaw || f == del {
				continue
			}
			if r, ok := exceptions[sk(f)]; ok {
				c.Exception(sk(f), r)
				continue
			}
			c.Fail(sk(f)+":unspent-row-writer", "function outside {updateMinedBalance, AddCredits, Rollback} writes the unspent bucket; its effect on the mined balance is not paired", p.Pos(f.Pos()))
			continue
		}
		for i, s := range sites {
			op, opName, what := amtSub, "Sub", "deleteRawUnspent"
			if i >= np {
				op, opName, what = amtAdd, "Add", calleeName(p, s)
			}
			key := siteKey(f, what+"~"+opName, indexAmong(sites, s, i, np))
			if w := p.PairedAfter(s, isBalStore(op)); w != nil {
				c.Fail(key, "after this unspent-row "+what+" a success return is reachable without storing an Amount."+opName+" result into the balance map", posOf(c, s), w...)
			} else {
				c.OK(key, "paired with balance-map store of Amount."+opName, posOf(c, s))
			}
		}
	}
}

func indexAmong(sites []ssa.Instruction, s ssa.Instruction, i, np int) int {
	if i < np {
		return i + 1
	}
	return i - np + 1
}

// ruleMaturityAtoms: guards of the balance classification.
// only (optional) restricts the rule to some BalanceDetail fields — the clause of the calling property (C10: the two
// withdrawable totals) — and then leaves the AddCredits part out.
func ruleMaturityAtoms(c *report.Ctx, only map[string]bool) {
	p := c.P
	floor := 4
	if only != nil {
		floor = len(only)
	}
	c.Rule("maturity-atoms", "ScriptAddressBalance adds a coin to Spendable/WithdrawableStaking/WithdrawableBinding only under confs>=minConf, confs>=maturity, not-spent-in-pool and the class atom; AddCredits stores CoinbaseMaturity under the coinbase atom", floor)
	sab := fn(c, pkgTxmgr, "UtxoStore", "ScriptAddressBalance")
	bd := p.Type(pkgTxmgr, "BalanceDetail")
	if sab == nil || bd == nil {
		return
	}
	isBindingFn := fn(c, pkgTxmgr, "credit", "isBinding")
	isStakingFn := fn(c, pkgTxmgr, "credit", "isStaking")
	for _, field := range []string{"Spendable", "WithdrawableStaking", "WithdrawableBinding", "Total"} {
		if only != nil && !only[field] {
			continue
		}
		var stores []ssa.Instruction
		viaPtr := map[ssa.Instruction][]an.Atom{} // a store through a pointer chosen on several paths: what held where this field was chosen
		for _, g := range withLiterals(sab) {     // the scan's body may live in a callback literal
			stores = append(stores, fieldStores(g, bd, field)...)
			an.Instrs(g, func(in ssa.Instruction) {
				st, ok := in.(*ssa.Store)
				if !ok {
					return
				}
				ph, isPhi := st.Addr.(*ssa.Phi)
				if !isPhi {
					return
				}
				for i, e := range ph.Edges {
					if addrRootsAtField(e, bd, field) && i < len(ph.Block().Preds) {
						stores = append(stores, in)
						viaPtr[in] = append(append([]an.Atom{}, p.GuardsOnEdge(ph.Block().Preds[i], ph.Block())...), p.GuardsOf(in)...)
					}
				}
			})
		}
		// ignore stores in the initialisation loop (composite literal of a fresh allocation)
		var real []ssa.Instruction
		for _, s := range stores {
			st := s.(*ssa.Store)
			if fa, ok := st.Addr.(*ssa.FieldAddr); ok {
				if _, isAlloc := fa.X.(*ssa.Alloc); isAlloc {
					continue
				}
			}
			real = append(real, s)
		}
		if len(real) == 0 {
			c.Fail(sk(sab)+":"+field, "no accumulation into BalanceDetail."+field+" found", p.Pos(sab.Pos()))
			continue
		}
		for _, s := range real {
			gs := p.GuardsOf(s)
			if on, ok := viaPtr[s]; ok {
				gs = on
			}
			texts := an.AtomTexts(gs)
			missing := []string{}
			has := func(pred func(an.Atom) bool) bool { return an.AnyAtom(gs, pred) }
			isConfs := func(v ssa.Value) bool {
				d := p.Desc(v)
				return strings.Contains(d, "param:uint64 - ") && (strings.Contains(d, "block.Height") || strings.Contains(d, "BlockMeta.Height")) && strings.HasSuffix(d, "+ 1)")
			}
			if !has(func(a an.Atom) bool {
				if a.Op != token.GEQ || !isConfs(a.X) {
					return false
				}
				_, isPar := an.ResolveCell(stripConv(a.Y)).(*ssa.Parameter)
				return isPar
			}) {
				missing = append(missing, "confs >= minConf")
			}
			if field != "Total" {
				if !has(func(a an.Atom) bool {
					return a.Op == token.GEQ && isConfs(a.X) && p.Desc(a.Y) == "credit.maturity"
				}) {
					missing = append(missing, "confs >= cred.maturity")
				}
				if !has(func(a an.Atom) bool { return an.BoolCall(a, nil, "CheckPoolOutPointSpend", false) }) {
					missing = append(missing, "!txpool.CheckPoolOutPointSpend")
				}
				// the class is asked through credit.isBinding()/isStaking() or read off credit.flags.Class directly
				classIs := func(a an.Atom, name string, truth bool) bool {
					o := p.Obj(pkgTxmgr, name)
					if o == nil || a.X == nil || a.Y == nil || !strings.HasSuffix(p.Desc(a.X), "flags.Class") {
						return false
					}
					k := foldConst(a.Y, 0)
					if k == nil {
						return false
					}
					same := k.ExactString() == constString(o)
					switch {
					case truth:
						return a.Op == token.EQL && same
					case a.Op == token.NEQ:
						return same
					default:
						return a.Op == token.EQL && !same // it is another class
					}
				}
				isB := func(truth bool) func(an.Atom) bool {
					return func(a an.Atom) bool {
						return (isBindingFn != nil && an.BoolCall(a, isBindingFn, "", truth)) || classIs(a, "ClassBindingUtxo", truth)
					}
				}
				isS := func(truth bool) func(an.Atom) bool {
					return func(a an.Atom) bool {
						return (isStakingFn != nil && an.BoolCall(a, isStakingFn, "", truth)) || classIs(a, "ClassStakingUtxo", truth)
					}
				}
				switch field {
				case "Spendable":
					if !has(isB(false)) {
						missing = append(missing, "!isBinding")
					}
					if !has(isS(false)) {
						missing = append(missing, "!isStaking")
					}
				case "WithdrawableStaking":
					if !has(isS(true)) {
						missing = append(missing, "isStaking")
					}
					if !has(isB(false)) {
						missing = append(missing, "!isBinding")
					}
				case "WithdrawableBinding":
					if !has(isB(true)) {
						missing = append(missing, "isBinding")
					}
				}
			}
			key := sk(sab) + ":" + field + "+="
			if len(missing) > 0 {
				c.Fail(key, "accumulation into "+field+" is not guarded by: "+strings.Join(missing, ", "), posOf(c, s), texts...)
			} else {
				c.OK(key, "guard atoms present", posOf(c, s), texts...)
			}
		}
	}
	// AddCredits: maturity stored = CoinbaseMaturity under isCoinBase else PkScript.Maturity()
	ac := fn(c, pkgTxmgr, "UtxoStore", "AddCredits")
	cred := p.Type(pkgTxmgr, "credit")
	if ac != nil && cred != nil && only == nil {
		found := false
		for _, s := range fieldStores(ac, cred, "maturity") {
			st := s.(*ssa.Store)
			d := p.Desc(st.Val)
			// expect convert(phi(PkScript.Maturity() | 1000)) — a phi selecting on IsCoinBaseTx
			v := st.Val
			for {
				if cv, ok := v.(*ssa.Convert); ok {
					v = cv.X
					continue
				}
				break
			}
			ok := false
			if ph, isPhi := v.(*ssa.Phi); isPhi && len(ph.Edges) == 2 {
				var hasConst, hasCall bool
				var constEdge int
				for i, e := range ph.Edges {
					if u, isU := e.(*ssa.UnOp); isU && u.Op == token.MUL {
						if g, isG := u.X.(*ssa.Global); isG && g.Name() == "CoinbaseMaturity" && g.Pkg.Pkg.Path() == "github.com/massnetorg/mass-core/consensus" {
							hasConst = true
							constEdge = i
						}
					}
					if call, isCall := e.(*ssa.Call); isCall && call.Call.IsInvoke() && call.Call.Method.Name() == "Maturity" {
						hasCall = true
					}
				}
				if hasConst && hasCall {
					// the constant edge must come from the block guarded by IsCoinBaseTx
					pred := ph.Block().Preds[constEdge]
					gs := p.Guards(pred)
					icb := p.Fn(pkgChain, "", "IsCoinBaseTx")
					if icb != nil && an.AnyAtom(gs, func(a an.Atom) bool { return an.BoolCall(a, icb, "", true) }) {
						ok = true
					}
				}
			}
			found = true
			if ok {
				c.OK(sk(ac)+":credit.maturity", "CoinbaseMaturity under IsCoinBaseTx, PkScript.Maturity() otherwise", posOf(c, s), d)
			} else {
				c.Fail(sk(ac)+":credit.maturity", "stored maturity is not {CoinbaseMaturity under IsCoinBaseTx | PkScript.Maturity()}: "+d, posOf(c, s))
			}
		}
		if !found {
			c.Fail(sk(ac)+":credit.maturity", "no store of credit.maturity found in AddCredits", p.Pos(ac.Pos()))
		}
	}
}

// ruleClassGate: in utils.ParsePkScript every error return that is not the sentinel
// ErrUnsupportedScript is guarded by a test restricting the script class to the supported set.
func ruleClassGate(c *report.Ctx) {
	p := c.P
	c.Rule("class-gate", "every error ParsePkScript returns for a script class outside {WitnessV0ScriptHash, StakingScriptHash, BindingScriptHash} is ErrUnsupportedScript — the only error the block filter skips (any other error fails the whole block and stalls the follower)", 2)
	pps := fn(c, pkgUtils, "", "ParsePkScript")
	if pps == nil {
		return
	}
	sp := p.SSAPkgs[pkgUtils]
	var sentinel *ssa.Global
	if sp != nil {
		sentinel, _ = sp.Members["ErrUnsupportedScript"].(*ssa.Global)
	}
	if sentinel == nil {
		c.Lost("utils.ErrUnsupportedScript")
		return
	}
	gsi := p.Fn(pkgTxscript, "", "GetScriptInfo")
	if gsi == nil {
		c.Lost("txscript.GetScriptInfo")
		return
	}
	supported := map[string]bool{}
	for _, n := range []string{"WitnessV0ScriptHashTy", "StakingScriptHashTy", "BindingScriptHashTy"} {
		o := p.Obj(pkgTxscript, n)
		if o == nil {
			c.Lost("txscript." + n)
			return
		}
		supported[constString(o)] = true
	}
	// class value = extract #0 of GetScriptInfo
	isClassAtom := func(a an.Atom) bool {
		check := func(x an.Atom) bool {
			// normalised form (also for atoms imported from a predicate helper, whose parameter was replaced by the argument)
			if x.Op != token.EQL || x.X == nil || x.Y == nil {
				return false
			}
			cls, kv := x.X, x.Y
			if _, isK := cls.(*ssa.Const); isK {
				cls, kv = kv, cls
			}
			ex, ok := cls.(*ssa.Extract)
			if !ok {
				return false
			}
			call, ok := ex.Tuple.(*ssa.Call)
			if !ok || call.Call.StaticCallee() != gsi || ex.Index != 0 {
				return false
			}
			k, ok := kv.(*ssa.Const)
			return ok && k.Value != nil && supported[k.Value.ExactString()]
		}
		if len(a.Or) > 0 {
			for _, o := range a.Or {
				if !check(o) {
					return false
				}
			}
			return true
		}
		return check(a)
	}
	n := 0
	for _, b := range pps.Blocks {
		for _, in := range b.Instrs {
			r, ok := in.(*ssa.Return)
			if !ok {
				continue
			}
			preds := b.Preds
			if len(preds) == 0 {
				preds = []*ssa.BasicBlock{nil}
			}
			for _, pr := range preds {
				if p.ClassifyReturn(r, pr) == an.RetSuccess {
					continue
				}
				ev := an.RetOperand(r, len(r.Results)-1)
				if u, ok := ev.(*ssa.UnOp); ok && u.Op == token.MUL && u.X == sentinel {
					n++
					c.OK(sk(pps)+":return-sentinel", "returns ErrUnsupportedScript", posOf(c, r))
					continue
				}
				n++
				gated := false
				gs := p.Guards(b)
				if pr != nil {
					gs = append(gs, p.Guards(pr)...)
				}
				for _, g := range gs {
					if isClassAtom(g) {
						gated = true
					}
				}
				key := sk(pps) + ":error-from:" + errSource(p, ev)
				if gated {
					c.OK(key, "non-sentinel error is returned only for a supported class", posOf(c, r))
				} else {
					c.Fail(key, "a non-sentinel error can be returned for a script class outside the supported set (e.g. null-data): filterTx fails the whole block on it and the follower stalls", posOf(c, r), an.AtomTexts(gs)...)
				}
			}
		}
	}
	// consumers: every caller on the block path treats exactly the sentinel as "skip"
	for _, name := range []string{"filterTx", "filterTxForImporting"} {
		f := fn(c, pkgWallet, "NtfnsHandler", name)
		if f == nil {
			continue
		}
		for i, call := range calls(f, pps) {
			cv := call.(*ssa.Call)
			// find err extract, compare with sentinel
			ok := false
			for _, r := range *cv.Referrers() {
				ex, isEx := r.(*ssa.Extract)
				if !isEx || ex.Index != 1 {
					continue
				}
				for _, rr := range *ex.Referrers() {
					if b, isB := rr.(*ssa.BinOp); isB && b.Op == token.EQL {
						other := b.Y
						if other == ssa.Value(ex) {
							other = b.X
						}
						if u, isU := other.(*ssa.UnOp); isU && u.X == sentinel {
							ok = true
						}
					}
				}
			}
			key := siteKey(f, "ParsePkScript-skip", i+1)
			if ok {
				c.OK(key, "error compared with ErrUnsupportedScript (skip)", posOf(c, call))
			} else {
				c.Fail(key, "caller on the block path does not skip ErrUnsupportedScript", posOf(c, call))
			}
		}
	}
	_ = n
}

// ruleUnspentValueProvenance: the value of an unspent row names the block of its credit. Its only
// valid sources are the block being connected (a *BlockMeta parameter of the caller chain) and the
// credit key (which embeds height and hash); a partially decoded record is not one.
func ruleUnspentValueProvenance(c *report.Ctx) {
	p := c.P
	c.Rule("unspent-value-provenance", "the block stored in an unspent row comes from the block being connected or is cut out of the credit key — never from a record whose block field was not decoded", 2)
	put := fn(c, pkgTxmgr, "", "putUnspent")
	putRaw := fn(c, pkgTxmgr, "", "putRawUnspent")
	fromKey := fn(c, pkgTxmgr, "", "fetchNsUnspentValueFromRawCredit")
	readKey := fn(c, pkgTxmgr, "", "readRawCreditKey")
	if put == nil || putRaw == nil || fromKey == nil {
		return
	}
	for _, f := range p.ModFuncs {
		if pk := an.FuncPkg(f); pk == nil || pk.Path() != pkgTxmgr {
			continue
		}
		for i, s := range calls(f, put) {
			key := siteKey(f, "putUnspent(block)", i+1)
			arg := an.CallOf(s).Args[3]
			if par, ok := arg.(*ssa.Parameter); ok && par.Parent() == f {
				c.OK(key, "block is the caller's *BlockMeta parameter (the block being connected)", posOf(c, s))
				continue
			}
			// a field of a record: acceptable only when the record's key was decoded into it before
			ok := false
			if u, isU := arg.(*ssa.UnOp); isU && readKey != nil {
				if fa, isFA := u.X.(*ssa.FieldAddr); isFA {
					for _, rk := range calls(f, readKey) {
						if an.CallOf(rk).Args[1] == fa.X && instrDominates(rk, s) {
							ok = true
						}
					}
				}
			}
			if ok {
				c.OK(key, "block decoded from the credit key (readRawCreditKey) before use", posOf(c, s))
			} else {
				c.Fail(key, "the unspent row is written with a block taken from "+p.Desc(arg)+", which is neither the block being connected nor decoded from the credit key: the restored coin points at block {0, zero hash}, disappears from the coin list and wedges the follower when it is spent again", posOf(c, s))
			}
		}
		for i, s := range calls(f, putRaw) {
			key := siteKey(f, "putRawUnspent(value)", i+1)
			v := an.CallOf(s).Args[2]
			if ex, ok := v.(*ssa.Extract); ok {
				v = ex.Tuple
			}
			if call, ok := v.(*ssa.Call); ok && call.Call.StaticCallee() == fromKey {
				c.OK(key, "value cut out of the credit key", posOf(c, s))
			} else {
				c.Fail(key, "the raw unspent value is not derived from the credit key", posOf(c, s))
			}
		}
	}
}

// ruleNoSwallowedErrorInUpdate: inside the closure of an Update, the error edge of a call never
// reaches a `return nil`: the transaction would commit a partially applied step as if it had succeeded.
func ruleNoSwallowedErrorInUpdate(c *report.Ctx, floor int, only func(caller *ssa.Function) bool) {
	p := c.P
	c.Rule("no-swallowed-error-in-update", "in an Update closure no success return is reachable from the error edge of a call made in that closure (a swallowed error commits a partial step and lets in-memory state advance)", floor)
	_, _, us, _ := updateSites(c)
	for _, s := range us {
		cl := s.Closure
		if cl == nil || cl.Blocks == nil {
			continue
		}
		if only != nil && !only(an.Outermost(s.Caller)) {
			continue
		}
		bad := false
		for _, b := range cl.Blocks {
			for _, in := range b.Instrs {
				call, ok := in.(*ssa.Call)
				if !ok {
					continue
				}
				// error edges of this call
				succ := map[*ssa.BasicBlock]bool{}
				for _, sb := range p.SuccessBlocks(call) {
					succ[sb] = true
				}
				if len(succ) == 0 {
					continue
				}
				for sb := range succ {
					ifb := sb.Preds[0]
					for _, eb := range ifb.Succs {
						if succ[eb] {
							continue
						}
						errVal := errResultOf(call)
						srch := &an.Search{P: p, Fn: cl, GoalReturn: func(r *ssa.Return, pred *ssa.BasicBlock) bool {
							switch p.ClassifyReturn(r, pred) {
							case an.RetSuccess:
								return true
							case an.RetMaybe:
								// an error of unknown nil-ness is returned: fine only if it is this call's error
								// (possibly through the variable it was assigned to); another variable's value may be nil
								if errVal == nil || len(r.Results) == 0 {
									return false
								}
								return !carriesValue(an.RetOperand(r, len(r.Results)-1), errVal, cl, 0)
							}
							return false
						}, CutEdge: func(from, to *ssa.BasicBlock) bool { return to == ifb }}
						// the error edge itself may carry the nil-ness of the error: start inside eb coming from ifb
						if w := srch.Run(eb, 0, ifb); w != nil {
							bad = true
							c.Fail(sk(cl)+":error-of:"+calleeName(p, call)+"=>return-nil", "the closure of this write transaction returns nil on a path where "+calleeName(p, call)+" failed: the transaction commits, and code after Update treats the step as applied (e.g. the in-memory tip advances to a block that was not applied)", p.InstrPos(call), w...)
						}
					}
				}
			}
		}
		if !bad {
			c.OK(sk(cl), "no success return reachable from an error edge", posOf(c, s.Site))
		}
	}
}

// errResultOf: the SSA value of the call's error result (nil when it has none).
func errResultOf(call *ssa.Call) ssa.Value {
	if an.IsErrorType(call.Type()) {
		return call
	}
	tup, ok := call.Type().(*types.Tuple)
	if !ok || tup.Len() == 0 || !an.IsErrorType(tup.At(tup.Len()-1).Type()) {
		return nil
	}
	for _, r := range *call.Referrers() {
		if ex, ok := r.(*ssa.Extract); ok && ex.Index == tup.Len()-1 {
			return ex
		}
	}
	return nil
}

// carriesValue: can v be want — directly, through a phi, or through a local cell that want is stored into?
func carriesValue(v, want ssa.Value, fn *ssa.Function, depth int) bool {
	if depth > 5 {
		return true // give up in favour of "carried": never report on an undecided shape
	}
	if v == want {
		return true
	}
	switch x := v.(type) {
	case *ssa.Phi:
		for _, e := range x.Edges {
			if carriesValue(e, want, fn, depth+1) {
				return true
			}
		}
	case *ssa.UnOp:
		if x.Op == token.MUL {
			// load of a cell: is want (or something carrying it) stored into that cell anywhere?
			cell := x.X
			found := false
			scan := func(f *ssa.Function) {
				an.Instrs(f, func(in ssa.Instruction) {
					if st, ok := in.(*ssa.Store); ok && sameCell(st.Addr, cell) && carriesValue(st.Val, want, fn, depth+1) {
						found = true
					}
				})
			}
			scan(fn)
			return found
		}
	case *ssa.MakeInterface:
		return carriesValue(x.X, want, fn, depth+1)
	case *ssa.Call:
		// wrapped: fmt.Errorf("…", err) and the like
		for _, a := range x.Call.Args {
			if carriesValue(a, want, fn, depth+1) {
				return true
			}
		}
		// variadic wrap: the args are packed into a slice
		return true
	}
	return false
}

func sameCell(a, b ssa.Value) bool {
	if a == b {
		return true
	}
	// two FieldAddr/FreeVar views of the same variable
	return false
}
