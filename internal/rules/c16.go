package rules

import (
	"go/token"
	"go/types"
	"sort"
	"strings"

	"golang.org/x/tools/go/ssa"

	"verif/internal/an"
	"verif/internal/report"
)

func init() {
	register(&Check{
		ID: "C16",
		Explain: "Structural necessary conditions of script classification, decided on SSA: " +
			"(1) the case sets of the wallet's ParsePkScript, the API's extractAddressInfos and the library's GetParsedOpcode are the same three script classes; " +
			"(2) ParsePkScript maps every other class to the sentinel ErrUnsupportedScript (shared with C01/C19); " +
			"(3) inside ParsePkScript the error of every address constructor that can fail is examined before a success return (no half-built result with a nil address); " +
			"(4) second-address accessors are used only under IsStaking()/IsBinding() or on scripts of staking/binding history records; " +
			"(5) the builders accept only the address kind they are for and take their scripts from the library's PayTo* functions on that same address.",
		NotDec: "agreement of decoded addresses/maturity values with the library for all scripts (values); panics inside mass-core.",
		Run:    runC16,
	})
}

// caseSet collects the constants a class-typed value is compared with (==) in f.
func caseSet(p *an.Prog, f *ssa.Function, isClass func(ssa.Value) bool) []string {
	set := map[string]bool{}
	an.Instrs(f, func(in ssa.Instruction) {
		b, ok := in.(*ssa.BinOp)
		if !ok || b.Op != token.EQL {
			return
		}
		if isClass(b.X) {
			if k, ok := b.Y.(*ssa.Const); ok && k.Value != nil {
				set[k.Value.ExactString()] = true
			}
		}
	})
	var s []string
	for k := range set {
		s = append(s, k)
	}
	sort.Strings(s)
	return s
}

func runC16(c *report.Ctx) {
	p := c.P
	ruleStakingPeriodFromRequest(c)
	ruleIndexedResultLengthChecked(c, []string{pkgAPI, pkgWallet, pkgTxmgr, pkgKeystore, pkgUtils}, 3) // the class an extractor reports does not tell how many addresses it parsed
	ruleSequenceSiblings(c)                                                                            // the maturity read off a staking script is what the spending input carries
	ruleClassBits(c)              // the class a credit is stored with is the class its script has: every writer of a credit value sets the class bits the reader decodes
	ruleLayout(c, []string{"credit-value"}, 5) // … and sibling writers of the credit value (unspent, pending, demoted by a rollback) produce one layout
	ruleDecoderTotality(c)                                                                             // the stored reading of an output's class (credit flag byte) must not be inherited from the row decoded before
	c.Rule("class-table", "the three readers of a script class handle exactly {WitnessV0ScriptHash, StakingScriptHash, BindingScriptHash}", 3)
	pps := fn(c, pkgUtils, "", "ParsePkScript")
	eai := fn(c, pkgAPI, "", "extractAddressInfos")
	gpo := p.Fn(pkgTxscript, "", "GetParsedOpcode")
	gsi := p.Fn(pkgTxscript, "", "GetScriptInfo")
	epa := p.Fn(pkgTxscript, "", "ExtractPkScriptAddrs")
	if gpo == nil || gsi == nil || epa == nil {
		c.Lost("txscript.GetParsedOpcode/GetScriptInfo/ExtractPkScriptAddrs")
	}
	var want []string
	names := map[string]string{}
	for _, n := range []string{"WitnessV0ScriptHashTy", "StakingScriptHashTy", "BindingScriptHashTy"} {
		o := p.Obj(pkgTxscript, n)
		if o == nil {
			c.Lost("txscript." + n)
			return
		}
		want = append(want, constString(o))
		names[constString(o)] = n
	}
	sort.Strings(want)
	render := func(s []string) string {
		var out []string
		for _, k := range s {
			if n, ok := names[k]; ok {
				out = append(out, n)
			} else {
				out = append(out, "class("+k+")")
			}
		}
		return "{" + strings.Join(out, ",") + "}"
	}
	resultOf := func(callee *ssa.Function, idx int) func(ssa.Value) bool {
		return func(v ssa.Value) bool {
			ex, ok := v.(*ssa.Extract)
			if !ok || ex.Index != idx {
				return false
			}
			call, ok := ex.Tuple.(*ssa.Call)
			return ok && call.Call.StaticCallee() == callee
		}
	}
	type tab struct {
		f   *ssa.Function
		is  func(ssa.Value) bool
		why string
	}
	var tabs []tab
	if pps != nil && gsi != nil {
		tabs = append(tabs, tab{pps, resultOf(gsi, 0), "wallet"})
	}
	if eai != nil && epa != nil {
		tabs = append(tabs, tab{eai, resultOf(epa, 0), "API"})
	}
	if gpo != nil {
		tabs = append(tabs, tab{gpo, func(v ssa.Value) bool { return len(gpo.Params) > 1 && v == ssa.Value(gpo.Params[1]) }, "library"})
	}
	for _, t := range tabs {
		got := caseSet(p, t.f, t.is)
		key := sk(t.f) + ":case-set"
		if strings.Join(got, ",") == strings.Join(want, ",") {
			c.OK(key, t.why+" handles "+render(got), p.Pos(t.f.Pos()))
		} else {
			c.Fail(key, "the "+t.why+"'s script-class switch handles "+render(got)+", the supported set is "+render(want)+": the three views of an output script disagree", p.Pos(t.f.Pos()))
		}
	}

	ruleClassGate(c)
	// the sentinel is returned only on the library's class verdict: every `return ErrUnsupportedScript`
	// is dominated by the call of txscript.GetScriptInfo (no private pre-filter may reject a script
	// the consensus templates accept)
	if pps != nil && gsi != nil {
		sp := p.SSAPkgs[pkgUtils]
		sentinel, _ := sp.Members["ErrUnsupportedScript"].(*ssa.Global)
		gcalls := calls(pps, gsi)
		an.Instrs(pps, func(in ssa.Instruction) {
			r, ok := in.(*ssa.Return)
			if !ok || sentinel == nil {
				return
			}
			u, ok := an.RetOperand(r, len(r.Results)-1).(*ssa.UnOp)
			if !ok || u.X != ssa.Value(sentinel) {
				return
			}
			dom := false
			for _, g := range gcalls {
				if instrDominates(g, r) {
					dom = true
				}
			}
			key := sk(pps) + ":sentinel-on-library-verdict"
			// … and never for a script the library put into one of the three supported classes
			inSupported := ""
			for _, a := range p.GuardsOf(r) {
				if a.Op != token.EQL || a.X == nil || a.Y == nil {
					continue
				}
				cls, k := a.X, a.Y
				if _, isK := cls.(*ssa.Const); isK {
					cls, k = k, cls
				}
				kc, isK := k.(*ssa.Const)
				if !isK || kc.Value == nil || !resultOf(gsi, 0)(cls) {
					continue
				}
				if n, ok := names[kc.Value.ExactString()]; ok {
					inSupported = n
				}
			}
			if inSupported != "" {
				c.Fail(sk(pps)+":sentinel-inside-supported-class", "ErrUnsupportedScript is returned for a script the consensus library classified as "+inSupported+" (an extra condition inside that case): every caller skips this sentinel silently, so an output of a supported template that pays the wallet — e.g. a staking script whose frozen period is outside the relay-policy range, which blocks may still contain — becomes invisible while the library and the API still show it", posOf(c, r))
			}
			if dom {
				c.OK(key, "ErrUnsupportedScript is returned after txscript.GetScriptInfo classified the script", posOf(c, r))
			} else {
				c.Fail(key, "ErrUnsupportedScript is returned before the consensus library classified the script (a private pre-filter): a script the library accepts (e.g. the 55-byte legacy binding template) is dropped by the wallet", posOf(c, r))
			}
		})
	}

	// ---- (3) constructor errors examined -------------------------------------------------------
	ruleAddressErrorsChecked(c)

	// ---- (4) second-address accessors -----------------------------------------------------------
	c.Rule("second-address-guarded", "SecondEncodeAddress/SecondScriptAddress/SecondAddress are called only under IsStaking() or IsBinding() of the same script, or on scripts of staking/binding history records", 3)
	historyReaders := map[string]string{
		"(*masswallet/txmgr.UtxoStore).GetUnminedBindingHistoryDetail": "iterates binding history records (bucket LG, type binding): the output is a binding script",
		"(*masswallet/txmgr.UtxoStore).GetBindingHistoryDetail":        "iterates binding history records (bucket lg, type binding): the output is a binding script",
	}
	for _, f := range p.ModFuncs {
		pk := an.FuncPkg(f)
		if pk == nil || pk.Path() == pkgUtils {
			continue
		}
		k := 0
		an.Instrs(f, func(in ssa.Instruction) {
			cc := an.CallOf(in)
			if cc == nil || !cc.IsInvoke() || !isNamedIface(cc.Value.Type(), pkgUtils, "PkScript") {
				return
			}
			switch cc.Method.Name() {
			case "SecondEncodeAddress", "SecondScriptAddress", "SecondAddress":
			default:
				return
			}
			k++
			key := siteKey(f, cc.Method.Name(), k)
			recv := cc.Value
			guarded := an.AnyAtom(p.GuardsOf(in), func(a an.Atom) bool {
				if a.Op != token.ILLEGAL || !a.Truth {
					return false
				}
				call, ok := a.X.(*ssa.Call)
				if !ok || !call.Call.IsInvoke() || !(call.Call.Value == recv || p.Desc(call.Call.Value) == p.Desc(recv)) {
					return false
				}
				return call.Call.Method.Name() == "IsStaking" || call.Call.Method.Name() == "IsBinding"
			})
			if guarded {
				c.OK(key, "under IsStaking()/IsBinding() of the same script", posOf(c, in))
				return
			}
			if r, ok := historyReaders[sk(f)]; ok {
				c.Exception(sk(f), r)
				c.OK(key, "history reader: "+r, posOf(c, in))
				return
			}
			c.Fail(key, "second-address accessor called without a staking/binding test: on a standard script the second address is nil and the call panics", posOf(c, in))
		})
	}

	// ---- (5) builders -----------------------------------------------------------------------------
	c.Rule("builders", "each script builder accepts only its own address kind and obtains the script from the library's PayTo* function applied to that address", 3)
	type builder struct {
		f        *ssa.Function
		kindPred string // massutil predicate that must hold
		payTo    string // txscript function
	}
	bs := []builder{
		{fn(c, pkgWallet, "", "PayToWitnessV0Address"), "IsWitnessV0Address", "PayToAddrScript"},
		{fn(c, pkgWallet, "", "constructStakingTxOut"), "IsWitnessStakingAddress", "PayToStakingAddrScript"},
		{fn(c, pkgWallet, "WalletManager", "EstimateBindingTxFee"), "", "PayToBindingScriptHashScript"},
	}
	// the API-side validators in front of the builders: success is dominated by the kind predicate
	for _, v := range []struct {
		f    *ssa.Function
		pred string
	}{{fn(c, pkgAPI, "", "parseBindingTarget"), "IsValidBindingTarget"}} {
		if v.f == nil {
			continue
		}
		pred := p.Fn("github.com/massnetorg/mass-core/massutil", "", v.pred)
		if pred == nil {
			c.Lost("massutil." + v.pred)
			continue
		}
		key := sk(v.f) + ":kind-checked:" + v.pred
		s := &an.Search{P: p, Fn: v.f, GoalReturn: func(r *ssa.Return, pr *ssa.BasicBlock) bool {
			if p.ClassifyReturn(r, pr) == an.RetError {
				return false
			}
			return !an.AnyAtom(p.Guards(r.Block()), func(a an.Atom) bool { return an.BoolCall(a, pred, "", true) })
		}}
		if w := s.Run(v.f.Blocks[0], 0, nil); w != nil {
			c.Fail(key, "an address is accepted as binding target without massutil."+v.pred+": another address kind of the same length (e.g. a script-hash address) is embedded and reads back as a different target", p.Pos(v.f.Pos()), w...)
		} else {
			c.OK(key, "success dominated by massutil."+v.pred, p.Pos(v.f.Pos()))
		}
	}
	for _, b := range bs {
		if b.f == nil {
			continue
		}
		key := sk(b.f) + ":script-from-library"
		// every txscript call that yields a script must be a PayTo* template builder
		var sites []ssa.Instruction
		an.Instrs(b.f, func(in ssa.Instruction) {
			if cc := an.CallOf(in); cc != nil && cc.StaticCallee() != nil {
				if pk := an.FuncPkg(cc.StaticCallee()); pk != nil && pk.Path() == pkgTxscript && strings.HasPrefix(cc.StaticCallee().Name(), "PayTo") {
					sites = append(sites, in)
				}
			}
		})
		if len(sites) == 0 {
			c.Fail(key, "the builder no longer obtains its script from a txscript.PayTo* template function", p.Pos(b.f.Pos()))
			continue
		}
		c.OK(key, "script from "+calleeName(p, sites[0]), posOf(c, sites[0]))
		if b.kindPred == "" {
			continue
		}
		pred := p.Fn("github.com/massnetorg/mass-core/massutil", "", b.kindPred)
		if pred == nil {
			c.Lost("massutil." + b.kindPred)
			continue
		}
		key = sk(b.f) + ":kind-checked:" + b.kindPred
		bad := false
		for _, s := range sites {
			g := an.AnyAtom(p.GuardsOf(s), func(a an.Atom) bool {
				if a.Op != token.ILLEGAL || !a.Truth {
					return false
				}
				call, isCall := a.X.(*ssa.Call)
				return isCall && call.Call.StaticCallee() == pred && len(call.Call.Args) == 1
			})
			if !g {
				bad = true
				c.Fail(key, "a script is built for an address that was not tested with massutil."+b.kindPred+": another address kind (e.g. a staking address given as an ordinary recipient) is silently turned into this template and reads back as a different address", posOf(c, s))
			}
		}
		if !bad {
			c.OK(key, "every template call is dominated by massutil."+b.kindPred+"(addr)", posOf(c, sites[0]))
		}
	}
	ruleMaturityPerTemplate(c)
	ruleAPIOwnerOfStaking(c)
	ruleMemoGuardField(c)
	ruleBuilderErrorReturned(c)
}

// ruleAddressErrorsChecked (C16, C19): ParsePkScript looks at the error of every address constructor that can fail.
func ruleAddressErrorsChecked(c *report.Ctx) {
	p := c.P
	pps := fn(c, pkgUtils, "", "ParsePkScript")
	c.Rule("address-errors-checked", "in ParsePkScript the error of an address constructor that can fail (its input is not a full slice of a 32-byte array) reaches a nil test before any success return", 2)
	if pps != nil {
		n := 0
		an.Instrs(pps, func(in ssa.Instruction) {
			call, ok := in.(*ssa.Call)
			if !ok || call.Call.StaticCallee() == nil {
				return
			}
			callee := call.Call.StaticCallee()
			tup, ok := call.Type().(*types.Tuple)
			if !ok || !an.IsErrorType(tup.At(tup.Len()-1).Type()) {
				return
			}
			pk := an.FuncPkg(callee)
			if pk == nil || !(strings.HasSuffix(pk.Path(), "/massutil") || pk.Path() == pkgTxscript) {
				return
			}
			n++
			key := siteKey(pps, "err-of:"+calleeName(p, call), n)
			// cannot fail: sole data argument is h[:] of a [32]byte
			if strings.HasPrefix(callee.Name(), "NewAddress") && len(call.Call.Args) > 0 {
				if sl, ok := call.Call.Args[0].(*ssa.Slice); ok && sl.Low == nil && sl.High == nil {
					if pt, ok := sl.X.Type().Underlying().(*types.Pointer); ok {
						if arr, ok := pt.Elem().Underlying().(*types.Array); ok && arr.Len() == 32 {
							c.OK(key, "input is a full slice of a [32]byte array: the length check inside the constructor cannot fail", posOf(c, in))
							return
						}
					}
				}
			}
			// error value and the phis it flows into
			var ev ssa.Value
			for _, r := range *call.Referrers() {
				if ex, ok := r.(*ssa.Extract); ok && ex.Index == tup.Len()-1 {
					ev = ex
				}
			}
			if ev == nil {
				c.Fail(key, "the error result of "+calleeName(p, call)+" is discarded", posOf(c, in))
				return
			}
			T := map[ssa.Value]bool{ev: true}
			for changed := true; changed; {
				changed = false
				an.Instrs(pps, func(x ssa.Instruction) {
					if ph, ok := x.(*ssa.Phi); ok && !T[ph] {
						for _, e := range ph.Edges {
							if T[e] {
								T[ph] = true
								changed = true
							}
						}
					}
				})
			}
			tested := func(b *ssa.BasicBlock) bool {
				ifi, ok := b.Instrs[len(b.Instrs)-1].(*ssa.If)
				if !ok {
					return false
				}
				cv, _, ok := an.NilCmp(ifi.Cond)
				return ok && T[cv]
			}
			s := &an.Search{P: p, Fn: pps,
				Cut: func(x ssa.Instruction) bool {
					// reaching a block that tests the error (or a phi of it) discharges the obligation
					return x == x.Block().Instrs[len(x.Block().Instrs)-1] && tested(x.Block())
				},
				GoalReturn: func(r *ssa.Return, pred *ssa.BasicBlock) bool {
					return p.ClassifyReturn(r, pred) != an.RetError
				}}
			b := in.Block()
			idx := 0
			for i, x := range b.Instrs {
				if x == in {
					idx = i + 1
				}
			}
			if w := s.Run(b, idx, nil); w != nil {
				c.Fail(key, "ParsePkScript can return success without having examined the error of "+calleeName(p, call)+": the result would carry a nil address that panics on first use", posOf(c, in), w...)
			} else {
				c.OK(key, "error examined before every success return", posOf(c, in))
			}
		})
	}
}
