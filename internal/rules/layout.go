package rules

// Record-layout agreement: the writers and readers of one stored record must slice it at the
// same offsets with the same widths. The engine extracts, per codec function and per byte-slice
// base (a made slice of constant length, a []byte parameter, an Entry.Key / Entry.Value field),
// every constant-offset access, and the rule compares readers against the writers they are paired
// with in a reviewed table.

import (
	"fmt"
	"go/token"
	"go/types"
	"sort"
	"strings"

	"golang.org/x/tools/go/ssa"

	"verif/internal/an"
	"verif/internal/report"
)

type layAccess struct {
	Base  string // "make:78", "param:k", "field:Entry.Key", …
	Lo    int
	Hi    int    // -1: open ended
	Kind  string // u16,u32,u64,byte,bytes
	Write bool
	In    ssa.Instruction
}

func (a layAccess) String() string {
	hi := "…"
	if a.Hi >= 0 {
		hi = itoa(a.Hi)
	}
	d := "r"
	if a.Write {
		d = "w"
	}
	return fmt.Sprintf("%s[%d:%s]%s/%s", a.Base, a.Lo, hi, a.Kind, d)
}

func isByteSlice(t types.Type) bool {
	s, ok := t.Underlying().(*types.Slice)
	if !ok {
		return false
	}
	b, ok := s.Elem().Underlying().(*types.Basic)
	return ok && b.Kind() == types.Uint8
}

// layBase classifies a []byte value; off is the constant offset accumulated through re-slicing.
func layBase(p *an.Prog, v ssa.Value, depth int) (base string, off int, length int, ok bool) {
	if depth > 6 {
		return "", 0, -1, false
	}
	switch x := v.(type) {
	case *ssa.Parameter:
		if isByteSlice(x.Type()) {
			return "param:" + x.Name(), 0, -1, true
		}
	case *ssa.Alloc:
		// make([]byte, N) with constant N is "new [N]byte" + slice
		if pt, isP := x.Type().Underlying().(*types.Pointer); isP {
			if at, isA := pt.Elem().Underlying().(*types.Array); isA {
				if b, isB := at.Elem().Underlying().(*types.Basic); isB && b.Kind() == types.Uint8 && x.Comment == "makeslice" {
					return "make:" + itoa(int(at.Len())), 0, int(at.Len()), true
				}
			}
		}
	case *ssa.MakeSlice:
		if n, isK := constInt(x.Len); isK && isByteSlice(x.Type()) {
			return "make:" + itoa(int(n)), 0, int(n), true
		}
	case *ssa.UnOp:
		if x.Op == token.MUL {
			if fa, isFA := x.X.(*ssa.FieldAddr); isFA && isByteSlice(x.Type()) {
				st := derefStructT(fa.X.Type())
				if st != nil {
					tn := ""
					if n := an.NamedOf(fa.X.Type()); n != nil {
						tn = n.Obj().Name()
					}
					return "field:" + tn + "." + an.FName(st, fa.Field), 0, -1, true
				}
			}
		}
	case *ssa.Extract:
		if call, isC := x.Tuple.(*ssa.Call); isC && call.Call.IsInvoke() && call.Call.Method.Name() == "Get" && x.Index == 0 && isByteSlice(x.Type()) {
			return "get", 0, -1, true
		}
	case *ssa.Slice:
		if !isByteSlice(x.Type()) {
			return "", 0, -1, false
		}
		b, o, l, ok := layBase(p, x.X, depth+1)
		if !ok {
			return "", 0, -1, false
		}
		lo := 0
		if x.Low != nil {
			k, isK := constInt(x.Low)
			if !isK {
				return "", 0, -1, false
			}
			lo = int(k)
		}
		nl := -1
		if x.High != nil {
			if k, isK := constInt(x.High); isK {
				nl = int(k) - lo
			} else {
				nl = -1
			}
		} else if l >= 0 {
			nl = l - lo
		}
		return b, o + lo, nl, true
	}
	return "", 0, -1, false
}

// staticLen: the statically known length of a byte-slice value (-1 unknown).
func staticLen(p *an.Prog, v ssa.Value) int {
	if sl, ok := v.(*ssa.Slice); ok {
		lo := 0
		if sl.Low != nil {
			k, isK := constInt(sl.Low)
			if !isK {
				return -1
			}
			lo = int(k)
		}
		if sl.High != nil {
			if k, isK := constInt(sl.High); isK {
				return int(k) - lo
			}
			return -1
		}
		if pt, isP := sl.X.Type().Underlying().(*types.Pointer); isP {
			if at, isA := pt.Elem().Underlying().(*types.Array); isA {
				return int(at.Len()) - lo
			}
		}
	}
	if _, _, l, ok := layBase(p, v, 0); ok {
		return l
	}
	return -1
}

var binWidth = map[string]int{"Uint16": 2, "Uint32": 4, "Uint64": 8, "PutUint16": 2, "PutUint32": 4, "PutUint64": 8}

// layoutAccesses extracts the constant-offset accesses of f.
func layoutAccesses(p *an.Prog, f *ssa.Function) []layAccess {
	var out []layAccess
	add := func(v ssa.Value, width int, kind string, write bool, in ssa.Instruction) {
		b, off, l, ok := layBase(p, v, 0)
		if !ok {
			return
		}
		hi := -1
		if width > 0 {
			hi = off + width
		} else if width == 0 && l >= 0 {
			hi = off + l
		}
		out = append(out, layAccess{Base: b, Lo: off, Hi: hi, Kind: kind, Write: write, In: in})
	}
	an.Instrs(f, func(in ssa.Instruction) {
		switch x := in.(type) {
		case *ssa.Call:
			if callee := x.Call.StaticCallee(); callee != nil {
				k := an.CanonKeyOf(callee)
				if strings.HasPrefix(k, "(encoding/binary.littleEndian).") || strings.HasPrefix(k, "(encoding/binary.bigEndian).") {
					w := binWidth[callee.Name()]
					if w > 0 && len(x.Call.Args) >= 2 {
						add(x.Call.Args[1], w, "u"+itoa(w*8), strings.HasPrefix(callee.Name(), "Put"), in)
					}
					return
				}
			}
			if b, isB := x.Call.Value.(*ssa.Builtin); isB && b.Name() == "copy" && len(x.Call.Args) == 2 {
				// copy moves min(len(dst), len(src)) bytes
				ld, ls := staticLen(p, x.Call.Args[0]), staticLen(p, x.Call.Args[1])
				n := 0
				switch {
				case ld >= 0 && ls >= 0 && ls < ld:
					n = ls
				case ld >= 0 && ls >= 0:
					n = ld
				case ld >= 0:
					n = -2 // unknown source length: at most the destination
				case ls >= 0:
					n = ls
				}
				w := n
				if n == -2 {
					w = -1 // open ended
				}
				wd := w
				if n == -2 {
					wd = ld // the destination was sliced explicitly: that is the field
				}
				add(x.Call.Args[0], wd, "bytes", true, in)
				add(x.Call.Args[1], w, "bytes", false, in)
			}
		case *ssa.IndexAddr:
			if !isByteSlice(x.X.Type()) {
				return
			}
			k, isK := constInt(x.Index)
			if !isK {
				return
			}
			b, off, _, ok := layBase(p, x.X, 0)
			if !ok {
				return
			}
			write := false
			for _, r := range *x.Referrers() {
				if st, isSt := r.(*ssa.Store); isSt && st.Addr == ssa.Value(x) {
					write = true
				}
			}
			out = append(out, layAccess{Base: b, Lo: off + int(k), Hi: off + int(k) + 1, Kind: "byte", Write: write, In: in})
		case *ssa.Convert:
			// string(k[a:b])
			if sl, isSl := x.X.(*ssa.Slice); isSl && isByteSlice(sl.Type()) {
				add(sl, 0, "bytes", false, in)
			}
		case *ssa.Store:
			// field = v[a:b]   (a sub-slice kept as a field: a read of that range)
			if sl, isSl := x.Val.(*ssa.Slice); isSl && isByteSlice(sl.Type()) {
				if _, isFA := x.Addr.(*ssa.FieldAddr); isFA {
					add(sl, 0, "bytes", false, in)
				}
			}
		case *ssa.Return:
			for _, r := range x.Results {
				if sl, isSl := r.(*ssa.Slice); isSl && isByteSlice(sl.Type()) {
					add(sl, 0, "bytes", false, in)
				}
			}
		}
	})
	return out
}

// DumpLayout prints the extracted accesses of the codec packages (debug aid: mwcheck -layout).
func DumpLayout(p *an.Prog) {
	var lines []string
	for _, f := range p.ModFuncs {
		pk := an.FuncPkg(f)
		if pk == nil || (pk.Path() != pkgTxmgr && pk.Path() != pkgKeystore) {
			continue
		}
		as := layoutAccesses(p, f)
		if len(as) == 0 {
			continue
		}
		var ss []string
		for _, a := range as {
			ss = append(ss, a.String())
		}
		lines = append(lines, fmt.Sprintf("%-70s %s", sk(f), strings.Join(ss, " ")))
	}
	sort.Strings(lines)
	for _, l := range lines {
		fmt.Println(l)
	}
}

type layRef struct {
	pkg, recv, name, base string
}

type layGroup struct {
	name     string
	siblings bool // all writers must produce the same layout
	writers  []layRef
	readers  []layRef
}

func tx(name, base string) layRef { return layRef{pkgTxmgr, "", name, base} }

// layGroups is the reviewed pairing of the writers and readers of each stored record
// (masswallet/txmgr/*_db.go, masswallet/keystore/db.go).
var layGroups = []layGroup{
	{"unspent-key", false, []layRef{tx("canonicalUnspentKey", "make:78")},
		[]layRef{tx("readCanonicalUnspentKey", "param:k"), tx("existsRawUnspent", "param:k")}},
	{"credit-key", false, []layRef{tx("keyCredit", "make:76"), tx("existsRawUnspent", "make:76")},
		[]layRef{tx("readRawCreditKey", "param:k"), tx("fetchTxRecordKeyFromRawCreditKey", "param:k"), tx("fetchNsUnspentValueFromRawCredit", "param:k"),
			tx("getCreditsByTxHashHeight", "field:Entry.Key"), tx("getCreditsByTxHashHeight", "make:40"), tx("getLastCreditByTxHashIndexTillHeight", "field:Entry.Key")}},
	{"outpoint-key", true, []layRef{tx("canonicalOutPoint", "make:36"), {pkgTxmgr, "Credit", "Hash", "make:36"}, {pkgTxmgr, "Debit", "Hash", "make:36"}},
		[]layRef{tx("readUnminedCreditKey", "param:k")}},
	{"txrecord-key", false, []layRef{tx("keyTxRecord", "make:72")},
		[]layRef{tx("readTxRecordKey", "param:k"), tx("fetchLatestRawTxRecordOfHash", "field:Entry.Key"), tx("fetchRawTxRecordByHashHeight", "make:40"), tx("fetchRawTxRecordByTxHashHeight", "make:40")}},
	{"game-history-key", false, []layRef{tx("keyGameHistory", "make:88"), tx("keyUnminedGameHistory", "make:80")},
		[]layRef{tx("readGameHistory", "param:k")}},
	{"credit-value", true, []layRef{tx("valueUnspentCredit", "make:45"), tx("valueUnminedCredit", "make:45")},
		[]layRef{tx("readCreditValue", "param:v"), tx("fetchRawCreditAmountSpent", "param:v"), tx("fetchRawCreditMaturityScriptHash", "param:v"), tx("unspendRawCredit", "make:45"),
			tx("valueUnminedCreditFromMined", "param:credValue"), tx("readCreditSpender", "param:credValue")}},
	{"unspent-value", false, []layRef{tx("valueUnspent", "make:40")}, []layRef{tx("readBlockOfUnspent", "param:v")}},
	{"txrecord-value", false, []layRef{tx("putTxRecord", "make:28")}, []layRef{tx("readTxRecordLoc", "param:v")}},
	{"block-value", false, []layRef{tx("valueBlockRecord", "make:76")}, []layRef{tx("readRawBlockRecord", "param:v"), tx("readBlockHashFromValue", "param:v")}},
	{"block-key", false, []layRef{tx("keyBlockRecord", "make:8")}, []layRef{tx("readRawBlockRecord", "param:k")}},
	{"debit-value", false, []layRef{tx("putDebit", "make:84")}, []layRef{tx("existsDebit", "get")}},
	{"wallet-status-value", false, []layRef{{pkgTxmgr, "SyncStore", "PutWalletStatus", "make:9"}}, []layRef{tx("readWalletStatus", "param:v")}},
	{"synced-block-value", false, []layRef{tx("putSyncedBucket", "make:36")}, []layRef{tx("fetchSyncedBlock", "get")}},
	{"synced-to-value", false, []layRef{tx("putSyncedTo", "make:8")}, []layRef{tx("fetchSyncedTo", "get"), tx("resetSyncedTo", "get")}},
	{"address-value", false, []layRef{tx("valueAddressRecord", "make:8")}, []layRef{tx("readAddressHeight", "param:v"), tx("fetchAddressesByWalletId", "field:Entry.Value")}},
	{"balance-value", false, []layRef{tx("putMinedBalance", "make:8")}, []layRef{{pkgTxmgr, "UtxoStore", "FetchAllMinedBalance", "field:Entry.Value"}, {pkgTxmgr, "UtxoStore", "GrossBalance", "field:Entry.Value"}}},
	{"pubkey-record-key", false, []layRef{{pkgKeystore, "", "putEncryptedPubKey", "make:8"}}, []layRef{{pkgKeystore, "", "fetchEncryptedPubKey", "field:Entry.Key"}}},
}

// layShifted: record A restricted to [lo,hi) is, by construction, record B (the code slices one out of the other).
var layShifted = []struct {
	why    string
	a      layRef
	lo, hi int
	b      layRef
}{
	{"fetchTxRecordKeyFromRawCreditKey returns creditKey[0:72] as a tx-record key", tx("keyCredit", "make:76"), 0, 72, tx("keyTxRecord", "make:72")},
	{"fetchNsUnspentValueFromRawCredit returns creditKey[32:72] as an unspent value; existsRawUnspent pastes the unspent value into creditKey[32:72]", tx("keyCredit", "make:76"), 32, 72, tx("valueUnspent", "make:40")},
	{"existsRawUnspent pastes unspentKey[42:74] / [74:78] into creditKey[0:32] / [72:76]", tx("canonicalUnspentKey", "make:78"), 42, 74, tx("keyCredit", "make:76")},
}

func layWrites(p *an.Prog, f *ssa.Function, base string) (ws []layAccess, length int) {
	length = -1
	if strings.HasPrefix(base, "make:") {
		fmt.Sscanf(base[5:], "%d", &length)
	}
	for _, a := range layoutAccesses(p, f) {
		if a.Base == base && a.Write {
			ws = append(ws, a)
		}
	}
	return
}

func layKey(a layAccess) string {
	hi := "…"
	if a.Hi >= 0 {
		hi = itoa(a.Hi)
	}
	return fmt.Sprintf("[%d:%s]%s", a.Lo, hi, a.Kind)
}

// ruleLayout checks the groups named in sel (nil: all).
func ruleLayout(c *report.Ctx, sel []string, floor int) {
	p := c.P
	c.Rule("record-layout", "every reader of a stored record slices it at offsets and widths its writers produce (integers: the exact field; byte ranges: field boundaries), and sibling writers of one record produce the same layout", floor)
	want := map[string]bool{}
	for _, s := range sel {
		want[s] = true
	}
	resolve := func(r layRef) *ssa.Function {
		f := p.Fn(r.pkg, r.recv, r.name)
		if f == nil {
			c.Lost(shortPkg(r.pkg) + "." + r.name)
		}
		return f
	}
	for _, g := range layGroups {
		if len(want) > 0 && !want[g.name] {
			continue
		}
		type wl struct {
			ref    layRef
			ws     []layAccess
			length int
			bounds map[int]bool
		}
		var writers []wl
		for _, wr := range g.writers {
			f := resolve(wr)
			if f == nil {
				continue
			}
			ws, l := layWrites(p, f, wr.base)
			if len(ws) == 0 {
				c.Fail(g.name+":writer:"+wr.name, "anchor lost: "+wr.name+" no longer fills a "+wr.base+" record", p.Pos(f.Pos()))
				continue
			}
			b := map[int]bool{0: true}
			if l >= 0 {
				b[l] = true
			}
			for _, a := range ws {
				b[a.Lo] = true
				if a.Hi >= 0 {
					b[a.Hi] = true
				}
			}
			writers = append(writers, wl{wr, ws, l, b})
		}
		if len(writers) == 0 {
			continue
		}
		// sibling writers agree
		if g.siblings {
			sig := func(w wl) string {
				m := map[string]bool{}
				for _, a := range w.ws {
					m[layKey(a)] = true
				}
				var ks []string
				for k := range m {
					ks = append(ks, k)
				}
				sort.Strings(ks)
				return strings.Join(ks, " ")
			}
			ref := sig(writers[0])
			for _, w := range writers[1:] {
				key := g.name + ":siblings:" + writers[0].ref.name + "~" + w.ref.name
				if s := sig(w); s != ref {
					c.Fail(key, fmt.Sprintf("two writers of the %s record disagree: %s writes {%s}, %s writes {%s}; one reader decodes both", g.name, writers[0].ref.name, ref, w.ref.name, s), "")
				} else {
					c.OK(key, "same layout {"+ref+"}", "")
				}
			}
		}
		// readers
		for _, rr := range g.readers {
			f := resolve(rr)
			if f == nil {
				continue
			}
			n := 0
			for _, a := range layoutAccesses(p, f) {
				if a.Base != rr.base {
					continue
				}
				if a.Write && !strings.HasPrefix(rr.base, "make:") {
					continue
				}
				if strings.HasPrefix(rr.base, "make:") && !a.Write && a.Kind == "bytes" {
					continue // the made slice handed on as a whole
				}
				n++
				key := fmt.Sprintf("%s:%s:%s%s", g.name, rr.name, rr.base, layKey(a))
				ok := false
				var layouts []string
				for _, w := range writers {
					var ks []string
					for _, x := range w.ws {
						ks = append(ks, layKey(x))
					}
					layouts = append(layouts, w.ref.name+"{"+strings.Join(ks, " ")+"}")
					if a.Kind == "bytes" {
						if w.bounds[a.Lo] && (a.Hi < 0 || w.bounds[a.Hi] || (w.length >= 0 && a.Hi > w.length && a.Lo >= w.length)) {
							ok = true
						}
						continue
					}
					for _, x := range w.ws {
						if x.Lo == a.Lo && x.Hi == a.Hi && (x.Kind == a.Kind || x.Kind == "bytes") {
							ok = true
						}
					}
				}
				if ok {
					c.OK(key, "matches a writer field", posOf(c, a.In))
				} else {
					c.Fail(key, fmt.Sprintf("%s reads %s%s of the %s record, but its writers lay it out as %s: the field is decoded from the wrong bytes", rr.name, rr.base, layKey(a), g.name, strings.Join(layouts, "; ")), posOf(c, a.In))
				}
			}
			if n == 0 {
				c.Fail(g.name+":reader:"+rr.name, "anchor lost: "+rr.name+" no longer reads "+rr.base+" at constant offsets", p.Pos(f.Pos()))
			}
		}
	}
	if len(want) == 0 || want["credit-key"] {
		for _, sh := range layShifted {
			fa, fb := resolve(sh.a), resolve(sh.b)
			if fa == nil || fb == nil {
				continue
			}
			wa, _ := layWrites(p, fa, sh.a.base)
			wb, lb := layWrites(p, fb, sh.b.base)
			// typed fields of A inside [lo,hi) shifted by -lo must be typed fields of B (when B covers them)
			key := fmt.Sprintf("shifted:%s[%d:%d]~%s", sh.a.name, sh.lo, sh.hi, sh.b.name)
			bad := ""
			for _, a := range wa {
				if a.Kind == "bytes" || a.Lo < sh.lo || a.Hi > sh.hi || a.Hi < 0 {
					continue
				}
				lo, hi := a.Lo-sh.lo, a.Hi-sh.lo
				if sh.b.name == "keyCredit" {
					continue // unspent-key pieces are pasted at two places; checked through existsRawUnspent's own accesses
				}
				if lb >= 0 && hi > lb {
					continue
				}
				found := false
				for _, b := range wb {
					if b.Lo == lo && b.Hi == hi && b.Kind == a.Kind {
						found = true
					}
				}
				if !found {
					bad = fmt.Sprintf("%s field %s has no counterpart at [%d:%d] in %s", sh.a.name, layKey(a), lo, hi, sh.b.name)
				}
			}
			if bad != "" {
				c.Fail(key, sh.why+" — but "+bad, "")
			} else {
				c.OK(key, sh.why, "")
			}
		}
	}
}
