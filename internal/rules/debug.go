package rules

import (
	"fmt"
	"sort"

	"verif/internal/an"
)

// DumpOps prints the bucket operation table (debug aid: mwcheck -ops).
func DumpOps(p *an.Prog) {
	ops := schemaOps(p)
	var lines []string
	for _, op := range ops {
		lines = append(lines, fmt.Sprintf("%-40s %-12s %-60s keys=%v vals=%v ctx=%s", op.Bucket, op.Method, sk(op.Fn), op.Keys, op.Vals, op.Ctx))
	}
	sort.Strings(lines)
	for _, l := range lines {
		fmt.Println(l)
	}
}
