package rules

import (
	"fmt"
	"sort"
	"strings"

	"golang.org/x/tools/go/ssa"

	"verif/internal/an"
)

// DumpOps prints the bucket operation table (debug aid: mwcheck -ops).
func DumpOps(p *an.Prog) {
	ops := schemaOps(p)
	var lines []string
	for _, op := range ops {
		lines = append(lines, fmt.Sprintf("%-40s %-12s %-60s keys=%v vals=%v ctx=%s", op.Bucket, op.Method, sk(op.Fn), op.Keys, op.Vals, op.Ctx))
	}
	sort.Strings(lines)
	for _, l := range lines {
		fmt.Println(l)
	}
}

// DumpIndexSites prints IndexAddr sites on MsgTx.TxIn / TxOut slices (debug aid).
func DumpIndexSites(p *an.Prog) {
	for _, f := range p.ModFuncs {
		an.Instrs(f, func(in ssa.Instruction) {
			ia, ok := in.(*ssa.IndexAddr)
			if !ok {
				return
			}
			d := p.Desc(ia.X)
			if strings.HasSuffix(d, "MsgTx.TxIn") || strings.HasSuffix(d, "MsgTx.TxOut") {
				fmt.Printf("%-70s %-40s [%s]  %s\n", sk(f), d, p.Desc(ia.Index), p.InstrPos(in))
			}
		})
	}
}

// DumpViewCounts prints, per WalletManager method, the View/Update call sites reachable from it (debug aid).
func DumpViewCounts(p *an.Prog) {
	view := p.Fn(pkgDB, "", "View")
	upd := p.Fn(pkgDB, "", "Update")
	for _, f := range p.ModFuncs {
		if f.Signature.Recv() == nil || f.Parent() != nil {
			continue
		}
		n := an.NamedOf(f.Signature.Recv().Type())
		if n == nil || n.Obj().Name() != "WalletManager" || !f.Object().Exported() {
			continue
		}
		reached, _ := p.Reach([]*ssa.Function{f}, an.ReachOpts{})
		var vs, us []string
		for g := range reached {
			for _, s := range calls(g, view) {
				vs = append(vs, p.InstrPos(s))
			}
			for _, s := range calls(g, upd) {
				us = append(us, p.InstrPos(s))
			}
		}
		sort.Strings(vs)
		sort.Strings(us)
		fmt.Printf("%-30s views=%d %v updates=%d\n", f.Name(), len(vs), vs, len(us))
	}
}
