package rules

import (
	"fmt"
	"sort"
	"strings"

	"golang.org/x/tools/go/ssa"

	"verif/internal/an"
)

// DumpOps prints the bucket operation table (debug aid: mwcheck -ops).
func DumpOps(p *an.Prog) {
	ops := schemaOps(p)
	var lines []string
	for _, op := range ops {
		lines = append(lines, fmt.Sprintf("%-40s %-12s %-60s keys=%v vals=%v ctx=%s", op.Bucket, op.Method, sk(op.Fn), op.Keys, op.Vals, op.Ctx))
	}
	sort.Strings(lines)
	for _, l := range lines {
		fmt.Println(l)
	}
}

// DumpIndexSites prints IndexAddr sites on MsgTx.TxIn / TxOut slices (debug aid).
func DumpIndexSites(p *an.Prog) {
	for _, f := range p.ModFuncs {
		an.Instrs(f, func(in ssa.Instruction) {
			ia, ok := in.(*ssa.IndexAddr)
			if !ok {
				return
			}
			d := p.Desc(ia.X)
			if strings.HasSuffix(d, "MsgTx.TxIn") || strings.HasSuffix(d, "MsgTx.TxOut") {
				fmt.Printf("%-70s %-40s [%s]  %s\n", sk(f), d, p.Desc(ia.Index), p.InstrPos(in))
			}
		})
	}
}
