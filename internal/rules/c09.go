package rules

import (
	"golang.org/x/tools/go/ssa"

	"verif/internal/an"
	"verif/internal/report"
)

func init() {
	register(&Check{
		ID: "C09",
		Explain: "Structural necessary conditions of pending-transaction tracking, decided on SSA + call graph: " +
			"(1) key agreement on the pending buckets (m: 32-byte hash, mi/mc: 36-byte outpoint, LG: pending-history key) — every Get/Delete key has a width class the bucket's Put sites use; " +
			"(2) no value read from another bucket is stored verbatim into m/mi/mc/LG; " +
			"(3) settle pairing: on confirmation the pending record, its pending credits are deleted before double-spends are purged, removeConflict deletes credits+inputs+history+record, Rollback re-creates record+inputs+credits of every non-coinbase transaction; " +
			"(4) functions that handle records re-read from bucket m do not consult the relevance lists (not stored in m); " +
			"(5) the coin-selection filter tests the spent-by-unconfirmed flag (shared atom with C02).",
		NotDec: "recursion depth/termination of conflict removal; the exact pending set after arbitrary interleavings; that the 36-byte key is the right outpoint (only its width class is judged).",
		Run:    runC09,
	})
}

func runC09(c *report.Ctx) {
	rulePendingMarkForEveryRelevantInput(c)
	ruleLoopCellAddressNotRetained(c)
	p := c.P
	ruleSchema(c, []string{"nsUnmined", "nsUnminedInputs", "nsUnminedCredits", "nsUnminedGameHistory"}, 15, 5)
	ruleMinedCreditShortcutBlockOnly(c)
	ruleUnminedCreditCheckedPerOutput(c)
	ruleEveryRecordedSpenderConsidered(c)
	ruleEveryRelevantOutputCredited(c) // an output already recorded must refuse the transaction, not be skipped
	ruleSeenSetOutlivesConfirmation(c)
	rulePendingInputRowOwners(c)

	c.Rule("settle-pairing", "confirmation, conflict removal and rollback move a transaction between the pending and the mined buckets completely (every part of the record) and in the order that keeps the confirming transaction out of its own conflict purge", 9)
	insertMined := fn(c, pkgTxmgr, "TxStore", "insertMinedTx")
	existsRawUnmined := fn(c, pkgTxmgr, "", "existsRawUnmined")
	delUnminedCredits := fn(c, pkgTxmgr, "UtxoStore", "deleteUnminedCredits")
	delRawUnmined := fn(c, pkgTxmgr, "", "deleteRawUnmined")
	removeDS := fn(c, pkgTxmgr, "TxStore", "removeDoubleSpends")
	removeConflict := fn(c, pkgTxmgr, "TxStore", "removeConflict")
	delRawUnminedCredit := fn(c, pkgTxmgr, "", "deleteRawUnminedCredit")
	delUnminedInputs := fn(c, pkgTxmgr, "UtxoStore", "deleteUnminedInputs")
	rmUnminedGame := fn(c, pkgTxmgr, "UtxoStore", "removeUnminedGameHistory")
	rollback := fn(c, pkgTxmgr, "TxStore", "Rollback")
	putRawUnmined := fn(c, pkgTxmgr, "", "putRawUnmined")
	putRawUnminedInput := fn(c, pkgTxmgr, "", "putRawUnminedInput")
	putRawUnminedCredit := fn(c, pkgTxmgr, "", "putRawUnminedCredit")
	delRawCredit := fn(c, pkgTxmgr, "", "deleteRawCredit")
	insertMempool := fn(c, pkgTxmgr, "TxStore", "insertMemPoolTx")
	insUnminedInputs := fn(c, pkgTxmgr, "UtxoStore", "insertUnminedInputs")
	addUnminedCredits := fn(c, pkgTxmgr, "UtxoStore", "addUnminedCredits")
	addCredits := fn(c, pkgTxmgr, "UtxoStore", "AddCredits")
	icb := p.Fn(pkgChain, "", "IsCoinBaseTx")

	// (a) insertMinedTx: on the "was pending" branch both deletes happen, and before removeDoubleSpends
	if insertMined != nil && existsRawUnmined != nil {
		sites := calls(insertMined, existsRawUnmined)
		if len(sites) != 1 {
			c.Fail(sk(insertMined)+":existsRawUnmined", "expected exactly one pending-record probe in insertMinedTx", p.Pos(insertMined.Pos()))
		} else {
			probe := sites[0].(*ssa.Call)
			// the block entered when the probed value is non-nil
			var nonNil *ssa.BasicBlock
			for _, r := range *probe.Referrers() {
				ex, ok := r.(*ssa.Extract)
				if !ok || ex.Index != 0 {
					continue
				}
				for _, rr := range *ex.Referrers() {
					b, ok := rr.(*ssa.BinOp)
					if !ok {
						continue
					}
					for _, r3 := range *b.Referrers() {
						if ifi, ok := r3.(*ssa.If); ok {
							if cv, trueMeansNil, ok := an.NilCmp(ifi.Cond); ok && cv == ssa.Value(ex) {
								if trueMeansNil {
									nonNil = ifi.Block().Succs[1]
								} else {
									nonNil = ifi.Block().Succs[0]
								}
							}
						}
					}
				}
			}
			if nonNil == nil {
				c.Fail(sk(insertMined)+":was-pending-branch", "no branch on the pending-record probe found", posOf(c, probe))
			} else {
				for _, t := range []struct {
					f    *ssa.Function
					what string
				}{{delUnminedCredits, "deleteUnminedCredits"}, {delRawUnmined, "deleteRawUnmined"}} {
					if t.f == nil {
						continue
					}
					key := sk(insertMined) + ":was-pending=>" + t.what
					s := &an.Search{P: p, Fn: insertMined, Cut: cutCalls(p, an.Set(t.f)), GoalReturn: func(r *ssa.Return, pred *ssa.BasicBlock) bool {
						return p.ClassifyReturn(r, pred) != an.RetError
					}}
					if w := s.Run(nonNil, 0, nonNil.Preds[0]); w != nil {
						c.Fail(key, "a transaction that was pending can be confirmed without "+t.what+" (it would stay in the pending set / be settled twice)", posOf(c, probe), w...)
					} else {
						c.OK(key, "every success path of the was-pending branch passes "+t.what, posOf(c, probe))
					}
				}
				// ordering: removeDoubleSpends only after the probe, and on the was-pending branch only after deleteRawUnmined
				for i, ds := range calls(insertMined, removeDS) {
					key := siteKey(insertMined, "removeDoubleSpends-after-own-record-deleted", i+1)
					if !probe.Block().Dominates(ds.Block()) {
						c.Fail(key, "removeDoubleSpends runs before the pending-record probe: the confirming transaction is still in the pending set and is purged as its own double-spend together with its unconfirmed descendants", posOf(c, ds))
						continue
					}
					w := p.ReachBlockWithout(nonNil, 0, nonNil.Preds[0], func(b, pred *ssa.BasicBlock) bool { return b == ds.Block() }, cutCalls(p, an.Set(delRawUnmined)))
					if w != nil {
						c.Fail(key, "on the was-pending branch removeDoubleSpends is reachable before deleteRawUnmined: the confirming transaction would be purged as its own double-spend", posOf(c, ds), w...)
					} else {
						c.OK(key, "dominated by the probe; on the was-pending branch preceded by deleteRawUnmined", posOf(c, ds))
					}
				}
			}
		}
	}
	// (b) removeConflict deletes every part
	mustPass(c, removeConflict, an.Set(delUnminedInputs), "deleteUnminedInputs")
	mustPass(c, removeConflict, an.Set(rmUnminedGame), "removeUnminedGameHistory")
	mustPass(c, removeConflict, an.Set(delRawUnmined), "deleteRawUnmined")
	if removeConflict != nil && delRawUnminedCredit != nil {
		// per output iteration
		sites := calls(removeConflict, delRawUnminedCredit)
		if len(sites) == 0 {
			c.Fail(sk(removeConflict)+"=>each-output:deleteRawUnminedCredit", "removeConflict does not delete the pending credits of the removed transaction", p.Pos(removeConflict.Pos()))
		} else {
			hdr := loopHeaderOf(sites[0].Block())
			if hdr == nil {
				c.Fail(sk(removeConflict)+"=>each-output:deleteRawUnminedCredit", "pending-credit delete is not inside the loop over the transaction's outputs", posOf(c, sites[0]))
			} else {
				// from loop body entry (the successor of hdr inside the loop) back to hdr without the delete
				var body *ssa.BasicBlock
				for _, s := range hdr.Succs {
					if loopContainsBlock(hdr, s) {
						body = s
					}
				}
				w := []string{"no loop body"}
				if body != nil {
					w = p.ReachBlockWithout(body, 0, hdr, func(b, pred *ssa.BasicBlock) bool { return b == hdr }, cutCalls(p, an.Set(delRawUnminedCredit)))
				}
				if w != nil {
					c.Fail(sk(removeConflict)+"=>each-output:deleteRawUnminedCredit", "an output iteration of removeConflict can complete without deleting its pending credit", posOf(c, sites[0]), w...)
				} else {
					c.OK(sk(removeConflict)+"=>each-output:deleteRawUnminedCredit", "every output iteration deletes the pending credit", posOf(c, sites[0]))
				}
			}
		}
	}
	// (c) pending insert: record + inputs (+credits via AddCredits→addUnminedCredits)
	existsAlready := func(a an.Atom) bool { return false }
	_ = existsAlready
	mustPassExceptAtom(c, insertMempool, an.Set(putRawUnmined), "putRawUnmined", func(a an.Atom) bool {
		return atomNilCmpOfCall(a, existsRawUnmined, false)
	}, "already pending (idempotent)")
	mustPassExceptAtom(c, insertMempool, an.Set(insUnminedInputs), "insertUnminedInputs", func(a an.Atom) bool {
		return atomNilCmpOfCall(a, existsRawUnmined, false)
	}, "already pending (idempotent)")
	if addCredits != nil && addUnminedCredits != nil {
		// AddCredits with block == nil reaches addUnminedCredits
		ok := false
		for _, s := range calls(addCredits, addUnminedCredits) {
			if an.AnyAtom(p.GuardsOf(s), func(a an.Atom) bool {
				_, isPar := a.X.(*ssa.Parameter)
				return a.Op.String() == "==" && isPar && an.IsNilConst(a.Y)
			}) {
				ok = true
			}
		}
		if ok {
			c.OK(sk(addCredits)+":unmined=>addUnminedCredits", "block==nil branch stores pending credits", p.Pos(addCredits.Pos()))
		} else {
			c.Fail(sk(addCredits)+":unmined=>addUnminedCredits", "AddCredits has no block==nil branch that stores pending credits", p.Pos(addCredits.Pos()))
		}
	}
	// (d) Rollback: record, inputs, credits return to the pending buckets
	if rollback != nil {
		nsTx := p.Type(pkgTxmgr, "StoreBucketMeta")
		_ = nsTx
		// the tx-record delete is the start of "this tx leaves the mined set"
		var recDeletes []ssa.Instruction
		for _, op := range schemaOps(p) {
			if op.Fn == rollback && op.Method == "Delete" && op.Bucket == "nsTxRecords" {
				recDeletes = append(recDeletes, op.Site)
			}
		}
		if len(recDeletes) == 0 {
			c.Fail(sk(rollback)+":tx-record-delete", "Rollback no longer deletes the tx record (anchor of the re-pending obligation lost)", p.Pos(rollback.Pos()))
		}
		for i, d := range recDeletes {
			pairedInIteration(c, siteKey(rollback, "txrecord.Delete~putRawUnmined", i+1), d, an.Set(putRawUnmined), "putRawUnmined (the transaction returns to the pending set)",
				func(a an.Atom) bool { return icb != nil && an.BoolCall(a, icb, "", true) }, "the transaction is a coinbase (never pending)")
		}
		for i, s := range calls(rollback, putRawUnmined) {
			_ = i
			// after putRawUnmined, the input loop must put every input: check the put is the first store of each iteration
			_ = s
		}
		ins := calls(rollback, putRawUnminedInput)
		if len(ins) == 0 {
			c.Fail(sk(rollback)+"=>each-input:putRawUnminedInput", "Rollback does not re-create the pending-input entries of a rolled-back transaction: its inputs would look free", p.Pos(rollback.Pos()))
		}
		for i, s := range ins {
			key := siteKey(rollback, "each-input:putRawUnminedInput", i+1)
			hdr := loopHeaderOf(s.Block())
			if hdr == nil {
				c.Fail(key, "pending-input put is not inside the loop over the transaction's inputs", posOf(c, s))
				continue
			}
			var body *ssa.BasicBlock
			for _, su := range hdr.Succs {
				if loopContainsBlock(hdr, su) {
					body = su
				}
			}
			w := []string{"no loop body"}
			if body != nil {
				w = p.ReachBlockWithout(body, 0, hdr, func(b, pred *ssa.BasicBlock) bool { return b == hdr }, cutCalls(p, an.Set(putRawUnminedInput)))
			}
			if w != nil {
				c.Fail(key, "an input iteration of Rollback can complete without putRawUnminedInput", posOf(c, s), w...)
			} else {
				c.OK(key, "every input iteration re-creates the pending-input entry first", posOf(c, s))
			}
		}
		dcs := calls(rollback, delRawCredit)
		if len(dcs) == 0 {
			c.Fail(sk(rollback)+":deleteRawCredit", "anchor lost: Rollback no longer deletes mined credits through deleteRawCredit", p.Pos(rollback.Pos()))
		}
		for i, s := range dcs {
			pairedInIteration(c, siteKey(rollback, "deleteRawCredit~putRawUnminedCredit", i+1), s, an.Set(putRawUnminedCredit), "putRawUnminedCredit (the credit returns to the pending credits)", nil, "")
		}
	}

	ruleUnminedRecordTypestate(c)

	// ---- selection uses the flag ------------------------------------------------------
	ruleEligibility(c, "pending")
	rulePendingInputsAppend(c)
	ruleRollbackReverseOrder(c)
	ruleLayout(c, []string{"outpoint-key", "credit-value"}, 12)
	ruleRelevantIndex(c, 4)
	ruleFlagsBeforeFilter(c)
	ruleConflictWalksOutputs(c)
}

func loopContainsBlock(hdr, b *ssa.BasicBlock) bool {
	for _, pr := range hdr.Preds {
		if hdr.Dominates(pr) && loopContains(hdr, pr, b) {
			return true
		}
	}
	return false
}

// atomNilCmpOfCall: atom is `result#0 of call to f  ==/!= nil` (isNil selects which).
func atomNilCmpOfCall(a an.Atom, f *ssa.Function, isNil bool) bool {
	if f == nil || a.X == nil || a.Y == nil || !an.IsNilConst(a.Y) {
		return false
	}
	want := "!="
	if isNil {
		want = "=="
	}
	if a.Op.String() != want {
		return false
	}
	v := a.X
	if ex, ok := v.(*ssa.Extract); ok {
		v = ex.Tuple
	}
	call, ok := v.(*ssa.Call)
	return ok && call.Call.StaticCallee() == f
}

// mustPassExceptAtom is mustPassExcept with a structured excuse.
func mustPassExceptAtom(c *report.Ctx, f *ssa.Function, set map[*ssa.Function]bool, what string, excuse func(an.Atom) bool, reason string) {
	if f == nil {
		return
	}
	for m := range set {
		if m == nil {
			delete(set, m)
		}
	}
	if len(set) == 0 {
		return
	}
	p := c.P
	construct := sk(f) + "=>" + what
	excused := 0
	s := &an.Search{P: p, Fn: f, Cut: cutCalls(p, set), GoalReturn: func(r *ssa.Return, pred *ssa.BasicBlock) bool {
		if p.ClassifyReturn(r, pred) == an.RetError {
			return false
		}
		if an.AnyAtom(p.GuardsOf(r), excuse) {
			excused++
			return false
		}
		return true
	}}
	w := s.Run(f.Blocks[0], 0, nil)
	if w != nil {
		c.Fail(construct, "a success return of "+sk(f)+" is reachable without passing "+what, p.Pos(f.Pos()), w...)
	} else {
		d := "every success return passes " + what
		if excused > 0 {
			d += " (excused early return: " + reason + ")"
		}
		c.OK(construct, d, p.Pos(f.Pos()))
	}
}

// ruleUnminedRecordTypestate (C09, C02): records re-read from bucket m carry no relevance lists.
func ruleUnminedRecordTypestate(c *report.Ctx) {
	p := c.P
	removeConflict := fn(c, pkgTxmgr, "TxStore", "removeConflict")
	c.Rule("unmined-record-typestate", "records decoded from bucket m (readRawUnmined) have empty RelevantTxIn/RelevantTxOut; no function reachable from removeConflict may consult those lists", 3)
	txrec := p.Type(pkgTxmgr, "TxRecord")
	if removeConflict != nil && txrec != nil {
		reached, parent := p.Reach([]*ssa.Function{removeConflict}, an.ReachOpts{})
		n := 0
		for f := range reached {
			if !p.InModule(f) || f.Blocks == nil {
				continue
			}
			n++
			bad := false
			for _, fname := range []string{"RelevantTxIn", "RelevantTxOut"} {
				for _, r := range fieldReads(f, txrec, fname) {
					// only reads on a record that is this function's parameter (or removeConflict's own)
					bad = true
					w := p.Witness(parent, f)
					c.Fail(sk(f)+":reads-TxRecord."+fname, "reachable from removeConflict, which is handed records decoded from bucket m whose "+fname+" is empty: the loop body never runs and the entry is never released", posOf(c, r), w...)
				}
			}
			if !bad {
				c.OK(sk(f), "does not consult the relevance lists", p.Pos(f.Pos()))
			}
		}
	}

}
