package rules

// Rules added after the fourth round of independently seeded changes.

import (
	"go/token"
	"go/types"
	"sort"
	"strings"

	"golang.org/x/tools/go/ssa"

	"verif/internal/an"
	"verif/internal/report"
)

var _ = sort.Strings
var _ types.Type

// ruleFeeShareRoundsUp (C02): the per-recipient fee share is the ceiling of fee / recipients.
func ruleFeeShareRoundsUp(c *report.Ctx) {
	p := c.P
	c.Rule("fee-share-rounds-up", "maybeSubtractFeeFromAmounts divides the required fee among the bearing recipients rounding up ((fee + n - 1) / n): rounding down leaves the transaction below the relay minimum for its own size", 1)
	f := fn(c, pkgWallet, "", "maybeSubtractFeeFromAmounts")
	if f == nil {
		return
	}
	n := 0
	an.Instrs(f, func(in ssa.Instruction) {
		q, ok := in.(*ssa.BinOp)
		if !ok || q.Op != token.QUO {
			return
		}
		n++
		key := siteKey(f, "fee/recipients", n)
		// numerator ((a + d) - 1) or (a + (d - 1)) with d the divisor
		good := false
		if s, ok := q.X.(*ssa.BinOp); ok && s.Op == token.SUB {
			if k, isK := constInt(s.Y); isK && k == 1 {
				if a, ok := s.X.(*ssa.BinOp); ok && a.Op == token.ADD && (a.X == q.Y || a.Y == q.Y) {
					good = true
				}
			}
		}
		if a, ok := q.X.(*ssa.BinOp); ok && a.Op == token.ADD {
			for _, side := range []ssa.Value{a.X, a.Y} {
				if s, ok := side.(*ssa.BinOp); ok && s.Op == token.SUB && s.X == q.Y {
					if k, isK := constInt(s.Y); isK && k == 1 {
						good = true
					}
				}
			}
		}
		if good {
			c.OK(key, "ceiling division", posOf(c, in))
		} else {
			c.Fail(key, "the fee share is "+p.Desc(q)+", not the ceiling of fee/recipients: when the fee is not a multiple of the number of bearing recipients the shares add up to less than the required fee and the transaction is below the relay minimum for its signed size", posOf(c, in))
		}
	})
	if n == 0 {
		c.Fail(sk(f)+":fee/recipients", "anchor lost: no division in maybeSubtractFeeFromAmounts", p.Pos(f.Pos()))
	}
}

// ruleChangeToFirstInput (C02): the default change address is the address of the first selected coin.
func ruleChangeToFirstInput(c *report.Ctx) {
	p := c.P
	c.Rule("change-to-first-input", "findEligibleUtxos derives the default change address from selections[0] — the coin that becomes input 0 — and not from a candidate that may not be spent", 1)
	f := fn(c, pkgWallet, "WalletManager", "findEligibleUtxos")
	opt := fn(c, pkgWallet, "", "optOutputs")
	if f == nil || opt == nil {
		return
	}
	n := 0
	an.Instrs(f, func(in ssa.Instruction) {
		cc := an.CallOf(in)
		if cc == nil || cc.StaticCallee() == nil || an.FuncKey(cc.StaticCallee()) != "bytes.Equal" {
			return
		}
		for _, a := range cc.Args {
			d := p.Desc(a)
			if !strings.HasSuffix(d, ".ScriptHash") {
				continue
			}
			n++
			key := siteKey(f, "first-address-match", n)
			// *(&(*(&X[0])).ScriptHash) with X = optOutputs(...)#0
			okv := false
			if ld, ok := a.(*ssa.UnOp); ok {
				if fa, ok := ld.X.(*ssa.FieldAddr); ok {
					if ld2, ok := fa.X.(*ssa.UnOp); ok {
						if ia, ok := ld2.X.(*ssa.IndexAddr); ok {
							if k, isK := constInt(ia.Index); isK && k == 0 {
								if ex, ok := ia.X.(*ssa.Extract); ok && ex.Index == 0 {
									if call, ok := ex.Tuple.(*ssa.Call); ok && call.Call.StaticCallee() == opt {
										okv = true
									}
								}
							}
						}
					}
				}
			}
			if okv {
				c.OK(key, "selections[0].ScriptHash", posOf(c, in))
			} else {
				c.Fail(key, "the default change address is matched against "+d+", not against the first selected coin: when the greedy selection skips the largest candidate, the change is paid to the address of a coin the transaction does not spend", posOf(c, in))
			}
		}
	})
	if n == 0 {
		c.Fail(sk(f)+":first-address-match", "anchor lost: findEligibleUtxos no longer matches an address against a coin's script hash", p.Pos(f.Pos()))
	}
}

// ruleRelevantIndexStored (C10/C09): an output index recorded from a relevant-output walk is the element's Index.
func ruleRelevantIndexStored(c *report.Ctx) {
	p := c.P
	c.Rule("relevant-index-stored", "a vout / output index recorded while walking TxRecord.RelevantTxOut is the element's own Index, not its position in the (sparse) relevant list", 1)
	for _, f := range p.ModFuncs {
		pk := an.FuncPkg(f)
		if pk == nil || pk.Path() != pkgTxmgr {
			continue
		}
		walks := false
		an.Instrs(f, func(in ssa.Instruction) {
			if fa, ok := in.(*ssa.FieldAddr); ok {
				if st := derefStructT(fa.X.Type()); st != nil && st.Field(fa.Field).Name() == "RelevantTxOut" {
					walks = true
				}
			}
		})
		if !walks {
			continue
		}
		n := 0
		an.Instrs(f, func(in ssa.Instruction) {
			st, ok := in.(*ssa.Store)
			if !ok {
				return
			}
			fa, ok := st.Addr.(*ssa.FieldAddr)
			if !ok {
				return
			}
			stt := derefStructT(fa.X.Type())
			if stt == nil || stt.Field(fa.Field).Name() != "vout" {
				return
			}
			n++
			key := siteKey(f, "vout-store", n)
			d := p.Desc(stripConv(st.Val))
			if strings.HasSuffix(d, "RelevantMeta.Index") {
				c.OK(key, "vout = rel.Index", posOf(c, in))
			} else {
				c.Fail(key, sk(f)+" records vout = "+d+" while walking the relevant outputs: when a foreign output precedes the deposit, the history entry points at another output, so the deposit is missing from the staking/binding history and its later withdrawal fails with 'withdraw game not found'", posOf(c, in))
			}
		})
	}
}

// ruleMnemonicWordCount (C13): NewMnemonic emits exactly the sentence length the entropy size prescribes.
func ruleMnemonicWordCount(c *report.Ctx) {
	p := c.P
	c.Rule("mnemonic-word-count", "NewMnemonic fills a slice of exactly sentenceLength words (allocated with that length) and joins it: the number of words is a function of the entropy size, not of the entropy value (leading zero bits are words too)", 1)
	f := fn(c, pkgKeystore, "", "NewMnemonic")
	join := p.Fn("strings", "", "Join")
	if f == nil || join == nil {
		return
	}
	for i, s := range calls(f, join) {
		key := siteKey(f, "Join(words)", i+1)
		v := an.CallOf(s).Args[0]
		ms, ok := v.(*ssa.MakeSlice)
		if !ok {
			// make with constant length lowers to new [N]string + slice: not the case here (length is computed)
			c.Fail(key, "the joined word list is "+p.Desc(v)+", not a slice allocated with the sentence length: the number of words follows the magnitude of the entropy (entropy with leading zero bits yields a shorter, non-BIP-39 sentence that cannot be decoded)", posOf(c, s))
			continue
		}
		if k, isK := constInt(ms.Len); isK && k == 0 {
			c.Fail(key, "the word slice is allocated with length 0 and grown", posOf(c, s))
			continue
		}
		c.OK(key, "make([]string, sentenceLength) filled in place", posOf(c, s))
	}
}

// ruleWordMapExact (C13): the reverse word map holds the list words only.
func ruleWordMapExact(c *report.Ctx) {
	p := c.P
	c.Rule("word-map-exact", "every entry written into wordMap is (list word → its index): no abbreviations, prefixes or case variants become acceptable words", 1)
	n := 0
	for _, f := range p.ModFuncs {
		pk := an.FuncPkg(f)
		if pk == nil || pk.Path() != pkgKeystore {
			continue
		}
		an.Instrs(f, func(in ssa.Instruction) {
			mu, ok := in.(*ssa.MapUpdate)
			if !ok || !strings.Contains(p.Desc(mu.Map), "keystore.wordMap") {
				return
			}
			n++
			key := siteKey(f, "wordMap[...]=", n)
			// key must be the range value of wordList, value the range index
			isRangeElem := func(v ssa.Value) bool {
				ld, ok := v.(*ssa.UnOp)
				if !ok || ld.Op != token.MUL {
					return false
				}
				ia, ok := ld.X.(*ssa.IndexAddr)
				return ok && strings.Contains(p.Desc(ia.X), "wordList")
			}
			if isRangeElem(mu.Key) {
				c.OK(key, "key is an element of wordList", posOf(c, in))
			} else {
				c.Fail(key, "wordMap gets an entry whose key is "+p.Desc(mu.Key)+", not a word of the list: tokens that are not BIP-39 words pass the validity test and decode to a word's index, and the seed is derived from a string that is not the mnemonic it decodes to", posOf(c, in))
			}
		})
	}
	if n == 0 {
		c.Fail("wordMap:writer", "anchor lost: nothing fills keystore.wordMap", "")
	}
}

// ruleMemoGuardField (C16): a lazily filled field is guarded by a test of that same field.
func ruleMemoGuardField(c *report.Ctx) {
	p := c.P
	c.Rule("memo-guard-field", "each accessor of pkScriptInfo that fills a cached string on first use tests the field it fills (a test of a sibling field returns the empty string once the sibling was computed)", 2)
	info := p.Type(pkgUtils, "pkScriptInfo")
	if info == nil {
		c.Lost("utils.pkScriptInfo")
		return
	}
	for _, f := range p.ModFuncs {
		pk := an.FuncPkg(f)
		if pk == nil || pk.Path() != pkgUtils || f.Signature.Recv() == nil || len(f.Params) == 0 {
			continue
		}
		if n := an.NamedOf(f.Signature.Recv().Type()); n == nil || n.Obj() != info.Obj() {
			continue
		}
		k := 0
		an.Instrs(f, func(in ssa.Instruction) {
			st, ok := in.(*ssa.Store)
			if !ok {
				return
			}
			fa, ok := st.Addr.(*ssa.FieldAddr)
			if !ok || fa.X != ssa.Value(f.Params[0]) {
				return
			}
			filled := derefStructT(fa.X.Type()).Field(fa.Field).Name()
			// guard: a comparison of a receiver field with "" / nil
			var tested []string
			for _, a := range p.GuardsOf(in) {
				for _, v := range []ssa.Value{a.X, a.Y} {
					ld, ok := v.(*ssa.UnOp)
					if !ok || ld.Op != token.MUL {
						continue
					}
					fa2, ok := ld.X.(*ssa.FieldAddr)
					if !ok || fa2.X != ssa.Value(f.Params[0]) {
						continue
					}
					tested = append(tested, derefStructT(fa2.X.Type()).Field(fa2.Field).Name())
				}
			}
			if len(tested) == 0 {
				return // unconditional store: not a memo
			}
			k++
			key := siteKey(f, "fills:"+filled, k)
			okf := false
			for _, t := range tested {
				if t == filled {
					okf = true
				}
			}
			if okf {
				c.OK(key, "guarded by a test of "+filled, posOf(c, in))
			} else {
				c.Fail(key, sk(f)+" fills "+filled+" under a test of "+strings.Join(tested, ",")+": once that other field has been computed the accessor returns the empty string — e.g. the staking/binding address of an output is empty whenever the owner address was asked for first (rollback and import paths), and the address row key cannot be built", posOf(c, in))
			}
		})
	}
}

// ruleBuilderErrorReturned (C16): an output is added only with the script a successful builder call returned.
func ruleBuilderErrorReturned(c *report.Ctx) {
	p := c.P
	c.Rule("builder-error-returned", "wire.NewTxOut is given a script only on the success edge of the builder call that produced it (PayToStakingAddrScript, PayToBindingScriptHashScript, PayToWitnessV0Address): a builder error never falls through to an output with an empty script", 3)
	newTxOut := p.Fn(pkgWire, "", "NewTxOut")
	if newTxOut == nil {
		c.Lost("wire.NewTxOut")
		return
	}
	for _, f := range p.ModFuncs {
		pk := an.FuncPkg(f)
		if pk == nil || pk.Path() != pkgWallet {
			continue
		}
		n := 0
		for _, s := range calls(f, newTxOut) {
			ex, ok := an.CallOf(s).Args[1].(*ssa.Extract)
			if !ok {
				continue
			}
			call, ok := ex.Tuple.(*ssa.Call)
			if !ok {
				continue
			}
			n++
			key := siteKey(f, "NewTxOut(script-of:"+calleeName(p, call)+")", n)
			dom := false
			for _, sb := range p.SuccessBlocks(call) {
				if sb.Dominates(s.Block()) {
					dom = true
				}
			}
			if dom {
				c.OK(key, "on the success edge of the builder", posOf(c, s))
			} else {
				c.Fail(key, "an output is created with the result of "+calleeName(p, call)+" on a path where that call may have failed: the request is answered with a funded transaction whose output has an empty script (unspendable / non-standard) instead of an error", posOf(c, s))
			}
		}
	}
}

var _ = report.New
