package rules

// Rules added after the fourth round of independently seeded changes.

import (
	"go/token"
	"go/types"
	"sort"
	"strings"

	"golang.org/x/tools/go/ssa"

	"verif/internal/an"
	"verif/internal/report"
)

var _ = sort.Strings
var _ types.Type

// ruleFeeShareRoundsUp (C02): the per-recipient fee share is the ceiling of fee / recipients.
func ruleFeeShareRoundsUp(c *report.Ctx) {
	p := c.P
	c.Rule("fee-share-rounds-up", "maybeSubtractFeeFromAmounts divides the required fee among the bearing recipients rounding up ((fee + n - 1) / n): rounding down leaves the transaction below the relay minimum for its own size", 1)
	f := fn(c, pkgWallet, "", "maybeSubtractFeeFromAmounts")
	if f == nil {
		return
	}
	n := 0
	an.Instrs(f, func(in ssa.Instruction) {
		q, ok := in.(*ssa.BinOp)
		if !ok || q.Op != token.QUO {
			return
		}
		n++
		key := siteKey(f, "fee/recipients", n)
		// numerator ((a + d) - 1) or (a + (d - 1)) with d the divisor
		good := false
		if s, ok := q.X.(*ssa.BinOp); ok && s.Op == token.SUB {
			if k, isK := constInt(s.Y); isK && k == 1 {
				if a, ok := s.X.(*ssa.BinOp); ok && a.Op == token.ADD && (a.X == q.Y || a.Y == q.Y) {
					good = true
				}
			}
		}
		if a, ok := q.X.(*ssa.BinOp); ok && a.Op == token.ADD {
			for _, side := range []ssa.Value{a.X, a.Y} {
				if s, ok := side.(*ssa.BinOp); ok && s.Op == token.SUB && s.X == q.Y {
					if k, isK := constInt(s.Y); isK && k == 1 {
						good = true
					}
				}
			}
		}
		if good {
			c.OK(key, "ceiling division", posOf(c, in))
		} else {
			c.Fail(key, "the fee share is "+p.Desc(q)+", not the ceiling of fee/recipients: when the fee is not a multiple of the number of bearing recipients the shares add up to less than the required fee and the transaction is below the relay minimum for its signed size", posOf(c, in))
		}
	})
	if n == 0 {
		c.Fail(sk(f)+":fee/recipients", "anchor lost: no division in maybeSubtractFeeFromAmounts", p.Pos(f.Pos()))
	}
}

// ruleChangeToFirstInput (C02): the default change address is the address of the first selected coin.
func ruleChangeToFirstInput(c *report.Ctx) {
	p := c.P
	c.Rule("change-to-first-input", "findEligibleUtxos derives the default change address from selections[0] — the coin that becomes input 0 — and not from a candidate that may not be spent", 1)
	f := fn(c, pkgWallet, "WalletManager", "findEligibleUtxos")
	opt := fn(c, pkgWallet, "", "optOutputs")
	if f == nil || opt == nil {
		return
	}
	n := 0
	an.Instrs(f, func(in ssa.Instruction) {
		cc := an.CallOf(in)
		if cc == nil || cc.StaticCallee() == nil || an.CanonKeyOf(cc.StaticCallee()) != "bytes.Equal" {
			return
		}
		for _, a := range cc.Args {
			d := p.Desc(a)
			if !strings.HasSuffix(d, ".ScriptHash") {
				continue
			}
			n++
			key := siteKey(f, "first-address-match", n)
			// *(&(*(&X[0])).ScriptHash) with X = optOutputs(...)#0
			okv := false
			if ld, ok := a.(*ssa.UnOp); ok {
				if fa, ok := ld.X.(*ssa.FieldAddr); ok {
					if ld2, ok := fa.X.(*ssa.UnOp); ok {
						if ia, ok := ld2.X.(*ssa.IndexAddr); ok {
							if k, isK := constInt(ia.Index); isK && k == 0 {
								if ex, ok := ia.X.(*ssa.Extract); ok && ex.Index == 0 {
									if call, ok := ex.Tuple.(*ssa.Call); ok && call.Call.StaticCallee() == opt {
										okv = true
									}
								}
							}
						}
					}
				}
			}
			if okv {
				c.OK(key, "selections[0].ScriptHash", posOf(c, in))
			} else {
				c.Fail(key, "the default change address is matched against "+d+", not against the first selected coin: when the greedy selection skips the largest candidate, the change is paid to the address of a coin the transaction does not spend", posOf(c, in))
			}
		}
	})
	if n == 0 {
		c.Fail(sk(f)+":first-address-match", "anchor lost: findEligibleUtxos no longer matches an address against a coin's script hash", p.Pos(f.Pos()))
	}
}

// ruleRelevantIndexStored (C10/C09): an output index recorded from a relevant-output walk is the element's Index.
func ruleRelevantIndexStored(c *report.Ctx) {
	p := c.P
	c.Rule("relevant-index-stored", "a vout / output index recorded while walking TxRecord.RelevantTxOut is the element's own Index, not its position in the (sparse) relevant list", 1)
	for _, f := range p.ModFuncs {
		pk := an.FuncPkg(f)
		if pk == nil || pk.Path() != pkgTxmgr {
			continue
		}
		walks := false
		an.Instrs(f, func(in ssa.Instruction) {
			if fa, ok := in.(*ssa.FieldAddr); ok {
				if st := derefStructT(fa.X.Type()); st != nil && an.FName(st, fa.Field) == "RelevantTxOut" {
					walks = true
				}
			}
		})
		if !walks {
			continue
		}
		n := 0
		an.Instrs(f, func(in ssa.Instruction) {
			st, ok := in.(*ssa.Store)
			if !ok {
				return
			}
			fa, ok := st.Addr.(*ssa.FieldAddr)
			if !ok {
				return
			}
			stt := derefStructT(fa.X.Type())
			if stt == nil || an.FName(stt, fa.Field) != "vout" {
				return
			}
			n++
			key := siteKey(f, "vout-store", n)
			d := p.Desc(stripConv(st.Val))
			if strings.HasSuffix(d, "RelevantMeta.Index") {
				c.OK(key, "vout = rel.Index", posOf(c, in))
			} else {
				c.Fail(key, sk(f)+" records vout = "+d+" while walking the relevant outputs: when a foreign output precedes the deposit, the history entry points at another output, so the deposit is missing from the staking/binding history and its later withdrawal fails with 'withdraw game not found'", posOf(c, in))
			}
		})
	}
}

// ruleMnemonicWordCount (C13): NewMnemonic emits exactly the sentence length the entropy size prescribes.
func ruleMnemonicWordCount(c *report.Ctx) {
	p := c.P
	c.Rule("mnemonic-word-count", "NewMnemonic fills a slice of exactly sentenceLength words (allocated with that length) and joins it: the number of words is a function of the entropy size, not of the entropy value (leading zero bits are words too)", 1)
	f := fn(c, pkgKeystore, "", "NewMnemonic")
	join := p.Fn("strings", "", "Join")
	if f == nil || join == nil {
		return
	}
	for i, s := range calls(f, join) {
		key := siteKey(f, "Join(words)", i+1)
		v := an.CallOf(s).Args[0]
		ms, ok := v.(*ssa.MakeSlice)
		if !ok {
			// the fill loop may be a helper of the package: then every value the helper returns must be such a slice
			var hc *ssa.Call
			idx := 0
			switch x := v.(type) {
			case *ssa.Call:
				hc = x
			case *ssa.Extract:
				hc, _ = x.Tuple.(*ssa.Call)
				idx = x.Index
			}
			if hc != nil {
				if g := hc.Call.StaticCallee(); g != nil && g.Blocks != nil && an.FuncPkg(g) == an.FuncPkg(f) {
					all, any := true, false
					for _, b := range g.Blocks {
						if r, isRet := b.Instrs[len(b.Instrs)-1].(*ssa.Return); isRet && idx < len(r.Results) {
							any = true
							m2, isMS := an.RetOperand(r, idx).(*ssa.MakeSlice)
							if !isMS {
								all = false
								continue
							}
							if k, isK := constInt(m2.Len); isK && k == 0 {
								all = false
							}
						}
					}
					if any && all {
						c.OK(key, "helper "+sk(g)+" returns make([]string, n) filled in place", posOf(c, s))
						continue
					}
				}
			}
			// make with constant length lowers to new [N]string + slice: not the case here (length is computed)
			c.Fail(key, "the joined word list is "+p.Desc(v)+", not a slice allocated with the sentence length: the number of words follows the magnitude of the entropy (entropy with leading zero bits yields a shorter, non-BIP-39 sentence that cannot be decoded)", posOf(c, s))
			continue
		}
		if k, isK := constInt(ms.Len); isK && k == 0 {
			c.Fail(key, "the word slice is allocated with length 0 and grown", posOf(c, s))
			continue
		}
		c.OK(key, "make([]string, sentenceLength) filled in place", posOf(c, s))
	}
}

// ruleWordMapExact (C13): the reverse word map holds the list words only.
func ruleWordMapExact(c *report.Ctx) {
	p := c.P
	c.Rule("word-map-exact", "every entry written into wordMap is (list word → its index): no abbreviations, prefixes or case variants become acceptable words", 1)
	n := 0
	for _, f := range p.ModFuncs {
		pk := an.FuncPkg(f)
		if pk == nil || pk.Path() != pkgKeystore {
			continue
		}
		an.Instrs(f, func(in ssa.Instruction) {
			mu, ok := in.(*ssa.MapUpdate)
			if !ok || !strings.Contains(p.Desc(mu.Map), "keystore.wordMap") {
				return
			}
			n++
			key := siteKey(f, "wordMap[...]=", n)
			// key must be the range value of wordList, value the range index
			isRangeElem := func(v ssa.Value) bool {
				ld, ok := v.(*ssa.UnOp)
				if !ok || ld.Op != token.MUL {
					return false
				}
				ia, ok := ld.X.(*ssa.IndexAddr)
				return ok && strings.Contains(p.Desc(ia.X), "wordList")
			}
			if isRangeElem(mu.Key) {
				c.OK(key, "key is an element of wordList", posOf(c, in))
			} else {
				c.Fail(key, "wordMap gets an entry whose key is "+p.Desc(mu.Key)+", not a word of the list: tokens that are not BIP-39 words pass the validity test and decode to a word's index, and the seed is derived from a string that is not the mnemonic it decodes to", posOf(c, in))
			}
		})
	}
	if n == 0 {
		c.Fail("wordMap:writer", "anchor lost: nothing fills keystore.wordMap", "")
	}
}

// ruleMemoGuardField (C16): a lazily filled field is guarded by a test of that same field.
func ruleMemoGuardField(c *report.Ctx) {
	p := c.P
	c.Rule("memo-guard-field", "each accessor of pkScriptInfo that fills a cached string on first use tests the field it fills (a test of a sibling field returns the empty string once the sibling was computed)", 2)
	info := p.Type(pkgUtils, "pkScriptInfo")
	if info == nil {
		c.Lost("utils.pkScriptInfo")
		return
	}
	for _, f := range p.ModFuncs {
		pk := an.FuncPkg(f)
		if pk == nil || pk.Path() != pkgUtils || f.Signature.Recv() == nil || len(f.Params) == 0 {
			continue
		}
		// pkScriptInfo's accessors, or those of a type of the package its cached strings were moved into
		if n := an.NamedOf(f.Signature.Recv().Type()); n == nil || (n.Obj() != info.Obj() && !p.FreshStruct(pkgUtils, n.Obj().Name())) {
			continue
		}
		k := 0
		an.Instrs(f, func(in ssa.Instruction) {
			st, ok := in.(*ssa.Store)
			if !ok {
				return
			}
			// the path of fields from the receiver to the place written (s.x, or s.std.x when the cached strings live in
			// a part of the receiver that an inlined accessor of that part fills)
			pathOf := func(addr ssa.Value) string {
				path := ""
				for i := 0; i < 4; i++ {
					fa, ok := addr.(*ssa.FieldAddr)
					if !ok {
						return ""
					}
					name := an.FName(derefStructT(fa.X.Type()), fa.Field)
					if path == "" {
						path = name
					} else {
						path = name + "." + path
					}
					base := an.ResolveCell(fa.X)
					if base == ssa.Value(f.Params[0]) {
						return path
					}
					addr = base
				}
				return ""
			}
			filled := pathOf(st.Addr)
			if filled == "" {
				return
			}
			// guard: a comparison of a receiver field with "" / nil
			var tested []string
			for _, a := range p.GuardsOf(in) {
				for _, v := range []ssa.Value{a.X, a.Y} {
					ld, ok := v.(*ssa.UnOp)
					if !ok || ld.Op != token.MUL {
						continue
					}
					if t := pathOf(ld.X); t != "" {
						tested = append(tested, t)
					}
				}
			}
			if len(tested) == 0 {
				return // unconditional store: not a memo
			}
			k++
			key := siteKey(f, "fills:"+filled, k)
			okf := false
			for _, t := range tested {
				if t == filled {
					okf = true
				}
			}
			if okf {
				c.OK(key, "guarded by a test of "+filled, posOf(c, in))
			} else {
				c.Fail(key, sk(f)+" fills "+filled+" under a test of "+strings.Join(tested, ",")+": once that other field has been computed the accessor returns the empty string — e.g. the staking/binding address of an output is empty whenever the owner address was asked for first (rollback and import paths), and the address row key cannot be built", posOf(c, in))
			}
		})
	}
}

// ruleBuilderErrorReturned (C16): an output is added only with the script a successful builder call returned.
func ruleBuilderErrorReturned(c *report.Ctx) {
	p := c.P
	c.Rule("builder-error-returned", "wire.NewTxOut is given a script only on the success edge of the builder call that produced it (PayToStakingAddrScript, PayToBindingScriptHashScript, PayToWitnessV0Address): a builder error never falls through to an output with an empty script", 3)
	newTxOut := p.Fn(pkgWire, "", "NewTxOut")
	if newTxOut == nil {
		c.Lost("wire.NewTxOut")
		return
	}
	for _, f := range p.ModFuncs {
		pk := an.FuncPkg(f)
		if pk == nil || pk.Path() != pkgWallet {
			continue
		}
		n := 0
		for _, s := range calls(f, newTxOut) {
			ex, ok := an.CallOf(s).Args[1].(*ssa.Extract)
			if !ok {
				continue
			}
			call, ok := ex.Tuple.(*ssa.Call)
			if !ok {
				continue
			}
			n++
			key := siteKey(f, "NewTxOut(script-of:"+calleeName(p, call)+")", n)
			dom := false
			for _, sb := range p.SuccessBlocks(call) {
				if sb.Dominates(s.Block()) {
					dom = true
				}
			}
			if dom {
				c.OK(key, "on the success edge of the builder", posOf(c, s))
			} else {
				c.Fail(key, "an output is created with the result of "+calleeName(p, call)+" on a path where that call may have failed: the request is answered with a funded transaction whose output has an empty script (unspendable / non-standard) instead of an error", posOf(c, s))
			}
		}
	}
}

var _ = report.New

// ruleAmountStringUntouched (C15): what reaches StringToAmount is the request text, at most trimmed.
func ruleAmountStringUntouched(c *report.Ctx) {
	p := c.P
	c.Rule("amount-string-untouched", "the string handed to StringToAmount — directly or through a wrapper that forwards its parameter (checkParseAmount, the CLI's stringToAmount) — is the caller's text (a parameter, a request field or a map value), at most passed through strings.Trim*: no re-rendering (big.Rat, float, Sprintf, Fields+Join) sits in front of the parser, whose job is to reject everything that is not a plain decimal", 6)
	sta := fn(c, pkgAPI, "", "StringToAmount")
	if sta == nil {
		return
	}
	var okSrc func(v ssa.Value, depth int) (bool, string)
	okSrc = func(v ssa.Value, depth int) (bool, string) {
		if depth > 12 {
			return false, "undecided"
		}
		switch x := v.(type) {
		case *ssa.Parameter, *ssa.Const, *ssa.Lookup, *ssa.FreeVar:
			return true, ""
		case *ssa.UnOp:
			// field / element load; a field that module code assigns (a configuration value normalised on load) is the
			// caller's text only if everything assigned to it is
			if fa, isFA := x.X.(*ssa.FieldAddr); isFA {
				isWire := false // messages of the RPC schema are filled on one side of the wire and read on the other
				if n := an.NamedOf(fa.X.Type()); n != nil && n.Obj().Pkg() != nil && strings.HasSuffix(n.Obj().Pkg().Path(), "/api/proto") {
					isWire = true
				}
				if st := derefStructOf(fa.X.Type()); st != nil && !isWire {
					for _, g := range p.ModFuncs {
						var bad string
						an.Instrs(g, func(in ssa.Instruction) {
							s2, ok := in.(*ssa.Store)
							if !ok || bad != "" {
								return
							}
							fa2, ok := s2.Addr.(*ssa.FieldAddr)
							if !ok || fa2.Field != fa.Field || derefStructOf(fa2.X.Type()) != st {
								return
							}
							if ok2, why := okSrc(s2.Val, depth+1); !ok2 {
								bad = why
							}
						})
						if bad != "" {
							return false, bad + " (assigned to the field in " + sk(g) + ")"
						}
					}
				}
			}
			return true, ""
		case *ssa.Phi:
			for _, e := range x.Edges {
				if ok, why := okSrc(e, depth+1); !ok {
					return false, why
				}
			}
			return true, ""
		case *ssa.Call:
			if cal := x.Call.StaticCallee(); cal != nil && strings.HasPrefix(an.CanonKeyOf(cal), "strings.Trim") {
				return okSrc(x.Call.Args[0], depth+1) // removes characters at the ends only (blanks, a unit suffix): the parser still sees the caller's digits
			}
			// a module function with one result that hands back text it was given (a normaliser)
			if cal := x.Call.StaticCallee(); cal != nil && an.FuncPkg(cal) != nil && strings.HasPrefix(an.FuncPkg(cal).Path(), pkgMain) && len(cal.Blocks) > 0 && cal.Signature.Results().Len() == 1 {
				for _, b := range cal.Blocks {
					if r, isRet := b.Instrs[len(b.Instrs)-1].(*ssa.Return); isRet && len(r.Results) == 1 {
						if ok, why := okSrc(r.Results[0], depth+1); !ok {
							return false, why
						}
					}
				}
				return true, ""
			}
			return false, p.Desc(v)
		case *ssa.Extract:
			// a module function that hands back text it was given or looked up (getPrice: a map value)
			if call, isCall := x.Tuple.(*ssa.Call); isCall {
				if cal := call.Call.StaticCallee(); cal != nil && an.FuncPkg(cal) != nil && strings.HasPrefix(an.FuncPkg(cal).Path(), pkgMain) && len(cal.Blocks) > 0 {
					for _, b := range cal.Blocks {
						if r, isRet := b.Instrs[len(b.Instrs)-1].(*ssa.Return); isRet && x.Index < len(r.Results) {
							if ok, why := okSrc(r.Results[x.Index], depth+1); !ok {
								return false, why
							}
						}
					}
					return true, ""
				}
			}
			if _, isNext := x.Tuple.(*ssa.Next); isNext {
				return true, ""
			}
			if _, isLk := x.Tuple.(*ssa.Lookup); isLk {
				return true, ""
			}
			return okSrc(x.Tuple, depth+1)
		}
		return false, p.Desc(v)
	}
	// the parser and its wrappers: a module function that hands one of its own string parameters (trimmed at most) to a
	// parser is itself a parser — the obligation moves to its call sites (checkParseAmount, the CLI's stringToAmount)
	parsers := map[*ssa.Function]int{sta: 0}
	var paramOf func(v ssa.Value, depth int) *ssa.Parameter
	paramOf = func(v ssa.Value, depth int) *ssa.Parameter {
		if depth > 6 {
			return nil
		}
		switch x := v.(type) {
		case *ssa.Parameter:
			return x
		case *ssa.Call:
			if cal := x.Call.StaticCallee(); cal != nil && strings.HasPrefix(an.CanonKeyOf(cal), "strings.Trim") {
				return paramOf(x.Call.Args[0], depth+1)
			}
		}
		return nil
	}
	for changed := true; changed; {
		changed = false
		for _, f := range p.ModFuncs {
			if _, is := parsers[f]; is || f.Parent() != nil {
				continue
			}
			an.Instrs(f, func(in ssa.Instruction) {
				cc := an.CallOf(in)
				if cc == nil || cc.StaticCallee() == nil {
					return
				}
				idx, is := parsers[cc.StaticCallee()]
				if !is || idx >= len(cc.Args) {
					return
				}
				if par := paramOf(cc.Args[idx], 0); par != nil {
					for i, fp := range f.Params {
						if fp == par {
							if _, had := parsers[f]; !had {
								parsers[f] = i
								changed = true
							}
						}
					}
				}
			})
		}
	}
	for _, f := range p.ModFuncs {
		n := 0
		an.Instrs(f, func(in ssa.Instruction) {
			cc := an.CallOf(in)
			if cc == nil || cc.StaticCallee() == nil {
				return
			}
			idx, is := parsers[cc.StaticCallee()]
			if !is || idx >= len(cc.Args) {
				return
			}
			n++
			key := siteKey(f, nm(cc.StaticCallee())+"-arg", n)
			if ok, why := okSrc(cc.Args[idx], 0); ok {
				c.OK(key, "request text (trimmed at most)", posOf(c, in))
			} else {
				c.Fail(key, "the text parsed as an amount is "+why+", a re-rendering of the request string: forms the parser must reject (exponents, signs, separators, inner blanks, excess precision) are rewritten into plain decimals and accepted, some with another value", posOf(c, in))
			}
		})
	}
}

// ruleAmountCtorErrorUsed (C15): a range error of an amount constructor is never discarded for a non-constant value.
func ruleAmountCtorErrorUsed(c *report.Ctx) {
	p := c.P
	c.Rule("amount-ctor-error-used", "the error result of massutil.NewAmountFromInt / NewAmountFromUint is used wherever the argument is not a compile-time constant: an out-of-range integer must be refused, not replaced by the zero amount the constructor returns with its error", 10)
	for _, f := range p.ModFuncs {
		pk := an.FuncPkg(f)
		if pk == nil || !(pk.Path() == pkgAPI || pk.Path() == pkgWallet || pk.Path() == pkgTxmgr) {
			continue
		}
		n := 0
		an.Instrs(f, func(in ssa.Instruction) {
			call, ok := in.(*ssa.Call)
			if !ok || call.Call.StaticCallee() == nil {
				return
			}
			k := an.CanonKeyOf(call.Call.StaticCallee())
			if !strings.HasSuffix(k, "massutil.NewAmountFromInt") && !strings.HasSuffix(k, "massutil.NewAmountFromUint") {
				return
			}
			arg := stripConv(call.Call.Args[0])
			if _, isK := arg.(*ssa.Const); isK {
				return
			}
			if ld, isLd := arg.(*ssa.UnOp); isLd {
				if _, isG := ld.X.(*ssa.Global); isG {
					return // a package-level parameter (consensus constant)
				}
			}
			n++
			key := siteKey(f, calleeName(p, in)+"-error", n)
			used := false
			for _, r := range *call.Referrers() {
				if ex, ok := r.(*ssa.Extract); ok && ex.Index == 1 && len(*ex.Referrers()) > 0 {
					used = true
				}
			}
			if used {
				c.OK(key, "error examined", posOf(c, in))
			} else {
				c.Fail(key, "the range error of "+calleeName(p, in)+" is discarded: for a value below 0 or above the maximum supply the constructor returns the zero amount with an error, so the response reports \"0\" (or the computation goes on with 0) instead of refusing the value", posOf(c, in))
			}
		})
	}
}

// ruleOneReadTransaction (C17): a balance / coin-list query reads everything through one read transaction.
func ruleOneReadTransaction(c *report.Ctx) {
	p := c.P
	c.Rule("one-read-transaction", "WalletBalance, AddressBalance and GetUtxo reach exactly one mwdb.View: tip height, coins and flags of one answer come from one read transaction (two transactions can straddle a block commit)", 3)
	view := fn(c, pkgDB, "", "View")
	if view == nil {
		return
	}
	for _, name := range []string{"WalletBalance", "AddressBalance", "GetUtxo"} {
		f := fn(c, pkgWallet, "WalletManager", name)
		if f == nil {
			continue
		}
		reached, _ := p.Reach([]*ssa.Function{f}, an.ReachOpts{})
		var sites []string
		for g := range reached {
			for _, s := range calls(g, view) {
				sites = append(sites, p.InstrPos(s))
			}
		}
		sort.Strings(sites)
		key := sk(f) + ":views"
		if len(sites) == 1 {
			c.OK(key, "one read transaction ("+sites[0]+")", p.Pos(f.Pos()))
			// a read transaction that is repeated (the View sits in a loop) must build its answer afresh each time
			for g := range reached {
				for _, s := range calls(g, view) {
					hdr := loopHeaderOf(s.Block())
					if hdr == nil {
						continue
					}
					mc, ok := an.CallOf(s).Args[1].(*ssa.MakeClosure)
					if !ok {
						continue
					}
					lit, _ := mc.Fn.(*ssa.Function)
					for i, bnd := range mc.Bindings {
						cell, isAlloc := bnd.(*ssa.Alloc)
						if !isAlloc || lit == nil || i >= len(lit.FreeVars) {
							continue
						}
						fv := lit.FreeVars[i]
						// does the literal accumulate into the captured variable (cell = append(cell, …))?
						acc := false
						an.Instrs(lit, func(in ssa.Instruction) {
							st, ok := in.(*ssa.Store)
							if !ok || st.Addr != ssa.Value(fv) {
								return
							}
							if call, ok := st.Val.(*ssa.Call); ok {
								if b, ok := call.Call.Value.(*ssa.Builtin); ok && b.Name() == "append" {
									acc = true
								}
							}
						})
						if !acc {
							continue
						}
						reset := false
						for _, r := range *cell.Referrers() {
							if st, ok := r.(*ssa.Store); ok && st.Addr == ssa.Value(cell) && hdr.Dominates(st.Block()) && st.Block() != hdr && instrDominates(st, s) {
								reset = true
							}
						}
						k2 := sk(f) + ":answer-rebuilt-per-read:" + fv.Name()
						if reset {
							c.OK(k2, "the accumulated answer is re-initialised before every repetition of the read transaction", posOf(c, s))
						} else {
							c.Fail(k2, name+" repeats its read transaction in a loop but keeps appending to "+fv.Name()+", which is initialised once before the loop: when a block is committed during a scan the entries of that scan stay in the answer and the next scan's are added to them — addresses are listed twice and the total mixes two tips (a spent coin plus its own change)", posOf(c, s))
						}
					}
				}
			}
		} else {
			c.Fail(key, name+" reads through "+itoa(len(sites))+" read transactions ("+strings.Join(sites, ", ")+"): a block committed between them makes the answer combine the coins of one state with the tip height (confirmations, maturity) of another", p.Pos(f.Pos()))
		}
	}
}

// ruleFlagsBeforeFilter (C09/C02): the callback that decides about a coin sees the coin's final flags.
func ruleFlagsBeforeFilter(c *report.Ctx) {
	p := c.P
	c.Rule("flags-before-filter", "ScriptAddressUnspents completes the Credit it hands to the caller's filter before calling it: no field of the item (in particular Flags.SpentByUnmined) is assigned after the callback ran", 1)
	f := fn(c, pkgTxmgr, "UtxoStore", "ScriptAddressUnspents")
	if f == nil {
		return
	}
	var cb ssa.Instruction
	outer := f
	instrsWithLiterals(f, func(in ssa.Instruction) { // (the scan's body may live in a callback literal)
		cc := an.CallOf(in)
		if cc == nil {
			return
		}
		if par, ok := an.ResolveCell(cc.Value).(*ssa.Parameter); ok && par.Parent() == outer {
			cb = in
		}
	})
	if cb == nil {
		c.Fail(sk(f)+":filter-call", "anchor lost: ScriptAddressUnspents no longer calls its filter parameter", p.Pos(f.Pos()))
		return
	}
	f = cb.Parent() // the function (or literal) whose body hands the coin to the filter
	item := an.CallOf(cb).Args[0]
	rooted := func(addr ssa.Value) bool {
		for i := 0; i < 6; i++ {
			switch x := addr.(type) {
			case *ssa.FieldAddr:
				if x.X == item {
					return true
				}
				addr = x.X
				continue
			}
			break
		}
		return false
	}
	bad := false
	nst := 0
	an.Instrs(f, func(in ssa.Instruction) {
		st, ok := in.(*ssa.Store)
		if !ok || !rooted(st.Addr) {
			return
		}
		nst++
		if !instrDominates(in, cb) {
			bad = true
			c.Fail(sk(outer)+":store-after-filter", "a field of the coin ("+p.Desc(st.Addr)+") is assigned after the caller's filter has already judged it: the coin-selection filter tests !SpentByUnmined on a value that is still false, so a coin spent by a pending transaction is offered for a new transaction", posOf(c, in))
		}
	})
	// the pending flag in particular must have been computed (on cred or item) before the call
	flagOK := false
	an.Instrs(f, func(in ssa.Instruction) {
		st, ok := in.(*ssa.Store)
		if !ok {
			return
		}
		if fa, ok := st.Addr.(*ssa.FieldAddr); ok {
			if stt := derefStructT(fa.X.Type()); stt != nil && an.FName(stt, fa.Field) == "SpentByUnmined" && instrDominates(in, cb) {
				flagOK = true
			}
		}
	})
	if !bad && flagOK {
		c.OK(sk(outer)+":item-complete-before-filter", itoa(nst)+" item stores, all before the callback; SpentByUnmined computed before it", posOf(c, cb))
	} else if !bad {
		c.Fail(sk(outer)+":item-complete-before-filter", "SpentByUnmined is not computed before the filter is called", posOf(c, cb))
	}
}

// ruleConflictWalksOutputs (C09): purging a conflicting pending transaction walks all of its outputs.
func ruleConflictWalksOutputs(c *report.Ctx) {
	p := c.P
	c.Rule("conflict-walks-outputs", "removeConflict builds the outpoints (rec.Hash, i) of the purged transaction for every i below len(rec.MsgTx.TxOut): descendants spending any of its outputs are purged and the pending credits of all outputs are deleted", 1)
	f := fn(c, pkgTxmgr, "TxStore", "removeConflict")
	cop := fn(c, pkgTxmgr, "", "canonicalOutPoint")
	if f == nil || cop == nil {
		return
	}
	n := 0
	for _, s := range calls(f, cop) {
		cc := an.CallOf(s)
		if !strings.HasSuffix(p.Desc(cc.Args[0]), "TxRecord.Hash") {
			continue
		}
		n++
		key := siteKey(f, "own-outpoints", n)
		idx := stripConv(cc.Args[1])
		// the loop bound of idx
		bound := ""
		an.Instrs(f, func(in ssa.Instruction) {
			b, ok := in.(*ssa.BinOp)
			if !ok || b.Op != token.LSS {
				return
			}
			x := b.X
			if a, ok := x.(*ssa.BinOp); ok && a.Op == token.ADD {
				x = a.X
			}
			base := idx
			if a, ok := idx.(*ssa.BinOp); ok && a.Op == token.ADD {
				base = a.X
			}
			if x == base || b.X == idx {
				bound = p.Desc(b.Y)
			}
		})
		if strings.HasPrefix(bound, "len(") && strings.HasSuffix(bound, "MsgTx.TxOut)") {
			c.OK(key, "i ranges over "+bound, posOf(c, s))
		} else {
			c.Fail(key, "the outputs of the purged transaction are enumerated up to "+bound+" instead of len(rec.MsgTx.TxOut): with fewer inputs than outputs the higher outputs are skipped — a pending child spending the change output stays pending forever, the other coins it holds stay flagged, and stale pending credits remain", posOf(c, s))
		}
	}
	if n == 0 {
		c.Fail(sk(f)+":own-outpoints", "anchor lost: removeConflict no longer enumerates (rec.Hash, i)", p.Pos(f.Pos()))
	}
}

// ruleInsufficientAgainstRequested (C19/C02): the selection loop gives up when the coins do not cover what it asked for.
func ruleInsufficientAgainstRequested(c *report.Ctx) {
	c.Rule("insufficient-against-requested", "in autoConstructTxInAndChangeTxOut the 'not enough funds' test compares what findEligibleUtxos found with the very amount it was asked for in that iteration (target + dust adjustment): comparing with the unadjusted target lets the inner loop raise the adjustment and retry forever while holding the wallet's read lock", 1)
	f := fn(c, pkgWallet, "WalletManager", "autoConstructTxInAndChangeTxOut")
	fe := fn(c, pkgWallet, "WalletManager", "findEligibleUtxos")
	if f == nil || fe == nil {
		return
	}
	for i, s := range calls(f, fe) {
		call, ok := s.(*ssa.Call)
		if !ok {
			continue
		}
		asked := call.Call.Args[1]
		key := siteKey(f, "found-vs-asked", i+1)
		var found ssa.Value
		for _, r := range *call.Referrers() {
			if ex, ok := r.(*ssa.Extract); ok && ex.Index == 2 {
				found = ex
			}
		}
		if found == nil {
			c.Fail(key, "anchor lost: the amount found by findEligibleUtxos is not used", posOf(c, s))
			continue
		}
		okCmp, any := false, false
		an.Instrs(f, func(in ssa.Instruction) {
			cc := an.CallOf(in)
			if cc == nil || cc.StaticCallee() == nil || cc.StaticCallee().Name() != "Cmp" || len(cc.Args) != 2 || cc.Args[0] != found {
				return
			}
			any = true
			if cc.Args[1] == asked {
				okCmp = true
			}
		})
		switch {
		case okCmp:
			c.OK(key, "found.Cmp(<the amount asked for>)", posOf(c, s))
		case any:
			c.Fail(key, "the amount found is compared with another value than the one findEligibleUtxos was asked for: with a change below the relay fee and no further coin, the loop sets the dust adjustment and retries without end — the request never answers and, holding w.mu.RLock, blocks every call that needs the write lock", posOf(c, s))
		default:
			c.Fail(key, "anchor lost: no comparison of the found amount", posOf(c, s))
		}
	}
}

// ruleNilBytesNotDecoded (C19): a row value that may be absent is not decoded as a fixed-width integer.
func ruleNilBytesNotDecoded(c *report.Ctx) {
	p := c.P
	c.Rule("absent-row-not-decoded", "in TxStore.Rollback a value read with existsRawAddressRecord (nil when the row is absent) reaches readAddressHeight only under a nil test: binary.BigEndian.Uint64(nil) panics and kills the follower", 2)
	f := fn(c, pkgTxmgr, "TxStore", "Rollback")
	rd := fn(c, pkgTxmgr, "", "readAddressHeight")
	ex := fn(c, pkgTxmgr, "", "existsRawAddressRecord")
	if f == nil || rd == nil || ex == nil {
		return
	}
	for i, s := range calls(f, rd) {
		key := siteKey(f, "readAddressHeight", i+1)
		v := an.CallOf(s).Args[0]
		fromExists := false
		if e, ok := v.(*ssa.Extract); ok {
			if call, ok := e.Tuple.(*ssa.Call); ok && call.Call.StaticCallee() == ex {
				fromExists = true
			}
		}
		if !fromExists {
			c.OK(key, "argument is not a possibly-absent row", posOf(c, s))
			continue
		}
		if p.ValState(v, s.Block(), nil) == an.NonNil {
			c.OK(key, "under addrVal != nil", posOf(c, s))
		} else {
			c.Fail(key, "the address row read by existsRawAddressRecord is decoded without a nil test: when two payments to a fresh address lie in the rolled-back range the row is already deleted for the second one, readAddressHeight(nil) indexes an empty slice and the follower goroutine dies in the middle of the reorg", posOf(c, s))
		}
	}
}

// ruleRefusalByKeyMaterialOnly (C05): checkPassword refuses a passphrase only on the verdict of the stored key material.
func ruleRefusalByKeyMaterialOnly(c *report.Ctx) {
	p := c.P
	c.Rule("refusal-by-key-material", "AddrManager.checkPassword returns an error only after the salted hash comparison (unlocked) or DeriveKey (locked) rejected the candidate: no syntactic pre-check refuses a passphrase — import paths accept passphrases the create-time pattern does not, and their wallets must stay usable", 2)
	f := fn(c, pkgKeystore, "AddrManager", "checkPassword")
	if f == nil {
		return
	}
	n := 0
	for _, b := range f.Blocks {
		r, ok := b.Instrs[len(b.Instrs)-1].(*ssa.Return)
		if !ok {
			continue
		}
		for _, pr := range predsOrNil(b) {
			if p.ClassifyReturn(r, pr) == an.RetSuccess {
				continue
			}
			n++
			key := siteKey(f, "refusal", n)
			gs := p.GuardsOnEdge(pr, b)
			byMaterial := an.AnyAtom(gs, func(a an.Atom) bool {
				d := p.Desc(a.X)
				if a.Y != nil {
					d += " " + p.Desc(a.Y)
				}
				return strings.Contains(d, "DeriveKey") || strings.Contains(d, "bytes.Equal")
			})
			if byMaterial {
				c.OK(key, "after the hash comparison / DeriveKey rejected the candidate", posOf(c, r))
			} else {
				c.Fail(key, "checkPassword refuses a candidate on a path where neither the stored passphrase hash nor DeriveKey has judged it: a wallet whose (imported) passphrase does not match the pre-check can no longer sign, export or reveal its mnemonic with the right passphrase", posOf(c, r), an.AtomTexts(gs)...)
			}
			// one site per return; per predecessor only when the returned error is merged in this block
			if ph, isPhi := an.RetOperand(r, 0).(*ssa.Phi); !isPhi || ph.Block() != b {
				break
			}
		}
	}
}

// ruleClearAllKeystores (C05): re-locking after a signature covers every managed keystore.
func ruleClearAllKeystores(c *report.Ctx) {
	p := c.P
	c.Rule("relock-all-keystores", "KeystoreManager.ClearPrivKey calls clearPrivKeys for every entry of managedKeystores (a loop over the map, on every path): the keystore that was unlocked for a signature is found by address, not by the current selection, which may have changed in between", 1)
	f := fn(c, pkgKeystore, "KeystoreManager", "ClearPrivKey")
	cpk := fn(c, pkgKeystore, "AddrManager", "clearPrivKeys")
	if f == nil || cpk == nil {
		return
	}
	key := sk(f) + ":all-managed"
	ss := calls(f, cpk)
	if len(ss) == 0 {
		c.Fail(key, "ClearPrivKey no longer calls clearPrivKeys", p.Pos(f.Pos()))
		return
	}
	ok := false
	for _, s := range ss {
		// receiver is the element of a range over km.managedKeystores
		recv := an.CallOf(s).Args[0]
		if ex, isEx := recv.(*ssa.Extract); isEx {
			if nx, isNext := ex.Tuple.(*ssa.Next); isNext {
				if rg, isR := nx.Iter.(*ssa.Range); isR && strings.HasSuffix(p.Desc(rg.X), "KeystoreManager.managedKeystores") {
					ok = true
				}
			}
		}
	}
	// and no early return before the loop
	early := false
	for _, b := range f.Blocks {
		if _, isRet := b.Instrs[len(b.Instrs)-1].(*ssa.Return); isRet {
			for _, a := range p.Guards(b) {
				if strings.Contains(a.Text, "currentKeystore") {
					early = true
				}
			}
		}
	}
	if ok && !early {
		c.OK(key, "range over managedKeystores, unconditional", posOf(c, ss[0]))
	} else {
		c.Fail(key, "ClearPrivKey re-locks only a keystore chosen through the current selection: when the selection changes (UseWallet, asynchronous removal) between two inputs of a signing call, the wallet that was unlocked stays unlocked — its master key, branch keys and per-address keys remain in memory, and a later passphrase check on it wipes the master key of a manager that still counts as unlocked", posOf(c, ss[0]))
	}
}

// ruleLastTxBoundInclusive (C07): the parent lookup for the rescan includes the block being scanned.
func ruleLastTxBoundInclusive(c *report.Ctx) {
	p := c.P
	c.Rule("parent-lookup-inclusive", "chainFetcher.FetchLastTxUntilHeight accepts a candidate whose height is <= the requested height: the rescan resolves a parent created earlier in the same block through it", 1)
	f := fn(c, pkgIfc, "chainFetcher", "FetchLastTxUntilHeight")
	if f == nil {
		return
	}
	n := 0
	an.Instrs(f, func(in ssa.Instruction) {
		b, ok := in.(*ssa.BinOp)
		if !ok {
			return
		}
		var hPar, fld ssa.Value
		for _, v := range []ssa.Value{b.X, b.Y} {
			if par, isPar := v.(*ssa.Parameter); isPar && par == onlyParamOfType(f, "uint64") {
				hPar = v
			} else if strings.HasSuffix(p.Desc(v), ".Height") {
				fld = v
			}
		}
		if hPar == nil || fld == nil {
			return
		}
		n++
		key := siteKey(f, "height-bound", n)
		incl := (b.Op == token.LEQ && b.X == fld) || (b.Op == token.GEQ && b.X == hPar) || (b.Op == token.GTR && b.X == fld) || (b.Op == token.LSS && b.X == hPar)
		// GTR/LSS forms are the negated test (skip when Height > height): accepted only if used as the skip condition
		if b.Op == token.LEQ && b.X == fld || b.Op == token.GEQ && b.X == hPar {
			c.OK(key, "Height <= height", posOf(c, in))
		} else if incl {
			c.OK(key, "skip while Height > height", posOf(c, in))
		} else {
			c.Fail(key, "the candidate test is "+p.Desc(b)+": a previous transaction mined in the very block being rescanned is not found, the batch returns 'continuable' and is re-queued forever — a restored wallet whose history contains a spend of an output created in the same block never leaves the importing state", posOf(c, in))
		}
	})
	if n == 0 {
		c.Fail(sk(f)+":height-bound", "anchor lost: FetchLastTxUntilHeight no longer compares a height with its bound", p.Pos(f.Pos()))
	}
}

// ruleUnregisterBeforeStop (C20): the wallet leaves the chain's listener list before its follower is stopped.
func ruleUnregisterBeforeStop(c *report.Ctx) {
	p := c.P
	c.Rule("unregister-before-stop", "WalletManager.Stop unregisters the notification listener before it stops the follower: the chain calls OnBlockConnected (a blocking send on the follower's queue) holding its own lock, and UnregisterListener needs that lock — with the follower gone and the queue full both wait forever", 1)
	f := fn(c, pkgWallet, "WalletManager", "Stop")
	hs := fn(c, pkgWallet, "NtfnsHandler", "Stop")
	if f == nil || hs == nil {
		return
	}
	var unreg ssa.Instruction
	an.Instrs(f, func(in ssa.Instruction) {
		cc := an.CallOf(in)
		if cc == nil {
			return
		}
		name := ""
		if cc.IsInvoke() {
			name = cc.Method.Name()
		} else if cal := cc.StaticCallee(); cal != nil {
			name = cal.Name()
		}
		if name == "UnregisterListener" {
			unreg = in
		}
	})
	stops := calls(f, hs)
	key := sk(f) + ":UnregisterListener-first"
	switch {
	case unreg == nil:
		c.Fail(key, "Stop no longer unregisters the listener", p.Pos(f.Pos()))
	case len(stops) == 0:
		c.Fail(key, "anchor lost: Stop no longer stops the handler", p.Pos(f.Pos()))
	default:
		ok := true
		for _, s := range stops {
			if !instrDominates(unreg, s) {
				ok = false
			}
		}
		if ok {
			c.OK(key, "unregistered before NtfnsHandler.Stop()", posOf(c, unreg))
		} else {
			c.Fail(key, "the follower is stopped while the wallet is still a registered chain listener: a notifier that finds the block queue full blocks forever holding the chain lock, UnregisterListener then never gets that lock and Stop does not return", posOf(c, unreg))
		}
	}
}

// ruleCryptoKeySealing (C03/C05): each crypto key is sealed with the master key its reader opens it with.
func ruleCryptoKeySealing(c *report.Ctx) {
	p := c.P
	c.Rule("crypto-key-sealing", "in every function that persists master-key parameters and crypto keys together, the public crypto key is sealed with the master key whose parameters are stored as public, and the private and entropy crypto keys with the one stored as private (getPrivKeyBtcec / getMnemonic open them with masterKeyPriv)", 3)
	pck := fn(c, pkgKeystore, "", "putCryptoKeys")
	pmk := fn(c, pkgKeystore, "", "putMasterKeyParams")
	if pck == nil || pmk == nil {
		return
	}
	// value → the object it was produced from: X.Encrypt(..)#0 → X ; X.Marshal() → X
	producer := func(v ssa.Value, method string) ssa.Value {
		v = soleNonNil(v)
		// carried in a field of a record the function fills itself (one store to that field in the function)
		for i := 0; i < 3; i++ {
			ld, ok := v.(*ssa.UnOp)
			if !ok || ld.Op != token.MUL {
				break
			}
			fa, ok := ld.X.(*ssa.FieldAddr)
			if !ok || ld.Parent() == nil {
				break
			}
			n := an.NamedOf(fa.X.Type())
			if n == nil {
				break
			}
			sts := fieldStores(ld.Parent(), n, an.FName(derefStructT(fa.X.Type()), fa.Field))
			if len(sts) != 1 {
				break
			}
			v = soleNonNil(sts[0].(*ssa.Store).Val)
		}
		if ex, ok := v.(*ssa.Extract); ok {
			v = ex.Tuple
		}
		call, ok := v.(*ssa.Call)
		if !ok {
			return nil
		}
		if call.Call.IsInvoke() {
			if call.Call.Method.Name() == method {
				return call.Call.Value
			}
			return nil
		}
		if cal := call.Call.StaticCallee(); cal != nil && cal.Name() == method && len(call.Call.Args) > 0 {
			return call.Call.Args[0]
		}
		return nil
	}
	same := func(a, b ssa.Value) bool {
		if a == nil || b == nil {
			return false
		}
		if a == b {
			return true
		}
		// &local vs local loads
		return p.Desc(a) == p.Desc(b) && !strings.HasPrefix(p.Desc(a), "phi(")
	}
	for _, f := range p.ModFuncs {
		pk := an.FuncPkg(f)
		if pk == nil || pk.Path() != pkgKeystore {
			continue
		}
		cks, mks := calls(f, pck), calls(f, pmk)
		if len(cks) != 1 || len(mks) != 1 {
			continue
		}
		ca, ma := an.CallOf(cks[0]).Args, an.CallOf(mks[0]).Args
		pubMaster, privMaster := producer(ma[1], "Marshal"), producer(ma[2], "Marshal")
		for i, role := range []string{"", "public", "private", "entropy"} {
			if i == 0 || an.IsNilConst(ca[i]) {
				continue
			}
			key := sk(f) + ":" + role + "-crypto-key-sealed-by"
			sealer := producer(ca[i], "Encrypt")
			want := privMaster
			wantName := "private"
			if role == "public" {
				want, wantName = pubMaster, "public"
			}
			switch {
			case sealer == nil || want == nil:
				if want == nil && an.IsNilConst(ma[map[string]int{"public": 1, "private": 2, "entropy": 2}[role]]) {
					c.Fail(key, "the "+role+" crypto key is rewritten without the parameters of the master key that seals it", posOf(c, cks[0]))
				} else {
					c.Fail(key, "undecided: cannot resolve which master key seals the "+role+" crypto key", posOf(c, cks[0]))
				}
			case same(sealer, want):
				c.OK(key, "sealed with the master "+wantName+" key", posOf(c, cks[0]))
			default:
				c.Fail(key, "the "+role+" crypto key is sealed with "+p.Desc(sealer)+", but the master key persisted as "+wantName+" is "+p.Desc(want)+": the wallet looks healthy (addresses, export, mnemonic) until the first signature, which fails with 'unable to decrypt' for the right passphrase", posOf(c, cks[0]))
			}
		}
	}
}

// ruleSignErrorReturned (C03): a failure of the signer ends the call before the old witness can be judged.
func ruleSignErrorReturned(c *report.Ctx) {
	p := c.P
	c.Rule("sign-error-returned", "in signWitnessTx the error edge of SignTxOutputWit leads to an error return without passing NewEngine/Execute: the passphrase is checked inside the signer, so an already valid witness must not turn a refused passphrase into success", 1)
	f := fn(c, pkgWallet, "WalletManager", "signWitnessTx")
	signTx := p.Fn(pkgTxscript, "", "SignTxOutputWit")
	newEng := p.Fn(pkgTxscript, "", "NewEngine")
	if f == nil || signTx == nil || newEng == nil {
		return
	}
	for i, s := range calls(f, signTx) {
		call, ok := s.(*ssa.Call)
		if !ok {
			continue
		}
		key := siteKey(f, "SignTxOutputWit-error-edge", i+1)
		succ := map[*ssa.BasicBlock]bool{}
		for _, sb := range p.SuccessBlocks(call) {
			succ[sb] = true
		}
		if len(succ) == 0 {
			c.Fail(key, "the error of SignTxOutputWit is not tested", posOf(c, s))
			continue
		}
		bad := false
		for sb := range succ {
			ifb := sb.Preds[0]
			for _, eb := range ifb.Succs {
				if succ[eb] {
					continue
				}
				srch := &an.Search{P: p, Fn: f,
					GoalInstr:  func(in ssa.Instruction) bool { return p.IsCallTo(in, an.Set(newEng)) },
					GoalReturn: func(r *ssa.Return, pred *ssa.BasicBlock) bool { return p.ClassifyReturn(r, pred) == an.RetSuccess },
					CutEdge:    func(from, to *ssa.BasicBlock) bool { return to == ifb },
				}
				if w := srch.Run(eb, 0, ifb); w != nil {
					bad = true
					c.Fail(key, "after SignTxOutputWit failed (e.g. wrong passphrase) the input is still handed to the script engine: a transaction that already carries valid witnesses is returned as signed for any passphrase", posOf(c, s), w...)
				}
			}
		}
		if !bad {
			c.OK(key, "error edge returns the error", posOf(c, s))
		}
	}
}

// ruleBlockRecordCount (C08/C01): the transaction counter of a block record equals the number of hashes written.
func ruleBlockRecordCount(c *report.Ctx) {
	p := c.P
	c.Rule("block-record-count", "updateBlockRecord writes a record for all len(txHashes) transactions: it builds the value from the first hash and appends every further one through appendRawBlockRecord (which increments the counter), or stores a counter equal to len(txHashes)", 1)
	f := fn(c, pkgTxmgr, "", "updateBlockRecord")
	app := fn(c, pkgTxmgr, "", "appendRawBlockRecord")
	vbr := fn(c, pkgTxmgr, "", "valueBlockRecord")
	if f == nil || app == nil || vbr == nil {
		return
	}
	key := sk(f) + ":counter"
	// explicit counter stores
	var ctr []ssa.Instruction
	an.Instrs(f, func(in ssa.Instruction) {
		cc := an.CallOf(in)
		if cc == nil || cc.StaticCallee() == nil || !strings.HasSuffix(an.CanonKeyOf(cc.StaticCallee()), "Endian).PutUint32") || len(cc.Args) < 3 {
			return
		}
		if sl, ok := cc.Args[1].(*ssa.Slice); ok && sl.Low != nil {
			if k, isK := constInt(sl.Low); isK && k == 40 {
				ctr = append(ctr, in)
			}
		}
	})
	if len(ctr) > 0 {
		okAll := true
		for _, in := range ctr {
			v := an.CallOf(in).Args[2]
			d := p.Desc(stripConv(v))
			isLenOfParam := false
			if lc, ok := stripConv(v).(*ssa.Call); ok {
				if b, isB := lc.Call.Value.(*ssa.Builtin); isB && b.Name() == "len" {
					_, isLenOfParam = lc.Call.Args[0].(*ssa.Parameter)
				}
			}
			if !isLenOfParam {
				okAll = false
				c.Fail(key, "the block record's transaction counter is set to "+d+", not to the number of hashes written (len(txHashes)): the last surviving transaction of another wallet drops out of the record, so a later reorg of that height does not unwind it", posOf(c, in))
			}
		}
		if okAll {
			c.OK(key, "counter = len(txHashes)", posOf(c, ctr[0]))
		}
		return
	}
	// incremental form: first via valueBlockRecord (counter 1), the rest via appendRawBlockRecord in a loop from 1 to len
	as := calls(f, app)
	if len(calls(f, vbr)) == 1 && len(as) == 1 && loopHeaderOf(as[0].Block()) != nil {
		c.OK(key, "valueBlockRecord(first) + appendRawBlockRecord per further hash", posOf(c, as[0]))
	} else {
		c.Fail(key, "undecided: updateBlockRecord neither appends through appendRawBlockRecord nor stores a counter", p.Pos(f.Pos()))
	}
}

// ruleSetNetRepoints (C14): SetNet replaces the version slice, it does not write through it.
func ruleSetNetRepoints(c *report.Ctx) {
	p := c.P
	c.Rule("version-slice-not-written", "no function of hdkeychain writes through ExtendedKey.version (copy/append/element store): the slice is shared with the parent, the children and the network parameters' own arrays, so SetNet re-points it", 1)
	ek := p.Type(pkgHD, "ExtendedKey")
	if ek == nil {
		return
	}
	n := 0
	for _, f := range p.ModFuncs {
		pk := an.FuncPkg(f)
		if pk == nil || pk.Path() != pkgHD {
			continue
		}
		an.Instrs(f, func(in ssa.Instruction) {
			cc := an.CallOf(in)
			if cc == nil {
				return
			}
			b, ok := cc.Value.(*ssa.Builtin)
			if !ok || b.Name() != "copy" {
				return
			}
			n++
			d := p.Desc(cc.Args[0])
			if strings.HasSuffix(d, "ExtendedKey.version") || strings.Contains(d, "ExtendedKey.version[") {
				c.Fail(sk(f)+":copy-into-version", sk(f)+" copies into the key's version slice: that slice is shared with the key's parent, its siblings, keys derived later and the global network parameters, so moving one key to another network rewrites the serialisation prefix of all of them (and of every later NewMaster)", posOf(c, in))
			}
		})
	}
	sn := fn(c, pkgHD, "ExtendedKey", "SetNet")
	if sn != nil {
		if len(fieldStores(sn, ek, "version")) >= 2 {
			c.OK(sk(sn)+":re-points", "SetNet assigns a new slice to k.version", p.Pos(sn.Pos()))
		} else {
			c.Fail(sk(sn)+":re-points", "SetNet no longer assigns k.version", p.Pos(sn.Pos()))
		}
	}
}

// ruleMasterAcceptsEverySeed (C14): NewMaster rejects a seed only for its length or for an unusable derived key.
func ruleMasterAcceptsEverySeed(c *report.Ctx) {
	p := c.P
	c.Rule("master-rejections", "every error return of NewMaster is under a test of len(seed) against the specification's bounds or of the derived scalar (zero / >= n): no property of the seed's content rejects it — BIP-32 defines a master key for every seed of legal length", 2)
	f := fn(c, pkgHD, "", "NewMaster")
	if f == nil {
		return
	}
	n := 0
	for _, b := range f.Blocks {
		r, ok := b.Instrs[len(b.Instrs)-1].(*ssa.Return)
		if !ok || p.ClassifyReturn(r, nil) != an.RetError {
			continue
		}
		n++
		key := siteKey(f, "error-return", n)
		gs := p.Guards(b)
		// the innermost guard decides
		okG := false
		var why string
		if len(gs) > 0 {
			g := gs[0]
			check := func(a an.Atom) bool {
				d := p.Desc(a.X)
				if a.Y != nil {
					d += " " + p.Desc(a.Y)
				}
				return strings.Contains(d, "len(param:[]byte)") || strings.Contains(d, "big.Int") || strings.Contains(d, "Cmp(") || strings.Contains(d, "Sign(")
			}
			if len(g.Or) > 0 {
				okG = true
				for _, o := range g.Or {
					if !check(o) {
						okG = false
					}
				}
			} else {
				okG = check(g)
			}
			why = g.Text
		}
		if okG {
			c.OK(key, "under "+why, posOf(c, r))
		} else {
			c.Fail(key, "NewMaster rejects a seed under the test "+why+", which is neither the length bound nor the validity of the derived key: seeds BIP-32 defines a master node for (e.g. all-zero seeds) are refused", posOf(c, r))
		}
	}
}

// ruleGapLimitUnmodified (C12): restore and issue use the same, configured gap limit.
func ruleGapLimitUnmodified(c *report.Ctx) {
	p := c.P
	c.Rule("gap-limit-unmodified", "the gap limit the API hands to a restore (ImportWallet / ImportMnemonic parameters) is the configured Settings.AddressGapLimit itself — the value the issuing rule is enforced with — not a reduced figure", 1)
	n := 0
	for _, f := range p.ModFuncs {
		pk := an.FuncPkg(f)
		if pk == nil || pk.Path() != pkgAPI {
			continue
		}
		an.Instrs(f, func(in ssa.Instruction) {
			st, ok := in.(*ssa.Store)
			if !ok {
				return
			}
			fa, ok := st.Addr.(*ssa.FieldAddr)
			if !ok {
				return
			}
			stt := derefStructT(fa.X.Type())
			if stt == nil || an.FName(stt, fa.Field) != "AddressGapLimit" {
				return
			}
			if nn := an.NamedOf(fa.X.Type()); nn != nil && strings.Contains(nn.Obj().Name(), "Settings") {
				return // the configuration object itself
			}
			n++
			key := siteKey(f, "AddressGapLimit=", n)
			d := p.Desc(stripConv(st.Val))
			if strings.HasSuffix(d, "Settings.AddressGapLimit") {
				c.OK(key, "configured gap limit", posOf(c, in))
			} else {
				c.Fail(key, "the restore is given the gap limit "+d+" while addresses are issued under Settings.AddressGapLimit: the restore stops scanning earlier than the issuing rule allows unfunded addresses, so funded addresses near the end of the window are not rediscovered and are later issued again", posOf(c, in))
			}
		})
	}
	if n == 0 {
		c.Fail("api:AddressGapLimit", "anchor lost: no API handler passes a gap limit to a restore", "")
	}
}

// ruleExternalScanAlwaysRuns (C12): a mnemonic restore always scans the external branch.
func ruleExternalScanAlwaysRuns(c *report.Ctx) {
	p := c.P
	c.Rule("external-scan-default", "ImportKeystoreWithMnemonic raises an external index hint of 0 to 1 whatever the internal hint is: createManagerKeyScope skips a branch whose child number is 0, and the external branch is where every receive address lives", 1)
	f := fn(c, pkgKeystore, "KeystoreManager", "ImportKeystoreWithMnemonic")
	if f == nil {
		return
	}
	n := 0
	an.Instrs(f, func(in ssa.Instruction) {
		st, ok := in.(*ssa.Store)
		if !ok {
			return
		}
		fa, ok := st.Addr.(*ssa.FieldAddr)
		if !ok || an.FName(derefStructT(fa.X.Type()), fa.Field) != "ExternalChildNum" {
			return
		}
		gs := p.GuardsOf(st)
		if k, isK := constInt(st.Val); !isK || k != 1 {
			// the default chosen before the record is filled: `n := hint; if n == 0 { n = 1 }` — the way the 1 arrives
			ph, isPhi := st.Val.(*ssa.Phi)
			found := false
			if isPhi {
				for i, e := range ph.Edges {
					if k, isK := constInt(e); isK && k == 1 && i < len(ph.Block().Preds) {
						gs, found = p.GuardsOnEdge(ph.Block().Preds[i], ph.Block()), true
					}
				}
			}
			if !found {
				return
			}
		}
		n++
		key := siteKey(f, "ExternalChildNum=1", n)
		extra := ""
		for _, a := range gs {
			if strings.Contains(a.Text, "InternalChildNum") {
				extra = a.Text
			}
		}
		if extra == "" {
			c.OK(key, "defaulted whenever the external hint is 0", posOf(c, in))
		} else {
			c.Fail(key, "the default external hint is applied only under "+extra+": a restore with external hint 0 and a non-zero internal hint skips the external scan, rediscovers no receive address and starts issuing again at index 0", posOf(c, in))
		}
	})
	if n == 0 {
		c.Fail(sk(f)+":ExternalChildNum=1", "anchor lost: the external hint is no longer defaulted", p.Pos(f.Pos()))
	}
}

// derefStructOf: the struct type behind a (pointer to a) named or unnamed struct.
func derefStructOf(t types.Type) *types.Struct {
	if pt, ok := t.Underlying().(*types.Pointer); ok {
		t = pt.Elem()
	}
	st, _ := t.Underlying().(*types.Struct)
	return st
}
