package rules

import (
	"fmt"
	"go/token"
	"sort"
	"strings"

	"golang.org/x/tools/go/ssa"

	"verif/internal/an"
	"verif/internal/lockset"
	"verif/internal/report"
)

func init() {
	register(&Check{
		ID: "C17",
		Explain: "Structural necessary conditions of race freedom and single-boundary reads, decided with a context-sensitive must-lockset analysis over the concurrent entry points (every gRPC handler, the handler goroutine, the worker goroutine, the chain listener callbacks): " +
			"(1) for every field of a shared heap type that is written after initialisation, every write and every conflicting access from roots that may run concurrently hold a common lock (the writer exclusively); the suspend/resume hand-shake is modelled as a token held by the handler goroutine and by the worker between suspend and resume; " +
			"(2) a read transaction reads through a store snapshot; " +
			"(3) while (2) does not hold: unsigned confirmation arithmetic syncHeight-blockHeight is guarded against blockHeight > syncHeight.",
		NotDec: "single-boundary answers as a whole (needs snapshot reads); races inside mass-core and other dependencies; instances of one type are conflated (no pointer analysis is available in x/tools v0.29.0).",
		Run:    runC17,
	})
}

func runC17(c *report.Ctx) {
	p := c.P
	ruleWriterLock(c) // the shared batch is protected by the writer mutex alone
	ruleCommonLock(c, nil, "every write to a shared field and every access that may run concurrently with it hold a common lock, the writer in exclusive mode", 10)

	// the handler token used above is only sound while the hand-shake has its rendezvous shape
	ruleSuspendResume(c)

	// the live per-coin flags are what rejects a coin whose spender is mined while the query iterates (the store has no snapshot)
	ruleEligibility(c, "live")

	// ---- (2) snapshot reads -----------------------------------------------------------------------------
	c.Rule("snapshot-reads", "a read transaction reads through a LevelDB snapshot, so a query sees one committed state", 1)
	beginRead := fn(c, pkgLDB, "LevelDB", "BeginReadTx")
	snap := p.Fn(pkgLevelDB, "DB", "GetSnapshot")
	hasSnapshot := false
	if beginRead != nil {
		if snap == nil {
			c.Lost("leveldb.(*DB).GetSnapshot")
		} else {
			reached, _ := p.Reach([]*ssa.Function{beginRead}, an.ReachOpts{Within: func(f *ssa.Function) bool { return p.InModule(f) }})
			if reached[snap] {
				hasSnapshot = true
				c.OK(sk(beginRead)+":GetSnapshot", "read transactions take a snapshot", p.Pos(beginRead.Pos()))
			} else {
				c.Fail(sk(beginRead)+":no-snapshot", "a read transaction is a plain handle on the live store: a balance/coin query that overlaps a block commit can combine the tip height of one state with the coins of another", p.Pos(beginRead.Pos()))
			}
		}
	}

	// ---- (3) unsigned confirmations ---------------------------------------------------------------------------
	c.Rule("confs-underflow", "without snapshot reads, syncHeight - block.Height on uint64 must be guarded by block.Height <= syncHeight (a credit committed after the height was read would otherwise get ~2^64 confirmations and an immature coin be reported spendable)", 2)
	for _, name := range []string{"ScriptAddressBalance", "ScriptAddressUnspents"} {
		f := fn(c, pkgTxmgr, "UtxoStore", name)
		if f == nil {
			continue
		}
		k := 0
		instrsWithLiterals(f, func(in ssa.Instruction) {
			b, ok := in.(*ssa.BinOp)
			if !ok || b.Op != token.SUB {
				return
			}
			if _, isPar := an.ResolveCell(b.X).(*ssa.Parameter); !isPar {
				return
			}
			if !strings.HasSuffix(p.Desc(b.Y), ".Height") {
				return
			}
			k++
			key := siteKey(f, "syncHeight-block.Height", k)
			if hasSnapshot {
				c.OK(key, "snapshot reads make height <= syncHeight an invariant of the state read", posOf(c, in))
				return
			}
			guarded := an.AnyAtom(p.GuardsOf(in), func(a an.Atom) bool {
				if a.X == nil || a.Y == nil {
					return false
				}
				x, y := p.Desc(a.X), p.Desc(a.Y)
				return (a.Op == token.LEQ && strings.HasSuffix(x, ".Height") && y == p.Desc(b.X)) || (a.Op == token.GEQ && x == p.Desc(b.X) && strings.HasSuffix(y, ".Height"))
			})
			if guarded {
				c.OK(key, "guarded by block.Height <= syncHeight", posOf(c, in))
			} else {
				c.Fail(key, "unsigned subtraction syncHeight - block.Height without a guard, on a read that is not a snapshot: a credit of a block committed after syncHeight was read underflows to ~2^64 confirmations and is reported mature/spendable", posOf(c, in))
			}
		})
	}
	ruleTipFromTransaction(c)
	ruleOneReadTransaction(c)
	ruleHeightFromSameReadTransaction(c)
	ruleParkedHandlerOnlyWaits(c)
	ruleSingleIteratorScan(c)
}

// ruleCommonLock: the lockset race rule, optionally restricted to the locations a property's clause is about.
func ruleCommonLock(c *report.Ctx, only func(loc string) bool, decides string, floor int) {
	p := c.P
	lr := lockAnalysis(c)
	c.Rule("common-lock", decides, floor)
	c.Extra["lockset_contexts"] = lr.res.Contexts
	c.Extra["lockset_roots"] = len(lr.roots)
	byLoc := map[string][]lockset.Access{}
	for _, a := range lr.res.Accesses {
		byLoc[a.Loc] = append(byLoc[a.Loc], a)
	}
	var locs []string
	for l := range byLoc {
		if only != nil && !only(l) {
			continue
		}
		locs = append(locs, l)
	}
	sort.Strings(locs)
	c.Extra["shared_locations"] = locs
	// frozen exceptions: one named location + reason
	exceptions := map[string]string{}
	for _, loc := range locs {
		as := byLoc[loc]
		hasWrite := false
		for _, a := range as {
			if a.Write {
				hasWrite = true
			}
		}
		if !hasWrite {
			continue
		}
		if r, ok := exceptions[loc]; ok {
			c.Exception(loc, r)
			continue
		}
		// find the first conflicting pair
		type pair struct{ w, x lockset.Access }
		var bad *pair
		npairs := 0
		for i := range as {
			w := as[i]
			if !w.Write {
				continue
			}
			for j := range as {
				x := as[j]
				if i == j && !(lr.kind[w.Root] == "api" || lr.kind[w.Root] == "listener") {
					continue
				}
				if !concurrentKinds(lr.kind[w.Root], lr.kind[x.Root], w.Root == x.Root) {
					continue
				}
				npairs++
				ok := false
				for l, mw := range w.Locks {
					mx, held := x.Locks[l]
					if !held || mw != 'W' {
						continue
					}
					if x.Write && mx != 'W' {
						continue
					}
					ok = true
				}
				if !ok && bad == nil {
					bad = &pair{w, x}
				}
			}
		}
		if bad != nil {
			key := loc + ":" + sk(bad.w.Fn) + "~" + sk(bad.x.Fn)
			kind := "read"
			if bad.x.Write {
				kind = "write"
			}
			c.Fail(key, fmt.Sprintf("data race on %s: written in %s holding {%s} (root %s) and %s in %s holding {%s} (root %s) with no common exclusive lock", loc, sk(bad.w.Fn), bad.w.Locks.Key(), sk(bad.w.Root), kind, sk(bad.x.Fn), bad.x.Locks.Key(), sk(bad.x.Root)),
				p.InstrPos(bad.w.In), "write at "+p.InstrPos(bad.w.In), kind+" at "+p.InstrPos(bad.x.In))
		} else if npairs > 0 {
			// common locks over all accesses (for the evidence)
			c.OK(loc, fmt.Sprintf("%d conflicting access pairs, each with a common exclusive lock", npairs), "")
		}
	}
}
