package rules

// Rules added after the fifth round of seeded changes (seeds Cxx-9, Cxx-10).

import (
	"go/token"
	"go/types"
	"strings"

	"golang.org/x/tools/go/ssa"

	"verif/internal/an"
	"verif/internal/report"
)

var _ = token.ADD
var _ types.Type

// ruleAmountsNeverFloat (C15): amounts are integers everywhere in the wallet's own packages — the float-valued half of
// massutil.Amount's API and integer→float conversions of an amount's value are never used to print or build an amount.
func ruleAmountsNeverFloat(c *report.Ctx) {
	p := c.P
	c.Rule("amounts-never-float", "in the wallet's own packages no amount goes through float64: none of massutil.Amount's float-valued members (ToMASS, ToUnit, Format, explicit String, MulF64, NewAmountFromMass) is called and no integer obtained from an amount (IntValue/UintValue, TxOut.Value) is converted to a float — float64 has 53 bits, the supply needs 55, and Format prints fixed eight decimals with a unit", 40)
	floatAPI := map[string]string{
		"massutil.Amount).ToMASS":    "float64 value of the amount",
		"massutil.Amount).ToUnit":    "float64 value of the amount",
		"massutil.Amount).Format":    "strconv.FormatFloat of the float64 value, fixed precision, unit suffix",
		"massutil.Amount).String":    "strconv.FormatFloat of the float64 value, fixed precision, unit suffix",
		"massutil.Amount).MulF64":    "float64 product rounded back",
		"massutil.NewAmountFromMass": "amount built from a float64",
	}
	amountInts := func(v ssa.Value) bool {
		v = stripConvInt(v)
		switch x := v.(type) {
		case *ssa.Call:
			if cal := x.Call.StaticCallee(); cal != nil {
				k := an.CanonKeyOf(cal)
				return strings.HasSuffix(k, "massutil.Amount).IntValue") || strings.HasSuffix(k, "massutil.Amount).UintValue")
			}
		case *ssa.UnOp:
			if fa, ok := x.X.(*ssa.FieldAddr); ok {
				d := p.Desc(fa)
				return strings.HasSuffix(d, "TxOut.Value") || strings.HasSuffix(d, "Credit.Amount")
			}
		}
		return false
	}
	for _, f := range p.ModFuncs {
		pk := an.FuncPkg(f)
		if pk == nil || !(strings.HasPrefix(pk.Path(), pkgWallet) || pk.Path() == pkgAPI || strings.HasPrefix(pk.Path(), pkgMain+"/cmd")) {
			continue
		}
		n := 0
		an.Instrs(f, func(in ssa.Instruction) {
			if cc := an.CallOf(in); cc != nil && cc.StaticCallee() != nil {
				k := an.CanonKeyOf(cc.StaticCallee())
				for suf, what := range floatAPI {
					if strings.HasSuffix(k, suf) {
						n++
						c.Fail(siteKey(apiOwnerOrSelf(p, f), "Amount."+suf[strings.LastIndex(suf, ".")+1:], 0), "an amount goes through floating point ("+what+"): amounts from 2^53 maxwell (about 90 million MASS, less than half the supply) lose their last digits and the text is not the shortest plain decimal the parser accepts back", posOf(c, in))
						return
					}
				}
			}
			if cv, ok := in.(*ssa.Convert); ok && isFloaty(cv.Type()) && amountInts(cv.X) {
				c.Fail(siteKey(f, "float(amount)", 0), "the integer value of an amount is converted to floating point: not exact from 2^53 maxwell", posOf(c, in))
				return
			}
			// count what was looked at: calls with an Amount receiver/argument/result
			if cc := an.CallOf(in); cc != nil {
				if v, ok := in.(ssa.Value); ok && strings.Contains(v.Type().String(), "massutil.Amount") {
					c.OK(siteKey(f, "amount-call", 0), "integer amount arithmetic", posOf(c, in))
				}
			}
		})
	}
}

func stripConvInt(v ssa.Value) ssa.Value {
	for {
		switch x := v.(type) {
		case *ssa.Convert:
			if isFloaty(x.X.Type()) {
				return v
			}
			v = x.X
		case *ssa.ChangeType:
			v = x.X
		default:
			return v
		}
	}
}

// apiOwnerOrSelf names a finding by the function it sits in (literals by their parent).
func apiOwnerOrSelf(p *an.Prog, f *ssa.Function) *ssa.Function {
	for f.Parent() != nil {
		f = f.Parent()
	}
	return f
}

var _ = report.New

// ---- effective final assignments of a field before a sink -------------------------------------------------------

// effAssign: on some path the last value given to the field before the sink is Val, and Atoms hold on every such path.
type effAssign struct {
	Val   ssa.Value // nil: the constructor's default (no store on the path)
	Atoms []an.Atom
	At    ssa.Instruction
}

// finalAssignments computes, for the stores to field `fname` of `named` in f (and the constructor calls `ctor`, which
// stand for "the default value"), which of them can be the last one before a call to sink, with the atoms that hold on
// every store-free path from the definition to the sink. A stored phi is split into its alternatives, each with the
// guards of the edge it arrives by.
func finalAssignments(p *an.Prog, f *ssa.Function, named *types.Named, fname string, ctor, sink *ssa.Function) []effAssign {
	isStore := func(in ssa.Instruction) bool {
		s, ok := in.(*ssa.Store)
		return ok && addrRootsAtField(s.Addr, named, fname)
	}
	isCtor := func(in ssa.Instruction) bool {
		cc := an.CallOf(in)
		return cc != nil && ctor != nil && cc.StaticCallee() == ctor
	}
	isSink := func(in ssa.Instruction) bool {
		if _, d := in.(*ssa.Defer); d {
			return false
		}
		cc := an.CallOf(in)
		return cc != nil && cc.StaticCallee() == sink
	}
	type atomSet map[string]an.Atom
	fromList := func(as []an.Atom) atomSet {
		m := atomSet{}
		for _, a := range as {
			m[atomKey(a)] = a
		}
		return m
	}
	var out []effAssign
	var defs []ssa.Instruction
	an.Instrs(f, func(in ssa.Instruction) {
		if isStore(in) || isCtor(in) {
			defs = append(defs, in)
		}
	})
	for _, d := range defs {
		// forward dataflow of "atoms on every def-free path from d"
		state := map[*ssa.BasicBlock]atomSet{}
		var finals []atomSet
		type item struct {
			b   *ssa.BasicBlock
			idx int
			st  atomSet
		}
		b0 := d.Block()
		idx0 := 0
		for i, in := range b0.Instrs {
			if in == d {
				idx0 = i + 1
			}
		}
		work := []item{{b0, idx0, fromList(p.Guards(b0))}}
		first := true
		for len(work) > 0 {
			it := work[0]
			work = work[1:]
			killed := false
			for i := it.idx; i < len(it.b.Instrs); i++ {
				in := it.b.Instrs[i]
				if isStore(in) || isCtor(in) {
					killed = true
					break
				}
				if isSink(in) {
					finals = append(finals, it.st)
					killed = true // one input is finished here
					break
				}
			}
			_ = first
			first = false
			if killed {
				continue
			}
			for _, nx := range it.b.Succs {
				ns := atomSet{}
				for k, a := range it.st {
					ns[k] = a
				}
				if ea := p.GuardsOnEdge(it.b, nx); ea != nil {
					// only the edge's own atom and what dominates nx: GuardsOnEdge = Guards(nx) ∪ edge ∪ Guards(from)
					for _, a := range ea {
						ns[atomKey(a)] = a
					}
				}
				old, seen := state[nx]
				if seen {
					// meet = intersection
					changed := false
					for k := range old {
						if _, ok := ns[k]; !ok {
							delete(old, k)
							changed = true
						}
					}
					if !changed {
						continue
					}
					ns = old
				}
				state[nx] = ns
				cp := atomSet{}
				for k, a := range ns {
					cp[k] = a
				}
				work = append(work, item{nx, 0, cp})
			}
		}
		if len(finals) == 0 {
			continue
		}
		// atoms common to every way of reaching a sink
		common := finals[0]
		for _, fs := range finals[1:] {
			for k := range common {
				if _, ok := fs[k]; !ok {
					delete(common, k)
				}
			}
		}
		var base []an.Atom
		for _, a := range common {
			base = append(base, a)
		}
		if st, ok := d.(*ssa.Store); ok {
			for _, alt := range phiAlternatives(p, st.Val, 0) {
				out = append(out, effAssign{Val: alt.Val, Atoms: append(append([]an.Atom{}, base...), alt.Atoms...), At: d})
			}
		} else {
			out = append(out, effAssign{Val: nil, Atoms: base, At: d})
		}
	}
	return out
}

func atomKey(a an.Atom) string {
	if len(a.Or) > 0 {
		return "or:" + a.Text
	}
	return a.Text
}

type phiAlt struct {
	Val   ssa.Value
	Atoms []an.Atom
}

// phiAlternatives splits a merged value into (incoming value, guards of its edge), recursively.
func phiAlternatives(p *an.Prog, v ssa.Value, depth int) []phiAlt {
	ph, ok := v.(*ssa.Phi)
	if !ok || depth > 4 {
		return []phiAlt{{Val: v}}
	}
	var out []phiAlt
	for i, e := range ph.Edges {
		pred := ph.Block().Preds[i]
		gs := p.GuardsOnEdge(pred, ph.Block())
		// guards that hold at the phi's block for every edge say nothing about this alternative but are harmless
		for _, sub := range phiAlternatives(p, e, depth+1) {
			out = append(out, phiAlt{Val: sub.Val, Atoms: append(append([]an.Atom{}, gs...), sub.Atoms...)})
		}
	}
	return out
}
