package rules

// Rules added after the fifth round of seeded changes (seeds Cxx-9, Cxx-10).

import (
	"go/token"
	"go/types"
	"strings"

	"golang.org/x/tools/go/ssa"

	"verif/internal/an"
	"verif/internal/report"
)

var _ = token.ADD
var _ types.Type

// ruleAmountsNeverFloat (C15): amounts are integers everywhere in the wallet's own packages — the float-valued half of
// massutil.Amount's API and integer→float conversions of an amount's value are never used to print or build an amount.
func ruleAmountsNeverFloat(c *report.Ctx) {
	p := c.P
	c.Rule("amounts-never-float", "in the wallet's own packages no amount goes through float64: none of massutil.Amount's float-valued members (ToMASS, ToUnit, Format, explicit String, MulF64, NewAmountFromMass) is called and no integer obtained from an amount (IntValue/UintValue, TxOut.Value) is converted to a float — float64 has 53 bits, the supply needs 55, and Format prints fixed eight decimals with a unit", 40)
	floatAPI := map[string]string{
		"massutil.Amount).ToMASS":    "float64 value of the amount",
		"massutil.Amount).ToUnit":    "float64 value of the amount",
		"massutil.Amount).Format":    "strconv.FormatFloat of the float64 value, fixed precision, unit suffix",
		"massutil.Amount).String":    "strconv.FormatFloat of the float64 value, fixed precision, unit suffix",
		"massutil.Amount).MulF64":    "float64 product rounded back",
		"massutil.NewAmountFromMass": "amount built from a float64",
	}
	amountInts := func(v ssa.Value) bool {
		v = stripConvInt(v)
		switch x := v.(type) {
		case *ssa.Call:
			if cal := x.Call.StaticCallee(); cal != nil {
				k := an.CanonKeyOf(cal)
				return strings.HasSuffix(k, "massutil.Amount).IntValue") || strings.HasSuffix(k, "massutil.Amount).UintValue")
			}
		case *ssa.UnOp:
			if fa, ok := x.X.(*ssa.FieldAddr); ok {
				d := p.Desc(fa)
				return strings.HasSuffix(d, "TxOut.Value") || strings.HasSuffix(d, "Credit.Amount")
			}
		}
		return false
	}
	for _, f := range p.ModFuncs {
		pk := an.FuncPkg(f)
		if pk == nil || !(strings.HasPrefix(pk.Path(), pkgWallet) || pk.Path() == pkgAPI || strings.HasPrefix(pk.Path(), pkgMain+"/cmd")) {
			continue
		}
		n := 0
		an.Instrs(f, func(in ssa.Instruction) {
			if cc := an.CallOf(in); cc != nil && cc.StaticCallee() != nil {
				k := an.CanonKeyOf(cc.StaticCallee())
				for suf, what := range floatAPI {
					if strings.HasSuffix(k, suf) {
						n++
						c.Fail(siteKey(apiOwnerOrSelf(p, f), "Amount."+suf[strings.LastIndex(suf, ".")+1:], 0), "an amount goes through floating point ("+what+"): amounts from 2^53 maxwell (about 90 million MASS, less than half the supply) lose their last digits and the text is not the shortest plain decimal the parser accepts back", posOf(c, in))
						return
					}
				}
			}
			if cv, ok := in.(*ssa.Convert); ok && isFloaty(cv.Type()) && amountInts(cv.X) {
				c.Fail(siteKey(f, "float(amount)", 0), "the integer value of an amount is converted to floating point: not exact from 2^53 maxwell", posOf(c, in))
				return
			}
			// count what was looked at: calls with an Amount receiver/argument/result
			if cc := an.CallOf(in); cc != nil {
				if v, ok := in.(ssa.Value); ok && strings.Contains(v.Type().String(), "massutil.Amount") {
					c.OK(siteKey(f, "amount-call", 0), "integer amount arithmetic", posOf(c, in))
				}
			}
		})
	}
}

func stripConvInt(v ssa.Value) ssa.Value {
	for {
		switch x := v.(type) {
		case *ssa.Convert:
			if isFloaty(x.X.Type()) {
				return v
			}
			v = x.X
		case *ssa.ChangeType:
			v = x.X
		default:
			return v
		}
	}
}

// apiOwnerOrSelf names a finding by the function it sits in (literals by their parent).
func apiOwnerOrSelf(p *an.Prog, f *ssa.Function) *ssa.Function {
	for f.Parent() != nil {
		f = f.Parent()
	}
	return f
}

var _ = report.New

// ---- effective final assignments of a field before a sink -------------------------------------------------------

// effAssign: on some path the last value given to the field before the sink is Val, and Atoms hold on every such path.
type effAssign struct {
	Val   ssa.Value // nil: the constructor's default (no store on the path)
	Atoms []an.Atom
	At    ssa.Instruction
}

// finalAssignments computes, for the stores to field `fname` of `named` in f (and the constructor calls `ctor`, which
// stand for "the default value"), which of them can be the last one before a call to sink, with the atoms that hold on
// every store-free path from the definition to the sink. A stored phi is split into its alternatives, each with the
// guards of the edge it arrives by.
func finalAssignments(p *an.Prog, f *ssa.Function, named *types.Named, fname string, ctor, sink *ssa.Function) []effAssign {
	isStore := func(in ssa.Instruction) bool {
		s, ok := in.(*ssa.Store)
		return ok && addrRootsAtField(s.Addr, named, fname)
	}
	isCtor := func(in ssa.Instruction) bool {
		cc := an.CallOf(in)
		return cc != nil && ctor != nil && cc.StaticCallee() == ctor
	}
	isSink := func(in ssa.Instruction) bool {
		if _, d := in.(*ssa.Defer); d {
			return false
		}
		cc := an.CallOf(in)
		return cc != nil && cc.StaticCallee() == sink
	}
	type atomSet map[string]an.Atom
	fromList := func(as []an.Atom) atomSet {
		m := atomSet{}
		for _, a := range as {
			m[atomKey(a)] = a
		}
		return m
	}
	var out []effAssign
	var defs []ssa.Instruction
	an.Instrs(f, func(in ssa.Instruction) {
		if isStore(in) || isCtor(in) {
			defs = append(defs, in)
		}
	})
	for _, d := range defs {
		// forward dataflow of "atoms on every def-free path from d"
		state := map[*ssa.BasicBlock]atomSet{}
		var finals []atomSet
		type item struct {
			b   *ssa.BasicBlock
			idx int
			st  atomSet
		}
		b0 := d.Block()
		idx0 := 0
		for i, in := range b0.Instrs {
			if in == d {
				idx0 = i + 1
			}
		}
		work := []item{{b0, idx0, fromList(p.Guards(b0))}}
		first := true
		for len(work) > 0 {
			it := work[0]
			work = work[1:]
			killed := false
			for i := it.idx; i < len(it.b.Instrs); i++ {
				in := it.b.Instrs[i]
				if isStore(in) || isCtor(in) {
					killed = true
					break
				}
				if isSink(in) {
					finals = append(finals, it.st)
					killed = true // one input is finished here
					break
				}
			}
			_ = first
			first = false
			if killed {
				continue
			}
			for _, nx := range it.b.Succs {
				ns := atomSet{}
				for k, a := range it.st {
					ns[k] = a
				}
				if ea := p.GuardsOnEdge(it.b, nx); ea != nil {
					// only the edge's own atom and what dominates nx: GuardsOnEdge = Guards(nx) ∪ edge ∪ Guards(from)
					for _, a := range ea {
						ns[atomKey(a)] = a
					}
				}
				old, seen := state[nx]
				if seen {
					// meet: what both ways of arriving guarantee — common atoms, and for boolean tests the disjunction of
					// one atom from each side (`!IsBinding` on one path, `!warm` on the other gives `!IsBinding || !warm`)
					merged := meetAtoms(old, ns)
					if len(merged) == len(old) {
						same := true
						for k := range merged {
							if _, ok := old[k]; !ok {
								same = false
							}
						}
						if same {
							continue
						}
					}
					ns = merged
				}
				state[nx] = ns
				cp := atomSet{}
				for k, a := range ns {
					cp[k] = a
				}
				work = append(work, item{nx, 0, cp})
			}
		}
		if len(finals) == 0 {
			continue
		}
		// what every way of reaching a sink guarantees
		common := finals[0]
		for _, fs := range finals[1:] {
			common = meetAtoms(common, fs)
		}
		var base []an.Atom
		for _, a := range common {
			base = append(base, a)
		}
		if st, ok := d.(*ssa.Store); ok {
			for _, alt := range phiAlternatives(p, st.Val, 0) {
				out = append(out, effAssign{Val: alt.Val, Atoms: append(append([]an.Atom{}, base...), alt.Atoms...), At: d})
			}
		} else {
			out = append(out, effAssign{Val: nil, Atoms: base, At: d})
		}
	}
	return out
}

// meetAtoms: the facts two sets of atoms have in common. Besides identical atoms, two plain boolean tests that differ
// give their disjunction (bounded to three alternatives), so that `if a && b {…}` left over either failing test is
// known to satisfy `!a || !b` after the join.
func meetAtoms(x, y map[string]an.Atom) map[string]an.Atom {
	out := map[string]an.Atom{}
	alts := func(a an.Atom) []an.Atom {
		if len(a.Or) > 0 {
			return a.Or
		}
		return []an.Atom{a}
	}
	boolOnly := func(as []an.Atom) bool {
		for _, a := range as {
			if a.Op != token.ILLEGAL || a.X == nil {
				return false
			}
			if _, isCall := a.X.(*ssa.Call); !isCall {
				return false
			}
		}
		return true
	}
	for kx, ax := range x {
		if _, ok := y[kx]; ok {
			out[kx] = ax
			continue
		}
		ex := alts(ax)
		if !boolOnly(ex) {
			continue
		}
		for ky, ay := range y {
			if _, ok := x[ky]; ok {
				continue
			}
			ey := alts(ay)
			if !boolOnly(ey) {
				continue
			}
			seen := map[string]bool{}
			var u []an.Atom
			for _, a := range append(append([]an.Atom{}, ex...), ey...) {
				if !seen[a.Text] {
					seen[a.Text] = true
					u = append(u, a)
				}
			}
			if len(u) > 3 {
				continue
			}
			for i := 1; i < len(u); i++ {
				for j := i; j > 0 && u[j].Text < u[j-1].Text; j-- {
					u[j], u[j-1] = u[j-1], u[j]
				}
			}
			var ts []string
			for _, a := range u {
				ts = append(ts, a.Text)
			}
			at := an.Atom{Or: u, Text: strings.Join(ts, " || ")}
			out[atomKey(at)] = at
		}
	}
	return out
}

func atomKey(a an.Atom) string {
	if len(a.Or) > 0 {
		return "or:" + a.Text
	}
	return a.Text
}

type phiAlt struct {
	Val   ssa.Value
	Atoms []an.Atom
}

// phiAlternatives splits a merged value into (incoming value, guards of its edge), recursively.
func phiAlternatives(p *an.Prog, v ssa.Value, depth int) []phiAlt {
	ph, ok := v.(*ssa.Phi)
	if !ok || depth > 4 {
		return []phiAlt{{Val: v}}
	}
	var out []phiAlt
	for i, e := range ph.Edges {
		pred := ph.Block().Preds[i]
		gs := p.GuardsOnEdge(pred, ph.Block())
		// guards that hold at the phi's block for every edge say nothing about this alternative but are harmless
		for _, sub := range phiAlternatives(p, e, depth+1) {
			out = append(out, phiAlt{Val: sub.Val, Atoms: append(append([]an.Atom{}, gs...), sub.Atoms...)})
		}
	}
	return out
}

// ruleLedgerPathErrorsPropagate (C18, C01): in every error-returning wallet function that runs inside the follower's
// write transactions (block connect, start-up catch-up, received transaction), a failed storage call ends the function
// with an error. Logging the error and going on (continue / fall through) lets the transaction commit without the data
// the failed read or write stood for: the block counts as applied and is never retried.
func ruleLedgerPathErrorsPropagate(c *report.Ctx) {
	p := c.P
	c.Rule("ledger-path-errors-propagate", "in functions reached from the follower's write transactions (processConnectedBlock, Start, onRelevantTx) that can return an error, no success return and no further loop iteration is reachable from the error edge of a storage call unless the error is classified first (compared with a sentinel): a storage fault must abort the step, not skip a wallet or a record", 60)
	ifm, srcs := storageSources(p)
	_, _, us, _ := updateSites(c)
	var roots []*ssa.Function
	for _, s := range us {
		if s.Closure == nil {
			continue
		}
		switch nm(an.Outermost(s.Caller)) {
		case "processConnectedBlock", "Start", "onRelevantTx":
			roots = append(roots, s.Closure)
		}
	}
	if len(roots) == 0 {
		c.Lost("Update closures of processConnectedBlock / Start / onRelevantTx")
		return
	}
	reached, _ := p.ReachNil(roots, an.ReachOpts{})
	var fs []*ssa.Function
	for f := range reached {
		pk := an.FuncPkg(f)
		if pk == nil || f.Blocks == nil || !(pk.Path() == pkgWallet || pk.Path() == pkgTxmgr) {
			continue
		}
		res := f.Signature.Results()
		if res.Len() == 0 || !an.IsErrorType(res.At(res.Len()-1).Type()) {
			continue
		}
		fs = append(fs, f)
	}
	sortFuncs(fs)
	for _, f := range fs {
		cnt := map[string]int{}
		for _, b := range f.Blocks {
			for _, in := range b.Instrs {
				call, ok := in.(*ssa.Call)
				if !ok {
					continue
				}
				isSrc := false
				if call.Call.IsInvoke() {
					isSrc = ifm[call.Call.Method] || ifaceByName(ifm, call.Call.Method)
				} else if cal := call.Call.StaticCallee(); cal != nil {
					isSrc = srcs[cal]
				}
				if !isSrc {
					continue
				}
				errVal := errResultOf(call)
				if errVal == nil {
					continue
				}
				name := calleeName(p, call)
				cnt[name]++
				key := siteKey(f, "error-of:"+name, cnt[name])
				if errClassified(errVal, 0) {
					c.OK(key, "the error is classified (compared with a sentinel) before the function goes on", posOf(c, call))
					continue
				}
				succ := map[*ssa.BasicBlock]bool{}
				for _, sb := range p.SuccessBlocks(call) {
					succ[sb] = true
				}
				if len(succ) == 0 {
					continue // the error is returned or handed on unbranched; storage-error-used judges dropped ones
				}
				var wit []string
				for sb := range succ {
					ifb := sb.Preds[0]
					for _, eb := range ifb.Succs {
						if succ[eb] {
							continue
						}
						srch := &an.Search{P: p, Fn: f, GoalReturn: func(r *ssa.Return, pred *ssa.BasicBlock) bool {
							switch p.ClassifyReturn(r, pred) {
							case an.RetSuccess:
								return true
							case an.RetMaybe:
								if len(r.Results) == 0 {
									return false
								}
								return !carriesValue(an.RetOperand(r, len(r.Results)-1), errVal, f, 0)
							}
							return false
						}, CutEdge: func(from, to *ssa.BasicBlock) bool { return to == ifb }}
						if w := srch.Run(eb, 0, ifb); w != nil {
							wit = w
						}
					}
				}
				if wit != nil {
					c.Fail(key, "after "+name+" failed the function can still return success (the error is logged or ignored and the loop/body goes on): inside the follower's write transaction this commits the block without what the failed call stood for — e.g. a ready wallet is skipped for the block and its payment is never recorded, nothing retries", posOf(c, call), wit...)
				} else {
					c.OK(key, "every path from the error edge ends in an error return", posOf(c, call))
				}
			}
		}
	}
}

// errClassified: is the error value compared with something other than nil (a sentinel), type-asserted, or handed to
// errors.Is/As — i.e. does the code tell kinds of failure apart?
func errClassified(v ssa.Value, depth int) bool {
	if depth > 4 || v.Referrers() == nil {
		return false
	}
	for _, r := range *v.Referrers() {
		switch x := r.(type) {
		case *ssa.BinOp:
			if (x.Op == token.EQL || x.Op == token.NEQ) && !an.IsNilConst(x.X) && !an.IsNilConst(x.Y) {
				return true
			}
		case *ssa.TypeAssert:
			return true
		case *ssa.Phi:
			if errClassified(x, depth+1) {
				return true
			}
		case *ssa.Store:
			// stored into a local cell: look at the loads of that cell
			if a, ok := x.Addr.(*ssa.Alloc); ok {
				for _, rr := range *a.Referrers() {
					if u, ok := rr.(*ssa.UnOp); ok && u.Op == token.MUL && errClassified(u, depth+1) {
						return true
					}
				}
			}
		case *ssa.Call:
			if cal := x.Call.StaticCallee(); cal != nil {
				k := an.CanonKeyOf(cal)
				if k == "errors.Is" || k == "errors.As" {
					return true
				}
			}
		}
	}
	return false
}

func sortFuncs(fs []*ssa.Function) {
	for i := 1; i < len(fs); i++ {
		for j := i; j > 0 && sk(fs[j]) < sk(fs[j-1]); j-- {
			fs[j], fs[j-1] = fs[j-1], fs[j]
		}
	}
}

// ruleReorgReachesNewTip (C01): reorg may report success only after it made the announced block the wallet's tip.
func ruleReorgReachesNewTip(c *report.Ctx) {
	p := c.P
	c.Rule("reorg-reaches-new-tip", "every success return of reorg is reached through filterBlock (the announced branch was connected), through disconnectBlock (the wallet was rolled back to the announced block) or over the branch on which the wallet's current tip — the currentBest the caller passed, or the synced block it was replaced with — has the announced block's hash: the caller stores the announced block as the in-memory tip after a success, so any other success leaves the in-memory tip and the synced-to chain apart and the next block is connected on the wrong parent", 1)
	reorg := fn(c, pkgWallet, "NtfnsHandler", "reorg")
	fb := fn(c, pkgWallet, "NtfnsHandler", "filterBlock")
	db := fn(c, pkgWallet, "NtfnsHandler", "disconnectBlock")
	if reorg == nil || fb == nil || db == nil {
		return
	}
	bm := p.Type(pkgTxmgr, "BlockMeta")
	var cur *ssa.Parameter
	for _, par := range reorg.Params {
		if n := an.NamedOf(par.Type()); n != nil && bm != nil && n.Obj() == bm.Obj() {
			cur = par
		}
	}
	if cur == nil {
		c.Fail(sk(reorg)+":currentBest", "reorg no longer receives the wallet's current tip as a txmgr.BlockMeta (anchor lost)", p.Pos(reorg.Pos()))
		return
	}
	// the cell the parameter lives in (it is assigned in the body)
	var cell ssa.Value
	for _, r := range *cur.Referrers() {
		if st, ok := r.(*ssa.Store); ok && st.Val == ssa.Value(cur) {
			cell = st.Addr
		}
	}
	// tipHeight: v is the height of the wallet's tip as handed to reorg, possibly counted down
	var tipHeight func(v ssa.Value, seen map[ssa.Value]bool) bool
	tipHeight = func(v ssa.Value, seen map[ssa.Value]bool) bool {
		if seen[v] {
			return true
		}
		seen[v] = true
		switch x := v.(type) {
		case *ssa.Phi:
			for _, e := range x.Edges {
				if !tipHeight(e, seen) {
					return false
				}
			}
			return len(x.Edges) > 0
		case *ssa.BinOp:
			if _, isK := constInt(x.Y); isK && x.Op == token.SUB {
				return tipHeight(x.X, seen)
			}
		case *ssa.Field:
			return x.X == ssa.Value(cur) && an.FName(derefStructT(x.X.Type()), x.Field) == "Height"
		case *ssa.UnOp:
			if x.Op != token.MUL {
				return false
			}
			if r := an.ResolveCell(x); r != ssa.Value(x) {
				return tipHeight(r, seen)
			}
			fa, ok := x.X.(*ssa.FieldAddr)
			if !ok || an.FName(derefStructT(fa.X.Type()), fa.Field) != "Height" {
				// a local counter seeded from the tip's height and only ever counted down
				if a, isAlloc := x.X.(*ssa.Alloc); isAlloc && a.Referrers() != nil {
					n := 0
					for _, r := range *a.Referrers() {
						if st, isSt := r.(*ssa.Store); isSt && st.Addr == ssa.Value(a) {
							n++
							if !tipHeight(st.Val, seen) {
								return false
							}
						}
					}
					return n > 0
				}
				return false
			}
			if fa.X == cell {
				return true
			}
			if c2, isAlloc := fa.X.(*ssa.Alloc); isAlloc && c2.Referrers() != nil {
				for _, r := range *c2.Referrers() {
					if st, isSt := r.(*ssa.Store); isSt && st.Addr == ssa.Value(c2) {
						v := st.Val
						if cv, isCv := v.(*ssa.ChangeType); isCv {
							v = cv.X
						}
						if v == ssa.Value(cur) {
							return true
						}
						if ld, isLd := v.(*ssa.UnOp); isLd && ld.Op == token.MUL && ld.X == cell {
							return true
						}
					}
				}
			}
		}
		return false
	}
	isTipHash := func(v ssa.Value) bool {
		// load of <currentBest>.Hash, or a field read of the parameter value
		switch x := v.(type) {
		case *ssa.UnOp:
			fa, ok := x.X.(*ssa.FieldAddr)
			if !ok || cell == nil {
				return false
			}
			if fa.X == cell {
				return true
			}
			// the wallet's own block at a height, as read from the sync store in this transaction (what the tip is
			// re-read from after the rewind)
			// — at the tip's own height (the tip's height, or that height counted down by the rewind loop, every
			// step of which disconnects a block): the block at the announced block's height is not the tip
			if sb := p.Fn(pkgTxmgr, "SyncStore", "SyncedBlock"); sb != nil {
				if ex, isEx := soleNonNil(fa.X).(*ssa.Extract); isEx && ex.Index == 0 {
					if call, isCall := ex.Tuple.(*ssa.Call); isCall && call.Call.StaticCallee() == sb && len(call.Call.Args) >= 3 && tipHeight(call.Call.Args[2], map[ssa.Value]bool{}) {
						return true
					}
				}
			}
			// a copy of the tip handed to a helper by value (the helper's parameter cell, initialised from ours)
			if c2, isAlloc := fa.X.(*ssa.Alloc); isAlloc && c2.Referrers() != nil {
				for _, r := range *c2.Referrers() {
					st, isSt := r.(*ssa.Store)
					if !isSt || st.Addr != ssa.Value(c2) {
						continue
					}
					v := st.Val
					if cv, isCv := v.(*ssa.ChangeType); isCv {
						v = cv.X
					}
					if v == ssa.Value(cur) {
						return true
					}
					if ld, isLd := v.(*ssa.UnOp); isLd && ld.Op == token.MUL && ld.X == cell {
						return true
					}
				}
			}
		case *ssa.Field:
			return x.X == ssa.Value(cur)
		}
		return false
	}
	isBlockHash := func(v ssa.Value) bool {
		call, ok := v.(*ssa.Call)
		return ok && call.Call.StaticCallee() != nil && strings.HasSuffix(an.CanonKeyOf(call.Call.StaticCallee()), "wire.MsgBlock).BlockHash")
	}
	s := &an.Search{P: p, Fn: reorg, Cut: cutCalls(p, an.Set(fb, db)),
		GoalReturn: func(r *ssa.Return, pred *ssa.BasicBlock) bool { return p.ClassifyReturn(r, pred) != an.RetError },
		CutEdge: func(from, to *ssa.BasicBlock) bool {
			ifi, ok := from.Instrs[len(from.Instrs)-1].(*ssa.If)
			if !ok {
				return false
			}
			for _, a := range p.GuardsOnEdge(from, to) {
				if a.If != ifi || a.Op != token.EQL || a.X == nil || a.Y == nil {
					continue
				}
				if (isTipHash(a.X) && isBlockHash(a.Y)) || (isTipHash(a.Y) && isBlockHash(a.X)) {
					return true
				}
			}
			return false
		}}
	if w := s.Run(reorg.Blocks[0], 0, nil); w != nil {
		c.Fail(sk(reorg)+":success=>new-tip", "reorg can return success without having connected the announced branch, rolled back to the announced block, or found the wallet's tip to be that block: processConnectedBlock then stores the announced block as in-memory tip while the synced-to chain still ends elsewhere — the next tip is treated as a plain extension, re-connects an applied block ('duplicated credit') and the follower is stuck", p.Pos(reorg.Pos()), w...)
	} else {
		c.OK(sk(reorg)+":success=>new-tip", "every success passes filterBlock / disconnectBlock / the tip-hash equality", p.Pos(reorg.Pos()))
	}
}

// perIterationOverField: f ranges over the slice field `fname` of `named`; each iteration must pass a call to set
// before the next one starts (error returns leave the transaction).
func perIterationOverField(c *report.Ctx, f *ssa.Function, named *types.Named, fname string, set map[*ssa.Function]bool, what, consequence string) {
	if f == nil || named == nil {
		return
	}
	p := c.P
	construct := sk(f) + "=>each-" + fname + ":" + what
	// the loop meant is one that ranges over the field (an element access inside a loop); an access outside any loop
	// (a look at element 0 before the loop) is not it
	var start ssa.Instruction
	an.Instrs(f, func(in ssa.Instruction) {
		ia, ok := in.(*ssa.IndexAddr)
		if !ok || start != nil {
			return
		}
		if ld, ok := ia.X.(*ssa.UnOp); ok && isFieldLoad(ld, named, fname) && loopHeaderOf(in.Block()) != nil {
			if _, isConst := ia.Index.(*ssa.Const); !isConst {
				start = in
			}
		}
	})
	if start == nil {
		c.Fail(construct, "no loop over "+named.Obj().Name()+"."+fname+" found (anchor lost)", p.Pos(f.Pos()))
		return
	}
	hdr := loopHeaderOf(start.Block())
	idx := 0
	for i, in := range start.Block().Instrs {
		if in == start {
			idx = i
		}
	}
	if w := p.ReachBlockWithout(start.Block(), idx, nil, func(b, pred *ssa.BasicBlock) bool { return b == hdr }, cutCalls(p, set)); w != nil {
		c.Fail(construct, "an iteration over "+fname+" can go on to the next element without "+what+": "+consequence, posOf(c, start), w...)
		return
	}
	c.OK(construct, "every iteration passes "+what, posOf(c, start))
}

// ruleEveryRelevantOutputCredited (C01): what the relevance filter selected is recorded — no output is skipped.
func ruleEveryRelevantOutputCredited(c *report.Ctx) {
	p := c.P
	c.Rule("every-relevant-output-credited", "AddCredits / addUnminedCredits record every element of TxRecord.RelevantTxOut (credit row and, for mined ones, unspent row) or fail: the filter treats a later spend of any relevant output as the wallet's input, so an output skipped here (by value, class, …) makes that spend fail with ErrUnexpectedCreditNotFound and stalls the follower", 3)
	rec := p.Type(pkgTxmgr, "TxRecord")
	ac := fn(c, pkgTxmgr, "UtxoStore", "AddCredits")
	auc := fn(c, pkgTxmgr, "UtxoStore", "addUnminedCredits")
	putCred := fn(c, pkgTxmgr, "", "putRawCredit")
	putUnsp := fn(c, pkgTxmgr, "", "putUnspent")
	putUCred := fn(c, pkgTxmgr, "", "putRawUnminedCredit")
	why := "a later spend of the skipped output is still treated as this wallet's input and fails the whole block"
	perIterationOverField(c, ac, rec, "RelevantTxOut", an.Set(putCred), "putRawCredit", why)
	perIterationOverField(c, ac, rec, "RelevantTxOut", an.Set(putUnsp), "putUnspent", why)
	perIterationOverField(c, auc, rec, "RelevantTxOut", an.Set(putUCred), "putRawUnminedCredit", why)
}

// ruleReservationCacheOwnership (C02): a reservation leaves the used-coin cache only by expiry or by the per-outpoint release.
func ruleReservationCacheOwnership(c *report.Ctx) {
	p := c.P
	c.Rule("reservation-cache-ownership", "the used-coin cache (WalletManager.usedCache) is only filled per outpoint (Set), queried (Get) and released per outpoint (Delete of an outpoint's key); nothing empties or replaces it wholesale (Flush, DeleteExpired, a new cache stored into the field): a draft's reservation must outlive wallet switches and other requests until it expires or its own transaction is sent or cleared", 2)
	wm := p.Type(pkgWallet, "WalletManager")
	if wm == nil {
		c.Lost("masswallet.WalletManager")
		return
	}
	n := 0
	for _, f := range p.ModFuncs {
		pk := an.FuncPkg(f)
		if pk == nil || !strings.HasPrefix(pk.Path(), pkgMain) {
			continue
		}
		cnt := map[string]int{}
		an.Instrs(f, func(in ssa.Instruction) {
			// replacing the cache object
			if st, ok := in.(*ssa.Store); ok && addrRootsAtField(st.Addr, wm, "usedCache") {
				n++
				if nm(apiOwnerOrSelf(p, f)) == "NewWalletManager" {
					c.OK(sk(f)+":usedCache=", "created once by the constructor", posOf(c, in))
				} else {
					c.Fail(sk(f)+":usedCache=", "the used-coin cache is replaced outside the constructor: every outstanding draft's reservation is forgotten", posOf(c, in))
				}
				return
			}
			cc := an.CallOf(in)
			if cc == nil || cc.IsInvoke() || cc.StaticCallee() == nil || len(cc.Args) == 0 {
				return
			}
			recv := cc.Args[0]
			isCache := false
			for i := 0; i < 4 && !isCache; i++ { // the methods are promoted from an embedded struct: usedCache.cache
				ld, ok := recv.(*ssa.UnOp)
				if !ok || ld.Op != token.MUL {
					break
				}
				if isFieldLoad(ld, wm, "usedCache") {
					isCache = true
					break
				}
				fa, ok := ld.X.(*ssa.FieldAddr)
				if !ok {
					break
				}
				recv = fa.X
			}
			if !isCache {
				return
			}
			n++
			m := cc.StaticCallee().Name()
			cnt[m]++
			key := siteKey(f, "usedCache."+m, cnt[m])
			switch m {
			case "Set", "SetDefault", "Add", "Get", "GetWithExpiration", "ItemCount", "Items":
				c.OK(key, "per-outpoint fill / query", posOf(c, in))
			case "Delete":
				d := ""
				if len(cc.Args) > 1 {
					d = p.Desc(cc.Args[1])
				}
				if strings.Contains(d, "OutPoint).String(") || strings.Contains(d, "OutPoint.String(") {
					c.OK(key, "release of one outpoint's mark", posOf(c, in), d)
				} else {
					c.Fail(key, "a used-coin mark is deleted under a key that is not one outpoint's ("+d+")", posOf(c, in))
				}
			default:
				c.Fail(key, "the used-coin cache is emptied or rewritten wholesale ("+m+"): reservations of drafts that are still outstanding are forgotten, and the next creation call can select a coin an earlier draft already spends", posOf(c, in))
			}
		})
	}
	if n == 0 {
		c.Fail("WalletManager.usedCache", "no use of the used-coin cache found (anchor lost)", "")
	}
}

// ruleMasterKeyWipeAfterSuccess (C05): a function that checks a passphrase wipes the manager's master key only on the
// path on which the check succeeded.
func ruleMasterKeyWipeAfterSuccess(c *report.Ctx, G map[*ssa.Function]bool) {
	p := c.P
	c.Rule("master-key-wipe-after-success", "in a keystore function that performs a passphrase check, a wipe of AddrManager.masterKeyPriv (SecretKey.Zero, immediate or deferred) is dominated by the success of that check: while the manager is unlocked the check only compares a salted hash and does not derive the key, so a wipe that also runs for a refused attempt destroys the unlocked session's genuine master key (GetMnemonic / ExportKeystore / ChangePrivPassphrase with the right passphrase then fail) — a refused attempt must alter nothing", 2)
	am := p.Type(pkgKeystore, "AddrManager")
	if am == nil {
		c.Lost("keystore.AddrManager")
		return
	}
	for _, f := range p.ModFuncs {
		if pk := an.FuncPkg(f); pk == nil || pk.Path() != pkgKeystore {
			continue
		}
		n := 0
		an.Instrs(f, func(in ssa.Instruction) {
			cc := an.CallOf(in)
			if cc == nil || cc.StaticCallee() == nil || len(cc.Args) == 0 || !strings.HasSuffix(an.CanonKeyOf(cc.StaticCallee()), "snacl.SecretKey).Zero") {
				return
			}
			ld, ok := cc.Args[0].(*ssa.UnOp)
			if !ok || !isFieldLoad(ld, am, "masterKeyPriv") {
				return
			}
			n++
			key := siteKey(f, "masterKeyPriv.Zero", n)
			checks := p.CallSitesTo(f, G)
			if len(checks) == 0 {
				c.OK(key, "no passphrase check in this function (lock / clear path)", posOf(c, in))
				return
			}
			if p.DominatedBySuccess(in, G) != nil {
				c.OK(key, "after the passphrase check succeeded", posOf(c, in))
				return
			}
			how := "called"
			if _, d := in.(*ssa.Defer); d {
				how = "deferred"
			}
			c.Fail(key, "the master key is wiped ("+how+") on a path on which the passphrase check of this function has not succeeded: a refused attempt made while the wallet is unlocked wipes the session's genuine master key, and the right passphrase stops working until the wallet is locked again", posOf(c, in))
		})
	}
}

// rulePassphraseHashedWhole (C03, C05): the passphrase check looks at every byte the caller gave.
func rulePassphraseHashedWhole(c *report.Ctx) {
	p := c.P
	c.Rule("passphrase-hashed-whole", "in the passphrase checks (AddrManager.checkPassword, SecretKey.DeriveKey/deriveKey and the salted-hash producers) the passphrase bytes reach the hash / KDF whole: they are never copied into a fixed-size buffer and never sliced to a constant bound — a truncating copy makes every passphrase that merely starts with the right one pass the unlocked-state comparison", 2)
	var fs []*ssa.Function
	for _, spec := range [][3]string{{pkgKeystore, "AddrManager", "checkPassword"}, {pkgSnacl, "SecretKey", "DeriveKey"}} {
		if f := fn(c, spec[0], spec[1], spec[2]); f != nil {
			fs = append(fs, f)
		}
	}
	// whatever hands the passphrase to the KDF (SecretKey.deriveKey today): the functions of snacl that call scrypt.Key
	nKDF := 0
	for _, f := range p.ModFuncs {
		if pk := an.FuncPkg(f); pk == nil || pk.Path() != pkgSnacl {
			continue
		}
		callsKDF := false
		an.Instrs(f, func(in ssa.Instruction) {
			if cc := an.CallOf(in); cc != nil && cc.StaticCallee() != nil && an.CanonKeyOf(cc.StaticCallee()) == "golang.org/x/crypto/scrypt.Key" {
				callsKDF = true
			}
		})
		if !callsKDF {
			continue
		}
		nKDF++
		dup := false
		for _, g := range fs {
			if g == f {
				dup = true
			}
		}
		if !dup {
			fs = append(fs, f)
		}
	}
	if nKDF == 0 {
		c.Lost("snacl: the call of scrypt.Key")
	}
	// producers of the salted hash the unlocked comparison is made against
	am := p.Type(pkgKeystore, "AddrManager")
	for _, f := range p.ModFuncs {
		if pk := an.FuncPkg(f); pk == nil || pk.Path() != pkgKeystore || am == nil {
			continue
		}
		if len(fieldStoresAny(f, am, "hashedPrivPassphrase")) > 0 {
			dup := false
			for _, g := range fs {
				if g == f {
					dup = true
				}
			}
			if !dup {
				fs = append(fs, f)
			}
		}
	}
	fromParam := func(v ssa.Value) *ssa.Parameter {
		for i := 0; i < 6; i++ {
			v = an.ResolveCell(v) // a parameter whose address is taken lives in a cell
			switch x := v.(type) {
			case *ssa.Parameter:
				if bt, ok := x.Type().Underlying().(*types.Slice); ok {
					if b, ok := bt.Elem().Underlying().(*types.Basic); ok && b.Kind() == types.Byte {
						return x
					}
				}
				if pt, ok := x.Type().Underlying().(*types.Pointer); ok {
					if bt, ok := pt.Elem().Underlying().(*types.Slice); ok {
						if b, ok := bt.Elem().Underlying().(*types.Basic); ok && b.Kind() == types.Byte {
							return x
						}
					}
				}
				return nil
			case *ssa.UnOp:
				v = x.X
			case *ssa.Slice:
				v = x.X
			case *ssa.ChangeType:
				v = x.X
			case *ssa.Convert:
				v = x.X
			default:
				return nil
			}
		}
		return nil
	}
	fixedDst := func(v ssa.Value) bool {
		for i := 0; i < 6; i++ {
			switch x := v.(type) {
			case *ssa.Slice:
				if pt, ok := x.X.Type().Underlying().(*types.Pointer); ok {
					if _, isArr := pt.Elem().Underlying().(*types.Array); isArr {
						return true
					}
				}
				v = x.X
			default:
				return false
			}
		}
		return false
	}
	for _, f := range fs {
		n, bad := 0, 0
		an.Instrs(f, func(in ssa.Instruction) {
			switch x := in.(type) {
			case *ssa.Call:
				if b, ok := x.Call.Value.(*ssa.Builtin); ok && b.Name() == "copy" && len(x.Call.Args) == 2 {
					if par := fromParam(x.Call.Args[1]); par != nil {
						n++
						if fixedDst(x.Call.Args[0]) {
							bad++
							c.Fail(siteKey(f, "copy(fixed,"+par.Name()+")", bad), "the passphrase is copied into a fixed-size buffer before it is hashed: copy truncates silently, so the comparison is made on a prefix and a longer wrong passphrase with the right beginning is accepted", posOf(c, in))
						}
					}
				}
			case *ssa.Slice:
				if par := fromParam(x.X); par != nil {
					n++
					if k, ok := x.High.(*ssa.Const); ok && k.Value != nil {
						bad++
						c.Fail(siteKey(f, par.Name()+"[:const]", bad), "the passphrase is cut to a constant length before it is hashed: a longer wrong passphrase with the right beginning is accepted", posOf(c, in))
					}
				}
			}
		})
		if bad == 0 {
			c.OK(sk(f)+":passphrase-whole", "no truncating copy or constant re-slice of the passphrase", p.Pos(f.Pos()))
		}
		_ = n
	}
}

// ruleMemoryTipFollowsPersistedTip (C06, C01): the in-memory tip only ever takes a value the synced-to chain has or gets.
func ruleMemoryTipFollowsPersistedTip(c *report.Ctx) {
	p := c.P
	c.Rule("memory-tip-follows-persisted-tip", "every function that writes NtfnsHandler.bestBlock (whole or one field) either copies what SyncStore.SyncedTo returned or also moves the persisted tip (reaches SetSyncedTo / ResetSyncedTo): the in-memory tip decides 'plain extension or reorg' for the next block, so a tip taken from anywhere else (e.g. the node's block at that height after a restart on an abandoned branch) makes catch-up connect on top of blocks that were never rolled back", 2)
	nh := p.Type(pkgWallet, "NtfnsHandler")
	set := fn(c, pkgTxmgr, "SyncStore", "SetSyncedTo")
	reset := fn(c, pkgTxmgr, "SyncStore", "ResetSyncedTo")
	syncedTo := fn(c, pkgTxmgr, "SyncStore", "SyncedTo")
	if nh == nil || set == nil || syncedTo == nil {
		return
	}
	isSynced := func(v ssa.Value) bool {
		if ex, ok := v.(*ssa.Extract); ok {
			v = ex.Tuple
		}
		call, ok := v.(*ssa.Call)
		return ok && call.Call.StaticCallee() == syncedTo
	}
	tr := &an.Tracer{P: p, Leaf: isSynced, ThroughDeref: true}
	for _, f := range p.ModFuncs {
		if pk := an.FuncPkg(f); pk == nil || pk.Path() != pkgWallet {
			continue
		}
		stores := fieldStores(f, nh, "bestBlock") // the whole struct or one of its fields
		if len(stores) == 0 {
			continue
		}
		owner := apiOwnerOrSelf(p, f)
		moves := false
		reached, _ := p.Reach([]*ssa.Function{owner}, an.ReachOpts{})
		if reached[set] || (reset != nil && reached[reset]) {
			moves = true
		}
		for i, s := range stores {
			key := siteKey(f, "bestBlock=", i+1)
			if moves {
				c.OK(key, "the function also moves the persisted tip", posOf(c, s))
				continue
			}
			fromSynced := true
			os := tr.Origins(s.(*ssa.Store).Val)
			if len(os) == 0 {
				fromSynced = false
			}
			nSynced := 0
			for _, o := range os {
				if k, isK := o.V.(*ssa.Const); isK && k.Value == nil && isPtrT(k.Type()) {
					continue // the nil pointer of an error path: dereferencing it sets no tip
				}
				if !isSynced(o.V) {
					fromSynced = false
				} else {
					nSynced++
				}
			}
			if nSynced == 0 {
				fromSynced = false
			}
			if fromSynced {
				c.OK(key, "copy of SyncStore.SyncedTo's answer", posOf(c, s))
			} else {
				c.Fail(key, "the in-memory tip is set from something other than the persisted synced-to block in a function that does not move the persisted tip: after this the handler believes it stands on a block the wallet never applied (or never rolled back from), and the next block is connected as a plain extension of the wrong parent", posOf(c, s), p.Desc(s.(*ssa.Store).Val))
			}
		}
	}
}

// ruleRemovalKeepsSurvivorsReservations (C08): removing a wallet releases the pending-spend marks of a transaction's
// inputs only where that transaction is itself dropped.
func ruleRemovalKeepsSurvivorsReservations(c *report.Ctx) {
	p := c.P
	c.Rule("removal-keeps-survivors-reservations", "on the removal path (everything asyncRemove reaches) the wholesale release of the coins a pending transaction spends (UtxoStore.deleteUnminedInputs: one pending-input row per input, whoever owns the coin) happens only under the removable verdict of removableTxForRemoveWallet: a pending transaction shared with a surviving wallet stays, so its inputs — the survivor's coins among them — must stay marked spent-by-pending, or the survivor's next transaction double-spends its own pending payment", 1)
	ar := fn(c, pkgWallet, "NtfnsHandler", "asyncRemove")
	dui := fn(c, pkgTxmgr, "UtxoStore", "deleteUnminedInputs")
	removable := fn(c, pkgTxmgr, "TxStore", "removableTxForRemoveWallet")
	if ar == nil || dui == nil || removable == nil {
		return
	}
	isRemovable := func(a an.Atom) bool {
		if a.Op != token.ILLEGAL || !a.Truth {
			return false
		}
		ex, ok := a.X.(*ssa.Extract)
		if !ok || ex.Index != 0 {
			return false
		}
		call, ok := ex.Tuple.(*ssa.Call)
		return ok && call.Call.StaticCallee() == removable
	}
	reached, parent := p.ReachNil([]*ssa.Function{ar}, an.ReachOpts{Stop: func(f *ssa.Function) bool { return f == dui }})
	n := 0
	var fs []*ssa.Function
	for f := range reached {
		if p.InModule(f) && f.Blocks != nil {
			fs = append(fs, f)
		}
	}
	sortFuncs(fs)
	for _, f := range fs {
		for i, s := range calls(f, dui) {
			n++
			key := siteKey(f, "deleteUnminedInputs~removable", i+1)
			if an.AnyAtom(p.GuardsOf(s), isRemovable) {
				c.OK(key, "under removableTxForRemoveWallet == true", posOf(c, s))
			} else {
				c.Fail(key, "the removal path releases every coin a pending transaction spends without the removable verdict: when the transaction also pays a surviving wallet it is kept, but the survivor's coins it spends are no longer marked spent-by-pending and can be selected again", posOf(c, s), p.Witness(parent, f)...)
			}
		}
	}
	if n == 0 {
		c.OK(sk(ar)+":deleteUnminedInputs", "not reached from the removal path ("+itoa(len(fs))+" functions examined): only the removed wallet's own credit rows are released, one outpoint at a time", "")
	}
}

// ruleMinedCreditShortcutBlockOnly (C09): the "no mined credit from that transaction → not our input" shortcut of the
// relevance filter applies to block transactions only.
func ruleMinedCreditShortcutBlockOnly(c *report.Ctx) {
	p := c.P
	c.Rule("mined-credit-shortcut-block-only", "in filterTx the shortcut that skips an input when ExistCreditFromTx finds no mined credit of its previous transaction is evaluated only for block transactions (blockMeta != nil): the lookup sees mined credits only, so for a received unconfirmed transaction it would skip an input that spends a coin created by a still-pending parent — no pending-input row is written, the coin is not flagged spent-by-pending and the child does not vanish with its parent", 1)
	ft := fn(c, pkgWallet, "NtfnsHandler", "filterTx")
	ecf := fn(c, pkgTxmgr, "UtxoStore", "ExistCreditFromTx")
	if ft == nil || ecf == nil {
		return
	}
	bm := p.Type(pkgTxmgr, "BlockMeta")
	ss := calls(ft, ecf)
	if len(ss) == 0 {
		c.OK(sk(ft)+":ExistCreditFromTx", "the shortcut is not used", p.Pos(ft.Pos()))
		return
	}
	for i, s := range ss {
		key := siteKey(ft, "ExistCreditFromTx~blockMeta!=nil", i+1)
		ok := an.AnyAtom(p.GuardsOf(s), func(a an.Atom) bool {
			if a.Op != token.NEQ || a.X == nil || a.Y == nil || !an.IsNilConst(a.Y) {
				return false
			}
			par, isPar := a.X.(*ssa.Parameter)
			if !isPar || bm == nil {
				return false
			}
			n := an.NamedOf(par.Type())
			return n != nil && n.Obj() == bm.Obj()
		})
		if ok {
			c.OK(key, "evaluated under blockMeta != nil", posOf(c, s))
		} else {
			c.Fail(key, "the mined-credit shortcut is also taken for transactions that are not in a block: an unconfirmed transaction spending the output of a still-pending wallet transaction loses that input (the wallet holds only an unmined credit for it), so the pending chain is not linked", posOf(c, s), an.AtomTexts(p.GuardsOf(s))...)
		}
	}
}

// ruleGapOracleIsTheChain (C12): the "has this address history?" oracle handed to the keystore answers from the chain.
func ruleGapOracleIsTheChain(c *report.Ctx) {
	p := c.P
	c.Rule("gap-oracle-is-the-chain", "the used-address oracle the wallet hands to KeystoreManager.NextAddresses / ImportKeystore / ImportKeystoreWithMnemonic is ChainFetcher.CheckScriptHashUsed itself, or a function whose every answer is the result of a CheckScriptHashUsed call made in that invocation: an answer remembered from an earlier call (a cache, a flag) survives the reorganisation that removed the payment, so the gap-limit refusal is bypassed and a later restore stops before the addresses issued past the limit", 1)
	var sinks []*ssa.Function
	for _, n := range []string{"NextAddresses", "ImportKeystore", "ImportKeystoreWithMnemonic"} {
		if f := fn(c, pkgKeystore, "KeystoreManager", n); f != nil {
			sinks = append(sinks, f)
		}
	}
	isChainCall := func(v ssa.Value) bool {
		if ex, ok := v.(*ssa.Extract); ok {
			v = ex.Tuple
		}
		call, ok := v.(*ssa.Call)
		if !ok {
			return false
		}
		if call.Call.IsInvoke() {
			return call.Call.Method.Name() == "CheckScriptHashUsed"
		}
		return call.Call.StaticCallee() != nil && call.Call.StaticCallee().Name() == "CheckScriptHashUsed"
	}
	var judge func(v ssa.Value, depth int) (bool, string)
	judge = func(v ssa.Value, depth int) (bool, string) {
		switch x := v.(type) {
		case *ssa.MakeClosure:
			return judge(x.Fn, depth)
		case *ssa.Function:
			if strings.HasSuffix(x.Name(), "CheckScriptHashUsed$bound") || x.Name() == "CheckScriptHashUsed" {
				return true, "the chain fetcher's method"
			}
			if x.Blocks == nil || depth > 2 {
				return false, "cannot see the body of " + sk(x)
			}
			for _, b := range x.Blocks {
				r, ok := b.Instrs[len(b.Instrs)-1].(*ssa.Return)
				if !ok || len(r.Results) == 0 {
					continue
				}
				var walk func(v ssa.Value, d int) (bool, string)
				walk = func(v ssa.Value, d int) (bool, string) {
					if d > 5 {
						return false, "undecided"
					}
					if isChainCall(v) {
						return true, ""
					}
					switch y := v.(type) {
					case *ssa.Const:
						if y.Value != nil && y.Value.ExactString() == "false" {
							return true, "" // "no history" is the refusing answer
						}
						return false, "the constant answer `true`"
					case *ssa.Phi:
						for _, e := range y.Edges {
							if ok, why := walk(e, d+1); !ok {
								return false, why
							}
						}
						return true, ""
					}
					return false, p.Desc(v)
				}
				if ok, why := walk(r.Results[0], 0); !ok {
					return false, sk(x) + " can answer with " + why + " without asking the chain in that call"
				}
			}
			return true, "wrapper whose answers come from CheckScriptHashUsed"
		case *ssa.Parameter:
			return true, "forwarded parameter (judged at the caller)"
		}
		return false, p.Desc(v)
	}
	n := 0
	for _, f := range p.ModFuncs {
		pk := an.FuncPkg(f)
		if pk == nil || !(pk.Path() == pkgWallet || pk.Path() == pkgAPI) {
			continue
		}
		for _, sink := range sinks {
			for i, s := range calls(f, sink) {
				cc := an.CallOf(s)
				for _, a := range cc.Args {
					sig, ok := a.Type().Underlying().(*types.Signature)
					if !ok || sig.Params().Len() != 1 || sig.Results().Len() != 2 {
						continue
					}
					n++
					key := siteKey(f, nm(sink)+"-oracle", i+1)
					if ok, why := judge(a, 0); ok {
						c.OK(key, why, posOf(c, s))
					} else {
						c.Fail(key, "the used-address oracle is not the live chain index: "+why+" — after a reorganisation that removed the first payment the gap-limit check still passes, addresses are issued past the limit and a restore with the default scan never finds them", posOf(c, s))
					}
				}
			}
		}
	}
	if n == 0 {
		c.Fail("gap-oracle", "no call hands an oracle to the keystore (anchor lost)", "")
	}
}

// ruleSentenceJudgedByWords (C13): whether a mnemonic is accepted depends on its words, not on the bytes between them.
func ruleSentenceJudgedByWords(c *report.Ctx) {
	p := c.P
	c.Rule("sentence-judged-by-words", "in the keystore functions that tokenise a mnemonic sentence (their string parameter reaches strings.Fields) the raw sentence is only tokenised, handed on, or hashed: its length is not measured and it is not compared, indexed or sliced — acceptance must depend on the word sequence, so a valid sentence with extra blanks, line breaks or padding is not rejected by a byte-length or prefix test", 1)
	fields := p.Fn("strings", "", "Fields")
	if fields == nil {
		c.Lost("strings.Fields")
		return
	}
	n := 0
	for _, f := range p.ModFuncs {
		if pk := an.FuncPkg(f); pk == nil || pk.Path() != pkgKeystore || f.Parent() != nil {
			continue
		}
		for _, par := range f.Params {
			if b, ok := par.Type().Underlying().(*types.Basic); !ok || b.Kind() != types.String {
				continue
			}
			// does it reach strings.Fields (directly or through strings.TrimSpace / ToLower …)?
			reaches := false
			var bad []ssa.Instruction
			var why []string
			seen := map[ssa.Value]bool{}
			var visit func(v ssa.Value, d int)
			visit = func(v ssa.Value, d int) {
				if seen[v] || d > 4 || v.Referrers() == nil {
					return
				}
				seen[v] = true
				for _, r := range *v.Referrers() {
					switch x := r.(type) {
					case *ssa.Call:
						if b, ok := x.Call.Value.(*ssa.Builtin); ok {
							if b.Name() == "len" {
								bad = append(bad, x)
								why = append(why, "len(sentence)")
							}
							continue
						}
						if cal := x.Call.StaticCallee(); cal != nil {
							if cal == fields {
								reaches = true
								continue
							}
							if strings.HasPrefix(an.CanonKeyOf(cal), "strings.Trim") {
								visit(x, d+1)
							}
						}
					case *ssa.BinOp:
						bad = append(bad, x)
						why = append(why, "comparison of the raw sentence")
					case *ssa.Slice:
						bad = append(bad, x)
						why = append(why, "slice of the raw sentence")
					case *ssa.Index, *ssa.Lookup:
						bad = append(bad, r)
						why = append(why, "byte of the raw sentence")
					case *ssa.Range:
						bad = append(bad, x)
						why = append(why, "loop over the raw sentence's bytes")
					case *ssa.Phi:
						visit(x, d+1)
					}
				}
			}
			visit(par, 0)
			if !reaches {
				continue
			}
			n++
			key := sk(f) + ":raw(" + par.Name() + ")"
			if len(bad) == 0 {
				c.OK(key, "tokenised / handed on only", p.Pos(f.Pos()))
			} else {
				c.Fail(key, "the raw mnemonic sentence is judged by its bytes ("+strings.Join(why, ", ")+") before or beside tokenisation: a valid word sequence with additional white space (one word per line, CRLF, padding) is rejected by one decoder and accepted by the others, and its import fails", posOf(c, bad[0]))
			}
		}
	}
	if n == 0 {
		c.Fail("mnemonic-tokenisers", "no keystore function tokenises a sentence with strings.Fields any more (anchor lost)", "")
	}
}

// ruleStakingPeriodFromRequest (C16): the frozen period written into a staking script is the one that was asked for.
func ruleStakingPeriodFromRequest(c *report.Ctx) {
	p := c.P
	c.Rule("staking-period-from-request", "inside the wallet package the requested staking outputs reach the script builder untouched: constructStakingTxOut hands PayToStakingAddrScript the FrozenPeriod field of an element of its own outputs parameter, and every caller passes on the outputs slice it was given (a parameter), not a rewritten copy — an out-of-range period must be refused by the builder, not silently replaced by another lock that the script then reads back with", 2)
	pay := p.Fn(pkgTxscript, "", "PayToStakingAddrScript")
	cst := fn(c, pkgWallet, "", "constructStakingTxOut")
	sto := p.Type(pkgWallet, "StakingTxOut")
	if pay == nil || cst == nil || sto == nil {
		if pay == nil {
			c.Lost("txscript.PayToStakingAddrScript")
		}
		return
	}
	// (2) the builder reads the field of its parameter's element
	for i, s := range calls(cst, pay) {
		cc := an.CallOf(s)
		key := siteKey(cst, "PayToStakingAddrScript-period", i+1)
		ok := false
		if len(cc.Args) >= 2 {
			if ld, isLd := stripConv(cc.Args[1]).(*ssa.UnOp); isLd && isFieldLoad(ld, sto, "FrozenPeriod") {
				// base: *(&outputs[i]) with outputs the parameter
				if fa, isFA := ld.X.(*ssa.FieldAddr); isFA {
					base := fa.X
					for k := 0; k < 4; k++ {
						switch b := base.(type) {
						case *ssa.UnOp:
							base = b.X
							continue
						case *ssa.IndexAddr:
							base = b.X
							continue
						}
						break
					}
					if _, isPar := base.(*ssa.Parameter); isPar {
						ok = true
					}
				}
			}
		}
		if ok {
			c.OK(key, "the FrozenPeriod field of an element of the outputs parameter", posOf(c, s))
		} else {
			c.Fail(key, "the frozen period handed to the script builder is not the FrozenPeriod field of the requested output: the script carries a lock other than the one asked for", posOf(c, s))
		}
	}
	// (1) callers forward their own parameter
	n := 0
	for _, f := range p.ModFuncs {
		if pk := an.FuncPkg(f); pk == nil || pk.Path() != pkgWallet {
			continue
		}
		for i, s := range calls(f, cst) {
			n++
			key := siteKey(f, "constructStakingTxOut-outputs", i+1)
			if _, isPar := an.ResolveCell(an.CallOf(s).Args[0]).(*ssa.Parameter); isPar {
				c.OK(key, "the outputs slice the function was given", posOf(c, s))
			} else {
				c.Fail(key, "the staking outputs are rewritten between the request and the script builder ("+p.Desc(an.CallOf(s).Args[0])+"): a request whose frozen period is out of range or missing is answered with a transaction carrying another lock instead of being refused (CreateStakingTransaction sends the very transaction the estimate built)", posOf(c, s))
			}
		}
	}
	if n == 0 {
		c.Fail("constructStakingTxOut", "no caller of the staking output builder found (anchor lost)", "")
	}
}

// ruleHeightFromSameReadTransaction (C17): the tip a coin query counts confirmations from is read in the very read
// transaction that reads the coins.
func ruleHeightFromSameReadTransaction(c *report.Ctx) {
	p := c.P
	c.Rule("height-from-same-transaction", "the synced height handed to UtxoStore.WalletBalance / ScriptAddressBalance / ScriptAddressUnspents is the Height of what SyncStore.SyncedTo returned for the same transaction value the coins are read with: a height taken from anywhere else (the handler's in-memory tip, an earlier transaction) pairs the coins of one committed state with the tip of another — after a commit that moved the tip by more than one block an immature coin is counted spendable", 2)
	syncedTo := fn(c, pkgTxmgr, "SyncStore", "SyncedTo")
	if syncedTo == nil {
		return
	}
	var sinks []*ssa.Function
	for _, n := range []string{"WalletBalance", "ScriptAddressBalance", "ScriptAddressUnspents"} {
		if f := fn(c, pkgTxmgr, "UtxoStore", n); f != nil {
			sinks = append(sinks, f)
		}
	}
	bm := p.Type(pkgTxmgr, "BlockMeta")
	n := 0
	for _, f := range p.ModFuncs {
		if pk := an.FuncPkg(f); pk == nil || !(pk.Path() == pkgWallet || pk.Path() == pkgAPI) {
			continue
		}
		for _, sink := range sinks {
			for i, s := range calls(f, sink) {
				cc := an.CallOf(s)
				// the uint64 height parameter and the transaction parameter of the sink
				hi, ti := -1, -1
				for k, par := range sink.Params {
					if b, ok := par.Type().Underlying().(*types.Basic); ok && b.Kind() == types.Uint64 && hi < 0 {
						hi = k
					}
					if nt := an.NamedOf(par.Type()); nt != nil && nt.Obj().Name() == "ReadTransaction" && ti < 0 {
						ti = k
					}
				}
				if hi < 0 || ti < 0 || hi >= len(cc.Args) {
					continue
				}
				n++
				key := siteKey(f, nm(sink)+"-height", i+1)
				h := stripConv(cc.Args[hi])
				ok, why := false, p.Desc(h)
				if ld, isLd := h.(*ssa.UnOp); isLd && bm != nil && isFieldLoad(ld, bm, "Height") {
					if fa, isFA := ld.X.(*ssa.FieldAddr); isFA {
						base := an.ResolveCell(fa.X)
						if ex, isEx := base.(*ssa.Extract); isEx {
							base = ex.Tuple
						}
						if call, isCall := base.(*ssa.Call); isCall && call.Call.StaticCallee() == syncedTo && len(call.Call.Args) > 1 {
							if an.ResolveCell(call.Call.Args[1]) == an.ResolveCell(cc.Args[ti]) {
								ok = true
							} else {
								why = "SyncedTo of another transaction (" + p.Desc(call.Call.Args[1]) + ")"
							}
						}
					}
				}
				if ok {
					c.OK(key, "SyncedTo(tx).Height of the transaction the coins are read with", posOf(c, s))
				} else {
					c.Fail(key, "the tip height of this coin query is "+why+", not the synced-to block read in the query's own read transaction: coins and tip can come from two different committed states (a query right after a reorganisation's commit counts confirmations from the abandoned tip and reports an immature coin spendable)", posOf(c, s))
				}
			}
		}
	}
	if n == 0 {
		c.Fail("coin-queries", "no coin query with a tip height found (anchor lost)", "")
	}
}

// ruleBalanceMapCoversReadyWallets (C19): the running-balance map AddRelevantTx works on has a row for every wallet
// whose credit or debit it may have to apply.
func ruleBalanceMapCoversReadyWallets(c *report.Ctx) {
	p := c.P
	c.Rule("balance-map-covers-ready-wallets", "the balance map handed to TxStore.AddRelevantTx is filled by ranging over UtxoStore.FetchAllMinedBalance (every stored balance, filtered by the ready set at most): AddCredits / updateMinedBalance index it with the wallet of any relevant output or input and call Add/Sub on the result without a presence test, so a map built from a narrower source (e.g. only the wallets the block pays) makes a block that only debits a wallet dereference the nil inside a zero Amount — the follower goroutine panics holding the writer lock", 1)
	art := fn(c, pkgTxmgr, "TxStore", "AddRelevantTx")
	fam := fn(c, pkgTxmgr, "UtxoStore", "FetchAllMinedBalance")
	if art == nil || fam == nil {
		return
	}
	n := 0
	for _, f := range p.ModFuncs {
		if pk := an.FuncPkg(f); pk == nil || pk.Path() != pkgWallet {
			continue
		}
		for i, s := range calls(f, art) {
			cc := an.CallOf(s)
			var m ssa.Value
			for _, a := range cc.Args {
				if mt, ok := a.Type().Underlying().(*types.Map); ok && strings.HasSuffix(mt.Elem().String(), "massutil.Amount") {
					m = an.ResolveCell(a)
				}
			}
			if m == nil {
				continue
			}
			n++
			key := siteKey(f, "AddRelevantTx-balances", i+1)
			if an.IsNilConst(m) {
				c.OK(key, "no balance map (received unconfirmed transaction: balances are not touched)", posOf(c, s))
				continue
			}
			mo := defOrigins(m)
			ok := false
			owner := apiOwnerOrSelf(p, f)
			for _, g := range append([]*ssa.Function{owner}, owner.AnonFuncs...) {
				an.Instrs(g, func(in ssa.Instruction) {
					mu, isMU := in.(*ssa.MapUpdate)
					if !isMU || !sharesOrigin(defOrigins(mu.Map), mo) {
						return
					}
					// key = the key of a range over FetchAllMinedBalance's result
					ex, isEx := mu.Key.(*ssa.Extract)
					if !isEx {
						return
					}
					nx, isNext := ex.Tuple.(*ssa.Next)
					if !isNext {
						return
					}
					rg, isRange := nx.Iter.(*ssa.Range)
					if !isRange {
						return
					}
					src := an.ResolveCell(rg.X)
					if e2, isE2 := src.(*ssa.Extract); isE2 {
						if call, isCall := e2.Tuple.(*ssa.Call); isCall && call.Call.StaticCallee() == fam {
							ok = true
						}
					}
				})
			}
			if ok {
				c.OK(key, "filled from every stored mined balance", posOf(c, s))
			} else {
				c.Fail(key, "the balance map given to AddRelevantTx is not filled from FetchAllMinedBalance: a wallet that appears in a block only as a spender (sweep without change, payment to another wallet) has no row, and `allBalances[w].Sub(…)` runs on a zero Amount whose inner pointer is nil — the follower panics on a legal block", posOf(c, s))
			}
		}
	}
	if n == 0 {
		c.Fail("AddRelevantTx", "no call of TxStore.AddRelevantTx with a balance map found (anchor lost)", "")
	}
}

// ruleBalanceLookupPresence (C19, C08): a running balance is looked up in a way that cannot yield the zero Amount.
func ruleBalanceLookupPresence(c *report.Ctx) {
	p := c.P
	c.Rule("balance-lookup-presence", "every lookup in a map[string]massutil.Amount whose result is used (Add / Sub on it dereference the pointer inside the Amount) is safe against a missing row: it is a comma-ok lookup used under ok, or its key is the wallet of a relevant input/output (RelevantMeta.WalletId — the ready wallets, which balance-map-covers-ready-wallets puts into the map), or it runs under `existsUnspent(…) != nil` (the wallet still has unspent rows: removal deletes them together with the balance row). A managed keystore can lack a balance row — a wallet under removal between its steps — and a rollback touching it must neither panic nor re-create its records", 4)
	eu := fn(c, pkgTxmgr, "", "existsUnspent")
	rm := p.Type(pkgTxmgr, "RelevantMeta")
	n := 0
	for _, f := range p.ModFuncs {
		pk := an.FuncPkg(f)
		if pk == nil || !(pk.Path() == pkgTxmgr || pk.Path() == pkgWallet) {
			continue
		}
		cnt := 0
		an.Instrs(f, func(in ssa.Instruction) {
			lk, ok := in.(*ssa.Lookup)
			if !ok {
				return
			}
			mt, ok := lk.X.Type().Underlying().(*types.Map)
			if !ok || !strings.HasSuffix(mt.Elem().String(), "massutil.Amount") {
				return
			}
			n++
			cnt++
			key := siteKey(f, "balances[k]", cnt)
			if lk.CommaOk {
				// every use of the value component is under ok == true
				var okv, val ssa.Value
				for _, r := range *lk.Referrers() {
					if ex, isEx := r.(*ssa.Extract); isEx {
						if ex.Index == 1 {
							okv = ex
						} else {
							val = ex
						}
					}
				}
				bad := false
				if val != nil && val.Referrers() != nil {
					for _, r := range *val.Referrers() {
						if _, dbg := r.(*ssa.DebugRef); dbg {
							continue
						}
						if okv == nil || !an.AnyAtom(p.GuardsOf(r), func(a an.Atom) bool { return a.Op == token.ILLEGAL && a.Truth && a.X == okv }) {
							bad = true
						}
					}
				}
				if bad {
					c.Fail(key, "the value of a comma-ok balance lookup is used where ok is not known to be true: for a wallet without a balance row (under removal) the zero Amount is dereferenced", posOf(c, in))
				} else {
					c.OK(key, "comma-ok lookup, value used under ok", posOf(c, in))
				}
				return
			}
			if ld, isLd := lk.Index.(*ssa.UnOp); isLd && rm != nil && isFieldLoad(ld, rm, "WalletId") {
				c.OK(key, "key is the wallet of a relevant input/output (a ready wallet)", posOf(c, in))
				return
			}
			if eu != nil && an.AnyAtom(p.GuardsOf(in), func(a an.Atom) bool {
				if a.Op != token.NEQ || a.X == nil || a.Y == nil || !an.IsNilConst(a.Y) {
					return false
				}
				ex, isEx := a.X.(*ssa.Extract)
				if !isEx {
					return false
				}
				call, isCall := ex.Tuple.(*ssa.Call)
				return isCall && call.Call.StaticCallee() == eu
			}) {
				c.OK(key, "under existsUnspent(…) != nil: the wallet still has its unspent rows, hence its balance row", posOf(c, in))
				return
			}
			c.Fail(key, "a running balance is looked up by a key that need not be in the map and the result is used without a presence test: for a managed wallet that has no balance row (its removal is between two steps) the lookup yields the zero Amount, whose Add/Sub dereference a nil pointer — the follower panics inside its write transaction on a chain event (a reorganisation touching that wallet's coins)", posOf(c, in), p.Desc(lk.Index))
		})
	}
	if n == 0 {
		c.Fail("balance-lookups", "no balance map lookup found (anchor lost)", "")
	}
}

// ruleNoNewRowsForRemovedWallet (C08): client requests do not add per-wallet rows to a wallet whose removal is under way.
func ruleNoNewRowsForRemovedWallet(c *report.Ctx) {
	p := c.P
	c.Rule("no-new-rows-for-removed-wallet", "a call of UtxoStore.PutNewAddress made for the selected wallet (a function that takes the wallet from KeystoreManager.CurrentKeystore) runs under a `!IsRemoved()` test of that wallet's status: a wallet stays selected while the worker removes it step by step, and the address rows are deleted in the first step — a row written afterwards survives the removal. (The import paths write rows of a wallet they have just created in the same transaction; it cannot be under removal.)", 1)
	pna := fn(c, pkgTxmgr, "UtxoStore", "PutNewAddress")
	cur := fn(c, pkgKeystore, "KeystoreManager", "CurrentKeystore")
	removed := fn(c, pkgTxmgr, "WalletStatus", "IsRemoved")
	if pna == nil || cur == nil || removed == nil {
		return
	}
	n := 0
	for _, f := range p.ModFuncs {
		if pk := an.FuncPkg(f); pk == nil || pk.Path() != pkgWallet {
			continue
		}
		owner := apiOwnerOrSelf(p, f)
		for i, s := range calls(f, pna) {
			usesSelected := len(calls(owner, cur)) > 0
			key := siteKey(f, "PutNewAddress~!IsRemoved", i+1)
			if !usesSelected {
				c.OK(key, "not for the selected wallet (a wallet created in this transaction)", posOf(c, s))
				continue
			}
			n++
			if an.AnyAtom(p.GuardsOf(s), func(a an.Atom) bool { return an.BoolCall(a, removed, "", false) }) {
				c.OK(key, "under !IsRemoved()", posOf(c, s))
			} else {
				c.Fail(key, "an address row is written for the selected wallet without testing that the wallet is not being removed: issued between two removal steps, the row outlives the wallet (a record keyed by the removed wallet remains)", posOf(c, s))
			}
		}
	}
	if n == 0 {
		c.Fail("PutNewAddress(selected)", "no address row writer for the selected wallet found (anchor lost)", "")
	}
}

// ruleRemovableVerdictConsidersInputs (C08): a transaction another wallet spent from is not "only the removed wallet's".
func ruleRemovableVerdictConsidersInputs(c *report.Ctx) {
	p := c.P
	c.Rule("removable-verdict-considers-inputs", "the verdict that lets a wallet removal delete a transaction record (removableTxForRemoveWallet) looks at the transaction's inputs as well as its outputs: a transaction that pays only the removed wallet but spends a coin of a surviving wallet is that wallet's too — without its record (and its entry in the block record) a later rollback of its block no longer un-spends the survivor's coin", 1)
	rv := fn(c, pkgTxmgr, "TxStore", "removableTxForRemoveWallet")
	if rv == nil {
		return
	}
	msgTx := p.Type(pkgWire, "MsgTx")
	looksAtInputs := false
	for _, g := range reachIn(p, rv, pkgTxmgr) {
		an.Instrs(g, func(in ssa.Instruction) {
			if fa, ok := in.(*ssa.FieldAddr); ok && msgTx != nil {
				if n := an.NamedOf(fa.X.Type()); n != nil && n.Obj() == msgTx.Obj() && an.FName(n.Underlying().(*types.Struct), fa.Field) == "TxIn" {
					looksAtInputs = true
				}
			}
			if cc := an.CallOf(in); cc != nil && cc.StaticCallee() != nil && (nm(cc.StaticCallee()) == "existsDebit" || nm(cc.StaticCallee()) == "existsRawDebit") {
				looksAtInputs = true
			}
		})
	}
	key := sk(rv) + ":inputs"
	if looksAtInputs {
		c.OK(key, "the verdict consults the inputs / debit records", p.Pos(rv.Pos()))
	} else {
		c.Fail(key, "only the outputs decide whether a transaction record may be deleted with the wallet: a transaction paying the removed wallet alone but spending a surviving wallet's coin loses its record and its place in the block record, so when its block is rolled back afterwards the survivor's coin stays spent (balance and coins of another wallet changed by the removal)", p.Pos(rv.Pos()))
	}
}

// ruleCodecSharesNoState (C13): the mnemonic codec keeps no mutable object between calls.
func ruleCodecSharesNoState(c *report.Ctx) {
	p := c.P
	c.Rule("codec-shares-no-state", "the functions of the mnemonic codec (everything NewMnemonic, EntropyFromMnemonic, MnemonicToByteArray, IsMnemonicValid, NewSeed, NewSeedWithErrorChecking reach inside the keystore package) call no method of an object held in a package-level variable of interface type (a shared hash.Hash, a shared buffer behind an io.Writer …): such an object is mutated by every call, so two concurrent encodes/decodes corrupt each other's checksum — a valid sentence is rejected or a non-BIP-39 last word is produced", 10)
	var roots []*ssa.Function
	for _, n := range []string{"NewMnemonic", "EntropyFromMnemonic", "MnemonicToByteArray", "IsMnemonicValid", "NewSeed", "NewSeedWithErrorChecking", "NewEntropy"} {
		if f := fn(c, pkgKeystore, "", n); f != nil {
			roots = append(roots, f)
		}
	}
	seen := map[*ssa.Function]bool{}
	var fs []*ssa.Function
	for _, r := range roots {
		for _, g := range reachIn(p, r, pkgKeystore) {
			if !seen[g] {
				seen[g] = true
				fs = append(fs, g)
			}
		}
	}
	sortFuncs(fs)
	for _, f := range fs {
		bad := 0
		an.Instrs(f, func(in ssa.Instruction) {
			cc := an.CallOf(in)
			if cc == nil || !cc.IsInvoke() {
				return
			}
			ld, ok := cc.Value.(*ssa.UnOp)
			if !ok || ld.Op != token.MUL {
				return
			}
			g, ok := ld.X.(*ssa.Global)
			if !ok || g.Pkg == nil || g.Pkg.Pkg == nil || !strings.HasPrefix(g.Pkg.Pkg.Path(), pkgMain) {
				return
			}
			bad++
			c.Fail(siteKey(f, "shared:"+an.GName(g), bad), "the codec calls "+cc.Method.Name()+" on the package-level object "+an.GName(g)+": one object is mutated by every encode/decode, so concurrent callers get each other's intermediate state (wrong checksum)", posOf(c, in))
		})
		if bad == 0 {
			c.OK(sk(f)+":no-shared-object", "no method of a package-level object is called", p.Pos(f.Pos()))
		}
	}
}

// ruleMnemonicLengthGateAdmitsEverySentence (C13): the API's byte-length gate in front of the keystore cannot reject a
// well-formed sentence.
func ruleMnemonicLengthGateAdmitsEverySentence(c *report.Ctx) {
	p := c.P
	c.Rule("api-length-gate", "the byte-length window api.checkMnemonicLen applies before a sentence reaches the keystore contains every single-spaced BIP-39 sentence: LenMnemonicMin <= 12*3+11 (twelve 3-letter words) and LenMnemonicMax >= 24*8+23 (twenty-four 8-letter words) — a narrower window rejects valid mnemonics at the RPC layer although the codec accepts them", 2)
	get := func(name string) (int64, bool) {
		o := p.Obj(pkgAPI, name)
		k, ok := o.(*types.Const)
		if !ok {
			c.Lost("api." + name)
			return 0, false
		}
		v, exact := constantInt64(k)
		return v, exact
	}
	if v, ok := get("LenMnemonicMax"); ok {
		if v >= 24*8+23 {
			c.OK("api.LenMnemonicMax", "admits the longest sentence (215 bytes)", "")
		} else {
			c.Fail("api.LenMnemonicMax", "the upper bound of the mnemonic length gate ("+itoa(int(v))+") is below 215, the length of a 24-word sentence of 8-letter words: such a valid mnemonic cannot be imported through the API", "")
		}
	}
	if v, ok := get("LenMnemonicMin"); ok {
		if v <= 12*3+11 {
			c.OK("api.LenMnemonicMin", "admits the shortest sentence (47 bytes)", "")
		} else {
			c.Fail("api.LenMnemonicMin", "the lower bound of the mnemonic length gate ("+itoa(int(v))+") is above 47, the length of a 12-word sentence of 3-letter words", "")
		}
	}
}

func constantInt64(k *types.Const) (int64, bool) {
	s := k.Val().ExactString()
	var v int64
	for _, ch := range s {
		if ch < '0' || ch > '9' {
			return 0, false
		}
		v = v*10 + int64(ch-'0')
	}
	return v, true
}

// defOrigins: the non-nil definitions a value can come from, through phis (merged results of an inlined helper),
// type changes and single-store local cells.
func defOrigins(v ssa.Value) map[ssa.Value]bool {
	out := map[ssa.Value]bool{}
	seen := map[ssa.Value]bool{}
	var walk func(v ssa.Value, d int)
	walk = func(v ssa.Value, d int) {
		v = an.ResolveCell(v)
		if seen[v] || d > 8 {
			return
		}
		seen[v] = true
		switch x := v.(type) {
		case *ssa.Phi:
			for _, e := range x.Edges {
				walk(e, d+1)
			}
		case *ssa.ChangeType:
			walk(x.X, d+1)
		case *ssa.Convert:
			walk(x.X, d+1)
		case *ssa.Const:
			if x.Value != nil {
				out[v] = true
			}
		default:
			out[v] = true
		}
	}
	walk(v, 0)
	return out
}

func sharesOrigin(a, b map[ssa.Value]bool) bool {
	for v := range a {
		if b[v] {
			return true
		}
	}
	return false
}
