package rules

import (
	"go/token"
	"go/types"
	"sort"
	"strings"

	"golang.org/x/tools/go/ssa"

	"verif/internal/an"
	"verif/internal/report"
)

func init() {
	register(&Check{
		ID: "C03",
		Explain: "Structural necessary conditions of signing, decided on SSA + call graph: " +
			"(1) every use of private key material in the keystore (ECDSA Sign, private-key derivation, every Decrypt) is dominated — interprocedurally, up to the exported keystore API — by the success edge of a passphrase check (scrypt DeriveKey or the salted-hash comparison of an unlocked manager, closed under wrappers); " +
			"(2) the unlocked key cache is scoped to one signing call: ClearPrivKey is deferred before the first input is signed; " +
			"(3) signing writes nothing into the transaction but witnesses; " +
			"(4) every input iteration runs the consensus script engine and checks its verdict; " +
			"(5) the sighash flag table maps exactly the six documented strings; " +
			"(6) the redeem script of an input is looked up under the standard (witness-v0) form of its address, whatever form the script library hands over.",
		NotDec: "that witnesses verify (ECDSA, script semantics); redeem-script equality; behaviour with a wrong passphrase beyond the dominance shown.",
		Run:    runC03,
	})
}

// passphraseGates returns the set G: functions whose success implies a correct private or
// public passphrase was presented (base: scrypt DeriveKey, checkPassword; closed under wrappers).
func passphraseGates(c *report.Ctx) map[*ssa.Function]bool {
	base := an.Set(fn(c, pkgSnacl, "SecretKey", "DeriveKey"), fn(c, pkgKeystore, "AddrManager", "checkPassword"))
	return c.P.SuccessWrappers(base)
}

// gatedUse checks that instruction site (in function f) is dominated by the success of a gate,
// locally or in every module caller chain. Returns ok and a witness chain when not.
func gatedUse(p *an.Prog, G map[*ssa.Function]bool, site ssa.Instruction, depth int, seen map[*ssa.Function]bool, unreachable *[]string) (bool, []string) {
	f := site.Parent()
	if p.DominatedBySuccess(site, G) != nil {
		return true, nil
	}
	if depth > 8 {
		return false, []string{"depth bound reached at " + sk(f)}
	}
	if seen[f] {
		return true, nil
	}
	seen[f] = true
	callers := p.Callers(f)
	n := 0
	for _, cl := range callers {
		if !p.InModule(cl.From) {
			continue
		}
		n++
		ok, w := gatedUse(p, G, cl.E.Site, depth+1, seen, unreachable)
		if !ok {
			return false, append([]string{sk(cl.From) + " -> " + sk(f) + " @" + p.InstrPos(cl.E.Site)}, w...)
		}
	}
	if n == 0 {
		// no production caller inside the module
		if f.Object() != nil && f.Object().Exported() && f.Signature.Recv() != nil {
			if rn := an.NamedOf(f.Signature.Recv().Type()); rn != nil && (rn.Obj().Name() == "KeystoreManager" || rn.Obj().Name() == "WalletManager" || rn.Obj().Name() == "APIServer") {
				return false, []string{"exported entry point " + sk(f) + " reached without a passphrase check"}
			}
		}
		*unreachable = append(*unreachable, sk(f))
		return true, nil
	}
	return true, nil
}

// ruleKeyUseGated is shared by C03 and C05.
// signingOnly restricts the sites to the code reachable from KeystoreManager.SignHash (C03 is about signing;
// C05 checks every use of private material).
func ruleKeyUseGated(c *report.Ctx, signingOnly bool) {
	p := c.P
	floor := 10
	var scope map[*ssa.Function]bool
	if signingOnly {
		floor = 4
		if sh := fn(c, pkgKeystore, "KeystoreManager", "SignHash"); sh != nil {
			scope, _ = p.Reach([]*ssa.Function{sh}, an.ReachOpts{})
		}
	}
	c.Rule("passphrase-dominates-key-use", "ECDSA signing, private-key derivation and every Decrypt in the keystore run only after a passphrase check succeeded on that path", floor)
	G := passphraseGates(c)
	var gnames []string
	for g := range G {
		gnames = append(gnames, sk(g))
	}
	sort.Strings(gnames)
	c.Extra["passphrase_gates"] = gnames
	sign := p.Fn("github.com/btcsuite/btcd/btcec", "PrivateKey", "Sign")
	getPriv := fn(c, pkgKeystore, "AddrManager", "getPrivKeyBtcec")
	skDecrypt := fn(c, pkgSnacl, "SecretKey", "Decrypt")
	if sign == nil {
		c.Lost("btcec.(*PrivateKey).Sign")
	}
	var unreachable []string
	for _, f := range p.ModFuncs {
		pk := an.FuncPkg(f)
		if pk == nil || pk.Path() != pkgKeystore {
			continue
		}
		if scope != nil && !scope[f] {
			continue
		}
		cnt := map[string]int{}
		an.Instrs(f, func(in ssa.Instruction) {
			cc := an.CallOf(in)
			if cc == nil {
				return
			}
			what := ""
			switch {
			case cc.StaticCallee() != nil && cc.StaticCallee() == sign:
				what = "PrivateKey.Sign"
			case cc.StaticCallee() != nil && cc.StaticCallee() == getPriv:
				what = "getPrivKeyBtcec"
			case cc.StaticCallee() != nil && cc.StaticCallee() == skDecrypt:
				what = "SecretKey.Decrypt"
			case cc.IsInvoke() && cc.Method.Name() == "Decrypt" && isNamedIface(cc.Value.Type(), pkgKeystore, "EncryptorDecryptor"):
				what = "EncryptorDecryptor.Decrypt"
			case cc.StaticCallee() != nil && nm(cc.StaticCallee()) == "Decrypt" && cc.StaticCallee().Signature.Recv() != nil && an.FuncPkg(cc.StaticCallee()) != nil && an.FuncPkg(cc.StaticCallee()).Path() == pkgKeystore:
				what = "cryptoKey.Decrypt"
			default:
				return
			}
			if f == skDecrypt {
				return
			}
			cnt[what]++
			key := siteKey(f, what, cnt[what])
			ok, w := gatedUse(p, G, in, 0, map[*ssa.Function]bool{}, &unreachable)
			if ok {
				c.OK(key, "dominated by a successful passphrase check (locally or in every caller chain)", posOf(c, in))
			} else {
				c.Fail(key, "private key material is used on a path where no passphrase check has succeeded: with the key cache unlocked by a concurrent legitimate call, any passphrase signs / decrypts", posOf(c, in), w...)
			}
		})
	}
	for _, u := range uniq(unreachable) {
		c.Note("passphrase-dominates-key-use: %s has no production caller in the module (unreachable, skipped)", u)
	}
}

func runC03(c *report.Ctx) {
	p := c.P
	ruleBranchKeyAgreement(c) // signing re-derives the private key from the recorded path: the path must be the one the public key came from
	ruleKeyUseGated(c, true)

	// ---- (2) unlock scoped ---------------------------------------------------------------------------
	ruleUnlockScoped(c)
	rulePassphraseHashedWhole(c)
	ruleCreationPatternOnlyForNewPassphrases(c)
	rulePassphraseVerdictReturned(c, passphraseGates(c))
	ruleKeyLengthTolerant(c)
	ruleSequenceSiblings(c) // a wallet-built withdrawal only passes the engine with the sequence its script demands
	sw := fn(c, pkgWallet, "WalletManager", "signWitnessTx")

	// ---- (3) write effects --------------------------------------------------------------------------------
	c.Rule("witness-only", "code reachable from SignRawTx inside the wallet stores nothing into a wire.MsgTx/TxIn/TxOut except TxIn.Witness", 1)
	srt := fn(c, pkgWallet, "WalletManager", "SignRawTx")
	if srt != nil {
		reached, _ := p.Reach([]*ssa.Function{srt}, an.ReachOpts{})
		nw := 0
		for f := range reached {
			if !p.InModule(f) || f.Blocks == nil {
				continue
			}
			an.Instrs(f, func(in ssa.Instruction) {
				st, ok := in.(*ssa.Store)
				if !ok {
					return
				}
				fa, ok := st.Addr.(*ssa.FieldAddr)
				if !ok {
					return
				}
				// judge the outermost object the address is rooted in (an OutPoint held by value inside a
				// wallet record is not part of the transaction)
				root := fa
				for {
					if inner, ok := root.X.(*ssa.FieldAddr); ok {
						root = inner
						continue
					}
					break
				}
				if rn := an.NamedOf(root.X.Type()); rn == nil || rn.Obj().Pkg() == nil || rn.Obj().Pkg().Path() != pkgWire {
					return
				}
				n := an.NamedOf(fa.X.Type())
				if n == nil || n.Obj().Pkg() == nil || n.Obj().Pkg().Path() != pkgWire {
					return
				}
				switch n.Obj().Name() {
				case "MsgTx", "TxIn", "TxOut", "OutPoint":
				default:
					return
				}
				if _, fresh := fa.X.(*ssa.Alloc); fresh {
					return
				}
				fname := an.FName(n.Underlying().(*types.Struct), fa.Field)
				if n.Obj().Name() == "TxIn" && fname == "Witness" {
					nw++
					c.OK(sk(f)+":TxIn.Witness=", "fills the witness", posOf(c, in))
					return
				}
				c.Fail(sk(f)+":"+n.Obj().Name()+"."+fname+"=", "signing modifies "+n.Obj().Name()+"."+fname+": the returned transaction differs from the one submitted in more than its witnesses", posOf(c, in))
			})
		}
		if nw == 0 {
			c.Fail(sk(srt)+":witness", "no store of TxIn.Witness reachable from SignRawTx", p.Pos(srt.Pos()))
		}
	}

	// ---- (4) every input executed ----------------------------------------------------------------------------
	c.Rule("engine-per-input", "every iteration of the input loop creates a script engine for that input and checks the result of Execute", 1)
	execute := p.Fn(pkgTxscript, "Engine", "Execute")
	newEngine := p.Fn(pkgTxscript, "", "NewEngine")
	if execute == nil || newEngine == nil {
		c.Lost("txscript.NewEngine/(*Engine).Execute")
	}
	if sw != nil && execute != nil {
		es := calls(sw, execute)
		if len(es) == 0 {
			c.Fail(sk(sw)+":Execute", "signWitnessTx no longer runs the script engine on its inputs", p.Pos(sw.Pos()))
		}
		for i, e := range es {
			key := siteKey(sw, "each-input:Engine.Execute", i+1)
			hdr := loopHeaderOf(e.Block())
			if hdr == nil {
				c.Fail(key, "the engine is not run inside the loop over the inputs", posOf(c, e))
				continue
			}
			var body *ssa.BasicBlock
			for _, su := range hdr.Succs {
				if loopContainsBlock(hdr, su) {
					body = su
				}
			}
			ev := e.(*ssa.Call)
			// (a) every iteration passes the Execute call (edge-feasible paths only)
			w := []string{"no loop body"}
			if body != nil {
				w = p.ReachBlockWithout(body, 0, hdr, func(b, pred *ssa.BasicBlock) bool { return b == hdr }, func(in ssa.Instruction) bool { return in == ssa.Instruction(ev) })
			}
			if w != nil {
				c.Fail(key, "an input iteration can complete without running the script engine: an input whose witness does not satisfy its output script is reported as signed", posOf(c, e), w...)
				continue
			}
			// (b) after Execute the next iteration is reachable only over the nil edge of a test of its error
			T := map[ssa.Value]bool{ev: true}
			for changed := true; changed; {
				changed = false
				an.Instrs(sw, func(x ssa.Instruction) {
					if ph, ok := x.(*ssa.Phi); ok && !T[ph] {
						for _, ed := range ph.Edges {
							if T[ed] {
								T[ph] = true
								changed = true
							}
						}
					}
				})
			}
			idx := 0
			for j, in := range e.Block().Instrs {
				if in == e {
					idx = j + 1
				}
			}
			s := &an.Search{P: p, Fn: sw,
				CutEdge: func(from, to *ssa.BasicBlock) bool {
					ifi, ok := from.Instrs[len(from.Instrs)-1].(*ssa.If)
					if !ok {
						return false
					}
					cv, trueMeansNil, ok := an.NilCmp(ifi.Cond)
					if !ok || !T[cv] {
						return false
					}
					return (from.Succs[0] == to) == trueMeansNil
				},
				GoalBlock: func(b, pred *ssa.BasicBlock) bool { return b == hdr },
			}
			if w := s.Run(e.Block(), idx, nil); w != nil {
				c.Fail(key, "after Execute the loop continues without its error having been tested: a failing script is ignored", posOf(c, e), w...)
			} else {
				c.OK(key, "every iteration runs Execute and continues only over err == nil", posOf(c, e))
			}
		}
	}

	// ---- (5) flag table ----------------------------------------------------------------------------------------
	c.Rule("sighash-table", "SignRawTx maps exactly ALL, NONE, SINGLE and their |ANYONECANPAY forms to the corresponding SigHashType values", 6)
	if srt != nil {
		want := map[string]int64{"ALL": 1, "NONE": 2, "SINGLE": 3, "ALL|ANYONECANPAY": 0x81, "NONE|ANYONECANPAY": 0x82, "SINGLE|ANYONECANPAY": 0x83}
		got := map[string]int64{}
		// hashType is the phi passed to signWitnessTx
		for _, s := range calls(srt, sw) {
			if ph, ok := an.CallOf(s).Args[3].(*ssa.Phi); ok {
				for i, e := range ph.Edges {
					k, isK := constInt(e)
					if !isK {
						continue
					}
					// the flag string of this edge: guard `param == "X"` of the predecessor
					pred := ph.Block().Preds[i]
					gs := p.Guards(pred)
					if ea := edgeAtoms(p, pred, ph.Block()); ea != nil {
						gs = append(gs, *ea)
					}
					for _, g := range gs {
						if g.Op.String() == "==" && g.Y != nil {
							if kc, isC := g.Y.(*ssa.Const); isC && kc.Value != nil && strings.HasPrefix(kc.Value.ExactString(), `"`) {
								got[strings.Trim(kc.Value.ExactString(), `"`)] = k
								break
							}
						}
					}
				}
			}
		}
		// the table form: hashType, ok := table[flag] on a package-level map that is only written by its initialiser
		for _, s := range calls(srt, sw) {
			ex, ok := an.CallOf(s).Args[3].(*ssa.Extract)
			if !ok || ex.Index != 0 {
				continue
			}
			lk, ok := ex.Tuple.(*ssa.Lookup)
			if !ok || !lk.CommaOk {
				continue
			}
			ld, ok := lk.X.(*ssa.UnOp)
			if !ok {
				continue
			}
			g, ok := ld.X.(*ssa.Global)
			if !ok {
				continue
			}
			if _, isPar := lk.Index.(*ssa.Parameter); !isPar {
				c.Fail("sighash:lookup-key", "the sighash table is not indexed by the flag parameter", posOf(c, s))
				continue
			}
			found := an.AnyAtom(p.GuardsOf(s), func(a an.Atom) bool {
				e2, isEx := a.X.(*ssa.Extract)
				return a.Op == token.ILLEGAL && a.Truth && isEx && e2.Tuple == ssa.Value(lk) && e2.Index == 1
			})
			if !found {
				c.Fail("sighash:unknown-flag", "a flag missing from the table is not refused: it signs with hash type 0", posOf(c, s))
			}
			tab, why := globalStringIntMap(p, g)
			if why != "" {
				c.Fail("sighash:table", "the sighash table "+g.Name()+" cannot be read: "+why, posOf(c, s))
				continue
			}
			for k, v := range tab {
				got[k] = v
			}
		}
		for name, v := range want {
			if got[name] == v {
				c.OK("sighash:"+name, "maps to the library constant", p.Pos(srt.Pos()))
			} else {
				c.Fail("sighash:"+name, "flag "+name+" maps to "+itoa(int(got[name]))+" instead of "+itoa(int(v)), p.Pos(srt.Pos()))
			}
		}
		for name := range got {
			if _, ok := want[name]; !ok {
				c.Fail("sighash:"+name, "undocumented sighash flag "+name+" is accepted", p.Pos(srt.Pos()))
			}
		}
	}

	// ---- (6) standard-form lookup ---------------------------------------------------------------------------------
	c.Rule("std-form-lookup", "address-manager lookups driven by a script address use the witness-v0 (standard) form rebuilt from the script hash: staking outputs are handed over in staking form, under which no address is indexed", 2)
	amAddress := fn(c, pkgKeystore, "AddrManager", "Address")
	newWSH := p.Fn("github.com/massnetorg/mass-core/massutil", "", "NewAddressWitnessScriptHash")
	if sw != nil && amAddress != nil && newWSH != nil {
		for _, f := range append(closuresOf(p, sw), fnOpt(c, pkgWallet, "WalletManager", "estimateSignedSize")) {
			if f == nil {
				continue
			}
			for i, s := range calls(f, amAddress) {
				key := siteKey(f, "AddrManager.Address(std-form)", i+1)
				d := p.Desc(an.CallOf(s).Args[1])
				if strings.Contains(d, "NewAddressWitnessScriptHash(") || f != nil && strings.Contains(d, "phi(") && strings.Contains(d, "NewAddressWitnessScriptHash(") {
					c.OK(key, "argument derives from NewAddressWitnessScriptHash(scriptHash)", posOf(c, s))
				} else {
					c.Fail(key, "the redeem script is looked up under the address form handed over by the script library ("+d+"): for a staking output that is the staking form, the lookup fails and staking withdrawals cannot be signed", posOf(c, s))
				}
			}
		}
	}

	// ---- per-input previous output; the unlocked cache is self-sufficient -------------------------------------
	rulePrevOutputPerInput(c)
	ruleBranchCacheComplete(c)
	ruleEngineFlagsPerInput(c)
	ruleCryptoKeySealing(c)
	ruleUnlockFlagFollowsHash(c)
	ruleReturnedBlockWasDecoded(c)
	ruleSignErrorReturned(c)
}

// globalStringIntMap reads a package-level map[string]<integer> that is built by a composite literal in the package
// initialiser and never written afterwards (no other store to the variable, no element update through it).
func globalStringIntMap(p *an.Prog, g *ssa.Global) (map[string]int64, string) {
	out := map[string]int64{}
	var mk *ssa.MakeMap
	for _, f := range p.ModFuncs {
		if f.Blocks == nil {
			continue
		}
		bad := ""
		an.Instrs(f, func(in ssa.Instruction) {
			switch x := in.(type) {
			case *ssa.Store:
				if x.Addr == ssa.Value(g) {
					m, isMk := x.Val.(*ssa.MakeMap)
					if f.Name() != "init" || f.Pkg != g.Pkg || !isMk || mk != nil {
						bad = "the variable is assigned in " + sk(f)
						return
					}
					mk = m
				}
			case *ssa.MapUpdate:
				if ld, ok := x.Map.(*ssa.UnOp); ok && ld.X == ssa.Value(g) {
					bad = "an element is written in " + sk(f)
				}
			case *ssa.UnOp:
				if x.X == ssa.Value(g) && x.Op == token.MUL {
					for _, r := range *x.Referrers() {
						switch r.(type) {
						case *ssa.Lookup, *ssa.Range, *ssa.DebugRef:
						default:
							if cc := an.CallOf(r); cc != nil {
								if b, isB := cc.Value.(*ssa.Builtin); isB && b.Name() == "len" {
									continue
								}
							}
							if _, isMU := r.(*ssa.MapUpdate); isMU {
								continue // reported above
							}
							bad = "the map escapes in " + sk(f)
						}
					}
				}
			}
		})
		if bad != "" {
			return nil, bad
		}
	}
	if mk == nil {
		return nil, "no initialiser found"
	}
	for _, r := range *mk.Referrers() {
		switch x := r.(type) {
		case *ssa.MapUpdate:
			k, isK := x.Key.(*ssa.Const)
			v, isV := constInt(x.Value)
			if !isK || k.Value == nil || !isV {
				return nil, "an entry is not constant"
			}
			out[strings.Trim(k.Value.ExactString(), `"`)] = v
		case *ssa.Store, *ssa.DebugRef:
		default:
			return nil, "the initialiser's map is used beyond its entries"
		}
	}
	return out, ""
}

// passedExecute: block b is dominated by the block of the Execute call (the check follows the call).
func passedExecute(b *ssa.BasicBlock, ev *ssa.Call) bool { return ev.Block().Dominates(b) }

// ruleUnlockScoped is shared by C03/C05: derived private keys do not outlive the signing call.
func ruleUnlockScoped(c *report.Ctx) {
	p := c.P
	c.Rule("unlock-scoped", "the function that signs the inputs defers ClearPrivKey before the first signature, so derived private keys do not outlive the call", 1)
	sw := fn(c, pkgWallet, "WalletManager", "signWitnessTx")
	clear := fn(c, pkgKeystore, "KeystoreManager", "ClearPrivKey")
	signTx := p.Fn(pkgTxscript, "", "SignTxOutputWit")
	if signTx == nil {
		c.Lost("txscript.SignTxOutputWit")
	}
	if sw != nil && clear != nil && signTx != nil {
		var def ssa.Instruction
		an.Instrs(sw, func(in ssa.Instruction) {
			if d, ok := in.(*ssa.Defer); ok && d.Call.StaticCallee() == clear {
				def = in
			}
		})
		ss := calls(sw, signTx)
		if len(ss) == 0 {
			c.Fail(sk(sw)+":SignTxOutputWit", "anchor lost: signWitnessTx no longer signs through txscript.SignTxOutputWit", p.Pos(sw.Pos()))
		}
		for _, s := range ss {
			if def != nil && instrDominates(def, s) {
				c.OK(sk(sw)+":defer-ClearPrivKey", "deferred before the first input is signed", posOf(c, def))
			} else {
				c.Fail(sk(sw)+":defer-ClearPrivKey", "ClearPrivKey is not deferred before signing: after the call (or after an error in the middle of it) the derived private keys and the unlocked flag stay in memory and later calls sign without a passphrase check", posOf(c, s))
			}
		}
		// ClearPrivKey reaches clearPrivKeys which resets `unlocked`
		cpk := fn(c, pkgKeystore, "AddrManager", "clearPrivKeys")
		am := p.Type(pkgKeystore, "AddrManager")
		if cpk != nil && am != nil {
			reached, _ := p.Reach([]*ssa.Function{clear}, an.ReachOpts{})
			okReset := false
			for _, st := range fieldStores(cpk, am, "unlocked") {
				if p.Desc(st.(*ssa.Store).Val) == "false" {
					okReset = true
				}
			}
			if reached[cpk] && okReset {
				c.OK(sk(clear)+"=>unlocked=false", "ClearPrivKey locks every address manager", p.Pos(clear.Pos()))
			} else {
				c.Fail(sk(clear)+"=>unlocked=false", "ClearPrivKey no longer re-locks the address managers", p.Pos(clear.Pos()))
			}
		}
	}
}
