package rules

import (
	"go/token"
	"go/types"
	"sort"
	"strings"

	"golang.org/x/tools/go/analysis"
	"golang.org/x/tools/go/analysis/checker"
	"golang.org/x/tools/go/analysis/passes/nilness"
	"golang.org/x/tools/go/ssa"

	"verif/internal/an"
	"verif/internal/report"
)

func init() {
	register(&Check{
		ID: "C19",
		Explain: "Structural necessary conditions of panic-freedom on request- and chain-driven paths, decided statically: " +
			"(1) the nilness pass (x/tools) reports no provable nil dereference in module packages; " +
			"(2) every index into a transaction's outputs by an outpoint index is bound-checked or the transaction came from an index-validating lookup; " +
			"(3) a pointer obtained together with an error, or from a map lookup, is dereferenced only where the call succeeded / the pointer was tested; " +
			"(4) every goroutine started by the wallet defers Recover first; " +
			"(5) every use of the selected wallet is protected by a no-wallet-selected test on every call chain from an entry point; " +
			"(6) the script-class error mapping that keeps the follower from stalling (shared with C01/C16).",
		NotDec: "panic-freedom in general (decoders, arithmetic, slices other than transaction outputs, dependencies); silent stalls other than the script-class one.",
		Run:    runC19,
	})
}

func runC19(c *report.Ctx) {
	p := c.P
	ruleAddressErrorsChecked(c) // a nil address inside a non-nil interface panics in the API handler that renders it

	// ---- (1) nilness -----------------------------------------------------------------------
	c.Rule("nilness", "x/tools nilness pass over every module package: diagnostics of the form 'nil dereference …' are provable crashes", 20)
	g, err := checker.Analyze([]*analysis.Analyzer{nilness.Analyzer}, p.Pkgs, nil)
	if err != nil {
		c.Fail("nilness:driver", "nilness driver failed: "+err.Error(), "")
	} else {
		type d struct{ pkg, pos, msg, fn string }
		var ds []d
		npk := 0
		for _, act := range g.Roots {
			if act.Analyzer != nilness.Analyzer {
				continue
			}
			npk++
			if act.Err != nil {
				c.Fail("nilness:"+act.Package.PkgPath, "nilness failed on package: "+act.Err.Error(), "")
				continue
			}
			c.OK("nilness:"+shortPkg(act.Package.PkgPath), "analysed", "")
			for _, di := range act.Diagnostics {
				if strings.Contains(di.Message, "nil dereference") || strings.Contains(di.Message, "nil map") {
					ds = append(ds, d{act.Package.PkgPath, p.Pos(di.Pos), di.Message, enclosingFunc(p, di.Pos)})
				}
			}
		}
		sort.Slice(ds, func(i, j int) bool { return ds[i].pos < ds[j].pos })
		for _, x := range ds {
			c.Fail(x.fn+":"+strings.ReplaceAll(x.msg, " ", "-"), "provable "+x.msg, x.pos)
		}
	}

	// ---- (2) outpoint index into outputs -------------------------------------------------------
	ruleOutIndex(c)

	// ---- (3) pointer with error / from map -------------------------------------------------------
	rulePtrWithErr(c)
	ruleNilOnSuccess(c)
	ruleIndexedResultLengthChecked(c, []string{pkgAPI, pkgWallet, pkgTxmgr, pkgKeystore, pkgUtils}, 3)
	ruleElementMapsAreMade(c)
	ruleOneSenderPerRequestInput(c)
	ruleBalanceMapCoversReadyWallets(c)
	ruleBalanceLookupPresence(c)
	ruleUnmarshalLeavesKeyUsable(c)
	ruleRestoreSliceCoversRequestedCount(c)
	ruleSelectionResetOnDelete(c)

	// ---- (4) containment ------------------------------------------------------------------------
	c.Rule("recover", "every goroutine the wallet starts defers Recover() before anything else, so a panic is logged instead of killing the process", 2)
	rec := fn(c, pkgWallet, "", "Recover")
	if rec != nil {
		for _, f := range p.ModFuncs {
			if pk := an.FuncPkg(f); pk == nil || pk.Path() != pkgWallet {
				continue
			}
			an.Instrs(f, func(in ssa.Instruction) {
				g, ok := in.(*ssa.Go)
				if !ok {
					return
				}
				for _, callee := range p.Callees(g) {
					key := "go:" + sk(callee)
					first := firstDefer(callee)
					if first != nil && first.Call.StaticCallee() == rec {
						c.OK(key, "first deferred call is Recover", posOf(c, in))
					} else {
						c.Fail(key, "goroutine body does not defer Recover() first: a panic in it kills the whole wallet process", posOf(c, in))
					}
				}
			})
		}
		// Recover itself must call recover()
		hasRecover := false
		an.Instrs(rec, func(in ssa.Instruction) {
			if call, ok := in.(*ssa.Call); ok {
				if b, ok := call.Call.Value.(*ssa.Builtin); ok && b.Name() == "recover" {
					hasRecover = true
				}
			}
		})
		if hasRecover {
			c.OK(sk(rec)+":recover()", "calls the recover builtin", p.Pos(rec.Pos()))
		} else {
			c.Fail(sk(rec)+":recover()", "Recover no longer calls recover()", p.Pos(rec.Pos()))
		}
	}

	// ---- negative Repeat count -----------------------------------------------------------------------------
	c.Rule("repeat-count", "strings.Repeat(s, K-len(x)) on request data is reached only where len(x) <= K is established for that same x (a negative count panics)", 1)
	for _, f := range p.ModFuncs {
		if pk := an.FuncPkg(f); pk == nil || !(pk.Path() == pkgAPI || pk.Path() == pkgWallet) {
			continue
		}
		k := 0
		an.Instrs(f, func(in ssa.Instruction) {
			call, ok := in.(*ssa.Call)
			if !ok || call.Call.StaticCallee() == nil || an.CanonKeyOf(call.Call.StaticCallee()) != "strings.Repeat" {
				return
			}
			cnt, ok := call.Call.Args[1].(*ssa.BinOp)
			if !ok || cnt.Op != token.SUB {
				if _, isK := call.Call.Args[1].(*ssa.Const); isK {
					return
				}
				return
			}
			K, isK := cnt.X.(*ssa.Const)
			lc, isLen := cnt.Y.(*ssa.Call)
			if !isK || !isLen {
				return
			}
			if b, isB := lc.Call.Value.(*ssa.Builtin); !isB || b.Name() != "len" {
				return
			}
			k++
			key := siteKey(f, "strings.Repeat(K-len(x))", k)
			x := lc.Call.Args[0]
			kv := K.Value.ExactString()
			bounded := func(v ssa.Value, gs []an.Atom) bool {
				if c2, isC := v.(*ssa.Const); isC && c2.Value != nil {
					return true // literal: length is a compile-time fact (checked by the compiler's constant folding of len)
				}
				// len(TrimX(y, …)) <= len(y): a bound on the untrimmed string bounds the trimmed one
				same := func(measured ssa.Value) bool {
					cur := v
					for i := 0; i < 3; i++ {
						if cur == measured || sameElemLoad(cur, measured) {
							return true
						}
						tc, ok := cur.(*ssa.Call)
						if !ok || tc.Call.StaticCallee() == nil || len(tc.Call.Args) == 0 {
							return false
						}
						k := an.CanonKeyOf(tc.Call.StaticCallee())
						if !strings.HasPrefix(k, "strings.Trim") {
							return false
						}
						cur = tc.Call.Args[0]
					}
					return false
				}
				return an.AnyAtom(gs, func(a an.Atom) bool {
					lx, ok := a.X.(*ssa.Call)
					if !ok || len(lx.Call.Args) != 1 || !same(lx.Call.Args[0]) {
						return false
					}
					if b, isB := lx.Call.Value.(*ssa.Builtin); !isB || b.Name() != "len" {
						return false
					}
					ky, ok := a.Y.(*ssa.Const)
					return ok && ky.Value != nil && a.Op == token.LEQ && ky.Value.ExactString() == kv
				})
			}
			ok2 := true
			if ph, isPhi := x.(*ssa.Phi); isPhi && !bounded(x, p.GuardsOf(in)) { // (bounded after the merge: fine as it is)
				for i, e := range ph.Edges {
					pred := ph.Block().Preds[i]
					gs := p.Guards(pred)
					if ea := edgeAtoms(p, pred, ph.Block()); ea != nil {
						gs = append(gs, *ea)
					}
					if !bounded(e, gs) {
						ok2 = false
					}
				}
			} else if !bounded(x, p.GuardsOf(in)) {
				ok2 = false
			}
			if ok2 {
				c.OK(key, "len(x) <= "+kv+" established for every value of x", posOf(c, in))
			} else {
				c.Fail(key, "strings.Repeat is called with "+kv+"-len(x) where len(x) <= "+kv+" is not established for that x: an over-long (zero-padded) fraction makes the count negative and the request handler panics", posOf(c, in))
			}
		})
	}

	// ---- (5) no wallet selected ----------------------------------------------------------------
	ruleNoWalletSelected(c)

	// ---- (6) class gate --------------------------------------------------------------------------
	ruleClassGate(c)

	// ---- (7) ready set: a half-removed wallet must not receive credits (its balance row is gone) --------
	ruleReadySet(c, true, true)
	ruleInsufficientAgainstRequested(c)
	ruleNilBytesNotDecoded(c)
}

func firstDefer(f *ssa.Function) *ssa.Defer {
	if f == nil || len(f.Blocks) == 0 {
		return nil
	}
	for _, in := range f.Blocks[0].Instrs {
		if d, ok := in.(*ssa.Defer); ok {
			return d
		}
		switch in.(type) {
		case *ssa.Call, *ssa.Go, *ssa.If, *ssa.Jump:
			return nil
		}
	}
	return nil
}

func enclosingFunc(p *an.Prog, pos token.Pos) string {
	best := ""
	var bestSpan token.Pos = 1 << 30
	for _, f := range p.ModFuncs {
		syn := f.Syntax()
		if syn == nil {
			continue
		}
		if syn.Pos() <= pos && pos <= syn.End() {
			if span := syn.End() - syn.Pos(); span < bestSpan {
				bestSpan = span
				best = sk(f)
			}
		}
	}
	if best == "" {
		return "?"
	}
	return best
}

// isOutPointIndex: v derives (through conversions) from a load of field Index of wire.OutPoint.
func isOutPointIndex(p *an.Prog, v ssa.Value) bool {
	v = stripConv(v)
	d := p.Desc(v)
	return strings.HasSuffix(d, "OutPoint.Index") || strings.HasSuffix(d, "PreviousOutPoint.Index")
}

// ruleOutIndex: T-index.
func ruleOutIndex(c *report.Ctx) {
	p := c.P
	c.Rule("outpoint-index", "an index taken from an outpoint (request, user transaction or chain input) into a transaction's TxOut is either bound-checked against len(TxOut) on every path, or the transaction came only from a lookup that matched that very output index", 8)
	// index-validating producers (frozen table, one reason each)
	validating := map[string]string{
		"(*masswallet.WalletManager).existsMsgTx":          "TxStore.ExistsTx returns a transaction only after finding the wallet credit with this outpoint (hash and index)",
		"(*masswallet/txmgr.TxStore).ExistsTx":             "returns a transaction only after finding the wallet credit with this outpoint (hash and index)",
		"ChainFetcher.FetchLastTxUntilHeight":              "previous transaction of a mined (consensus-validated) input",
		"ChainFetcher.FetchTxByLoc":                        "mined transaction read back from the chain at the recorded location",
		"TxReply.Tx":                                       "mass-core TxReply: previous transaction found by hash in the chain database for an input of a mined or pool-accepted transaction (the input was validated against it)",
		"(*core/massutil.Tx).MsgTx":                        "pool transaction described by the API; its inputs were validated by the pool",
		"core/blockchain.(*TxPool).FetchTransaction":       "pool transaction whose inputs were validated by the pool",
		"(*core/blockchain.TxPool).FetchTransaction":       "pool transaction whose inputs were validated by the pool",
		"(*core/blockchain.Blockchain).GetTransaction":     "mined or pool transaction; the spending input was validated against it",
		"(*core/blockchain.Blockchain).GetTransactionInDB": "mined transaction; the spending input was validated against it",
	}
	wireTxOut := p.Type(pkgWire, "TxOut")
	if wireTxOut == nil {
		c.Lost("wire.TxOut")
		return
	}
	n := 0
	for _, f := range p.ModFuncs {
		pk := an.FuncPkg(f)
		if pk == nil || (pk.Path() != pkgWallet && pk.Path() != pkgAPI && pk.Path() != pkgTxmgr) {
			continue
		}
		seen := map[string]int{}
		an.Instrs(f, func(in ssa.Instruction) {
			ia, ok := in.(*ssa.IndexAddr)
			if !ok {
				return
			}
			st, ok := ia.X.Type().Underlying().(*types.Slice)
			if !ok {
				return
			}
			if n := an.NamedOf(st.Elem()); n == nil || n.Obj() != wireTxOut.Obj() {
				return
			}
			if !isOutPointIndex(p, ia.Index) {
				return
			}
			n++
			seen["x"]++
			key := siteKey(f, "TxOut[outpoint.Index]", seen["x"])
			// (a) bound check
			gs := p.GuardsOf(ia)
			idxD := p.Desc(stripConv(ia.Index))
			sliceD := p.Desc(ia.X)
			if an.AnyAtom(gs, func(a an.Atom) bool { return boundAtom(p, a, idxD, sliceD) }) {
				c.OK(key, "bound-checked against len("+sliceD+")", posOf(c, ia))
				return
			}
			// (b) provenance of the transaction
			txv := txOfTxOutSlice(ia.X)
			if txv == nil {
				c.Fail(key, "output slice indexed by an outpoint index without a bound check (cannot resolve the transaction value)", posOf(c, ia))
				return
			}
			tr := &an.Tracer{P: p, Leaf: func(v ssa.Value) bool {
				if ex, ok := v.(*ssa.Extract); ok {
					v = ex.Tuple
				}
				_, isCall := v.(*ssa.Call)
				return isCall
			}}
			var bad, good []string
			for _, o := range tr.Origins(txv) {
				v := o.V
				if ex, ok := v.(*ssa.Extract); ok {
					v = ex.Tuple
				}
				if k, ok := v.(*ssa.Const); ok && k.Value == nil {
					continue // nil: excluded by the nil test that precedes the use
				}
				if _, ok := v.(*ssa.Lookup); ok {
					continue // per-call cache of earlier lookups: covered by the stores' own origins
				}
				call, ok := v.(*ssa.Call)
				if !ok {
					d := p.Desc(o.V)
					if _, isOK := validating[d]; isOK {
						good = append(good, d)
					} else {
						bad = append(bad, d)
					}
					continue
				}
				name := calleeName(p, call)
				if _, ok := validating[name]; ok {
					good = append(good, name)
				} else {
					bad = append(bad, name)
				}
			}
			if len(bad) > 0 {
				c.Fail(key+"<-"+strings.Join(uniq(bad), "|"), "TxOut is indexed by an outpoint index without a bound check, and the transaction may come from "+strings.Join(uniq(bad), ", ")+" (a lookup by hash only): a crafted index panics", posOf(c, ia))
			} else {
				c.OK(key, "transaction only from index-validating lookups: "+strings.Join(uniq(good), ", "), posOf(c, ia))
			}
		})
	}
	for k, r := range validating {
		c.Exception(k, r)
	}
}

// txOfTxOutSlice: X is a load of &tx.TxOut; return tx.
func txOfTxOutSlice(x ssa.Value) ssa.Value {
	u, ok := x.(*ssa.UnOp)
	if !ok || u.Op != token.MUL {
		return nil
	}
	fa, ok := u.X.(*ssa.FieldAddr)
	if !ok {
		return nil
	}
	return fa.X
}

// boundAtom: atom establishes idx < len(slice).
func boundAtom(p *an.Prog, a an.Atom, idxD, sliceD string) bool {
	if a.X == nil || a.Y == nil {
		return false
	}
	x, y := p.Desc(a.X), p.Desc(a.Y)
	lenS := "len(" + sliceD + ")"
	isIdx := func(s string) bool { return s == idxD }
	isLen := func(s string) bool { return s == lenS }
	isLenM1 := func(s string) bool { return s == "("+lenS+" - 1)" }
	switch a.Op {
	case token.LSS:
		return isIdx(x) && isLen(y)
	case token.GTR:
		return isLen(x) && isIdx(y)
	case token.LEQ:
		return isIdx(x) && isLenM1(y)
	case token.GEQ:
		return isLenM1(x) && isIdx(y)
	}
	return false
}

// rulePtrWithErr: E7 nil-after-fallback and map-of-pointer.
func rulePtrWithErr(c *report.Ctx) {
	p := c.P
	c.Rule("ptr-with-error", "a pointer returned together with an error by a wallet lookup is dereferenced only where that call's error was nil or the pointer was tested; a pointer taken from a map without the comma-ok form is dereferenced only after a nil test", 10)
	for _, f := range p.ModFuncs {
		pk := an.FuncPkg(f)
		if pk == nil || (pk.Path() != pkgWallet && pk.Path() != pkgAPI) {
			continue
		}
		cnt := map[string]int{}
		an.Instrs(f, func(in ssa.Instruction) {
			var base ssa.Value
			switch x := in.(type) {
			case *ssa.FieldAddr:
				base = x.X
			default:
				return
			}
			switch b := base.(type) {
			case *ssa.Extract:
				call, ok := b.Tuple.(*ssa.Call)
				if !ok {
					return
				}
				tup, ok := call.Type().(*types.Tuple)
				if !ok || tup.Len() < 2 || !an.IsErrorType(tup.At(tup.Len()-1).Type()) {
					return
				}
				if _, isPtr := b.Type().Underlying().(*types.Pointer); !isPtr {
					return
				}
				callee := call.Call.StaticCallee()
				if callee == nil || !p.InModule(callee) {
					return
				}
				cnt["e"]++
				key := siteKey(f, "deref:"+calleeName(p, call)+"#"+itoa(b.Index), 0)
				ok2 := false
				for _, sb := range p.SuccessBlocks(call) {
					if sb.Dominates(in.Block()) {
						ok2 = true
					}
				}
				if !ok2 && p.ValState(b, in.Block(), nil) == an.NonNil {
					ok2 = true
				}
				if !ok2 && alwaysNonNilResult(p, callee, b.Index) {
					ok2 = true
				}
				if ok2 {
					c.OK(key, "dereferenced only after the call's error was nil (or the pointer was tested)", posOf(c, in))
				} else {
					c.Fail(key, "pointer result #"+itoa(b.Index)+" of "+calleeName(p, call)+" is dereferenced on a path where the call may have failed (error replaced by a fallback lookup): nil dereference", posOf(c, in))
				}
			case *ssa.Lookup:
				if b.CommaOk {
					return
				}
				mt, ok := b.X.Type().Underlying().(*types.Map)
				if !ok {
					return
				}
				if _, isPtr := mt.Elem().Underlying().(*types.Pointer); !isPtr {
					return
				}
				cnt["m"]++
				key := siteKey(f, "deref:map["+typeStr(mt.Key())+"]"+typeStr(mt.Elem()), 0)
				if p.ValState(b, in.Block(), nil) == an.NonNil {
					c.OK(key, "map element tested for nil before use", posOf(c, in))
				} else {
					c.Fail(key, "pointer read from a map without the comma-ok form is dereferenced without a nil test: a missing or nil entry panics", posOf(c, in))
				}
			}
		})
	}
}

func itoa(i int) string {
	if i == 0 {
		return "0"
	}
	s := ""
	for i > 0 {
		s = string(rune('0'+i%10)) + s
		i /= 10
	}
	return s
}

// ruleNoWalletSelected: uses of CurrentKeystore()'s result.
func ruleNoWalletSelected(c *report.Ctx) {
	p := c.P
	c.Rule("no-wallet-selected", "every use of the selected wallet (method call or field access on the result of CurrentKeystore()) is protected by a nil test of CurrentKeystore() — locally, or in every caller chain up to an entry point", 14)
	cur := fn(c, pkgKeystore, "KeystoreManager", "CurrentKeystore")
	curWallet := fn(c, pkgWallet, "WalletManager", "CurrentWallet")
	if cur == nil {
		return
	}
	isGuard := func(a an.Atom) bool {
		// CurrentKeystore() != nil
		if a.Op == token.NEQ && a.Y != nil && an.IsNilConst(a.Y) {
			if call, ok := a.X.(*ssa.Call); ok && call.Call.StaticCallee() == cur {
				return true
			}
		}
		// len(CurrentWallet()) != 0 / > 0
		if curWallet != nil && a.X != nil {
			if lc, ok := a.X.(*ssa.Call); ok {
				if b, ok := lc.Call.Value.(*ssa.Builtin); ok && b.Name() == "len" {
					if call, ok := lc.Call.Args[0].(*ssa.Call); ok && call.Call.StaticCallee() == curWallet {
						if k, ok := a.Y.(*ssa.Const); ok && k.Value != nil && k.Value.ExactString() == "0" && (a.Op == token.NEQ || a.Op == token.GTR) {
							return true
						}
					}
				}
			}
			if call, ok := a.X.(*ssa.Call); ok && call.Call.StaticCallee() == curWallet && a.Op == token.NEQ {
				if k, ok := a.Y.(*ssa.Const); ok && k.Value != nil && k.Value.ExactString() == `""` {
					return true
				}
			}
		}
		return false
	}
	selOK := walletSelectedOnSuccess(p, guardedBlockFn(p, isGuard))
	var guardedBlock func(b *ssa.BasicBlock) bool
	guardedBlock = func(b *ssa.BasicBlock) bool {
		if an.AnyAtom(p.Guards(b), isGuard) {
			return true
		}
		// dominated by the success edge of a call whose success implies a wallet is selected
		for _, bb := range b.Parent().Blocks {
			for _, in := range bb.Instrs {
				call, ok := in.(*ssa.Call)
				if !ok || call.Call.StaticCallee() == nil || !selOK[call.Call.StaticCallee()] {
					continue
				}
				for _, sb := range p.SuccessBlocks(call) {
					if sb.Dominates(b) {
						return true
					}
				}
			}
		}
		return false
	}
	// protectedFn: every call chain into f passes a guard
	memo := map[*ssa.Function]int{} // 1 ok, 2 bad, 3 in progress
	unreachable := map[string]bool{}
	var witness []string
	var protectedFn func(f *ssa.Function, depth int) bool
	protectedFn = func(f *ssa.Function, depth int) bool {
		if v, ok := memo[f]; ok {
			return v != 2
		}
		if isEntryPoint(p, f) {
			memo[f] = 2
			witness = append(witness, "entry point "+sk(f)+" reached without a no-wallet-selected test")
			return false
		}
		memo[f] = 3
		callers := p.Callers(f)
		n := 0
		ok := true
		for _, cl := range callers {
			if !p.InModule(cl.From) {
				continue
			}
			n++
			if guardedBlock(cl.E.Site.Block()) {
				continue
			}
			if depth >= 8 || !protectedFn(cl.From, depth+1) {
				ok = false
				witness = append(witness, sk(cl.From)+" -> "+sk(f)+" @"+p.InstrPos(cl.E.Site))
				break
			}
		}
		if n == 0 {
			if isEntryPoint(p, f) {
				ok = false // entry point reached without a guard
				witness = append(witness, "entry point "+sk(f)+" reached without a no-wallet-selected test")
			} else {
				unreachable[sk(f)] = true // no production caller: not an obligation
			}
		}
		if ok {
			memo[f] = 1
		} else {
			memo[f] = 2
		}
		return ok
	}
	for _, f := range p.ModFuncs {
		if f == curWallet {
			continue
		}
		pk := an.FuncPkg(f)
		if pk == nil || (pk.Path() != pkgWallet && pk.Path() != pkgTxmgr && pk.Path() != pkgAPI) {
			continue
		}
		k := 0
		an.Instrs(f, func(in ssa.Instruction) {
			var recv ssa.Value
			switch x := in.(type) {
			case *ssa.Call:
				if x.Call.IsInvoke() || len(x.Call.Args) == 0 || x.Call.StaticCallee() == nil || x.Call.StaticCallee().Signature.Recv() == nil {
					return
				}
				recv = x.Call.Args[0]
			case *ssa.FieldAddr:
				recv = x.X
			default:
				return
			}
			call, ok := recv.(*ssa.Call)
			if !ok || call.Call.StaticCallee() != cur {
				return
			}
			k++
			key := siteKey(f, "use-of-CurrentKeystore()", k)
			if p.ValState(call, in.Block(), nil) == an.NonNil || guardedBlock(in.Block()) {
				c.OK(key, "locally nil-tested", posOf(c, in))
				return
			}
			witness = nil
			if protectedFn(f, 0) {
				if unreachable[sk(f)] {
					c.Note("no-wallet-selected: %s has no production caller (unreachable, skipped)", sk(f))
				}
				c.OK(key, "every caller chain passes a no-wallet-selected test", posOf(c, in))
			} else {
				c.Fail(key, "the selected wallet is used without a nil test and some call chain from an entry point reaches this use with no wallet selected: nil dereference", posOf(c, in), witness...)
			}
		})
	}
}

func guardedBlockFn(p *an.Prog, isGuard func(an.Atom) bool) func(*ssa.BasicBlock) bool {
	return func(b *ssa.BasicBlock) bool { return an.AnyAtom(p.Guards(b), isGuard) }
}

// walletSelectedOnSuccess: module functions (with an error result) all of whose success returns
// are dominated by a no-wallet-selected guard, or by the success of a call to such a function.
func walletSelectedOnSuccess(p *an.Prog, guarded func(*ssa.BasicBlock) bool) map[*ssa.Function]bool {
	set := map[*ssa.Function]bool{}
	for changed := true; changed; {
		changed = false
		for _, f := range p.ModFuncs {
			if set[f] || f.Blocks == nil {
				continue
			}
			res := f.Signature.Results()
			if res.Len() == 0 || !an.IsErrorType(res.At(res.Len()-1).Type()) {
				continue
			}
			all, any := true, false
			for _, b := range f.Blocks {
				r, ok := b.Instrs[len(b.Instrs)-1].(*ssa.Return)
				if !ok {
					continue
				}
				preds := b.Preds
				if len(preds) == 0 {
					preds = []*ssa.BasicBlock{nil}
				}
				for _, pr := range preds {
					if p.ClassifyReturn(r, pr) == an.RetError {
						continue
					}
					any = true
					if guarded(b) || p.DominatedBySuccess(r, set) != nil {
						continue
					}
					// tail call of a member
					v := an.RetOperand(r, len(r.Results)-1)
					if ex, ok := v.(*ssa.Extract); ok {
						v = ex.Tuple
					}
					if call, ok := v.(*ssa.Call); ok && call.Call.StaticCallee() != nil && set[call.Call.StaticCallee()] {
						continue
					}
					all = false
				}
			}
			if any && all {
				set[f] = true
				changed = true
			}
		}
	}
	return set
}

// isEntryPoint: gRPC handler (method of *api.APIServer), goroutine body, chain listener callback,
// or exported method reachable from outside the module by interface (conservatively: exported
// methods of types in package api).
func isEntryPoint(p *an.Prog, f *ssa.Function) bool {
	pk := an.FuncPkg(f)
	if pk == nil {
		return false
	}
	if pk.Path() == pkgAPI && f.Signature.Recv() != nil {
		return true
	}
	switch f.Name() {
	case "OnBlockConnected", "OnTransactionReceived", "handle", "worker", "main":
		return true
	}
	return false
}

// alwaysNonNilResult: every return of f yields a non-nil pointer as result #idx.
func alwaysNonNilResult(p *an.Prog, f *ssa.Function, idx int) bool {
	if f == nil || f.Blocks == nil {
		return false
	}
	any := false
	for _, b := range f.Blocks {
		r, ok := b.Instrs[len(b.Instrs)-1].(*ssa.Return)
		if !ok || idx >= len(r.Results) {
			continue
		}
		any = true
		if p.ValState(an.RetOperand(r, idx), b, nil) != an.NonNil {
			return false
		}
	}
	return any
}

// sameElemLoad: two loads of the same constant-index element of the same (never re-assigned) slice value.
func sameElemLoad(a, b ssa.Value) bool {
	la, ok1 := a.(*ssa.UnOp)
	lb, ok2 := b.(*ssa.UnOp)
	if !ok1 || !ok2 || la.Op != token.MUL || lb.Op != token.MUL {
		return false
	}
	ia, ok1 := la.X.(*ssa.IndexAddr)
	ib, ok2 := lb.X.(*ssa.IndexAddr)
	if !ok1 || !ok2 || ia.X != ib.X {
		return false
	}
	ka, ok1 := constInt(ia.Index)
	kb, ok2 := constInt(ib.Index)
	if !ok1 || !ok2 || ka != kb {
		return false
	}
	// the slice must not be written through in the function (string elements of a Split result are not)
	for _, r := range *ia.X.Referrers() {
		if x, ok := r.(*ssa.IndexAddr); ok {
			for _, rr := range *x.Referrers() {
				if st, ok := rr.(*ssa.Store); ok && st.Addr == ssa.Value(x) {
					return false
				}
			}
		}
	}
	return true
}
