package rules

import (
	"go/constant"
	"go/token"
	"go/types"
	"strings"

	"golang.org/x/tools/go/ssa"

	"verif/internal/an"
	"verif/internal/report"
)

// ruleIndexedResultLengthChecked (C19, C16): a slice that a call handed back — its length is the callee's business,
// and the library's extractors skip what does not parse — is indexed with a constant only where its length is known
// to reach that far. Found by a refactoring agent's side remark: txscript.ExtractPkScriptAddrs classifies
// OP_0 <32> <22> as a binding script but returns one address when the target bytes do not parse;
// api.extractAddressInfos indexed addrs[1] (b1aa901).
func ruleIndexedResultLengthChecked(c *report.Ctx, pkgs []string, floor int) {
	p := c.P
	c.Rule("indexed-result-length-checked", "in the request-handling packages an element k (a constant) of a slice returned by one of the consensus library's script extractors (mass-core/txscript: they classify a script by its template and then skip every address or key that does not parse) is read only where len(slice) > k holds on every path (a dominating test on that very slice); an unguarded index is a panic a client's raw transaction or a mined script can trigger", floor)
	inPkgs := func(f *ssa.Function) bool {
		pk := an.FuncPkg(f)
		if pk == nil {
			return false
		}
		for _, q := range pkgs {
			if pk.Path() == q {
				return true
			}
		}
		return false
	}
	// the slice a value is: through loads of single-store cells and tuple extraction
	origin := func(v ssa.Value) (ssa.Value, *ssa.Call) {
		v = an.ResolveCell(v)
		if ex, ok := v.(*ssa.Extract); ok {
			if call, isCall := ex.Tuple.(*ssa.Call); isCall {
				return v, call
			}
			return v, nil
		}
		if call, ok := v.(*ssa.Call); ok {
			return v, call
		}
		return v, nil
	}
	variableLength := func(call *ssa.Call) bool {
		if call == nil {
			return false
		}
		if _, isB := call.Call.Value.(*ssa.Builtin); isB {
			return false // append, make-like builtins: the length is visible at the site
		}
		cal := call.Call.StaticCallee()
		var pk *types.Package
		if cal != nil {
			pk = an.FuncPkg(cal)
		} else if call.Call.IsInvoke() {
			pk = call.Call.Method.Pkg()
		}
		if pk == nil {
			return false
		}
		// the script extractors of the consensus library: they classify by template and then skip every address or
		// key that does not parse, so the class does not tell how many there are
		return pk.Path() == "github.com/massnetorg/mass-core/txscript"
	}
	// Reviewed exception, one site: estimateSignedSize walks the wallet's own credits; their scripts were parsed when
	// they were credited (utils.ParsePkScript accepts P2WSH / staking / binding only, whose owner address is a 32-byte
	// hash the template already fixes), so the extractor always yields the owner.
	reviewed := map[string]string{
		"(*masswallet.WalletManager).estimateSignedSize": "own credits only: scripts that parsed as P2WSH / staking / binding when credited always yield the owner address",
	}
	for _, f := range p.ModFuncs {
		if !inPkgs(f) || f.Blocks == nil {
			continue
		}
		k := 0
		an.Instrs(f, func(in ssa.Instruction) {
			var x, idx ssa.Value
			switch y := in.(type) {
			case *ssa.IndexAddr:
				x, idx = y.X, y.Index
			case *ssa.Index:
				x, idx = y.X, y.Index
			default:
				return
			}
			if _, isSlice := x.Type().Underlying().(*types.Slice); !isSlice {
				return
			}
			kk, isK := constInt(idx)
			if !isK || kk < 0 {
				return
			}
			sl, call := origin(x)
			if !variableLength(call) {
				return
			}
			k++
			key := siteKey(f, "index:"+calleeName(p, call), k)
			enough := func(a an.Atom) bool {
				lc, ok := a.X.(*ssa.Call)
				if !ok || len(lc.Call.Args) != 1 || a.Y == nil {
					return false
				}
				if b, isB := lc.Call.Value.(*ssa.Builtin); !isB || b.Name() != "len" {
					return false
				}
				m, _ := origin(lc.Call.Args[0])
				if m != sl {
					return false
				}
				n, isN := constInt(a.Y)
				if !isN {
					return false
				}
				switch a.Op {
				case token.GTR:
					return n >= kk
				case token.GEQ, token.EQL:
					return n >= kk+1
				case token.NEQ:
					return n == 0 && kk == 0
				}
				return false
			}
			if an.AnyAtom(p.GuardsOf(in), enough) {
				c.OK(key, "len(result) reaches the index on every path", posOf(c, in))
			} else if why, ok := reviewed[sk(f)]; ok && kk == 0 {
				c.Exception(sk(f), why)
				c.OK(key, "reviewed: "+why, posOf(c, in))
			} else {
				c.Fail(key, "element "+itoa(int(kk))+" of the slice returned by "+calleeName(p, call)+" is read without a test that the slice is that long: the callee decides the length (an extractor that skips what does not parse, a lookup with fewer rows) and a shorter answer panics the request handler", posOf(c, in))
			}
		})
	}
}

// taskPush: a place where a background task is handed to the worker's queue.
type taskPush struct {
	Site ssa.Instruction
	Kind string    // "import", "remove", or "?" when the kind is not fixed at the site
	On   []an.Atom // what holds when this kind of task is the one sent (nil: the guards of the site)
}

// Guards: what is known to hold when this task is queued.
func (tp taskPush) Guards(p *an.Prog) []an.Atom {
	if tp.On != nil {
		return tp.On
	}
	return p.GuardsOf(tp.Site)
}

// taskPushes: the places in f where a task is queued — a call of WalletTaskChan.PushImport / PushRemove (the reviewed
// tree), or a send on WalletTaskChan.C written out in f (a generic Push(task) spliced in). The kind of a send is the
// constant its task value was built with, or what the site's guards say about the task's type (`case
// WalletTaskImport:` in the worker re-queues the task it received).
func taskPushes(c *report.Ctx, f *ssa.Function) []taskPush {
	p := c.P
	var out []taskPush
	if f == nil || f.Blocks == nil {
		return nil
	}
	pi, pr := fnOpt(c, pkgWallet, "WalletTaskChan", "PushImport"), fnOpt(c, pkgWallet, "WalletTaskChan", "PushRemove")
	tc := p.Type(pkgWallet, "WalletTaskChan")
	kinds := map[string]string{}
	for name, k := range map[string]string{"WalletTaskImport": "import", "WalletTaskRemove": "remove"} {
		if o := p.Obj(pkgWallet, name); o != nil {
			kinds[constString(o)] = k
		}
	}
	if f.Signature.Recv() != nil && tc != nil {
		if n := an.NamedOf(f.Signature.Recv().Type()); n != nil && n.Obj() == tc.Obj() {
			return nil // the queue's own methods
		}
	}
	type kindAt struct {
		kind string
		at   ssa.Instruction // the store that fixed the kind (nil: fixed by the site's guards)
	}
	// the constants stored into the type field of the task value that is sent (followed through whole-value copies)
	kindsOf := func(v ssa.Value, site ssa.Instruction) []kindAt {
		var out []kindAt
		if ld, ok := v.(*ssa.UnOp); ok && ld.Op == token.MUL {
			a, _ := ld.X.(*ssa.Alloc)
			for depth := 0; a != nil && depth < 4; depth++ {
				var next *ssa.Alloc
				if a.Referrers() == nil {
					break
				}
				for _, r := range *a.Referrers() {
					switch x := r.(type) {
					case *ssa.FieldAddr:
						if an.FName(derefStructT(x.X.Type()), x.Field) != "taskType" || x.Referrers() == nil {
							continue
						}
						for _, rr := range *x.Referrers() {
							if st, isSt := rr.(*ssa.Store); isSt && st.Addr == ssa.Value(x) {
								if k := foldConst(st.Val, 0); k != nil {
									if kind, ok := kinds[k.ExactString()]; ok {
										out = append(out, kindAt{kind, st})
									}
								}
							}
						}
					case *ssa.Store:
						if x.Addr == ssa.Value(a) {
							if src, isLd := x.Val.(*ssa.UnOp); isLd && src.Op == token.MUL {
								if b, isAlloc := src.X.(*ssa.Alloc); isAlloc {
									next = b
								}
							}
						}
					}
				}
				if len(out) > 0 || next == nil {
					break
				}
				a = next
			}
		}
		if len(out) > 0 {
			return out
		}
		// handed on: what the guards say about the type of the task in hand
		for _, g := range p.GuardsOf(site) {
			if g.Op != token.EQL || g.X == nil || g.Y == nil || !strings.HasSuffix(p.Desc(g.X), "taskType") {
				continue
			}
			if k := foldConst(g.Y, 0); k != nil {
				if kind, ok := kinds[k.ExactString()]; ok {
					return []kindAt{{kind, nil}}
				}
			}
		}
		return []kindAt{{"?", nil}}
	}
	kindOf := func(v ssa.Value, site ssa.Instruction) string {
		ks := kindsOf(v, site)
		if len(ks) == 1 {
			return ks[0].kind
		}
		return "?"
	}
	an.Instrs(f, func(in ssa.Instruction) {
		if cc := an.CallOf(in); cc != nil && cc.StaticCallee() != nil {
			switch cc.StaticCallee() {
			case pi:
				if pi != nil {
					out = append(out, taskPush{Site: in, Kind: "import"})
				}
			case pr:
				if pr != nil {
					out = append(out, taskPush{Site: in, Kind: "remove"})
				}
			}
		}
		var ch, val ssa.Value
		switch x := in.(type) {
		case *ssa.Select:
			for _, st := range x.States {
				if st.Send != nil {
					ch, val = st.Chan, st.Send
				}
			}
		case *ssa.Send:
			ch, val = x.Chan, x.X
		}
		if ch == nil {
			return
		}
		ld, ok := ch.(*ssa.UnOp)
		if !ok || tc == nil || !isFieldLoad(ld, tc, "C") {
			return
		}
		// a task chosen on several paths and queued once (`task, ok := unfinished(ws); if ok { push(task) }`): one push
		// per way the task was chosen, under what held on that way; a way whose `ok` is false does not get here
		if ph, isPhi := val.(*ssa.Phi); isPhi {
			site := p.GuardsOf(in)
			for i, e := range ph.Edges {
				dead := false
				for _, g := range site {
					fl, isFl := g.X.(*ssa.Phi)
					if g.Op != token.ILLEGAL || !isFl || fl.Block() != ph.Block() || i >= len(fl.Edges) {
						continue
					}
					if k := foldConst(fl.Edges[i], 0); k != nil && k.Kind() == constant.Bool && constant.BoolVal(k) != g.Truth {
						dead = true
					}
				}
				if dead {
					continue
				}
				pred := ph.Block().Preds[i]
				on := append(append([]an.Atom{}, p.GuardsOnEdge(pred, ph.Block())...), site...)
				out = append(out, taskPush{Site: in, Kind: kindOf(e, in), On: on})
			}
			return
		}
		// a task value filled in on several paths (a result variable of a spliced helper) and queued once: one push per
		// filling, under what held there
		if ks := kindsOf(val, in); len(ks) > 1 {
			for _, ka := range ks {
				on := append(append([]an.Atom{}, p.GuardsOf(ka.at)...), p.GuardsOf(in)...)
				out = append(out, taskPush{Site: in, Kind: ka.kind, On: on})
			}
			return
		}
		kind := kindOf(val, in)
		if kind == "?" {
			// the task in hand is queued again under a verdict merged from the kinds' own verdicts
			// (`done := run(task); if !done { push(task) }`): one push per way the verdict came out so, with the kind
			// the guards of that way name
			split := false
			for _, g := range p.GuardsOf(in) {
				fl, isFl := g.X.(*ssa.Phi)
				if g.Op != token.ILLEGAL || !isFl {
					continue
				}
				for i, e := range fl.Edges {
					if k := foldConst(e, 0); k != nil && k.Kind() == constant.Bool && constant.BoolVal(k) != g.Truth {
						continue
					}
					if i >= len(fl.Block().Preds) {
						continue
					}
					on := append(append([]an.Atom{}, p.GuardsOnEdge(fl.Block().Preds[i], fl.Block())...), p.GuardsOf(in)...)
					// what the value of the verdict on this way says, too (it is `!fin`, `err == nil`, …)
					if cond, isB := e.(ssa.Value); isB {
						if _, isK := e.(*ssa.Const); !isK {
							on = append(on, p.MkAtom(cond, g.Truth, nil))
						}
					}
					ek := "?"
					for _, a := range on {
						if a.Op != token.EQL || a.X == nil || a.Y == nil || !strings.HasSuffix(p.Desc(a.X), "taskType") {
							continue
						}
						if k := foldConst(a.Y, 0); k != nil {
							if kk, ok := kinds[k.ExactString()]; ok {
								ek = kk
							}
						}
					}
					if ek != "?" {
						out = append(out, taskPush{Site: in, Kind: ek, On: on})
						split = true
					}
				}
			}
			if split {
				return
			}
		}
		out = append(out, taskPush{Site: in, Kind: kind})
	})
	return out
}

// pushesOf: the pushes of taskPushes(f) of one kind ("" = any).
func pushesOf(c *report.Ctx, f *ssa.Function, kind string) []taskPush {
	var out []taskPush
	for _, tp := range taskPushes(c, f) {
		if kind == "" || tp.Kind == kind {
			out = append(out, tp)
		}
	}
	return out
}

// pushSites: their sites.
func pushSites(c *report.Ctx, f *ssa.Function, kind string) []ssa.Instruction {
	var out []ssa.Instruction
	for _, tp := range pushesOf(c, f, kind) {
		out = append(out, tp.Site)
	}
	return out
}
