package rules

import (
	"go/constant"
	"go/token"
	"go/types"
	"strings"

	"golang.org/x/tools/go/ssa"

	"verif/internal/an"
	"verif/internal/report"
)

// ruleIndexedResultLengthChecked (C19, C16): a slice that a call handed back — its length is the callee's business,
// and the library's extractors skip what does not parse — is indexed with a constant only where its length is known
// to reach that far. Found by a refactoring agent's side remark: txscript.ExtractPkScriptAddrs classifies
// OP_0 <32> <22> as a binding script but returns one address when the target bytes do not parse;
// api.extractAddressInfos indexed addrs[1] (b1aa901).
func ruleIndexedResultLengthChecked(c *report.Ctx, pkgs []string, floor int) {
	p := c.P
	c.Rule("indexed-result-length-checked", "in the request-handling packages an element k (a constant) of a slice returned by one of the consensus library's script extractors (mass-core/txscript: they classify a script by its template and then skip every address or key that does not parse) is read only where len(slice) > k holds on every path (a dominating test on that very slice); an unguarded index is a panic a client's raw transaction or a mined script can trigger", floor)
	inPkgs := func(f *ssa.Function) bool {
		pk := an.FuncPkg(f)
		if pk == nil {
			return false
		}
		for _, q := range pkgs {
			if pk.Path() == q {
				return true
			}
		}
		return false
	}
	// the slice a value is: through loads of single-store cells and tuple extraction
	origin := func(v ssa.Value) (ssa.Value, *ssa.Call) {
		v = an.ResolveCell(v)
		if ex, ok := v.(*ssa.Extract); ok {
			if call, isCall := ex.Tuple.(*ssa.Call); isCall {
				return v, call
			}
			return v, nil
		}
		if call, ok := v.(*ssa.Call); ok {
			return v, call
		}
		return v, nil
	}
	variableLength := func(call *ssa.Call) bool {
		if call == nil {
			return false
		}
		if _, isB := call.Call.Value.(*ssa.Builtin); isB {
			return false // append, make-like builtins: the length is visible at the site
		}
		cal := call.Call.StaticCallee()
		var pk *types.Package
		if cal != nil {
			pk = an.FuncPkg(cal)
		} else if call.Call.IsInvoke() {
			pk = call.Call.Method.Pkg()
		}
		if pk == nil {
			return false
		}
		// the script extractors of the consensus library: they classify by template and then skip every address or
		// key that does not parse, so the class does not tell how many there are
		return pk.Path() == "github.com/massnetorg/mass-core/txscript"
	}
	// Reviewed exception, one site: estimateSignedSize walks the wallet's own credits; their scripts were parsed when
	// they were credited (utils.ParsePkScript accepts P2WSH / staking / binding only, whose owner address is a 32-byte
	// hash the template already fixes), so the extractor always yields the owner.
	reviewed := map[string]string{
		"(*masswallet.WalletManager).estimateSignedSize": "own credits only: scripts that parsed as P2WSH / staking / binding when credited always yield the owner address",
	}
	for _, f := range p.ModFuncs {
		if !inPkgs(f) || f.Blocks == nil {
			continue
		}
		k := 0
		an.Instrs(f, func(in ssa.Instruction) {
			var x, idx ssa.Value
			switch y := in.(type) {
			case *ssa.IndexAddr:
				x, idx = y.X, y.Index
			case *ssa.Index:
				x, idx = y.X, y.Index
			default:
				return
			}
			if _, isSlice := x.Type().Underlying().(*types.Slice); !isSlice {
				return
			}
			kk, isK := constInt(idx)
			if !isK || kk < 0 {
				return
			}
			sl, call := origin(x)
			if !variableLength(call) {
				return
			}
			k++
			key := siteKey(f, "index:"+calleeName(p, call), k)
			enough := func(a an.Atom) bool {
				lc, ok := a.X.(*ssa.Call)
				if !ok || len(lc.Call.Args) != 1 || a.Y == nil {
					return false
				}
				if b, isB := lc.Call.Value.(*ssa.Builtin); !isB || b.Name() != "len" {
					return false
				}
				m, _ := origin(lc.Call.Args[0])
				if m != sl {
					return false
				}
				n, isN := constInt(a.Y)
				if !isN {
					return false
				}
				switch a.Op {
				case token.GTR:
					return n >= kk
				case token.GEQ, token.EQL:
					return n >= kk+1
				case token.NEQ:
					return n == 0 && kk == 0
				}
				return false
			}
			if an.AnyAtom(p.GuardsOf(in), enough) {
				c.OK(key, "len(result) reaches the index on every path", posOf(c, in))
			} else if why, ok := reviewed[sk(f)]; ok && kk == 0 {
				c.Exception(sk(f), why)
				c.OK(key, "reviewed: "+why, posOf(c, in))
			} else {
				c.Fail(key, "element "+itoa(int(kk))+" of the slice returned by "+calleeName(p, call)+" is read without a test that the slice is that long: the callee decides the length (an extractor that skips what does not parse, a lookup with fewer rows) and a shorter answer panics the request handler", posOf(c, in))
			}
		})
	}
}

// taskPush: a place where a background task is handed to the worker's queue.
type taskPush struct {
	Site ssa.Instruction
	Kind string    // "import", "remove", or "?" when the kind is not fixed at the site
	On   []an.Atom // what holds when this kind of task is the one sent (nil: the guards of the site)
}

// Guards: what is known to hold when this task is queued.
func (tp taskPush) Guards(p *an.Prog) []an.Atom {
	if tp.On != nil {
		return tp.On
	}
	return p.GuardsOf(tp.Site)
}

// taskPushes: the places in f where a task is queued — a call of WalletTaskChan.PushImport / PushRemove (the reviewed
// tree), or a send on WalletTaskChan.C written out in f (a generic Push(task) spliced in). The kind of a send is the
// constant its task value was built with, or what the site's guards say about the task's type (`case
// WalletTaskImport:` in the worker re-queues the task it received).
func taskPushes(c *report.Ctx, f *ssa.Function) []taskPush {
	p := c.P
	var out []taskPush
	if f == nil || f.Blocks == nil {
		return nil
	}
	pi, pr := fnOpt(c, pkgWallet, "WalletTaskChan", "PushImport"), fnOpt(c, pkgWallet, "WalletTaskChan", "PushRemove")
	tc := p.Type(pkgWallet, "WalletTaskChan")
	kinds := map[string]string{}
	for name, k := range map[string]string{"WalletTaskImport": "import", "WalletTaskRemove": "remove"} {
		if o := p.Obj(pkgWallet, name); o != nil {
			kinds[constString(o)] = k
		}
	}
	if f.Signature.Recv() != nil && tc != nil {
		if n := an.NamedOf(f.Signature.Recv().Type()); n != nil && n.Obj() == tc.Obj() {
			return nil // the queue's own methods
		}
	}
	type kindAt struct {
		kind string
		at   ssa.Instruction // the store that fixed the kind (nil: fixed by the site's guards)
	}
	// the constants stored into the type field of the task value that is sent (followed through whole-value copies)
	kindsOf := func(v ssa.Value, site ssa.Instruction) []kindAt {
		var out []kindAt
		if ld, ok := v.(*ssa.UnOp); ok && ld.Op == token.MUL {
			a, _ := ld.X.(*ssa.Alloc)
			for depth := 0; a != nil && depth < 4; depth++ {
				var next *ssa.Alloc
				if a.Referrers() == nil {
					break
				}
				for _, r := range *a.Referrers() {
					switch x := r.(type) {
					case *ssa.FieldAddr:
						if an.FName(derefStructT(x.X.Type()), x.Field) != "taskType" || x.Referrers() == nil {
							continue
						}
						for _, rr := range *x.Referrers() {
							if st, isSt := rr.(*ssa.Store); isSt && st.Addr == ssa.Value(x) {
								if k := foldConst(st.Val, 0); k != nil {
									if kind, ok := kinds[k.ExactString()]; ok {
										out = append(out, kindAt{kind, st})
									}
								}
							}
						}
					case *ssa.Store:
						if x.Addr == ssa.Value(a) {
							if src, isLd := x.Val.(*ssa.UnOp); isLd && src.Op == token.MUL {
								if b, isAlloc := src.X.(*ssa.Alloc); isAlloc {
									next = b
								}
							}
						}
					}
				}
				if len(out) > 0 || next == nil {
					break
				}
				a = next
			}
		}
		if len(out) > 0 {
			return out
		}
		// handed on: what the guards say about the type of the task in hand
		for _, g := range p.GuardsOf(site) {
			if g.Op != token.EQL || g.X == nil || g.Y == nil || !strings.HasSuffix(p.Desc(g.X), "taskType") {
				continue
			}
			if k := foldConst(g.Y, 0); k != nil {
				if kind, ok := kinds[k.ExactString()]; ok {
					return []kindAt{{kind, nil}}
				}
			}
		}
		return []kindAt{{"?", nil}}
	}
	kindOf := func(v ssa.Value, site ssa.Instruction) string {
		ks := kindsOf(v, site)
		if len(ks) == 1 {
			return ks[0].kind
		}
		return "?"
	}
	an.Instrs(f, func(in ssa.Instruction) {
		if cc := an.CallOf(in); cc != nil && cc.StaticCallee() != nil {
			switch cc.StaticCallee() {
			case pi:
				if pi != nil {
					out = append(out, taskPush{Site: in, Kind: "import"})
				}
			case pr:
				if pr != nil {
					out = append(out, taskPush{Site: in, Kind: "remove"})
				}
			}
		}
		var ch, val ssa.Value
		switch x := in.(type) {
		case *ssa.Select:
			for _, st := range x.States {
				if st.Send != nil {
					ch, val = st.Chan, st.Send
				}
			}
		case *ssa.Send:
			ch, val = x.Chan, x.X
		}
		if ch == nil {
			return
		}
		ld, ok := ch.(*ssa.UnOp)
		if !ok || tc == nil || !isFieldLoad(ld, tc, "C") {
			return
		}
		// a task chosen on several paths and queued once (`task, ok := unfinished(ws); if ok { push(task) }`): one push
		// per way the task was chosen, under what held on that way; a way whose `ok` is false does not get here
		if ph, isPhi := val.(*ssa.Phi); isPhi {
			site := p.GuardsOf(in)
			for i, e := range ph.Edges {
				dead := false
				for _, g := range site {
					fl, isFl := g.X.(*ssa.Phi)
					if g.Op != token.ILLEGAL || !isFl || fl.Block() != ph.Block() || i >= len(fl.Edges) {
						continue
					}
					if k := foldConst(fl.Edges[i], 0); k != nil && k.Kind() == constant.Bool && constant.BoolVal(k) != g.Truth {
						dead = true
					}
				}
				if dead {
					continue
				}
				pred := ph.Block().Preds[i]
				on := append(append([]an.Atom{}, p.GuardsOnEdge(pred, ph.Block())...), site...)
				out = append(out, taskPush{Site: in, Kind: kindOf(e, in), On: on})
			}
			return
		}
		// a task value filled in on several paths (a result variable of a spliced helper) and queued once: one push per
		// filling, under what held there
		if ks := kindsOf(val, in); len(ks) > 1 {
			for _, ka := range ks {
				on := append(append([]an.Atom{}, p.GuardsOf(ka.at)...), p.GuardsOf(in)...)
				out = append(out, taskPush{Site: in, Kind: ka.kind, On: on})
			}
			return
		}
		kind := kindOf(val, in)
		if kind == "?" {
			// the task in hand is queued again under a verdict merged from the kinds' own verdicts
			// (`done := run(task); if !done { push(task) }`): one push per way the verdict came out so, with the kind
			// the guards of that way name
			split := false
			for _, g := range p.GuardsOf(in) {
				fl, isFl := g.X.(*ssa.Phi)
				if g.Op != token.ILLEGAL || !isFl {
					continue
				}
				for i, e := range fl.Edges {
					if k := foldConst(e, 0); k != nil && k.Kind() == constant.Bool && constant.BoolVal(k) != g.Truth {
						continue
					}
					if i >= len(fl.Block().Preds) {
						continue
					}
					on := append(append([]an.Atom{}, p.GuardsOnEdge(fl.Block().Preds[i], fl.Block())...), p.GuardsOf(in)...)
					// what the value of the verdict on this way says, too (it is `!fin`, `err == nil`, …)
					if cond, isB := e.(ssa.Value); isB {
						if _, isK := e.(*ssa.Const); !isK {
							on = append(on, p.MkAtom(cond, g.Truth, nil))
						}
					}
					ek := "?"
					for _, a := range on {
						if a.Op != token.EQL || a.X == nil || a.Y == nil || !strings.HasSuffix(p.Desc(a.X), "taskType") {
							continue
						}
						if k := foldConst(a.Y, 0); k != nil {
							if kk, ok := kinds[k.ExactString()]; ok {
								ek = kk
							}
						}
					}
					if ek != "?" {
						out = append(out, taskPush{Site: in, Kind: ek, On: on})
						split = true
					}
				}
			}
			if split {
				return
			}
		}
		out = append(out, taskPush{Site: in, Kind: kind})
	})
	return out
}

// pushesOf: the pushes of taskPushes(f) of one kind ("" = any).
func pushesOf(c *report.Ctx, f *ssa.Function, kind string) []taskPush {
	var out []taskPush
	for _, tp := range taskPushes(c, f) {
		if kind == "" || tp.Kind == kind {
			out = append(out, tp)
		}
	}
	return out
}

// pushSites: their sites.
func pushSites(c *report.Ctx, f *ssa.Function, kind string) []ssa.Instruction {
	var out []ssa.Instruction
	for _, tp := range pushesOf(c, f, kind) {
		out = append(out, tp.Site)
	}
	return out
}

// ruleRollbackBeforeCursorMoves (C01, C12, C06): TxStore.Rollback works out which heights to unwind from the stored
// synced-to cursor; whoever moves the cursor back first turns it into a no-op that reports success.
func ruleRollbackBeforeCursorMoves(c *report.Ctx) {
	p := c.P
	c.Rule("rollback-before-cursor-moves", "TxStore.Rollback derives the heights it unwinds from the stored synced-to block (it reads SyncStore.SyncedTo): in every function that both rolls the transaction store back and moves the cursor (ResetSyncedTo / SetSyncedTo), no path moves the cursor first — a Rollback that finds the cursor already below the block does nothing and returns nil, the block's credits, debits and used-address marks stay although the wallet reports the new branch", 1)
	rb := fn(c, pkgTxmgr, "TxStore", "Rollback")
	synced := fn(c, pkgTxmgr, "SyncStore", "SyncedTo")
	reset := fn(c, pkgTxmgr, "SyncStore", "ResetSyncedTo")
	set := fn(c, pkgTxmgr, "SyncStore", "SetSyncedTo")
	if rb == nil || synced == nil || reset == nil {
		return
	}
	reached, _ := p.Reach([]*ssa.Function{rb}, an.ReachOpts{})
	if !reached[synced] {
		c.OK(sk(rb)+":cursor-independent", "Rollback no longer reads the synced-to cursor: the order is free", p.Pos(rb.Pos()))
		return
	}
	movers := an.Set(reset)
	if set != nil {
		movers[set] = true
	}
	n := 0
	for _, f := range p.ModFuncs {
		if !p.InModule(f) || f.Blocks == nil || f == rb {
			continue
		}
		rbs := calls(f, rb)
		if len(rbs) == 0 {
			continue
		}
		for i, r := range rbs {
			var mv []ssa.Instruction
			for m := range movers {
				mv = append(mv, calls(f, m)...)
			}
			if len(mv) == 0 {
				continue
			}
			n++
			key := siteKey(f, "Rollback~before-cursor", i+1)
			bad := false
			for _, m := range mv {
				s := &an.Search{P: p, Fn: f, GoalInstr: func(in ssa.Instruction) bool { return in == r }}
				// from just after the mover
				idx := 0
				for k, in := range m.Block().Instrs {
					if in == m {
						idx = k + 1
					}
				}
				if w := s.Run(m.Block(), idx, nil); w != nil {
					bad = true
					c.Fail(key, "the synced-to cursor is moved before the transaction store is rolled back: Rollback reads the cursor to find the heights to unwind, finds nothing above it and returns nil — the disconnected block's records stay", posOf(c, m), w...)
					break
				}
			}
			if !bad {
				c.OK(key, "the transaction store is rolled back while the cursor still stands on the block", posOf(c, r))
			}
		}
	}
	if n == 0 {
		c.Fail("rollback-before-cursor-moves:sites", "no function rolls the store back and moves the cursor (anchor lost)", "")
	}
}

// ruleHandleStateFollowsCommit (C11, C18): nothing a transaction does is remembered on the database handle.
func ruleHandleStateFollowsCommit(c *report.Ctx) {
	p := c.P
	c.Rule("handle-state-follows-commit", "code that runs inside a transaction (methods of ldb.transaction, levelBucket, levelIterator and what they reach inside the package) writes nothing into the database handle (*ldb.LevelDB): no field store, no map update, no Store/Delete/LoadOrStore/Swap on a field of it — what a transaction learned or did may be undone by Rollback or by a failed Commit, and the handle outlives both (a bucket 'seen' in a rolled-back transaction would stay visible to every later one)", 0)
	ldbT := p.Type(pkgLDB, "LevelDB")
	if ldbT == nil {
		c.Lost("ldb.LevelDB")
		return
	}
	inTx := func(f *ssa.Function) bool {
		if f.Signature.Recv() == nil {
			return false
		}
		n := an.NamedOf(f.Signature.Recv().Type())
		if n == nil {
			return false
		}
		switch n.Obj().Name() {
		case "transaction", "levelBucket", "levelIterator", "batchIterator":
			return n.Obj().Pkg() != nil && n.Obj().Pkg().Path() == pkgLDB
		}
		return false
	}
	var roots []*ssa.Function
	for _, f := range p.ModFuncs {
		if pk := an.FuncPkg(f); pk != nil && pk.Path() == pkgLDB && f.Blocks != nil && inTx(f) {
			roots = append(roots, f)
		}
	}
	reached, _ := p.Reach(roots, an.ReachOpts{})
	onHandle := func(addr ssa.Value) bool {
		for i := 0; i < 5; i++ {
			switch x := addr.(type) {
			case *ssa.FieldAddr:
				if n := an.NamedOf(x.X.Type()); n != nil && n.Obj() == ldbT.Obj() {
					return true
				}
				addr = x.X
			case *ssa.IndexAddr:
				addr = x.X
			case *ssa.UnOp:
				if x.Op != token.MUL {
					return false
				}
				addr = x.X
			default:
				return false
			}
		}
		return false
	}
	mutators := map[string]bool{"Store": true, "Delete": true, "LoadOrStore": true, "LoadAndDelete": true, "Swap": true, "CompareAndSwap": true, "CompareAndDelete": true, "Add": true, "Set": true, "Range": false}
	scanned := 0
	for f := range reached {
		if pk := an.FuncPkg(f); pk == nil || pk.Path() != pkgLDB || f.Blocks == nil {
			continue
		}
		scanned++
		k := 0
		an.Instrs(f, func(in ssa.Instruction) {
			what := ""
			switch x := in.(type) {
			case *ssa.Store:
				if onHandle(x.Addr) {
					what = "stores into " + p.Desc(x.Addr)
				}
			case *ssa.MapUpdate:
				if onHandle(x.Map) {
					what = "updates the map " + p.Desc(x.Map)
				}
			}
			if cc := an.CallOf(in); cc != nil && cc.StaticCallee() != nil && cc.StaticCallee().Signature.Recv() != nil && len(cc.Args) > 0 && mutators[cc.StaticCallee().Name()] {
				if pk := an.FuncPkg(cc.StaticCallee()); pk != nil && (pk.Path() == "sync" || pk.Path() == "sync/atomic") && onHandle(cc.Args[0]) {
					what = "calls " + cc.StaticCallee().Name() + " on " + p.Desc(cc.Args[0])
				}
			}
			if what == "" {
				return
			}
			k++
			c.Fail(siteKey(f, "handle-write", k), sk(f)+" runs inside a transaction and "+what+": the handle keeps it when the transaction is rolled back or its commit fails, and every later transaction on the handle sees it", posOf(c, in))
		})
	}
	if scanned < 10 {
		c.Fail("handle-state-follows-commit:coverage", "fewer than 10 functions of the LevelDB driver were found to run inside a transaction (anchor lost)", "")
	} else {
		c.OK("handle-state-follows-commit:coverage", itoa(scanned)+" functions that run inside a transaction write nothing into the handle", "")
	}
}

// ruleStatusRowsOneDecoder (C06, C08): every wallet status handed out by the sync store was decoded by the one decoder.
func ruleStatusRowsOneDecoder(c *report.Ctx) {
	p := c.P
	c.Rule("status-rows-one-decoder", "every WalletStatus record a reading method of SyncStore hands out (GetWalletStatus, GetAllWalletStatus, …) was filled by readWalletStatus — the one place that knows the row's layout, including the flag byte that marks a wallet as being removed: a listing that decodes rows by hand and leaves the flags out makes the worker's start-up scan (which rebuilds the lost task queue from the listing) skip an interrupted removal for ever", 2)
	ws := p.Type(pkgTxmgr, "WalletStatus")
	ss := p.Type(pkgTxmgr, "SyncStore")
	dec := fn(c, pkgTxmgr, "", "readWalletStatus")
	if ws == nil || ss == nil || dec == nil {
		return
	}
	handsOut := func(f *ssa.Function) bool {
		res := f.Signature.Results()
		for i := 0; i < res.Len(); i++ {
			t := res.At(i).Type()
			if sl, ok := t.Underlying().(*types.Slice); ok {
				t = sl.Elem()
			}
			if n := an.NamedOf(t); n != nil && n.Obj() == ws.Obj() {
				return true
			}
		}
		return false
	}
	for _, f := range p.ModFuncs {
		if pk := an.FuncPkg(f); pk == nil || pk.Path() != pkgTxmgr || f.Blocks == nil || f.Signature.Recv() == nil {
			continue
		}
		if n := an.NamedOf(f.Signature.Recv().Type()); n == nil || n.Obj() != ss.Obj() || !handsOut(f) {
			continue
		}
		decoded := map[ssa.Value]bool{}
		k := 0
		for _, s := range calls(f, dec) {
			a := an.CallOf(s).Args
			for i, q := range dec.Params {
				if n := an.NamedOf(q.Type()); n != nil && n.Obj() == ws.Obj() && i < len(a) {
					decoded[a[i]] = true
				}
			}
			// a decoder that hands the record back: the call is where the record is made
			res := dec.Signature.Results()
			for i := 0; i < res.Len(); i++ {
				if n := an.NamedOf(res.At(i).Type()); n != nil && n.Obj() == ws.Obj() {
					k++
					c.OK(siteKey(f, "record", k), "made and filled by readWalletStatus", posOf(c, s))
				}
			}
		}
		an.Instrs(f, func(in ssa.Instruction) {
			a, ok := in.(*ssa.Alloc)
			if !ok {
				return
			}
			if n := an.NamedOf(a.Type()); n == nil || n.Obj() != ws.Obj() {
				return
			}
			k++
			key := siteKey(f, "record", k)
			if decoded[a] {
				c.OK(key, "filled by readWalletStatus", posOf(c, in))
			} else {
				c.Fail(key, "a wallet status record is built in "+sk(f)+" without readWalletStatus: whatever the row layout carries beyond what is copied by hand (the removal flag) is lost for every caller of this method", posOf(c, in))
			}
		})
	}
}

// ruleStoredEntropyIsRaw (C13, C04, C05): what is kept as the wallet's entropy is the raw entropy.
func ruleStoredEntropyIsRaw(c *report.Ctx) {
	p := c.P
	c.Rule("stored-entropy-is-raw", "every value handed on as a wallet's entropy (an argument bound to a []byte parameter named entropy in the keystore package) comes from NewEntropy, EntropyFromMnemonic, a decryption of the stored entropy, the caller's own entropy parameter, or MnemonicToByteArray asked for the raw form: GetMnemonic and the keystore export turn the stored bytes back into the sentence with NewMnemonic, which refuses the checksummed form (17/21/25/29/33 bytes) — a wallet imported that way works until its backup is needed", 2)
	m2b := fn(c, pkgKeystore, "", "MnemonicToByteArray")
	n := 0
	for _, f := range p.ModFuncs {
		if pk := an.FuncPkg(f); pk == nil || pk.Path() != pkgKeystore || f.Blocks == nil {
			continue
		}
		k := 0
		an.Instrs(f, func(in ssa.Instruction) {
			cc := an.CallOf(in)
			if cc == nil || cc.StaticCallee() == nil || !p.InModule(cc.StaticCallee()) {
				return
			}
			cal := cc.StaticCallee()
			off := 0
			if cal.Signature.Recv() != nil {
				off = 1
			}
			for i := 0; i < cal.Signature.Params().Len(); i++ {
				pv := cal.Signature.Params().At(i)
				if pv.Name() != "entropy" || i+off >= len(cc.Args) {
					continue
				}
				if sl, ok := pv.Type().Underlying().(*types.Slice); !ok || !types.Identical(sl.Elem(), types.Typ[types.Byte]) {
					continue
				}
				k++
				n++
				key := siteKey(f, "entropy->"+nm(cal), k)
				bad := ""
				for _, o := range callOrigins(p, cc.Args[i+off]) {
					switch {
					case strings.HasSuffix(o, "NewEntropy"), strings.HasSuffix(o, "EntropyFromMnemonic"), strings.Contains(o, "Decrypt"), strings.HasSuffix(o, "secretbox.Open"), strings.HasPrefix(o, "param:entropy@"):
					case strings.HasSuffix(o, "MnemonicToByteArray"):
						// only when asked for the raw form
						raw := false
						if m2b != nil {
							for _, s := range calls(f, m2b) {
								if a := an.CallOf(s).Args; len(a) == 2 {
									if sl, ok := a[1].(*ssa.Slice); ok {
										if arr, ok := sl.X.(*ssa.Alloc); ok && arr.Referrers() != nil {
											for _, r := range *arr.Referrers() {
												if ia, ok := r.(*ssa.IndexAddr); ok && ia.Referrers() != nil {
													for _, rr := range *ia.Referrers() {
														if st, ok := rr.(*ssa.Store); ok {
															if kv := foldConst(st.Val, 0); kv != nil && kv.ExactString() == "true" {
																raw = true
															}
														}
													}
												}
											}
										}
									}
								}
							}
						}
						if !raw {
							bad = "MnemonicToByteArray without raw=true (the checksummed form)"
						}
					case o == "fresh":
						bad = "a buffer computed on the spot (e.g. MnemonicToByteArray's checksummed form)"
					default:
						bad = o
					}
				}
				if bad == "" {
					c.OK(key, "raw entropy", posOf(c, in))
				} else {
					c.Fail(key, "the bytes kept as the wallet's entropy come from "+bad+": the mnemonic can no longer be read back and an exported keystore of this wallet cannot be imported (NewMnemonic refuses the length)", posOf(c, in))
				}
			}
		})
	}
	_ = n
}

// ruleSpenderReferenceIsTheInput (C08, C01): the spender a spent credit remembers is (spending tx, position of the input).
func ruleSpenderReferenceIsTheInput(c *report.Ctx) {
	p := c.P
	c.Rule("spender-reference-is-the-input", "the reference spendCredit stores in a spent credit names the spending transaction and the position of the spending INPUT in it (RelevantMeta.Index of the relevant input) — the key its debit row was written under: wallet removal reads the reference back to delete that debit, so a reference built from the spent outpoint's output index deletes another wallet's debit (or none) and the next rollback of that block fails for everybody", 1)
	spend := fn(c, pkgTxmgr, "", "spendCredit")
	if spend == nil {
		return
	}
	n := 0
	for _, f := range p.ModFuncs {
		if pk := an.FuncPkg(f); pk == nil || pk.Path() != pkgTxmgr || f.Blocks == nil {
			continue
		}
		for i, s := range calls(f, spend) {
			a := an.CallOf(s).Args
			if len(a) < 3 {
				continue
			}
			rec, ok := a[2].(*ssa.Alloc)
			if !ok || rec.Referrers() == nil {
				continue
			}
			for _, r := range *rec.Referrers() {
				fa, ok := r.(*ssa.FieldAddr)
				if !ok || an.FName(derefStructT(fa.X.Type()), fa.Field) != "index" || fa.Referrers() == nil {
					continue
				}
				for _, rr := range *fa.Referrers() {
					st, ok := rr.(*ssa.Store)
					if !ok || st.Addr != ssa.Value(fa) {
						continue
					}
					n++
					key := siteKey(f, "spender.index", i+1)
					d := p.Desc(st.Val)
					if strings.Contains(d, "RelevantMeta.Index") && !strings.Contains(d, "OutPoint") {
						c.OK(key, "the position of the relevant input", posOf(c, st))
					} else {
						c.Fail(key, "the spender reference is indexed by "+d+", not by the position of the spending input: removal of the wallet deletes the debit stored under another input's key", posOf(c, st))
					}
				}
			}
		}
	}
	if n == 0 {
		c.Fail("spender-reference-is-the-input:sites", "no spender reference is built for spendCredit (anchor lost)", "")
	}
}

// ruleRemovalRoundProgress (C20): a removal round that does not finish has deleted something.
func ruleRemovalRoundProgress(c *report.Ctx) {
	p := c.P
	c.Rule("removal-round-progress", "removeRelevantCredit reports 'not finished' (a round cut short) only at a credit of the wallet being removed — under the script-hash test: the worker repeats the round from the first key until it reports finished, so a cut at foreign credits (a limit on entries visited) repeats the same fruitless round for ever, the follower is parked each time and queued tasks never start", 1)
	rrc := fn(c, pkgTxmgr, "UtxoStore", "removeRelevantCredit")
	if rrc == nil {
		return
	}
	n, bad := 0, 0
	// the verdict as a merged value at the success return
	for _, b := range rrc.Blocks {
		r, isRet := b.Instrs[len(b.Instrs)-1].(*ssa.Return)
		if !isRet || len(r.Results) != 3 || p.ClassifyReturn(r, nil) == an.RetError {
			continue
		}
		seen := map[*ssa.Phi]bool{}
		var walk func(ph *ssa.Phi)
		walk = func(ph *ssa.Phi) {
			if seen[ph] {
				return
			}
			seen[ph] = true
			for i, e := range ph.Edges {
				switch x := e.(type) {
				case *ssa.Phi:
					walk(x)
				case *ssa.Const:
					if x.Value != nil && x.Value.ExactString() == "false" && i < len(ph.Block().Preds) {
						n++
						if !ownCreditGuard(p, rrc, p.GuardsOnEdge(ph.Block().Preds[i], ph.Block())) {
							bad++
						}
					}
				}
			}
		}
		if ph, isPhi := an.RetOperand(r, 1).(*ssa.Phi); isPhi {
			walk(ph)
		}
	}
	// the verdict as a variable (shared with a scanning literal)
	verdict := map[*ssa.Alloc]bool{}
	for _, b := range rrc.Blocks {
		r, isRet := b.Instrs[len(b.Instrs)-1].(*ssa.Return)
		if !isRet || len(r.Results) != 3 {
			continue
		}
		if ld, isLd := an.RetOperand(r, 1).(*ssa.UnOp); isLd && ld.Op == token.MUL {
			if a := rootCell(ld.X); a != nil {
				verdict[a] = true
			}
		}
	}
	for _, g := range withLiterals(rrc) {
		an.Instrs(g, func(in ssa.Instruction) {
			st, ok := in.(*ssa.Store)
			if !ok {
				return
			}
			if b, isB := st.Val.Type().Underlying().(*types.Basic); !isB || b.Kind() != types.Bool {
				return
			}
			if a := rootCell(st.Addr); a == nil || !verdict[a] {
				return
			}
			if k := foldConst(st.Val, 0); k != nil && k.ExactString() == "false" {
				// `return nil, false, err` spilled into the result variables is not a verdict
				if r, isRet := in.Block().Instrs[len(in.Block().Instrs)-1].(*ssa.Return); isRet && p.ClassifyReturn(r, nil) == an.RetError {
					return
				}
				n++
				if !ownCreditGuard(p, rrc, p.GuardsOf(in)) {
					bad++
				}
			}
		})
	}
	key := sk(rrc) + ":round-cut-only-at-own-credit"
	switch {
	case n == 0:
		c.Fail(key, "removeRelevantCredit never reports 'not finished' (anchor lost)", p.Pos(rrc.Pos()))
	case bad > 0:
		c.Fail(key, "a removal round can be cut short at a credit that is not the removed wallet's: beside a wallet with more credits than the limit every round deletes nothing and the removal never finishes", p.Pos(rrc.Pos()))
	default:
		c.OK(key, "cut short only under the script-hash test", p.Pos(rrc.Pos()))
	}
}

// ruleReloadedPathFromRowKey (C04, C14): an address loaded from the database carries the branch its row key names.
func ruleReloadedPathFromRowKey(c *report.Ctx) {
	p := c.P
	c.Rule("reloaded-path-from-row-key", "loadAddrManager gives every address it rebuilds from the public-key bucket the branch AND the index decoded from that row's key: signing re-derives the private key from the recorded path, so a change (internal-branch) address reloaded onto the external branch signs with the wrong key — silently, after the first restart", 1)
	f := fn(c, pkgKeystore, "", "loadAddrManager")
	dp := p.Type(pkgKeystore, "DerivationPath")
	if f == nil || dp == nil {
		return
	}
	n := 0
	for _, g := range withLiterals(f) {
		an.Instrs(g, func(in ssa.Instruction) {
			a, ok := in.(*ssa.Alloc)
			if !ok {
				return
			}
			if nn := an.NamedOf(a.Type()); nn == nil || nn.Obj() != dp.Obj() || a.Referrers() == nil {
				return
			}
			got := map[string]string{}
			whole := ""
			for _, r := range *a.Referrers() {
				switch x := r.(type) {
				case *ssa.FieldAddr:
					name := an.FName(derefStructT(x.X.Type()), x.Field)
					if x.Referrers() == nil {
						continue
					}
					for _, rr := range *x.Referrers() {
						if st, isSt := rr.(*ssa.Store); isSt && st.Addr == ssa.Value(x) {
							got[name] = p.Desc(st.Val)
						}
					}
				case *ssa.Store:
					if x.Addr == ssa.Value(a) {
						whole = p.Desc(x.Val)
					}
				}
			}
			if len(got) == 0 && whole == "" {
				return
			}
			n++
			key := siteKey(g, "path", n)
			fromKey := func(d, field string) bool { return strings.Contains(d, "."+field) && !strings.Contains(d, "global:") }
			if fromKey(got["Branch"], "branch") && fromKey(got["Index"], "index") {
				c.OK(key, "branch and index of the row key", posOf(c, in))
			} else {
				c.Fail(key, "the derivation path of a reloaded address takes its branch from "+firstNonEmpty(got["Branch"], whole, "nothing (zero)")+" and its index from "+firstNonEmpty(got["Index"], whole, "nothing (zero)")+", not both from the decoded row key: after a restart an internal-branch address is re-derived on another branch and signs with the wrong key", posOf(c, in))
			}
		})
	}
	if n == 0 {
		c.Fail(sk(f)+":path", "loadAddrManager builds no derivation path (anchor lost)", p.Pos(f.Pos()))
	}
}

func firstNonEmpty(s ...string) string {
	for _, x := range s {
		if x != "" {
			return x
		}
	}
	return ""
}

// ruleUnlockFlagFollowsHash (C03, C05): the unlocked flag and the cached passphrase hash change together.
func ruleUnlockFlagFollowsHash(c *report.Ctx) {
	p := c.P
	c.Rule("unlock-flag-follows-hash", "AddrManager.unlocked and AddrManager.hashedPrivPassphrase change together: a function that wipes the cached salted hash also clears the flag, one that fills it also sets the flag — checkPassword's fast path for an unlocked manager compares the candidate with the cached hash, so a wipe that leaves the flag set (a passphrase check that tidies up while a signer holds the manager unlocked) makes the right passphrase fail for the signer's next input", 2)
	am := p.Type(pkgKeystore, "AddrManager")
	if am == nil {
		return
	}
	n := 0
	for _, f := range p.ModFuncs {
		if pk := an.FuncPkg(f); pk == nil || pk.Path() != pkgKeystore || f.Blocks == nil {
			continue
		}
		var wipes, fills []ssa.Instruction
		an.Instrs(f, func(in ssa.Instruction) {
			if st, ok := in.(*ssa.Store); ok && addrRootsAtField(st.Addr, am, "hashedPrivPassphrase") {
				fills = append(fills, in)
			}
			if cc := an.CallOf(in); cc != nil && cc.StaticCallee() != nil && len(cc.Args) > 0 {
				if pk := an.FuncPkg(cc.StaticCallee()); pk != nil && strings.HasSuffix(pk.Path(), "/zero") && addrRootsAtField(cc.Args[0], am, "hashedPrivPassphrase") {
					wipes = append(wipes, in)
				}
			}
		})
		if len(wipes)+len(fills) == 0 {
			continue
		}
		flag := map[string]bool{}
		for _, s := range fieldStores(f, am, "unlocked") {
			if k := foldConst(s.(*ssa.Store).Val, 0); k != nil {
				flag[k.ExactString()] = true
			}
		}
		for i, w := range wipes {
			n++
			key := siteKey(f, "wipe-hash", i+1)
			if flag["false"] {
				c.OK(key, "the flag is cleared in the same function", posOf(c, w))
			} else {
				c.Fail(key, sk(f)+" wipes the cached passphrase hash but leaves AddrManager.unlocked as it is: while a signer holds the manager unlocked the next passphrase check compares with zeroes and refuses the right passphrase", posOf(c, w))
			}
		}
		for i, w := range fills {
			n++
			key := siteKey(f, "fill-hash", i+1)
			if flag["true"] {
				c.OK(key, "the flag is set in the same function", posOf(c, w))
			} else {
				c.Fail(key, sk(f)+" fills the cached passphrase hash without setting AddrManager.unlocked", posOf(c, w))
			}
		}
	}
	_ = n
}

// ruleChainFetcherHasNoMemory (C07, C12): the wallet's view of the chain is the chain database, asked every time.
func ruleChainFetcherHasNoMemory(c *report.Ctx) {
	p := c.P
	c.Rule("chain-fetcher-has-no-memory", "the methods of ifc.chainFetcher keep nothing between calls: they store into no field of the fetcher, update or look up no map held in it and call no Store/LoadOrStore/Delete on a field of it — 'was this script hash ever paid' is answered by the chain database as it is now; an answer remembered from before a reorganisation (a cache of positive answers) keeps the gap window open and lets the wallet issue addresses a restore will never find", 5)
	cf := p.Type(pkgIfc, "chainFetcher")
	if cf == nil {
		c.Lost("ifc.chainFetcher")
		return
	}
	onFetcher := func(f *ssa.Function, addr ssa.Value) bool {
		for i := 0; i < 6; i++ {
			switch x := addr.(type) {
			case *ssa.FieldAddr:
				if n := an.NamedOf(x.X.Type()); n != nil && n.Obj() == cf.Obj() {
					return true
				}
				addr = x.X
			case *ssa.IndexAddr:
				addr = x.X
			case *ssa.UnOp:
				if x.Op != token.MUL {
					return false
				}
				addr = x.X
			default:
				return false
			}
		}
		return false
	}
	mutators := map[string]bool{"Store": true, "Delete": true, "LoadOrStore": true, "LoadAndDelete": true, "Swap": true, "CompareAndSwap": true, "Load": true, "Range": true}
	for _, f := range p.ModFuncs {
		if pk := an.FuncPkg(f); pk == nil || pk.Path() != pkgIfc || f.Blocks == nil || f.Signature.Recv() == nil {
			continue
		}
		if n := an.NamedOf(f.Signature.Recv().Type()); n == nil || n.Obj() != cf.Obj() {
			continue
		}
		what := ""
		var at ssa.Instruction
		for _, g := range withLiterals(f) {
			an.Instrs(g, func(in ssa.Instruction) {
				switch x := in.(type) {
				case *ssa.Store:
					if onFetcher(g, x.Addr) {
						what, at = "stores into "+p.Desc(x.Addr), in
					}
				case *ssa.MapUpdate:
					if onFetcher(g, x.Map) {
						what, at = "updates the map "+p.Desc(x.Map), in
					}
				case *ssa.Lookup:
					if _, isMap := x.X.Type().Underlying().(*types.Map); isMap && onFetcher(g, x.X) {
						what, at = "answers from the map "+p.Desc(x.X), in
					}
				}
				if cc := an.CallOf(in); cc != nil && cc.StaticCallee() != nil && cc.StaticCallee().Signature.Recv() != nil && len(cc.Args) > 0 && mutators[cc.StaticCallee().Name()] {
					if pk := an.FuncPkg(cc.StaticCallee()); pk != nil && (pk.Path() == "sync" || pk.Path() == "sync/atomic") && onFetcher(g, cc.Args[0]) {
						what, at = "calls "+cc.StaticCallee().Name()+" on "+p.Desc(cc.Args[0]), in
					}
				}
			})
		}
		key := sk(f) + ":stateless"
		if what == "" {
			c.OK(key, "asks the chain database and keeps nothing", p.Pos(f.Pos()))
		} else {
			c.Fail(key, sk(f)+" "+what+": an answer given before a reorganisation is given again after it", posOf(c, at))
		}
	}
}

// ruleParkedHandlerOnlyWaits (C17, C07, C20): while a background task holds it, the follower does nothing but wait.
func ruleParkedHandlerOnlyWaits(c *report.Ctx) {
	p := c.P
	c.Rule("parked-handler-only-waits", "the select in which the follower waits to be resumed has exactly two ways out — sigResume and quit: asyncImport and asyncRemove read NtfnsHandler.bestBlock and write expiredMempool without memMtx and rely on the follower being parked; a parked follower that keeps connecting blocks (a third case on queueBlock) moves the tip under the task's feet, and an import that reaches the old tip marks the wallet ready without the new block", 1)
	nh := p.Type(pkgWallet, "NtfnsHandler")
	h := fn(c, pkgWallet, "", "handle")
	if nh == nil || h == nil {
		return
	}
	chanOf := func(v ssa.Value) string {
		ld, ok := v.(*ssa.UnOp)
		if !ok || ld.Op != token.MUL {
			return "?"
		}
		fa, ok := ld.X.(*ssa.FieldAddr)
		if !ok {
			return "?"
		}
		if n := an.NamedOf(fa.X.Type()); n == nil || n.Obj() != nh.Obj() {
			return "?"
		}
		return an.FName(derefStructT(fa.X.Type()), fa.Field)
	}
	n := 0
	for _, g := range append(withLiterals(h), reachIn(p, h, pkgWallet)...) {
		an.Instrs(g, func(in ssa.Instruction) {
			sel, ok := in.(*ssa.Select)
			if !ok {
				return
			}
			var names []string
			waits := false
			for _, st := range sel.States {
				nm := chanOf(st.Chan)
				if st.Dir == types.RecvOnly && nm == "sigResume" {
					waits = true
				}
				names = append(names, nm)
			}
			if !waits {
				return
			}
			n++
			key := siteKey(g, "parked-select", n)
			bad := ""
			for _, nm := range names {
				if nm != "sigResume" && nm != "quit" {
					bad = nm
				}
			}
			if bad == "" && sel.Blocking {
				c.OK(key, "waits for sigResume or quit only", posOf(c, in))
			} else if bad == "" {
				c.Fail(key, "the parked follower polls instead of waiting (a default case): it falls through into block processing while the task still runs", posOf(c, in))
			} else {
				c.Fail(key, "the parked follower also serves "+bad+": it goes on connecting blocks (or transactions) while a background task reads the tip and the expiry map without the lock", posOf(c, in))
			}
		})
	}
	if n == 0 {
		c.Fail(sk(h)+":parked-select", "the follower no longer waits for sigResume in a select (anchor lost)", p.Pos(h.Pos()))
	}
}

// ruleDigitsTrimmedOnlyByConverters (C15): only the converters decide which zeros of an amount are insignificant.
func ruleDigitsTrimmedOnlyByConverters(c *report.Ctx) {
	p := c.P
	c.Rule("digits-trimmed-only-by-converters", "strings.Trim / TrimLeft / TrimRight with a cutset that contains a digit occurs only inside the amount converters (api.StringToAmount, api.AmountToString, masswallet.AmountToString), which cut the numeral at the decimal point first: anywhere else in the API, the wallet or the CLI a zero of an amount text cannot be told from a significant one (\"640 MASS\" → \"64\"), and the text is parsed into a tenth of the amount", 1)
	conv := map[*ssa.Function]bool{}
	for _, spec := range [][2]string{{pkgAPI, "StringToAmount"}, {pkgAPI, "AmountToString"}, {pkgWallet, "AmountToString"}} {
		if f := fnOpt(c, spec[0], "", spec[1]); f != nil {
			conv[f] = true
		}
	}
	inside, outside := 0, 0
	for _, f := range p.ModFuncs {
		pk := an.FuncPkg(f)
		if pk == nil || f.Blocks == nil {
			continue
		}
		path := pk.Path()
		if !(path == pkgAPI || strings.HasPrefix(path, pkgWallet) || strings.Contains(path, "/cmd/masswalletcli")) {
			continue
		}
		owner := f
		for owner.Parent() != nil {
			owner = owner.Parent()
		}
		k := 0
		an.Instrs(f, func(in ssa.Instruction) {
			cc := an.CallOf(in)
			if cc == nil || cc.StaticCallee() == nil || len(cc.Args) != 2 {
				return
			}
			switch an.CanonKeyOf(cc.StaticCallee()) {
			case "strings.Trim", "strings.TrimLeft", "strings.TrimRight":
			default:
				return
			}
			cut := foldConst(cc.Args[1], 0)
			if cut == nil || cut.Kind() != constant.String || !strings.ContainsAny(constant.StringVal(cut), "0123456789") {
				return
			}
			if conv[owner] {
				inside++
				return
			}
			// the converters' own helpers (called from a converter only) count as inside
			callers := p.Callers(owner)
			all := len(callers) > 0
			for _, cl := range callers {
				o2 := cl.From
				for o2.Parent() != nil {
					o2 = o2.Parent()
				}
				if !conv[o2] {
					all = false
				}
			}
			if all {
				inside++
				return
			}
			outside++
			k++
			c.Fail(siteKey(f, "digit-trim", k), sk(f)+" trims digits ("+cut.ExactString()+") off a text outside the amount converters: whether a zero is significant depends on where the decimal point is, which only the converters look at", posOf(c, in))
		})
	}
	if inside < 2 {
		c.Fail("digits-trimmed-only-by-converters:converters", "the converters no longer trim insignificant zeros themselves (anchor lost)", "")
	} else if outside == 0 {
		c.OK("digits-trimmed-only-by-converters:converters", itoa(inside)+" digit trims, all inside the converters", "")
	}
}

// ruleFilterSiblingsAgreeOnFlags (C07): the live filter and the import filter judge a transaction the same way.
func ruleFilterSiblingsAgreeOnFlags(c *report.Ctx) {
	p := c.P
	c.Rule("filter-siblings-agree-on-flags", "filterTx (live blocks and relayed transactions) and filterTxForImporting (the rescan of a restored wallet) set TxRecord.HasBindingIn / HasBindingOut by the same recipe — the flags feed the ErrBothBinding guard, so a rescan that accumulates them where the live path lets the last relevant input/output decide refuses a transaction the original wallet accepted, and the restore never finishes", 2)
	rec := p.Type(pkgTxmgr, "TxRecord")
	live := fn(c, pkgWallet, "NtfnsHandler", "filterTx")
	imp := fn(c, pkgWallet, "NtfnsHandler", "filterTxForImporting")
	if rec == nil || live == nil || imp == nil {
		return
	}
	recipe := func(f *ssa.Function, field string) string {
		var kinds []string
		for _, g := range withLiterals(f) {
			for _, s := range fieldStores(g, rec, field) {
				st := s.(*ssa.Store)
				kind := "assign"
				// `x.F = x.F || e` lowers to a phi with a constant-true edge (or an OR of a load of the same field)
				var reads func(v ssa.Value, d int) bool
				reads = func(v ssa.Value, d int) bool {
					if d > 4 {
						return false
					}
					switch x := v.(type) {
					case *ssa.UnOp:
						return x.Op == token.MUL && addrRootsAtField(x.X, rec, field)
					case *ssa.Phi:
						for _, e := range x.Edges {
							if reads(e, d+1) {
								return true
							}
						}
					case *ssa.BinOp:
						return reads(x.X, d+1) || reads(x.Y, d+1)
					}
					return false
				}
				if ph, ok := st.Val.(*ssa.Phi); ok {
					// short-circuit materialisation: phi(true | e) guarded by a load of the field
					for _, pr := range ph.Block().Preds {
						for _, a := range p.Guards(pr) {
							if a.X != nil && reads(a.X, 0) {
								kind = "accumulate"
							}
						}
						if len(pr.Instrs) > 0 {
							if ifi, isIf := pr.Instrs[len(pr.Instrs)-1].(*ssa.If); isIf && reads(ifi.Cond, 0) {
								kind = "accumulate"
							}
						}
					}
				}
				if reads(st.Val, 0) {
					kind = "accumulate"
				}
				kinds = append(kinds, kind)
			}
		}
		return strings.Join(uniq(kinds), "+")
	}
	for _, field := range []string{"HasBindingIn", "HasBindingOut"} {
		a, b := recipe(live, field), recipe(imp, field)
		key := "filterTx~filterTxForImporting:" + field
		switch {
		case a == "" || b == "":
			c.Fail(key, "one of the two filters no longer sets TxRecord."+field+" (anchor lost)", p.Pos(imp.Pos()))
		case a == b:
			c.OK(key, "both "+a, p.Pos(imp.Pos()))
		default:
			c.Fail(key, "filterTx sets TxRecord."+field+" by '"+a+"', filterTxForImporting by '"+b+"': the rescan of a restored wallet judges a transaction (ErrBothBinding) differently from the wallet that received it live, and an import that hits such a transaction is rolled back and retried for ever", p.Pos(imp.Pos()))
		}
	}
}

// ruleBlockRecordKeepsOrder (C01, C08): removing a wallet's transactions from a block record keeps the others in order.
func ruleBlockRecordKeepsOrder(c *report.Ctx) {
	p := c.P
	c.Rule("block-record-keeps-order", "checkBlockRecordAfterTxRemoved rewrites a block record from the surviving hashes in their stored order — it never stores into an element of the list it filters (the swap-with-last idiom): the record's order is block order, which Rollback walks backwards so that a spender is undone before the transaction that funded it; a reordered record makes the next reorganisation across that block fail for every remaining wallet", 1)
	f := fn(c, pkgTxmgr, "TxStore", "checkBlockRecordAfterTxRemoved")
	br := p.Type(pkgTxmgr, "blockRecord")
	if f == nil {
		return
	}
	bad := false
	n := 0
	for _, g := range withLiterals(f) {
		an.Instrs(g, func(in ssa.Instruction) {
			st, ok := in.(*ssa.Store)
			if !ok {
				return
			}
			ia, ok := st.Addr.(*ssa.IndexAddr)
			if !ok {
				return
			}
			// an element of a []wire.Hash that was read from the record (not a fresh slice being appended to)
			sl, ok := ia.X.Type().Underlying().(*types.Slice)
			if !ok || !strings.HasSuffix(sl.Elem().String(), "wire.Hash") {
				return
			}
			d := p.Desc(ia.X)
			if br != nil && (strings.Contains(d, "blockRecord.transactions") || strings.Contains(d, "transactions")) {
				n++
				bad = true
				c.Fail(siteKey(g, "element-store", n), "an element of the block record's transaction list is overwritten in place ("+d+"): the surviving hashes lose their block order, and Rollback — which relies on it — fails with 'unexpected unspend non-existence credit' at the next reorganisation across this block", posOf(c, in))
			}
		})
	}
	if !bad {
		c.OK(sk(f)+":order", "the list is rebuilt by appending the survivors", p.Pos(f.Pos()))
	}
}

// ruleElementMapsAreMade (C19): a map stored as an element of the expiry map is a made map.
func ruleElementMapsAreMade(c *report.Ctx) {
	p := c.P
	c.Rule("element-maps-are-made", "every map stored as an element of a map of maps that reaches NtfnsHandler.expiredMempool (the follower's per-height sets of confirmed transactions, handed from filterBlock through processConnectedBlock) is a made map, never a possibly-nil variable: asyncImport adds hashes to the element it finds (`m, ok := expired[h]; if !ok { make }; m[hash] = …`), and a nil element that IS present makes that write panic in the worker goroutine, whose recovery only logs — no import or removal runs again until restart", 1)
	n := 0
	for _, f := range p.ModFuncs {
		if pk := an.FuncPkg(f); pk == nil || pk.Path() != pkgWallet || f.Blocks == nil {
			continue
		}
		k := 0
		an.Instrs(f, func(in ssa.Instruction) {
			mu, ok := in.(*ssa.MapUpdate)
			if !ok {
				return
			}
			mt, ok := mu.Map.Type().Underlying().(*types.Map)
			if !ok {
				return
			}
			inner, ok := mt.Elem().Underlying().(*types.Map)
			if !ok || !strings.HasSuffix(inner.Key().String(), "wire.Hash") {
				return
			}
			if b, isB := mt.Key().Underlying().(*types.Basic); !isB || b.Kind() != types.Uint64 {
				return
			}
			n++
			k++
			key := siteKey(f, "element", k)
			// made here, or an element taken out of such a map of maps (made where it was stored), on every way
			var made func(v ssa.Value, d int) bool
			made = func(v ssa.Value, d int) bool {
				if d > 5 {
					return false
				}
				v = an.ResolveCell(v)
				switch x := v.(type) {
				case *ssa.MakeMap:
					return true
				case *ssa.Phi:
					for i, e := range x.Edges {
						if errorWayEdge(p, x, i) {
							continue // the nil of a helper's error return merged in: the caller leaves on the error
						}
						if !made(e, d+1) {
							return false
						}
					}
					return len(x.Edges) > 0
				case *ssa.Extract:
					switch t := x.Tuple.(type) {
					case *ssa.Next:
						return x.Index == 2
					case *ssa.Lookup:
						_, isMM := t.X.Type().Underlying().(*types.Map)
						return isMM && x.Index == 0
					}
				case *ssa.Lookup:
					_, isMM := x.X.Type().Underlying().(*types.Map)
					return isMM
				}
				return p.ValState(v, in.Block(), nil) == an.NonNil
			}
			if made(mu.Value, 0) {
				c.OK(key, "a made map (or an element that was stored as one)", posOf(c, in))
				return
			}
			c.Fail(key, "the per-height set stored here ("+p.Desc(mu.Value)+") can be nil (allocated lazily): the entry is present, so a later writer that finds it skips its own make and assigns into a nil map — panic in the worker goroutine", posOf(c, in))
		})
	}
	if n == 0 {
		c.Fail("element-maps-are-made:sites", "no per-height set is stored any more (anchor lost)", "")
	}
}

// ruleAccountBucketCreatedExclusively (C18): a keystore's bucket is created with the call that refuses an existing one.
func ruleAccountBucketCreatedExclusively(c *report.Ctx) {
	p := c.P
	c.Rule("account-bucket-created-exclusively", "createManagerKeyScope creates the account bucket with Bucket.NewBucket — which fails with ErrBucketExist — not with a get-or-create: the duplicate-seed lookup just above discards its read error, so NewBucket's refusal is what keeps an import of a wallet that is already present from re-initialising it (status reset to importing, balance row zeroed, keys rewritten) when that one read fails", 1)
	f := fn(c, pkgKeystore, "", "createManagerKeyScope")
	if f == nil {
		return
	}
	excl, goc := 0, 0
	var at ssa.Instruction
	an.Instrs(f, func(in ssa.Instruction) {
		cc := an.CallOf(in)
		if cc == nil {
			return
		}
		name := ""
		if cc.IsInvoke() {
			name = cc.Method.Name()
		} else if cal := cc.StaticCallee(); cal != nil {
			name = cal.Name()
		}
		// on the keystore manager's bucket handed in (the first parameter)
		onKM := func(v ssa.Value) bool { return len(f.Params) > 0 && an.ResolveCell(v) == ssa.Value(f.Params[0]) }
		switch name {
		case "NewBucket":
			if cc.IsInvoke() && onKM(cc.Value) {
				excl++
			}
		case "GetOrCreateBucket":
			// (the fixed index bucket, named by a constant, may be opened that way; the wallet's own bucket may not)
			if len(cc.Args) > 1 && onKM(cc.Args[0]) && foldConst(cc.Args[1], 0) == nil {
				goc++
				at = in
			}
		}
	})
	key := sk(f) + ":account-bucket"
	switch {
	case goc > 0:
		c.Fail(key, "the account bucket is opened with GetOrCreateBucket: an import whose duplicate lookup could not be answered goes on into the existing wallet's bucket and re-initialises a live wallet", posOf(c, at))
	case excl == 0:
		c.Fail(key, "createManagerKeyScope no longer creates the account bucket with NewBucket (anchor lost)", p.Pos(f.Pos()))
	default:
		c.OK(key, "NewBucket(accountID): an existing wallet is refused", p.Pos(f.Pos()))
	}
}

// ruleRemovalAnswersOnlyAfterPassphrase (C05, C08): RemoveWallet says yes only to the wallet's passphrase.
func ruleRemovalAnswersOnlyAfterPassphrase(c *report.Ctx) {
	p := c.P
	c.Rule("removal-answers-only-after-passphrase", "every success return of WalletManager.RemoveWallet lies behind a successful KeystoreManager.CheckPrivPassphrase for the wallet id it was given: no state of the wallet (already flagged for removal, worker busy, …) lets the request be answered 'ok' before the passphrase was verified — a removal request is refused with a passphrase error for every wrong passphrase, before and after restarts", 1)
	rw := fn(c, pkgWallet, "WalletManager", "RemoveWallet")
	chk := fn(c, pkgKeystore, "KeystoreManager", "CheckPrivPassphrase")
	if rw == nil || chk == nil {
		return
	}
	okBlocks := map[*ssa.BasicBlock]bool{}
	for _, s := range calls(rw, chk) {
		if v, ok := s.(ssa.Value); ok {
			for _, b := range p.SuccessBlocks(v) {
				okBlocks[b] = true
			}
		}
	}
	key := sk(rw) + ":success=>passphrase"
	if len(okBlocks) == 0 {
		c.Fail(key, "RemoveWallet no longer branches on CheckPrivPassphrase (anchor lost)", p.Pos(rw.Pos()))
		return
	}
	s := &an.Search{P: p, Fn: rw,
		CutEdge:    func(from, to *ssa.BasicBlock) bool { return okBlocks[to] },
		GoalReturn: func(r *ssa.Return, pred *ssa.BasicBlock) bool { return p.ClassifyReturn(r, pred) != an.RetError }}
	if w := s.Run(rw.Blocks[0], 0, nil); w != nil {
		c.Fail(key, "RemoveWallet can answer 'ok' on a path that never verified the passphrase: any caller — with any passphrase — is told the removal was accepted", p.Pos(rw.Pos()), w...)
	} else {
		c.OK(key, "every success return lies behind CheckPrivPassphrase's success", p.Pos(rw.Pos()))
	}
}

// errorWayEdge: edge i of the merged result ph belongs to a way on which the sibling error result (a phi of error type
// in the same block) is known non-nil — a way the caller leaves on the error before it uses ph.
func errorWayEdge(p *an.Prog, ph *ssa.Phi, i int) bool {
	if i >= len(ph.Block().Preds) {
		return false
	}
	for _, in := range ph.Block().Instrs {
		e, ok := in.(*ssa.Phi)
		if !ok {
			break
		}
		if e == ph || !an.IsErrorType(e.Type()) || len(e.Edges) != len(ph.Edges) {
			continue
		}
		if p.ValState(e.Edges[i], ph.Block().Preds[i], nil) == an.NonNil {
			return true
		}
	}
	return false
}

// everyIterationAppends: in f, every iteration of the loop that ranges over a value whose description contains over
// passes an append to a slice whose element type's name ends in elem, or leaves the function with an error.
// Returns (found the loop, holds, witness).
func everyIterationAppends(p *an.Prog, f *ssa.Function, over, elem string) (bool, bool, []string) {
	return everyIterationPasses(p, f, over, func(in ssa.Instruction) bool {
		cc := an.CallOf(in)
		if cc == nil {
			return false
		}
		b, ok := cc.Value.(*ssa.Builtin)
		if !ok || b.Name() != "append" || len(cc.Args) == 0 {
			return false
		}
		sl, ok := cc.Args[0].Type().Underlying().(*types.Slice)
		return ok && strings.HasSuffix(sl.Elem().String(), elem)
	})
}

// everyIterationPasses: in f, every iteration of the loop that ranges over a value whose description contains over passes
// an instruction for which cut is true, or leaves the function with an error. Returns (found the loop, holds, witness).
func everyIterationPasses(p *an.Prog, f *ssa.Function, over string, cut func(ssa.Instruction) bool) (bool, bool, []string) {
	var hdr *ssa.BasicBlock
	an.Instrs(f, func(in ssa.Instruction) {
		ia, ok := in.(*ssa.IndexAddr)
		if !ok || hdr != nil {
			return
		}
		if _, isK := ia.Index.(*ssa.Const); isK {
			return
		}
		if strings.Contains(p.Desc(ia.X), over) {
			hdr = loopHeaderOf(in.Block())
		}
	})
	if hdr == nil {
		return false, false, nil
	}
	inLoop := func(b *ssa.BasicBlock) bool {
		if b == hdr {
			return true
		}
		for _, pr := range hdr.Preds {
			if hdr.Dominates(pr) && loopContains(hdr, pr, b) {
				return true
			}
		}
		return false
	}
	var body *ssa.BasicBlock
	for _, sb := range hdr.Succs {
		if sb != hdr && inLoop(sb) {
			body = sb
		}
	}
	if body == nil {
		return true, false, nil
	}
	s := &an.Search{P: p, Fn: f,
		Cut: cut,
		GoalBlock: func(b, pred *ssa.BasicBlock) bool {
			if b == hdr {
				return true // next iteration without having appended
			}
			if inLoop(b) || pred == nil || !inLoop(pred) {
				return false
			}
			if r, isRet := b.Instrs[len(b.Instrs)-1].(*ssa.Return); isRet && p.ClassifyReturn(r, pred) == an.RetError {
				return false
			}
			// the error return of a spliced-in helper: the way out of the loop sets the merged error result non-nil
			// (looked for behind blocks that only jump on)
			for len(b.Instrs) == 1 && len(b.Succs) == 1 && len(b.Succs[0].Preds) > 1 {
				if _, isJ := b.Instrs[0].(*ssa.Jump); !isJ {
					break
				}
				b, pred = b.Succs[0], b
			}
			for i, pr := range b.Preds {
				if pr != pred {
					continue
				}
				for _, in := range b.Instrs {
					e, ok := in.(*ssa.Phi)
					if !ok {
						break
					}
					if an.IsErrorType(e.Type()) && i < len(e.Edges) && p.ValState(e.Edges[i], pred, nil) == an.NonNil {
						return false
					}
				}
			}
			return true // left the loop (break) without having appended
		}}
	w := s.Run(body, 0, hdr)
	return true, w == nil, w
}

// ruleOneSenderPerRequestInput (C19, C02): the first-sender fallback has a sender to fall back on.
func ruleOneSenderPerRequestInput(c *report.Ctx) {
	p := c.P
	c.Rule("one-sender-per-request-input", "WalletManager.CreateRawTransaction uses senders[0] as change address when none is given; it holds one sender per input only because (1) constructTxIn appends a sender in every iteration over its inputs (or fails), and (2) the API handler hands the wallet one input per request input (or fails) after checking that the request has inputs: a handler that skips entries (blank ids) after that check sends an empty list through, and the index panics in the request goroutine", 2)
	cti := fn(c, pkgWallet, "WalletManager", "constructTxIn")
	api := fn(c, pkgAPI, "APIServer", "CreateRawTransaction")
	if cti != nil {
		found, ok, w := everyIterationAppends(p, cti, "param:[]*masswallet.TxIn", "PkScript")
		key := sk(cti) + ":sender-per-input"
		switch {
		case !found:
			c.Fail(key, "constructTxIn no longer ranges over its inputs (anchor lost)", p.Pos(cti.Pos()))
		case ok:
			c.OK(key, "every iteration appends a sender or fails", p.Pos(cti.Pos()))
		default:
			c.Fail(key, "an iteration over the inputs can go on without appending a sender: fewer senders than inputs, and senders[0] may not exist", p.Pos(cti.Pos()), w...)
		}
	}
	if api != nil {
		found, ok, w := everyIterationAppends(p, api, "CreateRawTransactionRequest.Inputs", "masswallet.TxIn")
		key := sk(api) + ":input-per-request-input"
		switch {
		case !found:
			c.Fail(key, "the handler no longer ranges over the request's inputs (anchor lost)", p.Pos(api.Pos()))
		case ok:
			c.OK(key, "every request input reaches the wallet or fails the request", p.Pos(api.Pos()))
		default:
			c.Fail(key, "a request input can be skipped: the emptiness check looked at the unfiltered list, so an empty list can reach WalletManager.CreateRawTransaction, which indexes senders[0] — a panic a client triggers with one blank input", p.Pos(api.Pos()), w...)
		}
	}
}

// ruleRelatedTxAskedOnce (C12, C07): the restore's history query is one query.
func ruleRelatedTxAskedOnce(c *report.Ctx) {
	p := c.P
	c.Rule("related-tx-asked-once", "chainFetcher.FetchScriptHashRelatedTx asks the chain database once, with the whole list of script hashes it was given: the answer is a map height → locations, and answers of several partial queries (batches) for the same height would have to be merged — assigned, the later batch replaces what the earlier one found, and a restore misses every payment of a block that also pays an address of a later batch", 1)
	f := fn(c, pkgIfc, "chainFetcher", "FetchScriptHashRelatedTx")
	if f == nil {
		return
	}
	n, inLoop, whole := 0, false, false
	for _, g := range withLiterals(f) {
		an.Instrs(g, func(in ssa.Instruction) {
			cc := an.CallOf(in)
			if cc == nil || !cc.IsInvoke() || cc.Method.Name() != "FetchScriptHashRelatedTx" {
				return
			}
			n++
			if loopHeaderOf(in.Block()) != nil || g != f {
				inLoop = true
			}
			if len(cc.Args) > 0 && len(f.Params) > 1 && an.ResolveCell(cc.Args[0]) == ssa.Value(f.Params[1]) {
				whole = true
			}
		})
	}
	key := sk(f) + ":one-query"
	switch {
	case n == 0:
		c.Fail(key, "the chain database is no longer asked (anchor lost)", p.Pos(f.Pos()))
	case n > 1 || inLoop || !whole:
		c.Fail(key, "the history of the script hashes is fetched in several partial queries: what a later query finds for a height replaces (or must be merged with) what an earlier one found — payments to addresses of different batches in one block are lost to a restore", p.Pos(f.Pos()))
	default:
		c.OK(key, "one query with the caller's whole list", p.Pos(f.Pos()))
	}
}

// ruleSeenSetOutlivesConfirmation (C09): a confirmed transaction stays in the follower's seen-set until its block expires.
func ruleSeenSetOutlivesConfirmation(c *report.Ctx) {
	p := c.P
	c.Rule("seen-set-outlives-confirmation", "a hash is deleted from NtfnsHandler.mempool — the follower's only 'already processed' test for a relayed transaction (filterTx) — either by RemoveMempoolTx (the transaction's records were removed with a wallet) or under the expiry test height > MaxMemPoolExpire: a transaction that has just been confirmed and is announced again (a branch switch re-announces the disconnected block's transactions) must still be found there, or it is inserted a second time as pending, for good", 1)
	nh := p.Type(pkgWallet, "NtfnsHandler")
	maxExp := p.Obj(pkgWallet, "MaxMemPoolExpire")
	rm := fnOpt(c, pkgWallet, "NtfnsHandler", "RemoveMempoolTx")
	if nh == nil || maxExp == nil {
		c.Lost("masswallet.NtfnsHandler / MaxMemPoolExpire")
		return
	}
	n := 0
	for _, f := range p.ModFuncs {
		if pk := an.FuncPkg(f); pk == nil || pk.Path() != pkgWallet || f.Blocks == nil {
			continue
		}
		owner := f
		for owner.Parent() != nil {
			owner = owner.Parent()
		}
		k := 0
		an.Instrs(f, func(in ssa.Instruction) {
			cc := an.CallOf(in)
			if cc == nil || len(cc.Args) != 2 {
				return
			}
			b, ok := cc.Value.(*ssa.Builtin)
			if !ok || b.Name() != "delete" {
				return
			}
			ld, ok := cc.Args[0].(*ssa.UnOp)
			if !ok || !isFieldLoad(ld, nh, "mempool") {
				return
			}
			n++
			k++
			key := siteKey(f, "delete(mempool)", k)
			if owner == rm {
				c.OK(key, "records removed with a wallet", posOf(c, in))
				return
			}
			if an.AnyAtom(p.GuardsOf(in), func(a an.Atom) bool {
				if a.Op != token.GTR || a.Y == nil {
					return false
				}
				kv := foldConst(a.Y, 0)
				return kv != nil && kv.ExactString() == constString(maxExp)
			}) {
				c.OK(key, "under the expiry test", posOf(c, in))
			} else {
				c.Fail(key, "a hash leaves the follower's seen-set outside the expiry of its block: a transaction confirmed a moment ago and announced again is not recognised and is recorded as pending although it is mined", posOf(c, in))
			}
		})
	}
	if n == 0 {
		c.Fail("seen-set-outlives-confirmation:sites", "nothing is ever deleted from NtfnsHandler.mempool (anchor lost)", "")
	}
}

// ruleReturnedBlockWasDecoded (C03, C10): the block ExistsTx reports for a transaction was decoded from its credit.
func ruleReturnedBlockWasDecoded(c *report.Ctx) {
	p := c.P
	c.Rule("returned-block-was-decoded", "TxStore.ExistsTx hands back a non-nil *BlockMeta only on paths that decoded a credit key into it (readRawCreditKey): its callers take nil for 'pending' (minedHeight: maximum height) and anything else for the block the output was mined in — a zero BlockMeta for an unmined parent reads as 'mined at height 0', the binding lock period is not put into the input's sequence, the wallet signs and verifies without the flag the network applies, and the network rejects the transaction", 1)
	f := fn(c, pkgTxmgr, "TxStore", "ExistsTx")
	dec := fn(c, pkgTxmgr, "", "readRawCreditKey")
	if f == nil || dec == nil {
		return
	}
	n := 0
	for _, b := range f.Blocks {
		r, isRet := b.Instrs[len(b.Instrs)-1].(*ssa.Return)
		if !isRet || len(r.Results) != 3 || p.ClassifyReturn(r, nil) == an.RetError {
			continue
		}
		bv := an.RetOperand(r, 1)
		// judged where the value is put into the result (results are spilled when the function defers)
		if an.IsNilConst(soleNonNil(bv)) {
			continue
		}
		n++
		key := siteKey(f, "success-return", n)
		s := &an.Search{P: p, Fn: f, Cut: cutCalls(p, an.Set(dec)),
			GoalInstr: func(in ssa.Instruction) bool { return in == ssa.Instruction(r) }}
		if w := s.Run(f.Blocks[0], 0, nil); w != nil {
			// a path that returns success without decoding: fine only if what it returns as block is nil there
			if p.ValState(bv, b, nil) == an.IsNil {
				c.OK(key, "nil block on the undecoded path", posOf(c, r))
				continue
			}
			c.Fail(key, "ExistsTx can report success with a block that was never decoded from a credit key (an unfilled BlockMeta): callers read it as 'mined at height 0'", posOf(c, r), w...)
		} else {
			c.OK(key, "the block was decoded from the credit key on every path", posOf(c, r))
		}
	}
	if n == 0 {
		c.Fail(sk(f)+":success-return", "ExistsTx has no success return with a block (anchor lost)", p.Pos(f.Pos()))
	}
}

// heightLeaves: the values a height expression is computed from, looking through arithmetic, conversions, tuple
// extraction and field loads through a pointer held in a register (the pointee of a block record is not rewritten);
// phis, calls, parameters, constants and loads from local cells are leaves.
func heightLeaves(v ssa.Value) []ssa.Value {
	var out []ssa.Value
	seen := map[ssa.Value]bool{}
	var walk func(v ssa.Value)
	walk = func(v ssa.Value) {
		if v == nil || seen[v] {
			return
		}
		seen[v] = true
		switch x := v.(type) {
		case *ssa.BinOp:
			walk(x.X)
			walk(x.Y)
		case *ssa.Convert:
			walk(x.X)
		case *ssa.ChangeType:
			walk(x.X)
		case *ssa.Field:
			walk(x.X)
		case *ssa.Extract:
			walk(x.Tuple)
		case *ssa.UnOp:
			if x.Op != token.MUL {
				walk(x.X)
				return
			}
			if fa, ok := x.X.(*ssa.FieldAddr); ok {
				if _, isCell := fa.X.(*ssa.Alloc); !isCell {
					walk(fa.X)
					return
				}
			}
			out = append(out, v)
		default:
			out = append(out, v)
		}
	}
	walk(v)
	return out
}

// dependsOnCall: v is computed (through arithmetic, phis, field loads, local cells and their field stores) from the
// result of a call for which want is true.
func dependsOnCall(v ssa.Value, want func(*ssa.Call) bool) bool {
	seen := map[ssa.Value]bool{}
	found := false
	var walk func(v ssa.Value)
	walk = func(v ssa.Value) {
		if v == nil || seen[v] || found {
			return
		}
		seen[v] = true
		switch x := v.(type) {
		case *ssa.Call:
			if want(x) {
				found = true
			}
		case *ssa.Phi:
			for _, e := range x.Edges {
				walk(e)
			}
		case *ssa.BinOp:
			walk(x.X)
			walk(x.Y)
		case *ssa.Convert:
			walk(x.X)
		case *ssa.ChangeType:
			walk(x.X)
		case *ssa.Field:
			walk(x.X)
		case *ssa.FieldAddr:
			walk(x.X)
		case *ssa.Extract:
			walk(x.Tuple)
		case *ssa.UnOp:
			walk(x.X)
		case *ssa.Alloc:
			// everything stored into the cell or into one of its fields
			for _, r := range *x.Referrers() {
				switch s := r.(type) {
				case *ssa.Store:
					if s.Addr == ssa.Value(x) {
						walk(s.Val)
					}
				case *ssa.FieldAddr:
					for _, r2 := range *s.Referrers() {
						if st, ok := r2.(*ssa.Store); ok && st.Addr == ssa.Value(s) {
							walk(st.Val)
						}
					}
				}
			}
		}
	}
	walk(v)
	return found
}

// ruleRollbackHeightFollowsTheWalk (C06, C01): a reorganisation walks the wallet's own chain back one synced-block record
// at a time; the height it then rolls back to has to be worked out from the record the walk stands on.
func ruleRollbackHeightFollowsTheWalk(c *report.Ctx) {
	p := c.P
	c.Rule("rollback-height-follows-the-walk", "in a function that walks the synced chain back (a SyncStore.SyncedBlock read whose height is computed from an earlier SyncedBlock answer) and rolls back (a call of the function that hands its height to TxStore.Rollback), the height of every rollback reached from such a read is computed from that read or from something recomputed after it (a loop-carried value, a fresh load): a height fixed before the walk moved on is the fork height only for one-block forks — after a restart on a branch abandoned two or more blocks deep the older stale blocks keep their credits and the new branch is connected on top of them", 0)
	rb := fn(c, pkgTxmgr, "TxStore", "Rollback")
	sb := fn(c, pkgTxmgr, "SyncStore", "SyncedBlock")
	if rb == nil || sb == nil {
		return
	}
	// the disconnectors: module functions that pass one of their parameters to Rollback as the height
	type disc struct {
		f   *ssa.Function
		arg int
	}
	var discs []disc
	for _, f := range p.ModFuncs {
		if !p.InModule(f) || f.Blocks == nil {
			continue
		}
		for _, r := range calls(f, rb) {
			cc := an.CallOf(r)
			if len(cc.Args) == 0 {
				continue
			}
			if par, ok := cc.Args[len(cc.Args)-1].(*ssa.Parameter); ok {
				for i, q := range f.Params {
					if q == par {
						discs = append(discs, disc{f, i})
					}
				}
			}
		}
	}
	isSB := func(call *ssa.Call) bool { return call.Call.StaticCallee() == sb }
	n := 0
	for _, f := range p.ModFuncs {
		if !p.InModule(f) || f.Blocks == nil {
			continue
		}
		type dsite struct {
			in ssa.Instruction
			h  ssa.Value
		}
		var ds []dsite
		for _, d := range discs {
			for _, s := range calls(f, d.f) {
				cc := an.CallOf(s)
				if d.arg < len(cc.Args) {
					ds = append(ds, dsite{s, cc.Args[d.arg]})
				}
			}
		}
		// direct Rollback calls count as well
		if f != rb {
			for _, s := range calls(f, rb) {
				cc := an.CallOf(s)
				ds = append(ds, dsite{s, cc.Args[len(cc.Args)-1]})
			}
		}
		if len(ds) == 0 {
			continue
		}
		var walkReads []ssa.Instruction
		for _, s := range calls(f, sb) {
			cc := an.CallOf(s)
			if dependsOnCall(cc.Args[len(cc.Args)-1], isSB) {
				walkReads = append(walkReads, s)
			}
		}
		if len(walkReads) == 0 {
			continue
		}
		isWalk := map[ssa.Instruction]bool{}
		for _, w := range walkReads {
			isWalk[w] = true
		}
		for di, d := range ds {
			leaves := heightLeaves(d.h)
			defs := map[ssa.Instruction]bool{}
			for _, l := range leaves {
				if in, ok := l.(ssa.Instruction); ok {
					defs[in] = true
				}
			}
			key := siteKey(f, "rollback~height-after-walk", di+1)
			reachedFrom := 0
			bad := false
			for _, w := range walkReads {
				idx := 0
				for k, in := range w.Block().Instrs {
					if in == w {
						idx = k + 1
					}
				}
				// reached from this read without another read in between?
				s0 := &an.Search{P: p, Fn: f, Cut: func(in ssa.Instruction) bool { return isWalk[in] },
					GoalInstr: func(in ssa.Instruction) bool { return in == d.in }}
				if s0.Run(w.Block(), idx, nil) == nil {
					continue
				}
				reachedFrom++
				if defs[w] {
					continue
				}
				s1 := &an.Search{P: p, Fn: f, Cut: func(in ssa.Instruction) bool { return isWalk[in] || defs[in] },
					GoalInstr: func(in ssa.Instruction) bool { return in == d.in }}
				if wit := s1.Run(w.Block(), idx, nil); wit != nil {
					bad = true
					c.Fail(key, "the height rolled back to was fixed before the walk read this record ("+p.Desc(d.h)+"): when the fork is more than one block deep only the top stale block is unwound, the older ones keep their credits and debits and the new branch is connected over them", posOf(c, d.in), append([]string{"walk read: " + posOf(c, w)}, wit...)...)
					break
				}
			}
			if reachedFrom == 0 {
				continue // a rollback before the walk starts
			}
			n++
			if !bad {
				c.OK(key, "computed from the record the walk stands on ("+itoa(reachedFrom)+" walk reads reach it)", posOf(c, d.in))
			}
		}
	}
	if n == 0 {
		c.OK("rollback-height-follows-the-walk:sites", "no function both walks the synced chain back and rolls back after a walk read: nothing to compare", "")
	}
}

// ruleBucketPathCutOnlyAtSeparators (C11): the depth in front of a bucket path has no fixed width.
func ruleBucketPathCutOnlyAtSeparators(c *report.Ctx) {
	p := c.P
	c.Rule("bucket-path-cut-only-at-separators", "a bucket path (levelBucket.path: strconv.Itoa(depth) + \"_\" + names…) is taken apart only at its separators (strings.Split) or at offsets computed from lengths of its own parts — never sliced at a constant offset: the depth in front is one byte wide only up to depth 9, so a child path, listing prefix or index key derived by cutting a constant number of bytes off a parent path names a different bucket from depth 10 on (children no longer listed, a deleted subtree's rows found again by a re-created bucket)", 4)
	lb := p.Type(pkgLDB, "levelBucket")
	if lb == nil {
		c.Lost("ldb.levelBucket")
		return
	}
	for _, f := range p.ModFuncs {
		if pk := an.FuncPkg(f); pk == nil || pk.Path() != pkgLDB || f.Blocks == nil {
			continue
		}
		k := 0
		for _, rd := range fieldReads(f, lb, "path") {
			fa := rd.(*ssa.FieldAddr)
			// the loaded strings and what they are converted to / merged into
			var vals []ssa.Value
			seen := map[ssa.Value]bool{}
			var fwd func(v ssa.Value)
			fwd = func(v ssa.Value) {
				if seen[v] {
					return
				}
				seen[v] = true
				vals = append(vals, v)
				if v.Referrers() == nil {
					return
				}
				for _, r := range *v.Referrers() {
					switch x := r.(type) {
					case *ssa.Convert:
						fwd(x)
					case *ssa.ChangeType:
						fwd(x)
					case *ssa.Phi:
						fwd(x)
					}
				}
			}
			for _, r := range *fa.Referrers() {
				if ld, ok := r.(*ssa.UnOp); ok && ld.Op == token.MUL {
					fwd(ld)
				}
			}
			if len(vals) == 0 {
				continue
			}
			k++
			key := siteKey(f, "path-read", k)
			var bad ssa.Instruction
			for _, v := range vals {
				for _, r := range *v.Referrers() {
					sl, ok := r.(*ssa.Slice)
					if !ok || sl.X != v {
						continue
					}
					for _, b := range []ssa.Value{sl.Low, sl.High} {
						if b == nil {
							continue
						}
						if n, isK := constInt(b); isK && n > 0 {
							bad = sl
						}
					}
				}
			}
			if bad != nil {
				c.Fail(key, "a bucket path is cut at a constant offset ("+p.Desc(bad.(ssa.Value))+"): that assumes a depth prefix of fixed width, which holds only down to depth 9 — below that the derived path or key belongs to another bucket", posOf(c, bad))
			} else {
				c.OK(key, "not sliced at a constant offset", posOf(c, rd))
			}
		}
	}
}

// ruleLoopCellAddressNotRetained (C08, C09): the address of a variable that a loop re-assigns is not kept beyond the iteration.
func ruleLoopCellAddressNotRetained(c *report.Ctx) {
	p := c.P
	c.Rule("loop-cell-address-not-retained", "the module is built with the pre-1.22 loop semantics (go.mod: go 1.13 — go/ssa allocates a range or loop variable once, before the loop): a variable allocated outside a loop and assigned in it never has its address appended to a slice, stored into a field, element or map, or sent, inside that loop — every pointer kept that way ends up naming the last value (RemoveRelevantTx reports the hashes of the pending transactions it dropped this way; asyncRemove forgets exactly the reported hashes in the follower's seen-set, so with an aliased list all but one stay 'already processed' for a re-imported wallet)", 1)
	n := 0
	for _, f := range p.ModFuncs {
		pk := an.FuncPkg(f)
		if pk == nil || f.Blocks == nil || !(strings.HasPrefix(pk.Path(), pkgWallet) || pk.Path() == pkgAPI) {
			continue
		}
		k := 0
		an.Instrs(f, func(in ssa.Instruction) {
			a, ok := in.(*ssa.Alloc)
			if !ok || a.Referrers() == nil {
				return
			}
			// loops that assign the cell and do not contain its allocation
			var hdrs []*ssa.BasicBlock
			for _, r := range *a.Referrers() {
				st, ok := r.(*ssa.Store)
				if !ok || st.Addr != ssa.Value(a) {
					continue
				}
				for h := loopHeaderOf(st.Block()); h != nil; {
					if !loopContainsBlock(h, a.Block()) && h != a.Block() {
						dup := false
						for _, x := range hdrs {
							dup = dup || x == h
						}
						if !dup {
							hdrs = append(hdrs, h)
						}
					}
					// the enclosing loop, if any
					next := (*ssa.BasicBlock)(nil)
					if id := h.Idom(); id != nil {
						next = loopHeaderOf(id)
					}
					if next == h {
						break
					}
					h = next
				}
			}
			if len(hdrs) == 0 {
				return
			}
			inLoop := func(b *ssa.BasicBlock) bool {
				for _, h := range hdrs {
					if b == h || loopContainsBlock(h, b) {
						return true
					}
				}
				return false
			}
			// is the address taken at all (used as a value, not only as the target of loads and stores)?
			var kept ssa.Instruction
			taken := false
			for _, r := range *a.Referrers() {
				switch x := r.(type) {
				case *ssa.Store:
					if x.Val == ssa.Value(a) {
						taken = true
						if inLoop(x.Block()) {
							kept = x
						}
					}
				case *ssa.MapUpdate:
					if x.Value == ssa.Value(a) || x.Key == ssa.Value(a) {
						taken = true
						if inLoop(x.Block()) {
							kept = x
						}
					}
				case *ssa.Send:
					if x.X == ssa.Value(a) {
						taken = true
						if inLoop(x.Block()) {
							kept = x
						}
					}
				case *ssa.Call, *ssa.MakeInterface, *ssa.Phi, *ssa.Return, *ssa.MakeClosure, *ssa.Go, *ssa.Defer:
					taken = true
				}
			}
			if !taken {
				return
			}
			n++
			k++
			key := siteKey(f, "loop-cell:"+a.Comment, k)
			if kept != nil {
				c.Fail(key, "the address of `"+a.Comment+"`, which this loop re-assigns on every iteration, is kept inside the loop (stored / appended / sent): with the loop semantics this module is built with, every pointer kept names the same variable — after the loop they all show the last value", posOf(c, kept))
			} else {
				c.OK(key, "address used within the iteration only", posOf(c, a))
			}
		})
	}
	_ = n
}

// ruleBusyGateBeforeAcceptedTask (C20, C07, C08): every entry point that accepts work for the background worker refuses it
// while the queue is busy.
func ruleBusyGateBeforeAcceptedTask(c *report.Ctx) {
	p := c.P
	c.Rule("busy-gate-before-accepted-task", "WalletTaskChan.PushImport/PushRemove drop a task silently when the channel is full, and the worker needs a free slot to re-queue an unfinished round; that is safe only because every WalletManager method from which a push is reachable (ImportWallet, ImportWalletWithMnemonic, RemoveWallet) hands the task over under IsWorkerBusy() == false: an entry point without the gate answers success for a wallet whose import/removal task is dropped (it stays importing/removing until restart) or takes the slot of a round in flight", 3)
	wm := p.Type(pkgWallet, "WalletManager")
	busy := fn(c, pkgWallet, "NtfnsHandler", "IsWorkerBusy")
	if wm == nil || busy == nil {
		return
	}
	// functions of the handler that queue a task
	var pushers []*ssa.Function
	for _, f := range p.ModFuncs {
		if pk := an.FuncPkg(f); pk == nil || pk.Path() != pkgWallet || f.Blocks == nil {
			continue
		}
		if len(taskPushes(c, f)) > 0 {
			pushers = append(pushers, f)
		}
	}
	isPusher := map[*ssa.Function]bool{}
	for _, f := range pushers {
		isPusher[f] = true
	}
	notBusy := func(a an.Atom) bool {
		if a.Op != token.ILLEGAL || a.Truth {
			return false
		}
		call, ok := a.X.(*ssa.Call)
		if !ok {
			return false
		}
		for _, g := range p.Callees(call) {
			if g == busy {
				return true
			}
		}
		// the queue asked directly
		if g := call.Call.StaticCallee(); g != nil && g.Name() == "IsBusy" {
			return true
		}
		return false
	}
	n := 0
	for _, f := range p.ModFuncs {
		if f.Blocks == nil || f.Signature.Recv() == nil || f.Parent() != nil {
			continue
		}
		if nm := an.NamedOf(f.Signature.Recv().Type()); nm == nil || nm.Obj() != wm.Obj() {
			continue
		}
		k := 0
		for _, g := range withLiterals(f) {
			an.Instrs(g, func(in ssa.Instruction) {
				cc := an.CallOf(in)
				if cc == nil {
					return
				}
				hit := false
				for _, cal := range p.Callees(in) {
					if isPusher[cal] {
						hit = true
					}
				}
				if !hit {
					return
				}
				n++
				k++
				key := siteKey(f, "task-handed-over", k)
				gs := p.GuardsOf(in)
				if g != f {
					// inside a literal: what held where the literal was handed on counts as well
					an.Instrs(f, func(x ssa.Instruction) {
						if xc := an.CallOf(x); xc != nil {
							for _, a := range xc.Args {
								if mc, ok := a.(*ssa.MakeClosure); ok && mc.Fn == ssa.Value(g) {
									gs = append(gs, p.GuardsOf(x)...)
								}
							}
						}
					})
				}
				if an.AnyAtom(gs, notBusy) {
					c.OK(key, "under IsWorkerBusy() == false", posOf(c, in))
				} else {
					c.Fail(key, "a task is handed to the background worker without asking whether its queue is busy: when it is, the push is dropped silently (or takes the slot the worker needs to re-queue the round in flight) and the caller is told the import/removal was accepted", posOf(c, in))
				}
			})
		}
	}
	_ = n
}

// rulePendingMarkForEveryRelevantInput (C02, C09): a recorded pending transaction marks every one of its wallet inputs.
func rulePendingMarkForEveryRelevantInput(c *report.Ctx) {
	p := c.P
	c.Rule("pending-mark-for-every-relevant-input", "UtxoStore.insertUnminedInputs writes the spent-by-pending marker (putRawUnminedInput) in every iteration over the record's relevant inputs, or fails: the marker is keyed by outpoint, not by credit, precisely so that it can be written before the coin exists as a mined credit (the input spends the output of a transaction that is itself still pending) — an iteration that goes on without it leaves that coin selectable again once its parent is mined, while the child that spends it is still pending", 1)
	f := fn(c, pkgTxmgr, "UtxoStore", "insertUnminedInputs")
	put := fn(c, pkgTxmgr, "", "putRawUnminedInput")
	if f == nil || put == nil {
		return
	}
	found, ok, w := everyIterationPasses(p, f, "RelevantTxIn", func(in ssa.Instruction) bool {
		cc := an.CallOf(in)
		return cc != nil && cc.StaticCallee() == put
	})
	key := sk(f) + ":marker-per-input"
	switch {
	case !found:
		c.Fail(key, "insertUnminedInputs no longer ranges over the record's relevant inputs (anchor lost)", p.Pos(f.Pos()))
	case ok:
		c.OK(key, "every iteration writes the marker or fails", p.Pos(f.Pos()))
	default:
		c.Fail(key, "an iteration over the relevant inputs can go on without writing the spent-by-pending marker: the coin that input spends is offered to the next transaction although a pending one already spends it", p.Pos(f.Pos()), w...)
	}
}

// ruleOpeningDeletesNothing (C06): opening the wallet database creates what is missing and removes nothing.
func ruleOpeningDeletesNothing(c *report.Ctx) {
	p := c.P
	c.Rule("opening-deletes-nothing", "nothing reachable from the constructors that run when the wallet database is opened (NewWalletManager and the stores and keystore manager it builds) deletes a row or a bucket (Bucket.Delete / DeleteBucket / Clear): what a run committed before it stopped — pending transactions and their history rows included — is what the next run starts from; state is only ever unwound by the operations that own it (rollback, removal, confirmation), which keep the sibling buckets in step", 4)
	roots := []*ssa.Function{
		fn(c, pkgWallet, "", "NewWalletManager"),
		fn(c, pkgTxmgr, "", "NewTxStore"),
		fn(c, pkgTxmgr, "", "NewUtxoStore"),
		fn(c, pkgTxmgr, "", "NewSyncStore"),
	}
	for _, r := range roots {
		if r == nil {
			continue
		}
		reached, parent := p.ReachNil([]*ssa.Function{r}, an.ReachOpts{SkipEdge: func(from *ssa.Function, e an.Edge) bool { return e.Kind == "go" || e.Kind == "ref" }})
		var fs []*ssa.Function
		for f := range reached {
			if p.InModule(f) && f.Blocks != nil {
				if pk := an.FuncPkg(f); pk != nil && pk.Path() != pkgLDB && !strings.HasSuffix(pk.Path(), "/db") {
					fs = append(fs, f)
				}
			}
		}
		sortFuncs(fs)
		var bad ssa.Instruction
		var badF *ssa.Function
		for _, f := range fs {
			an.Instrs(f, func(in ssa.Instruction) {
				cc := an.CallOf(in)
				if cc == nil || !cc.IsInvoke() || bad != nil {
					return
				}
				switch cc.Method.Name() {
				case "Delete", "DeleteBucket", "Clear":
					if n := an.NamedOf(cc.Value.Type()); n != nil && n.Obj().Pkg() != nil && strings.HasSuffix(n.Obj().Pkg().Path(), "masswallet/db") {
						bad, badF = in, f
					}
				}
			})
		}
		key := sk(r) + ":deletes-nothing"
		if bad != nil {
			c.Fail(key, "a constructor that runs every time the wallet database is opened reaches a delete: rows a previous run committed are gone after a restart, while the sibling buckets that describe the same state (unmined credits and inputs beside unmined records) keep theirs — the restarted wallet neither knows the pending transaction nor can record it again", posOf(c, bad), p.Witness(parent, badF)...)
		} else {
			c.OK(key, "no Bucket.Delete / DeleteBucket / Clear reachable ("+itoa(len(fs))+" functions examined)", p.Pos(r.Pos()))
		}
	}
}

// ruleGapLimitOneValue (C12, C07): issuing and restoring look back over the same window.
func ruleGapLimitOneValue(c *report.Ctx) {
	p := c.P
	c.Rule("gap-limit-one-value", "every gap limit the wallet and the API hand to the keystore (an argument bound to a parameter named …GapLimit, or the AddressGapLimit field of the parameters record) is the configured Settings.AddressGapLimit itself, not a value computed from it: the restore scan stops that many unused addresses after the last used one, so an address issued under a wider window (a class-specific allowance added on top) lies beyond what a restore from the mnemonic ever looks at", 3)
	isCfgLoad := func(v ssa.Value) bool {
		ld, ok := v.(*ssa.UnOp)
		if !ok || ld.Op != token.MUL {
			return false
		}
		fa, ok := ld.X.(*ssa.FieldAddr)
		if !ok {
			return false
		}
		st, ok := fa.X.Type().Underlying().(*types.Pointer)
		if !ok {
			return false
		}
		s, ok := st.Elem().Underlying().(*types.Struct)
		return ok && s.Field(fa.Field).Name() == "AddressGapLimit"
	}
	tr := &an.Tracer{P: p, Leaf: isCfgLoad}
	judge := func(f *ssa.Function, key string, v ssa.Value, at ssa.Instruction) {
		bad := ""
		for _, o := range tr.Origins(v) {
			if isCfgLoad(o.V) {
				continue
			}
			if _, isPar := o.V.(*ssa.Parameter); isPar && o.Entry {
				continue // handed in by a caller outside the module (tests, tools)
			}
			bad = p.Desc(o.V)
		}
		if bad == "" {
			c.OK(key, "the configured AddressGapLimit", posOf(c, at))
		} else {
			c.Fail(key, "the look-back window handed to the keystore is not the configured gap limit ("+bad+"): addresses issued under it can lie beyond the window a restore scans, and a payment to one of them is never rediscovered from the mnemonic", posOf(c, at))
		}
	}
	for _, f := range p.ModFuncs {
		pk := an.FuncPkg(f)
		if pk == nil || f.Blocks == nil || (pk.Path() != pkgWallet && pk.Path() != pkgAPI) {
			continue
		}
		k := 0
		an.Instrs(f, func(in ssa.Instruction) {
			if cc := an.CallOf(in); cc != nil {
				cal := cc.StaticCallee()
				if cal == nil || an.FuncPkg(cal) == nil || an.FuncPkg(cal).Path() != pkgKeystore {
					return
				}
				off := 0
				if cal.Signature.Recv() != nil {
					off = 1
				}
				for i := 0; i < cal.Signature.Params().Len(); i++ {
					if !strings.HasSuffix(strings.ToLower(cal.Signature.Params().At(i).Name()), "gaplimit") || i+off >= len(cc.Args) {
						continue
					}
					k++
					judge(f, siteKey(f, "gap->"+nm(cal), k), cc.Args[i+off], in)
				}
				return
			}
			// the field of the parameters record
			st, ok := in.(*ssa.Store)
			if !ok {
				return
			}
			fa, ok := st.Addr.(*ssa.FieldAddr)
			if !ok {
				return
			}
			n := an.NamedOf(fa.X.Type())
			if n == nil || n.Obj().Pkg() == nil || n.Obj().Pkg().Path() != pkgKeystore {
				return
			}
			if s, ok := n.Underlying().(*types.Struct); ok && s.Field(fa.Field).Name() == "AddressGapLimit" {
				k++
				judge(f, siteKey(f, "gap->"+n.Obj().Name()+".AddressGapLimit", k), st.Val, in)
			}
		})
	}
}

// ruleNoFloatBetweenUserAndConverter (C15): nothing in front of or behind the exact converters speaks float.
func ruleNoFloatBetweenUserAndConverter(c *report.Ctx) {
	p := c.P
	c.Rule("no-float-between-user-and-converter", "the CLI, the API and the wallet never turn a number into a string or a string into a number through float64 (strconv.FormatFloat / ParseFloat, big.Float, a JSON document decoded into interface{} and walked for its float64 numbers): an amount numeral reaches api.StringToAmount as the user wrote it — a float64 round trip re-writes what the parser would have refused (1e3 → \"1000\") and loses the low digits of anything above 2^53 maxwell", 1)
	n := 0
	for _, f := range p.ModFuncs {
		pk := an.FuncPkg(f)
		if pk == nil || f.Blocks == nil {
			continue
		}
		path := pk.Path()
		if !(path == pkgAPI || path == pkgWallet || strings.Contains(path, "/cmd/masswalletcli")) {
			continue
		}
		n++
		k := 0
		an.Instrs(f, func(in ssa.Instruction) {
			what := ""
			if cc := an.CallOf(in); cc != nil {
				if g := cc.StaticCallee(); g != nil {
					switch key := an.CanonKeyOf(g); {
					case key == "strconv.FormatFloat" || key == "strconv.ParseFloat" || key == "strconv.AppendFloat":
						what = key
					case strings.HasPrefix(key, "(*math/big.Float).") || key == "math/big.NewFloat" || key == "math/big.ParseFloat":
						what = key
					}
				}
			}
			// a float64 taken out of an interface value (a number of a generically decoded JSON document)
			if ta, ok := in.(*ssa.TypeAssert); ok {
				if b, isB := ta.AssertedType.Underlying().(*types.Basic); isB && b.Info()&types.IsFloat != 0 {
					if _, isIface := ta.X.Type().Underlying().(*types.Interface); isIface {
						what = "interface value asserted to " + b.Name()
					}
				}
			}
			if what == "" {
				return
			}
			k++
			c.Fail(siteKey(f, "float", k), "a number crosses float64 on its way between the user and the exact converters ("+what+"): the numeral the node parses is no longer the one that was typed", posOf(c, in))
		})
	}
	if n > 0 {
		c.OK("no-float-between-user-and-converter:scanned", itoa(n)+" functions of the CLI, the API and the wallet: no float formatting or parsing, no float64 taken out of an interface", "")
	}
}

// sameNamedPlace: a and b read the same place — the same value, loads of the same field of the same base, or calls of
// the same argument-less getter on the same receiver.
func sameNamedPlace(a, b ssa.Value, depth int) bool {
	if a == b {
		return true
	}
	if depth > 4 {
		return false
	}
	switch x := a.(type) {
	case *ssa.UnOp:
		y, ok := b.(*ssa.UnOp)
		if !ok || x.Op != token.MUL || y.Op != token.MUL {
			return false
		}
		fx, ok1 := x.X.(*ssa.FieldAddr)
		fy, ok2 := y.X.(*ssa.FieldAddr)
		return ok1 && ok2 && fx.Field == fy.Field && sameNamedPlace(fx.X, fy.X, depth+1)
	case *ssa.Call:
		y, ok := b.(*ssa.Call)
		if !ok || x.Call.IsInvoke() != y.Call.IsInvoke() {
			return false
		}
		if x.Call.IsInvoke() {
			return x.Call.Method == y.Call.Method && len(x.Call.Args) == 0 && len(y.Call.Args) == 0 && sameNamedPlace(x.Call.Value, y.Call.Value, depth+1)
		}
		return x.Call.StaticCallee() != nil && x.Call.StaticCallee() == y.Call.StaticCallee() && len(x.Call.Args) == 1 && len(y.Call.Args) == 1 && sameNamedPlace(x.Call.Args[0], y.Call.Args[0], depth+1)
	case *ssa.Field:
		y, ok := b.(*ssa.Field)
		return ok && x.Field == y.Field && sameNamedPlace(x.X, y.X, depth+1)
	}
	return false
}

// ruleBalanceRowIsTheCoinsWallet (C01): the balance row that moves is the row of the wallet whose coin moves.
func ruleBalanceRowIsTheCoinsWallet(c *report.Ctx) {
	p := c.P
	c.Rule("balance-row-is-the-coins-wallet", "where a function looks up, deletes or writes an unspent row under a wallet id (the wallet argument of existsUnspent / putUnspent) and moves a balance (a store of an Amount.Add/Sub result into the balance map), the key of the balance store names the same wallet as one of those arguments — the same field of the same relevant-input record, the same getter on the same address: one transaction can spend coins of two managed wallets, so a balance keyed by the first input's wallet debits one wallet for the other's coins (its stored total no longer equals the sum of its unspent outputs, or the block cannot be applied at all)", 4)
	amtSub := p.Fn("github.com/massnetorg/mass-core/massutil", "Amount", "Sub")
	amtAdd := p.Fn("github.com/massnetorg/mass-core/massutil", "Amount", "Add")
	eu := fn(c, pkgTxmgr, "", "existsUnspent")
	pu := fn(c, pkgTxmgr, "", "putUnspent")
	if amtSub == nil || amtAdd == nil || eu == nil || pu == nil {
		return
	}
	for _, f := range p.ModFuncs {
		if pk := an.FuncPkg(f); pk == nil || pk.Path() != pkgTxmgr || f.Blocks == nil {
			continue
		}
		var wallets []ssa.Value
		for _, g := range []*ssa.Function{eu, pu} {
			for _, s := range calls(f, g) {
				if a := an.CallOf(s).Args; len(a) > 1 {
					wallets = append(wallets, a[1])
				}
			}
		}
		if ck := fnOpt(c, pkgTxmgr, "", "canonicalUnspentKey"); ck != nil { // the key of a row written raw
			for _, s := range calls(f, ck) {
				if a := an.CallOf(s).Args; len(a) > 0 {
					wallets = append(wallets, a[0])
				}
			}
		}
		if len(wallets) == 0 {
			continue
		}
		k := 0
		an.Instrs(f, func(in ssa.Instruction) {
			mu, ok := in.(*ssa.MapUpdate)
			if !ok {
				return
			}
			ex, ok := mu.Value.(*ssa.Extract)
			if !ok {
				return
			}
			call, ok := ex.Tuple.(*ssa.Call)
			if !ok || (call.Call.StaticCallee() != amtSub && call.Call.StaticCallee() != amtAdd) {
				return
			}
			k++
			key := siteKey(f, "balance-store", k)
			for _, w := range wallets {
				if sameNamedPlace(mu.Key, w, 0) {
					c.OK(key, "keyed by the wallet the unspent row is kept under ("+p.Desc(mu.Key)+")", posOf(c, in))
					return
				}
			}
			c.Fail(key, "the balance that moves is keyed by "+p.Desc(mu.Key)+", which is not the wallet any unspent row of this function is looked up or written under: with inputs (or outputs) of two managed wallets in one transaction the wrong wallet's total changes", posOf(c, in))
		})
	}
}

// ruleKeystoreMemoryChangesLast (C18, C08): deleting a keystore changes the in-memory manager only when nothing can fail any more.
func ruleKeystoreMemoryChangesLast(c *report.Ctx) {
	p := c.P
	c.Rule("keystore-memory-changes-last", "in KeystoreManager.DeleteKeystore no error return is reachable once the in-memory keystore has been touched (a store into a field of AddrManager / ManagedAddress / KeystoreManager, a delete from or an update of one of their maps — directly or inside a keystore function it calls): the database part is rolled back by the caller when a step fails, the memory part is not, and the repair that asyncRemove runs afterwards (updateManagedKeystore) reloads a wallet only when it is absent from the cache — a manager emptied before the failing step stays cached and empty, the retried removal finds no addresses, declares the records removed and leaves them behind", 2)
	f := fn(c, pkgKeystore, "KeystoreManager", "DeleteKeystore")
	if f == nil {
		return
	}
	isMemType := func(t types.Type) bool {
		n := an.NamedOf(t)
		if n == nil || n.Obj().Pkg() == nil || n.Obj().Pkg().Path() != pkgKeystore {
			return false
		}
		switch n.Obj().Name() {
		case "AddrManager", "ManagedAddress", "KeystoreManager", "accountInfo", "branchInfo", "currentKeystore":
			return true
		}
		return false
	}
	var rootsAtMem func(v ssa.Value, depth int) bool
	rootsAtMem = func(v ssa.Value, depth int) bool {
		if depth > 6 {
			return false
		}
		switch x := v.(type) {
		case *ssa.FieldAddr:
			if isMemType(x.X.Type()) {
				st := derefStructT(x.X.Type())
				if st != nil && st.Field(x.Field).Name() == "mu" {
					return false
				}
				return true
			}
			return rootsAtMem(x.X, depth+1)
		case *ssa.UnOp:
			return rootsAtMem(x.X, depth+1)
		case *ssa.IndexAddr:
			return rootsAtMem(x.X, depth+1)
		}
		return false
	}
	direct := func(in ssa.Instruction) bool {
		switch x := in.(type) {
		case *ssa.Store:
			return rootsAtMem(x.Addr, 0)
		case *ssa.MapUpdate:
			return rootsAtMem(x.Map, 0)
		}
		if cc := an.CallOf(in); cc != nil {
			if b, ok := cc.Value.(*ssa.Builtin); ok && b.Name() == "delete" && len(cc.Args) > 0 {
				return rootsAtMem(cc.Args[0], 0)
			}
		}
		return false
	}
	mut := map[*ssa.Function]bool{}
	var ks []*ssa.Function
	for _, g := range p.ModFuncs {
		if pk := an.FuncPkg(g); pk != nil && pk.Path() == pkgKeystore && g.Blocks != nil {
			ks = append(ks, g)
			an.Instrs(g, func(in ssa.Instruction) {
				if direct(in) {
					mut[g] = true
				}
			})
		}
	}
	for changed := true; changed; {
		changed = false
		for _, g := range ks {
			if mut[g] {
				continue
			}
			an.Instrs(g, func(in ssa.Instruction) {
				if cc := an.CallOf(in); cc != nil && cc.StaticCallee() != nil && mut[cc.StaticCallee()] && !mut[g] {
					mut[g] = true
					changed = true
				}
			})
		}
	}
	k := 0
	an.Instrs(f, func(in ssa.Instruction) {
		what := ""
		if direct(in) {
			what = "in-memory store"
		} else if cc := an.CallOf(in); cc != nil && cc.StaticCallee() != nil && mut[cc.StaticCallee()] {
			if _, isDefer := in.(*ssa.Defer); isDefer {
				return
			}
			what = "call of " + sk(cc.StaticCallee())
		}
		if what == "" {
			return
		}
		k++
		key := siteKey(f, "memory-touched", k)
		idx := 0
		for i, x := range in.Block().Instrs {
			if x == in {
				idx = i + 1
			}
		}
		s := &an.Search{P: p, Fn: f, GoalReturn: func(r *ssa.Return, pred *ssa.BasicBlock) bool {
			return p.ClassifyReturn(r, pred) == an.RetError
		}}
		if w := s.Run(in.Block(), idx, nil); w != nil {
			c.Fail(key, "the cached keystore is changed ("+what+") while a later step of the deletion can still fail: the transaction is rolled back, the cache is not, and the cache repair reloads only wallets that are absent from it", posOf(c, in), w...)
		} else {
			c.OK(key, what+": no error return reachable afterwards", posOf(c, in))
		}
	})
	if k == 0 {
		c.Fail(sk(f)+":memory-touched", "DeleteKeystore no longer evicts the keystore from memory (anchor lost)", p.Pos(f.Pos()))
	}
}
