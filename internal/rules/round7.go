package rules

import (
	"go/token"
	"go/types"

	"golang.org/x/tools/go/ssa"

	"verif/internal/an"
	"verif/internal/report"
)

// ruleIndexedResultLengthChecked (C19, C16): a slice that a call handed back — its length is the callee's business,
// and the library's extractors skip what does not parse — is indexed with a constant only where its length is known
// to reach that far. Found by a refactoring agent's side remark: txscript.ExtractPkScriptAddrs classifies
// OP_0 <32> <22> as a binding script but returns one address when the target bytes do not parse;
// api.extractAddressInfos indexed addrs[1] (b1aa901).
func ruleIndexedResultLengthChecked(c *report.Ctx, pkgs []string, floor int) {
	p := c.P
	c.Rule("indexed-result-length-checked", "in the request-handling packages an element k (a constant) of a slice returned by one of the consensus library's script extractors (mass-core/txscript: they classify a script by its template and then skip every address or key that does not parse) is read only where len(slice) > k holds on every path (a dominating test on that very slice); an unguarded index is a panic a client's raw transaction or a mined script can trigger", floor)
	inPkgs := func(f *ssa.Function) bool {
		pk := an.FuncPkg(f)
		if pk == nil {
			return false
		}
		for _, q := range pkgs {
			if pk.Path() == q {
				return true
			}
		}
		return false
	}
	// the slice a value is: through loads of single-store cells and tuple extraction
	origin := func(v ssa.Value) (ssa.Value, *ssa.Call) {
		v = an.ResolveCell(v)
		if ex, ok := v.(*ssa.Extract); ok {
			if call, isCall := ex.Tuple.(*ssa.Call); isCall {
				return v, call
			}
			return v, nil
		}
		if call, ok := v.(*ssa.Call); ok {
			return v, call
		}
		return v, nil
	}
	variableLength := func(call *ssa.Call) bool {
		if call == nil {
			return false
		}
		if _, isB := call.Call.Value.(*ssa.Builtin); isB {
			return false // append, make-like builtins: the length is visible at the site
		}
		cal := call.Call.StaticCallee()
		var pk *types.Package
		if cal != nil {
			pk = an.FuncPkg(cal)
		} else if call.Call.IsInvoke() {
			pk = call.Call.Method.Pkg()
		}
		if pk == nil {
			return false
		}
		// the script extractors of the consensus library: they classify by template and then skip every address or
		// key that does not parse, so the class does not tell how many there are
		return pk.Path() == "github.com/massnetorg/mass-core/txscript"
	}
	// Reviewed exception, one site: estimateSignedSize walks the wallet's own credits; their scripts were parsed when
	// they were credited (utils.ParsePkScript accepts P2WSH / staking / binding only, whose owner address is a 32-byte
	// hash the template already fixes), so the extractor always yields the owner.
	reviewed := map[string]string{
		"(*masswallet.WalletManager).estimateSignedSize": "own credits only: scripts that parsed as P2WSH / staking / binding when credited always yield the owner address",
	}
	for _, f := range p.ModFuncs {
		if !inPkgs(f) || f.Blocks == nil {
			continue
		}
		k := 0
		an.Instrs(f, func(in ssa.Instruction) {
			var x, idx ssa.Value
			switch y := in.(type) {
			case *ssa.IndexAddr:
				x, idx = y.X, y.Index
			case *ssa.Index:
				x, idx = y.X, y.Index
			default:
				return
			}
			if _, isSlice := x.Type().Underlying().(*types.Slice); !isSlice {
				return
			}
			kk, isK := constInt(idx)
			if !isK || kk < 0 {
				return
			}
			sl, call := origin(x)
			if !variableLength(call) {
				return
			}
			k++
			key := siteKey(f, "index:"+calleeName(p, call), k)
			enough := func(a an.Atom) bool {
				lc, ok := a.X.(*ssa.Call)
				if !ok || len(lc.Call.Args) != 1 || a.Y == nil {
					return false
				}
				if b, isB := lc.Call.Value.(*ssa.Builtin); !isB || b.Name() != "len" {
					return false
				}
				m, _ := origin(lc.Call.Args[0])
				if m != sl {
					return false
				}
				n, isN := constInt(a.Y)
				if !isN {
					return false
				}
				switch a.Op {
				case token.GTR:
					return n >= kk
				case token.GEQ, token.EQL:
					return n >= kk+1
				case token.NEQ:
					return n == 0 && kk == 0
				}
				return false
			}
			if an.AnyAtom(p.GuardsOf(in), enough) {
				c.OK(key, "len(result) reaches the index on every path", posOf(c, in))
			} else if why, ok := reviewed[sk(f)]; ok && kk == 0 {
				c.Exception(sk(f), why)
				c.OK(key, "reviewed: "+why, posOf(c, in))
			} else {
				c.Fail(key, "element "+itoa(int(kk))+" of the slice returned by "+calleeName(p, call)+" is read without a test that the slice is that long: the callee decides the length (an extractor that skips what does not parse, a lookup with fewer rows) and a shorter answer panics the request handler", posOf(c, in))
			}
		})
	}
}

