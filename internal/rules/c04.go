package rules

import (
	"go/token"
	"sort"
	"strings"

	"golang.org/x/tools/go/ssa"

	"verif/internal/an"
	"verif/internal/report"
)

func init() {
	register(&Check{
		ID: "C04",
		Explain: "Structural necessary conditions of deterministic derivation (thin; stated as such), decided by provenance tracing on SSA: " +
			"(1) in every creation path the seed handed to hdkeychain.NewMaster is the BIP-39 seed of (the wallet's mnemonic, its private passphrase), and the master key so obtained is the root handed to the account-scope builder; the paths agree; " +
			"(2) the private key derived for signing is the child of the branch selected by the address's stored branch, at the address's stored index, and the cached private branch keys are derived with their own branch constants; " +
			"(3) no secret buffer is wiped before its last use (use-after-wipe would store or derive from zeros), including wipes through an aliasing accessor; " +
			"(4) BIP-32 child derivation itself: see C14.",
		NotDec: "determinism across instances and equality of derived and committed keys (values); the concrete path m/44'/coin'/1'/branch/index.",
		Run:    runC04,
	})
}

// callOrigins traces v back to producing calls / fields / params and renders them.
func callOrigins(p *an.Prog, v ssa.Value) []string {
	tr := &an.Tracer{P: p, ThroughSlice: true, Leaf: func(x ssa.Value) bool {
		if ex, ok := x.(*ssa.Extract); ok {
			x = ex.Tuple
		}
		switch y := x.(type) {
		case *ssa.Call:
			// look through module functions that return what they compute (descend), stop at others
			if cal := y.Call.StaticCallee(); cal != nil && p.InModule(cal) && cal.Blocks != nil {
				switch cal.Name() {
				case "NewSeed", "NewSeedWithErrorChecking", "NewMnemonic", "NewEntropy", "EntropyFromMnemonic", "NewMaster":
					return true
				}
				return false
			}
			return true
		case *ssa.Const:
			return true
		case *ssa.UnOp:
			if _, isFA := y.X.(*ssa.FieldAddr); isFA && y.Op == token.MUL {
				return true
			}
		}
		return false
	}}
	// a result merged with the zero values of a helper's error returns (`pass, err := phi(p | ""), phi(nil | e)`): the
	// ways that carried an error do not reach the use (the caller leaves on the error first)
	starts := []ssa.Value{v}
	if ph, ok := an.ResolveCell(v).(*ssa.Phi); ok {
		for _, in := range ph.Block().Instrs {
			e, isPhi := in.(*ssa.Phi)
			if !isPhi {
				break
			}
			if e == ph || !an.IsErrorType(e.Type()) || len(e.Edges) != len(ph.Edges) {
				continue
			}
			var live []ssa.Value
			for i := range ph.Edges {
				if i < len(ph.Block().Preds) && p.ValState(e.Edges[i], ph.Block().Preds[i], nil) == an.NonNil {
					continue
				}
				live = append(live, ph.Edges[i])
			}
			if len(live) > 0 && len(live) < len(ph.Edges) {
				starts = live
			}
		}
	}
	var origins []an.Origin
	for _, sv := range starts {
		origins = append(origins, tr.Origins(sv)...)
	}
	var out []string
	for _, o := range origins {
		x := o.V
		if ex, ok := x.(*ssa.Extract); ok {
			x = ex.Tuple
		}
		switch y := x.(type) {
		case *ssa.Call:
			out = append(out, "call:"+calleeName(p, y))
		case *ssa.Const:
			if y.Value == nil {
				continue // nil on the error returns of the producers (callers test the error first)
			}
			out = append(out, "const:"+p.Desc(y))
		case *ssa.UnOp:
			out = append(out, "field:"+p.Desc(y))
		case *ssa.Parameter:
			out = append(out, "param:"+y.Name()+"@"+sk(y.Parent()))
		case *ssa.Convert:
			out = append(out, callOrigins(p, y.X)...)
		case *ssa.MakeSlice, *ssa.Alloc:
			out = append(out, "fresh")
		default:
			out = append(out, "other:"+p.Desc(o.V))
		}
	}
	return uniq(out)
}

func runC04(c *report.Ctx) {
	p := c.P
	// the sentence the decoders accept and store is the sentence the KDF hashes: no case folding / rewriting in between
	ruleValidatedTokensAreDecodedTokens(c)
	ruleEveryIssuedAddressCached(c)
	ruleStoredEntropyIsRaw(c)
	ruleReloadedPathFromRowKey(c)
	ruleMnemonicWordCount(c) // the sentence handed out has as many words as the entropy encodes
	// ---- (1) seed provenance -----------------------------------------------------------------------------
	c.Rule("seed-provenance", "hdkeychain.NewMaster is fed only with NewSeed/NewSeedWithErrorChecking(mnemonic, private passphrase); the root key reaches createManagerKeyScope", 5)
	newMaster := fn(c, pkgHD, "", "NewMaster")
	newSeed := fn(c, pkgKeystore, "", "NewSeed")
	newSeedChk := fn(c, pkgKeystore, "", "NewSeedWithErrorChecking")
	cmks := fn(c, pkgKeystore, "", "createManagerKeyScope")
	if newMaster != nil && newSeed != nil && newSeedChk != nil {
		n := 0
		for _, f := range p.ModFuncs {
			if pk := an.FuncPkg(f); pk == nil || pk.Path() != pkgKeystore {
				continue
			}
			for i, s := range calls(f, newMaster) {
				n++
				key := siteKey(f, "NewMaster(seed)", i+1)
				os := callOrigins(p, an.CallOf(s).Args[0])
				bad := []string{}
				for _, o := range os {
					if o != "call:masswallet/keystore.NewSeed" && o != "call:masswallet/keystore.NewSeedWithErrorChecking" {
						bad = append(bad, o)
					}
				}
				if len(bad) == 0 && len(os) > 0 {
					c.OK(key, "seed origins: "+strings.Join(os, ", "), posOf(c, s))
				} else {
					c.Fail(key, "the master key is derived from a seed that is not the BIP-39 seed ("+strings.Join(bad, ", ")+"): the wallet id and addresses are no longer a function of the mnemonic", posOf(c, s))
				}
			}
		}
		if n == 0 {
			c.Fail("keystore:NewMaster", "no call of hdkeychain.NewMaster in the keystore (anchor lost)", "")
		}
		// each NewSeed* call: mnemonic argument and passphrase argument
		sigs := map[string]string{}
		for _, f := range p.ModFuncs {
			if pk := an.FuncPkg(f); pk == nil || pk.Path() != pkgKeystore {
				continue
			}
			if f == newSeedChk {
				continue
			}
			for _, seedFn := range []*ssa.Function{newSeed, newSeedChk} {
				for i, s := range calls(f, seedFn) {
					key := siteKey(f, seedFn.Name(), i+1)
					a0 := callOrigins(p, an.CallOf(s).Args[0])
					a1 := callOrigins(p, an.CallOf(s).Args[1])
					okM := len(a0) > 0
					for _, o := range a0 {
						if !(o == "call:masswallet/keystore.NewMnemonic" || o == "field:WalletParams.Mnemonic") {
							okM = false
						}
					}
					okP := len(a1) > 0
					for _, o := range a1 {
						if strings.HasPrefix(o, "const:") || strings.Contains(o, "pubPassphrase") || strings.Contains(o, "PublicPassphrase") || strings.Contains(o, "pubPass") {
							okP = false
						}
						if !(strings.HasPrefix(o, "param:") || strings.HasPrefix(o, "field:")) {
							okP = false
						}
					}
					sigs[key] = "mnemonic<-" + strings.Join(a0, "|") + " pass<-" + kindOnly(a1)
					if okM && okP {
						c.OK(key, "mnemonic from "+strings.Join(a0, ", ")+"; passphrase from "+strings.Join(a1, ", "), posOf(c, s))
					} else {
						c.Fail(key, "the seed is not derived from (wallet mnemonic, private passphrase): mnemonic<-"+strings.Join(a0, ",")+" passphrase<-"+strings.Join(a1, ","), posOf(c, s))
					}
				}
			}
		}
		// root key reaches createManagerKeyScope
		if cmks != nil {
			for _, f := range p.ModFuncs {
				if pk := an.FuncPkg(f); pk == nil || pk.Path() != pkgKeystore {
					continue
				}
				for i, s := range calls(f, cmks) {
					key := siteKey(f, "createManagerKeyScope(root)", i+1)
					os := callOrigins(p, an.CallOf(s).Args[1])
					if len(os) == 1 && os[0] == "call:masswallet/keystore/hdkeychain.NewMaster" {
						c.OK(key, "root is the NewMaster result", posOf(c, s))
					} else {
						c.Fail(key, "the account scope is built from a root that is not hdkeychain.NewMaster(seed): "+strings.Join(os, ","), posOf(c, s))
					}
				}
			}
		}
	}

	// ---- (2) signing key provenance ----------------------------------------------------------------------------
	c.Rule("signing-key-provenance", "the private key used to sign for an address is Child(address.derivationPath.Index) of the branch key selected by address.derivationPath.Branch; each cached branch key is derived with its own branch constant", 3)
	gp := fn(c, pkgKeystore, "AddrManager", "getPrivKeyBtcec")
	child := fn(c, pkgHD, "ExtendedKey", "Child")
	bi := p.Type(pkgKeystore, "branchInfo")
	extB := p.Obj(pkgKeystore, "ExternalBranch")
	intB := p.Obj(pkgKeystore, "InternalBranch")
	if gp != nil && child != nil && bi != nil && extB != nil && intB != nil {
		// branch stores
		for _, t := range []struct {
			field string
			k     string
			name  string
		}{{"externalBranchPriv", constString(extB), "ExternalBranch"}, {"internalBranchPriv", constString(intB), "InternalBranch"}} {
			ok, any := true, false
			for _, st := range fieldStores(gp, bi, t.field) {
				v := st.(*ssa.Store).Val
				if an.IsNilConst(v) {
					continue
				}
				any = true
				good := false
				if ex, isEx := v.(*ssa.Extract); isEx {
					if call, isCall := ex.Tuple.(*ssa.Call); isCall && call.Call.StaticCallee() == child {
						if k, isK := call.Call.Args[1].(*ssa.Const); isK && k.Value != nil && k.Value.ExactString() == t.k {
							good = true
						} else if strings.HasSuffix(p.Desc(call.Call.Args[1]), "derivationPath.Branch") {
							// Child(address.derivationPath.Branch), stored on the side of the branch test that names this field
							wantOp := token.EQL
							if t.field == "externalBranchPriv" {
								wantOp = token.NEQ
							}
							good = an.AnyAtom(p.GuardsOf(st), func(a an.Atom) bool {
								return a.Op == wantOp && a.X != nil && strings.HasSuffix(p.Desc(a.X), "derivationPath.Branch") && a.Y != nil && p.Desc(a.Y) == constString(intB)
							})
						}
					}
				}
				if !good {
					ok = false
				}
			}
			key := sk(gp) + ":" + t.field
			if any && ok {
				c.OK(key, "= acctKey.Child("+t.name+")", p.Pos(gp.Pos()))
			} else {
				c.Fail(key, "the cached "+t.field+" is not derived with Child("+t.name+"): signatures for addresses of that branch are made with the key of another branch and do not verify", p.Pos(gp.Pos()))
			}
		}
		// leaf: Child(mAddr.derivationPath.Index) on phi(internalBranchPriv | externalBranchPriv) selected by Branch == InternalBranch
		okLeaf := false
		for _, s := range calls(gp, child) {
			cc := an.CallOf(s)
			if !strings.HasSuffix(p.Desc(cc.Args[1]), "ManagedAddress.derivationPath.Index") {
				continue
			}
			ph, isPhi := cc.Args[0].(*ssa.Phi)
			if !isPhi || len(ph.Edges) != 2 {
				continue
			}
			good := 0
			for i, e := range ph.Edges {
				d := p.Desc(e)
				pred := ph.Block().Preds[i]
				gs := p.Guards(pred)
				if ea := edgeAtoms(p, pred, ph.Block()); ea != nil {
					gs = append(gs, *ea)
				}
				internalTrue := an.AnyAtom(gs, func(a an.Atom) bool {
					return a.Op == token.EQL && a.X != nil && strings.HasSuffix(p.Desc(a.X), "derivationPath.Branch") && a.Y != nil && p.Desc(a.Y) == constString(intB)
				})
				internalFalse := an.AnyAtom(gs, func(a an.Atom) bool {
					return a.Op == token.NEQ && a.X != nil && strings.HasSuffix(p.Desc(a.X), "derivationPath.Branch") && a.Y != nil && p.Desc(a.Y) == constString(intB)
				})
				if strings.HasSuffix(d, "internalBranchPriv") && internalTrue {
					good++
				}
				if strings.HasSuffix(d, "externalBranchPriv") && internalFalse {
					good++
				}
			}
			if good == 2 {
				okLeaf = true
			}
		}
		if okLeaf {
			c.OK(sk(gp)+":leaf", "Child(derivationPath.Index) of the branch selected by derivationPath.Branch", p.Pos(gp.Pos()))
		} else {
			c.Fail(sk(gp)+":leaf", "the signing key is not the child at the address's own index of the branch the address belongs to", p.Pos(gp.Pos()))
		}
	}

	// ---- (3) use after wipe -----------------------------------------------------------------------------------------
	ruleUseAfterWipe(c)
	_ = sort.Strings

	// ---- restore scan and record codec ----------------------------------------------------------------------
	ruleBranchKeyAgreement(c)
	ruleByteOrder(c, []string{pkgKeystore, pkgHD, pkgSnacl}, 3)
	ruleLayout(c, []string{"pubkey-record-key"}, 2)
	ruleChildNumberRoles(c)
	ruleWipedCacheDropped(c)
	ruleNextIndexFromTx(c)

	// ---- stored entropy keeps its width (export → import re-derives the mnemonic from it) ------------------------
	ruleBigIntBytes(c, pkgKeystore, 3, map[string]bool{an.Module + "/masswallet/keystore.padByteSlice": true, "(*math/big.Int).SetBytes": true}, nil)
}

func kindOnly(os []string) string {
	var ks []string
	for _, o := range os {
		if i := strings.Index(o, ":"); i > 0 {
			ks = append(ks, o[:i])
		}
	}
	return strings.Join(uniq(ks), "|")
}

// ruleUseAfterWipe: a buffer handed to zero.Bytes (or an object to Zero()) is not used afterwards;
// wiping the result of an aliasing accessor (cryptoKey.Bytes) wipes the object.
func ruleUseAfterWipe(c *report.Ctx) {
	p := c.P
	c.Rule("no-use-after-wipe", "a secret buffer is wiped only after its last use: after zero.Bytes(x) no path uses x (or the object x aliases) as an argument again", 10)
	zeroBytes := fn(c, pkgZero, "", "Bytes")
	ckBytes := fn(c, pkgKeystore, "cryptoKey", "Bytes")
	if zeroBytes == nil {
		return
	}
	for _, f := range p.ModFuncs {
		if pk := an.FuncPkg(f); pk == nil || !(pk.Path() == pkgKeystore || pk.Path() == pkgWallet) {
			continue
		}
		k := 0
		an.Instrs(f, func(in ssa.Instruction) {
			call, ok := in.(*ssa.Call)
			if !ok || call.Call.StaticCallee() != zeroBytes {
				return
			}
			k++
			key := siteKey(f, "zero.Bytes", k)
			x := call.Call.Args[0]
			targets := map[ssa.Value]bool{x: true}
			what := p.Desc(x)
			// alias: x = ck.Bytes() (static) or EncryptorDecryptor.Bytes() (invoke) returns the key array itself
			if xc, isCall := x.(*ssa.Call); isCall {
				if xc.Call.StaticCallee() == ckBytes && ckBytes != nil {
					targets[xc.Call.Args[0]] = true
					what += " (aliases its receiver)"
				}
				if xc.Call.IsInvoke() && xc.Call.Method.Name() == "Bytes" && isNamedIface(xc.Call.Value.Type(), pkgKeystore, "EncryptorDecryptor") {
					targets[xc.Call.Value] = true
					what += " (aliases the key object)"
				}
			}
			b := in.Block()
			idx := 0
			for i, y := range b.Instrs {
				if y == in {
					idx = i + 1
				}
			}
			var badUse ssa.Instruction
			s := &an.Search{P: p, Fn: f, GoalInstr: func(y ssa.Instruction) bool {
				cc := an.CallOf(y)
				if cc == nil {
					return false
				}
				if _, isDefer := y.(*ssa.Defer); isDefer {
					return false
				}
				if cc.StaticCallee() == zeroBytes {
					return false
				}
				if cal := cc.StaticCallee(); cal != nil && nm(cal) == "Zero" {
					return false
				}
				if cc.IsInvoke() && cc.Method.Name() == "Zero" {
					return false
				}
				if cc.IsInvoke() && targets[cc.Value] {
					badUse = y
					return true
				}
				for _, a := range cc.Args {
					if targets[a] {
						badUse = y
						return true
					}
				}
				return false
			}}
			if w := s.Run(b, idx, nil); w != nil {
				c.Fail(key, "the buffer "+what+" is used by "+calleeName(p, badUse)+" after it was wiped: zeros are stored/encrypted/derived from instead of the secret (e.g. a re-import stores all-zero entropy, or seals the account key under the all-zero key)", posOf(c, in), "later use at "+posOf(c, badUse))
			} else {
				c.OK(key, "no use of the wiped buffer afterwards", posOf(c, in))
			}
		})
	}
}
