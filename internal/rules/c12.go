package rules

import (
	"go/token"
	"strings"

	"golang.org/x/tools/go/ssa"

	"verif/internal/an"
	"verif/internal/report"
)

func init() {
	register(&Check{
		ID: "C12",
		Explain: "Structural necessary conditions of address issuing (thin; stated as such), decided on SSA + bucket schema: " +
			"(1) durable together: the new child number, the encrypted public key of every derived address and the address row are written in one transaction, the index read from that transaction; " +
			"(2) gap rule: derivation is dominated by the request-size test and by the window test, whose 'pass' verdict can only come from a positive answer of the chain oracle for an address in the window; " +
			"(3) ownership of address rows: only the removal path deletes rows of the address bucket; " +
			"(4) used flag: AddCredits writes the first-use height only when the row is absent or unused, Rollback touches a row only when its stored height is the height being rolled back.",
		NotDec: "index order and uniqueness as values; that a mnemonic restore finds every funded address.",
		Run:    runC12,
	})
}

func runC12(c *report.Ctx) {
	p := c.P
	ruleGapLimitOneValue(c)
	ruleGapOracleIsTheChain(c)
	ruleRollbackBeforeCursorMoves(c) // the used flag follows a reorg only if the rollback really unwinds
	ruleChainFetcherHasNoMemory(c)
	ruleRelatedTxAskedOnce(c)
	ruleBestHeightReadWhileParked(c) // a payment in a block the rescan skipped leaves the restored address listed unused
	ruleStakingUseMarksStandardForm(c)
	na := fn(c, pkgKeystore, "AddrManager", "nextAddresses")
	updCN := fn(c, pkgKeystore, "", "updateChildNum")
	putPK := fn(c, pkgKeystore, "", "putEncryptedPubKey")
	child := fn(c, pkgHD, "ExtendedKey", "Child")

	// ---- (1) durable together -----------------------------------------------------------------------------
	c.Rule("durable-together", "NewAddress: one transaction contains NextAddresses (which stores the new child number and every derived public key) and the address row", 4)
	newAddr := fn(c, pkgWallet, "WalletManager", "NewAddress")
	upd := fn(c, pkgDB, "", "Update")
	nextA := fn(c, pkgKeystore, "KeystoreManager", "NextAddresses")
	putNew := fn(c, pkgTxmgr, "UtxoStore", "PutNewAddress")
	if newAddr != nil && upd != nil && nextA != nil && putNew != nil {
		ucs := calls(newAddr, upd)
		if len(ucs) != 1 {
			c.Fail(sk(newAddr)+":one-Update", "NewAddress uses "+itoa(len(ucs))+" transactions: a crash between them issues an address that is not listed (or lists one whose index is not consumed)", p.Pos(newAddr.Pos()))
		} else if cl := closureArg(ucs[0].(*ssa.Call), 1); cl != nil {
			a, b := calls(cl, nextA), calls(cl, putNew)
			if len(a) == 1 && len(b) == 1 && instrDominates(a[0], b[0]) {
				// same transaction value
				ta, tb := an.CallOf(a[0]).Args[1], an.CallOf(b[0]).Args[1]
				if stripIface(ta) == stripIface(tb) {
					c.OK(sk(newAddr)+":one-Update", "NextAddresses and PutNewAddress on the closure's transaction", posOf(c, ucs[0]))
				} else {
					c.Fail(sk(newAddr)+":one-Update", "NextAddresses and PutNewAddress use different transaction values", posOf(c, ucs[0]))
				}
			} else {
				c.Fail(sk(newAddr)+":one-Update", "the transaction closure does not call NextAddresses then PutNewAddress", posOf(c, ucs[0]))
			}
		}
	}
	mustPass(c, na, an.Set(updCN), "updateChildNum")
	if na != nil && putPK != nil {
		ss := calls(na, putPK)
		if len(ss) == 0 {
			c.Fail(sk(na)+"=>each:putEncryptedPubKey", "derived public keys are no longer stored: after a restart the issued address is unknown to the wallet", p.Pos(na.Pos()))
		}
		for _, s := range ss {
			// the index of the address being stored: the scan's own record of it, or the derivation path the address carries
			if d := p.Desc(an.CallOf(s).Args[2]); loopHeaderOf(s.Block()) != nil && (strings.Contains(d, "unlockDeriveInfo.index") || strings.Contains(strings.ToLower(d), "derivationpath.index")) {
				c.OK(sk(na)+"=>each:putEncryptedPubKey", "stored per derived address under its own index", posOf(c, s))
			} else {
				c.Fail(sk(na)+"=>each:putEncryptedPubKey", "the public key is not stored per derived address under its derivation index", posOf(c, s))
			}
		}
		// updateChildNum receives the advanced index
		for _, s := range calls(na, updCN) {
			if _, isPhi := an.CallOf(s).Args[2].(*ssa.Phi); isPhi {
				c.OK(sk(na)+":updateChildNum(nextIndex)", "stores the index after the derivation loop", posOf(c, s))
			} else {
				c.Fail(sk(na)+":updateChildNum(nextIndex)", "the stored child number is not the loop-advanced index", posOf(c, s))
			}
		}
	}
	ruleNextIndexFromTx(c)

	// ---- (2) gap rule -----------------------------------------------------------------------------------------
	c.Rule("gap-rule", "no address is derived unless the request fits the gap limit and, when the window applies, the chain oracle reported history for an address in the window", 3)
	if na != nil && child != nil {
		sp := p.SSAPkgs[pkgKeystore]
		errGap, _ := sp.Members["ErrGapLimit"].(*ssa.Global)
		if errGap == nil {
			c.Lost("keystore.ErrGapLimit")
		}
		// derivation sites: Child(nextIndex) inside a loop
		// (the Child call itself, or a call of a keystore helper that derives — the inner retry loop may be factored out)
		var derivesIn func(g *ssa.Function, depth int) bool
		derivesIn = func(g *ssa.Function, depth int) bool {
			if g == nil || g.Blocks == nil || depth > 2 {
				return false
			}
			if len(calls(g, child)) > 0 {
				return true
			}
			found := false
			an.Instrs(g, func(in ssa.Instruction) {
				if cc := an.CallOf(in); cc != nil && !found {
					if cal := cc.StaticCallee(); cal != nil && cal != g && an.FuncPkg(cal) != nil && an.FuncPkg(cal).Path() == pkgKeystore && derivesIn(cal, depth+1) {
						found = true
					}
				}
			})
			return found
		}
		var derive []ssa.Instruction
		an.Instrs(na, func(in ssa.Instruction) {
			cc := an.CallOf(in)
			if cc == nil || loopHeaderOf(in.Block()) == nil {
				return
			}
			cal := cc.StaticCallee()
			if cal == child {
				derive = append(derive, in)
			} else if cal != nil && cal != na && an.FuncPkg(cal) != nil && an.FuncPkg(cal).Path() == pkgKeystore && derivesIn(cal, 1) {
				derive = append(derive, in)
			}
		})
		if len(derive) == 0 {
			c.Fail(sk(na)+":derive", "anchor lost: no derivation loop", p.Pos(na.Pos()))
		}
		for i, s := range derive {
			key := siteKey(na, "derive~numAddresses<=gap", i+1)
			if an.AnyAtom(p.GuardsOf(s), func(a an.Atom) bool {
				_, xp := a.X.(*ssa.Parameter)
				_, yp := a.Y.(*ssa.Parameter)
				return a.Op == token.LEQ && xp && yp
			}) {
				c.OK(key, "dominated by numAddresses <= addressGapLimit", posOf(c, s))
			} else {
				c.Fail(key, "addresses are derived without the request-size test against the gap limit", posOf(c, s))
			}
		}
		// window: a return of ErrGapLimit guarded by !pass, pass phi true only under checkfunc()==true
		foundWindow := false
		an.Instrs(na, func(in ssa.Instruction) {
			r, ok := in.(*ssa.Return)
			if !ok || errGap == nil {
				return
			}
			ev := an.RetOperand(r, len(r.Results)-1)
			u, ok := ev.(*ssa.UnOp)
			if !ok || u.X != ssa.Value(errGap) {
				return
			}
			for _, g := range p.GuardsOf(r) {
				if g.Op != token.ILLEGAL || g.Truth || g.X == nil {
					continue
				}
				ph, isPhi := g.X.(*ssa.Phi)
				if !isPhi {
					continue
				}
				foundWindow = true
				// every `true` edge of the pass phi (transitively) comes from a block guarded by checkfunc()#0 == true
				okAll := true
				seen := map[*ssa.Phi]bool{}
				var walk func(ph *ssa.Phi)
				walk = func(ph *ssa.Phi) {
					if seen[ph] {
						return
					}
					seen[ph] = true
					for i, e := range ph.Edges {
						switch x := e.(type) {
						case *ssa.Const:
							if x.Value != nil && x.Value.ExactString() == "true" {
								pred := ph.Block().Preds[i]
								if !an.AnyAtom(p.Guards(pred), func(a an.Atom) bool {
									if a.Op != token.ILLEGAL || !a.Truth {
										return false
									}
									ex, ok := a.X.(*ssa.Extract)
									if !ok || ex.Index != 0 {
										return false
									}
									call, ok := ex.Tuple.(*ssa.Call)
									if !ok {
										return false
									}
									_, isPar := call.Call.Value.(*ssa.Parameter)
									return isPar
								}) {
									okAll = false
								}
							}
						case *ssa.Phi:
							walk(x)
						default:
							okAll = false
						}
					}
				}
				walk(ph)
				key := sk(na) + ":window-pass-only-from-oracle"
				if okAll {
					c.OK(key, "the window verdict becomes true only under a positive answer of the chain oracle (checkfunc) for a window address", posOf(c, r))
				} else {
					c.Fail(key, "the window verdict can become true without asking the chain oracle (e.g. from a cached flag): after a reorg removed the only payment, addresses beyond the gap are still issued and a restore will not find funds sent to them", posOf(c, r))
				}
			}
		})
		// the same obligation stated on paths (whatever shape the window test has — a verdict flag, early returns of
		// an extracted helper): no feasible path reaches a derivation unless it lies outside the window condition
		// (next index 0, or next index + request within the gap limit) or the chain oracle answered yes on the way
		windowByPaths := func(goal ssa.Instruction) bool {
			fromChildNum := func(v ssa.Value) bool { return strings.Contains(p.Desc(v), "getChildNum") }
			s := &an.Search{P: p, Fn: na, GoalInstr: func(in ssa.Instruction) bool { return in == goal },
				CutEdge: func(from, to *ssa.BasicBlock) bool {
					ifi, ok := from.Instrs[len(from.Instrs)-1].(*ssa.If)
					if !ok || len(from.Succs) != 2 {
						return false
					}
					a := p.MkAtom(ifi.Cond, to == from.Succs[0], ifi)
					// the oracle said yes
					if a.Op == token.ILLEGAL && a.Truth {
						if ex, isEx := a.X.(*ssa.Extract); isEx && ex.Index == 0 {
							if call, isCall := ex.Tuple.(*ssa.Call); isCall {
								if _, isPar := call.Call.Value.(*ssa.Parameter); isPar {
									return true
								}
							}
						}
					}
					// outside the window: next index == 0, or next index + request <= gap limit
					if a.Op == token.EQL && a.X != nil && a.Y != nil && fromChildNum(a.X) {
						if k, isK := constInt(a.Y); isK && k == 0 {
							return true
						}
					}
					if a.Op == token.LEQ && a.X != nil && a.Y != nil {
						if sum, isSum := a.X.(*ssa.BinOp); isSum && sum.Op == token.ADD && (fromChildNum(sum.X) || fromChildNum(sum.Y)) {
							if _, isPar := a.Y.(*ssa.Parameter); isPar {
								return true
							}
						}
					}
					return false
				}}
			return s.Run(na.Blocks[0], 0, nil) == nil
		}
		pathsOK := len(derive) > 0
		for i, s := range derive {
			key := siteKey(na, "derive~window-on-every-path", i+1)
			if !windowByPaths(s) {
				pathsOK = false
				c.Fail(key, "a derivation can be reached inside the window condition without a positive answer of the chain oracle on the way: the wallet issues addresses beyond the restore horizon", posOf(c, s))
			} else {
				c.OK(key, "every feasible path lies outside the window condition or passes the oracle's yes", posOf(c, s))
			}
		}
		if !foundWindow {
			if pathsOK {
				c.OK(sk(na)+":window", "every feasible path to a derivation lies outside the window condition or passes a positive answer of the chain oracle", p.Pos(na.Pos()))
				c.OK(sk(na)+":window-pass-only-from-oracle", "(stated on paths: only the oracle's yes opens the window)", p.Pos(na.Pos()))
			} else {
				c.Fail(sk(na)+":window", "no gap-window rejection (return ErrGapLimit under !pass) found: the wallet issues addresses beyond the restore horizon", p.Pos(na.Pos()))
			}
		}
		// the window test dominates derivation: derivation unreachable from the ErrGapLimit branches is trivially true;
		// check that the window If dominates the derive sites
		for i, s := range derive {
			ok := false
			for _, b := range na.Blocks {
				ifi, isIf := b.Instrs[len(b.Instrs)-1].(*ssa.If)
				if !isIf {
					continue
				}
				d := p.Desc(ifi.Cond)
				if strings.Contains(d, "!= 0") && b.Dominates(s.Block()) {
					ok = true
				}
				_ = d
			}
			if !ok && windowByPaths(s) {
				ok = true
			}
			key := siteKey(na, "derive~after-window", i+1)
			if ok {
				c.OK(key, "the window test precedes derivation", posOf(c, s))
			} else {
				c.Fail(key, "derivation is not preceded by the window test", posOf(c, s))
			}
		}
	}

	// ---- (3) who may delete address rows ---------------------------------------------------------------------------
	c.Rule("address-row-owner", "rows of the address bucket are deleted only when the wallet is removed: an issued address stays listed", 1)
	allowed := map[string]string{
		"(*masswallet/txmgr.UtxoStore).RemoveAddressByWalletId": "wallet removal phase 1",
	}
	n := 0
	for _, op := range schemaOps(p) {
		if op.Bucket != "nsAddresses" || (op.Method != "Delete" && op.Method != "Clear") {
			continue
		}
		n++
		ctx := op.Ctx
		if r, ok := allowed[ctx]; ok {
			c.Exception(ctx, r)
			c.OK(ctx+":nsAddresses."+op.Method, "deletes rows on the removal path", posOf(c, op.Site))
			continue
		}
		c.Fail(ctx+":nsAddresses."+op.Method, "an address row is deleted outside wallet removal: an address that was issued (and may have been given out) is no longer listed", posOf(c, op.Site), ascentText(p, op)...)
	}
	if n == 0 {
		c.Fail("nsAddresses:deleters", "no deleter of address rows resolved (anchor lost)", "")
	}

	// ---- (4) used flag ----------------------------------------------------------------------------------------------
	c.Rule("used-flag", "first-use height is written only for an absent/unused row; Rollback acts on a row only when its height is the rolled-back height", 3)
	ac := fn(c, pkgTxmgr, "UtxoStore", "AddCredits")
	putAddr := fn(c, pkgTxmgr, "", "putRawAddressRecord")
	readH := fn(c, pkgTxmgr, "", "readAddressHeight")
	delAddr := fn(c, pkgTxmgr, "", "deleteRawAddressRecord")
	if ac != nil && putAddr != nil && readH != nil {
		for i, s := range calls(ac, putAddr) {
			key := siteKey(ac, "putRawAddressRecord~first-use", i+1)
			ok := false
			for _, g := range p.GuardsOf(s) {
				if len(g.Or) != 2 {
					continue
				}
				var hasNil, hasZero bool
				for _, a := range g.Or {
					if a.Op == token.EQL && a.Y != nil && an.IsNilConst(a.Y) {
						hasNil = true
					}
					if call, isCall := a.X.(*ssa.Call); isCall && call.Call.StaticCallee() == readH && a.Op == token.EQL {
						if k, isK := a.Y.(*ssa.Const); isK && k.Value != nil && k.Value.ExactString() == "0" {
							hasZero = true
						}
					}
				}
				if hasNil && hasZero {
					ok = true
				}
			}
			if ok {
				c.OK(key, "under (row absent || stored height == 0)", posOf(c, s))
			} else {
				c.Fail(key, "the address row's height is overwritten for rows that already record a first use: a later payment replaces the first-use height, and rolling back only that later block marks the address unused although an earlier payment is still on the chain", posOf(c, s), an.AtomTexts(p.GuardsOf(s))...)
			}
		}
	}
	rb := fn(c, pkgTxmgr, "TxStore", "Rollback")
	if rb != nil && delAddr != nil && readH != nil {
		for i, s := range calls(rb, delAddr) {
			key := siteKey(rb, "address-row~height==rolled-back", i+1)
			if an.AnyAtom(p.GuardsOf(s), func(a an.Atom) bool {
				cx, okx := a.X.(*ssa.Call)
				cy, oky := a.Y.(*ssa.Call)
				return a.Op == token.EQL && ((okx && cx.Call.StaticCallee() == readH) || (oky && cy.Call.StaticCallee() == readH))
			}) {
				c.OK(key, "guarded by readAddressHeight(row) == curHeight", posOf(c, s))
			} else {
				c.Fail(key, "Rollback acts on an address row without comparing its first-use height with the height being rolled back", posOf(c, s))
			}
		}
	}

	// ---- restore / issue coupling ---------------------------------------------------------------------------
	ruleGapWindowExtends(c)
	ruleAddressRowKeyForm(c)
	rulePersistedIndexClamped(c)
	ruleGapLimitUnmodified(c)
	ruleExternalScanAlwaysRuns(c)
}
