package rules

import (
	"go/constant"
	"go/token"
	"go/types"
	"sort"
	"strings"

	"golang.org/x/tools/go/ssa"

	"verif/internal/an"
	"verif/internal/report"
)

func init() {
	register(&Check{
		ID: "C15",
		Explain: "Structural necessary conditions of exact amount conversion, decided on SSA: " +
			"(1) when a string derived from StringToAmount's argument reaches a parser that tolerates signs/prefixes/exponents, every success return is dominated by a digits-only validation of that same string; " +
			"(2) no character-dropping string operation (Trim* with a cutset other than \"0\", TrimSpace, Replace, Fields, ToLower, …) lies between the argument and the parsers (a laundered string would pass the digit gate); " +
			"(3) the count (<=2 parts), precision (<=8 digits) and range (<= MaxMass) gates dominate success and the multiplier is MaxwellPerMass; " +
			"(4) no floating-point value occurs on the conversion paths; " +
			"(5) the two AmountToString siblings (api, masswallet) have the same callee/constant signature.",
		NotDec: "round trip and shortest form as values; the empty-numeral cases (\"\", \".\") — the zero-trimming makes them parse as 0 on the pinned tree and no structural rule separates them from \"0\".",
		Run:    runC15,
	})
}

var signTolerantParsers = map[string]bool{
	"strconv.ParseInt": true, "strconv.Atoi": true, "strconv.ParseFloat": true, "strconv.ParseUint": true,
	"(*math/big.Int).SetString": true, "(*math/big.Float).SetString": true, "(*math/big.Rat).SetString": true,
	"fmt.Sscan": true, "fmt.Sscanf": true, "fmt.Sscanln": true, "strconv.ParseComplex": true,
}

var charDropping = map[string]bool{
	"strings.TrimSpace": true, "strings.Trim": true, "strings.TrimLeft": true, "strings.TrimRight": true,
	"strings.TrimPrefix": true, "strings.TrimSuffix": true, "strings.TrimFunc": true, "strings.TrimLeftFunc": true, "strings.TrimRightFunc": true,
	"strings.Replace": true, "strings.ReplaceAll": true, "strings.Fields": true, "strings.FieldsFunc": true, "strings.Map": true,
	"strings.ToLower": true, "strings.ToUpper": true, "strings.Title": true, "strings.ToTitle": true, "(*strings.Replacer).Replace": true,
	"strings.SplitN": true, "strings.SplitAfter": true, "strings.Cut": true, "strings.CutPrefix": true, "strings.CutSuffix": true,
	"(*regexp.Regexp).ReplaceAllString": true, "(*regexp.Regexp).FindString": true, "(*regexp.Regexp).FindStringSubmatch": true,
	"strings.ToValidUTF8": true,
}

// isDigitsValidator recognises structurally a func(string) bool that rejects every byte outside '0'..'9'.
func isDigitsValidator(f *ssa.Function) bool {
	if f == nil || f.Blocks == nil || len(f.Params) != 1 {
		return false
	}
	if b, ok := f.Params[0].Type().Underlying().(*types.Basic); !ok || b.Info()&types.IsString == 0 {
		return false
	}
	res := f.Signature.Results()
	if res.Len() != 1 {
		return false
	}
	if b, ok := res.At(0).Type().Underlying().(*types.Basic); !ok || b.Info()&types.IsBoolean == 0 {
		return false
	}
	var lo, hi bool
	an.Instrs(f, func(in ssa.Instruction) {
		b, ok := in.(*ssa.BinOp)
		if !ok {
			return
		}
		elem := func(v ssa.Value) bool {
			v = stripConv(v)
			switch x := v.(type) {
			case *ssa.Lookup:
				return x.X == ssa.Value(f.Params[0])
			case *ssa.Index:
				return x.X == ssa.Value(f.Params[0])
			case *ssa.Extract: // range over string yields runes
				return true
			}
			return false
		}
		k := func(v ssa.Value) (int64, bool) {
			c, ok := v.(*ssa.Const)
			if !ok || c.Value == nil || c.Value.Kind() != constant.Int {
				return 0, false
			}
			n, _ := constant.Int64Val(c.Value)
			return n, true
		}
		if elem(b.X) {
			if n, ok := k(b.Y); ok {
				if (b.Op == token.LSS && n == '0') || (b.Op == token.LEQ && n == '0'-1) || (b.Op == token.GEQ && n == '0') || (b.Op == token.GTR && n == '0'-1) {
					lo = true
				}
				if (b.Op == token.GTR && n == '9') || (b.Op == token.GEQ && n == '9'+1) || (b.Op == token.LEQ && n == '9') || (b.Op == token.LSS && n == '9'+1) {
					hi = true
				}
			}
		}
	})
	if !lo || !hi {
		return false
	}
	// must be able to return false
	retFalse := false
	an.Instrs(f, func(in ssa.Instruction) {
		if r, ok := in.(*ssa.Return); ok {
			if c, ok := an.RetOperand(r, 0).(*ssa.Const); ok && c.Value != nil && !constant.BoolVal(c.Value) {
				retFalse = true
			}
		}
	})
	return retFalse
}

func runC15(c *report.Ctx) {
	p := c.P
	ruleNoFloatBetweenUserAndConverter(c)
	s2a := fn(c, pkgAPI, "", "StringToAmount")
	if s2a == nil {
		return
	}
	// forward taint from the parameter through string operations
	tainted := map[ssa.Value]bool{ssa.Value(s2a.Params[0]): true}
	var laundered []ssa.Instruction
	for changed := true; changed; {
		changed = false
		an.Instrs(s2a, func(in ssa.Instruction) {
			v, ok := in.(ssa.Value)
			if !ok || tainted[v] {
				return
			}
			var ops [12]*ssa.Value
			hit := false
			for _, op := range in.Operands(ops[:0]) {
				if op != nil && *op != nil && tainted[*op] {
					hit = true
				}
			}
			if !hit {
				return
			}
			switch x := in.(type) {
			case *ssa.Call:
				// value-producing calls on tainted strings propagate the label (len() does not)
				if b, ok := x.Call.Value.(*ssa.Builtin); ok && b.Name() == "len" {
					return
				}
				tainted[v] = true
				changed = true
			case *ssa.Phi, *ssa.Slice, *ssa.BinOp, *ssa.Index, *ssa.Lookup, *ssa.Extract, *ssa.UnOp, *ssa.IndexAddr, *ssa.Convert, *ssa.ChangeType, *ssa.MakeInterface:
				if b, ok := in.(*ssa.BinOp); ok && b.Op != token.ADD {
					return
				}
				tainted[v] = true
				changed = true
			}
		})
	}

	c.Rule("no-laundering", "between StringToAmount's argument and its parsers no operation may drop characters other than the zero-trimming the format defines (TrimLeft/TrimRight with cutset \"0\")", 3)
	nstr := 0
	an.Instrs(s2a, func(in ssa.Instruction) {
		call, ok := in.(*ssa.Call)
		if !ok || call.Call.StaticCallee() == nil {
			return
		}
		name := an.CanonKeyOf(call.Call.StaticCallee())
		argT := false
		for _, a := range call.Call.Args {
			if tainted[a] {
				argT = true
			}
		}
		if !argT {
			return
		}
		if strings.HasPrefix(name, "strings.") || strings.HasPrefix(name, "(*regexp.") || strings.HasPrefix(name, "(*strings.") {
			nstr++
			key := sk(s2a) + ":" + name
			if charDropping[name] {
				// allowed: TrimLeft/TrimRight with the constant cutset "0"
				if (name == "strings.TrimLeft" || name == "strings.TrimRight") && len(call.Call.Args) == 2 {
					if k, ok := call.Call.Args[1].(*ssa.Const); ok && k.Value != nil && constant.StringVal(k.Value) == "0" {
						c.OK(key, "zero trimming (cutset \"0\")", posOf(c, in))
						return
					}
				}
				laundered = append(laundered, in)
				c.Fail(key, "the argument passes through "+name+" before parsing: characters other than zeros are dropped, so strings that are not plain decimal numerals (white space, unit labels, …) are accepted", posOf(c, in))
				return
			}
			if name == "strings.Split" {
				if k, ok := call.Call.Args[1].(*ssa.Const); ok && k.Value != nil && constant.StringVal(k.Value) == "." {
					c.OK(key, "split on the decimal point", posOf(c, in))
				} else {
					c.Fail(key, "the numeral is split on something other than the constant \".\"", posOf(c, in))
				}
				return
			}
			c.OK(key, "not a character-dropping operation", posOf(c, in))
		}
	})

	c.Rule("digits-gate", "every parser on the argument's text that tolerates a sign, base prefix, underscore or exponent is gated: all success returns are dominated by a digits-only validation of the same string", 2)
	nsink := 0
	an.Instrs(s2a, func(in ssa.Instruction) {
		call, ok := in.(*ssa.Call)
		if !ok || call.Call.StaticCallee() == nil {
			return
		}
		name := an.CanonKeyOf(call.Call.StaticCallee())
		if !signTolerantParsers[name] {
			return
		}
		var sarg ssa.Value
		for _, a := range call.Call.Args {
			if tainted[a] {
				sarg = a
			}
		}
		if sarg == nil {
			return
		}
		if name == "strconv.ParseUint" {
			if k, ok := call.Call.Args[1].(*ssa.Const); ok && k.Value != nil && k.Value.ExactString() == "10" {
				nsink++
				c.OK(siteKey(s2a, name, nsink), "ParseUint base 10 accepts digits only", posOf(c, in))
				return
			}
		}
		nsink++
		key := siteKey(s2a, name, nsink)
		// every success return dominated by validator(sarg) == true
		okAll := true
		var wit []string
		for _, b := range s2a.Blocks {
			r, isRet := b.Instrs[len(b.Instrs)-1].(*ssa.Return)
			if !isRet {
				continue
			}
			preds := b.Preds
			if len(preds) == 0 {
				preds = []*ssa.BasicBlock{nil}
			}
			for _, pr := range preds {
				if p.ClassifyReturn(r, pr) == an.RetError {
					continue
				}
				gated := an.AnyAtom(p.Guards(b), func(a an.Atom) bool {
					if a.Op != token.ILLEGAL || !a.Truth {
						return false
					}
					vc, ok := a.X.(*ssa.Call)
					if !ok || vc.Call.StaticCallee() == nil || len(vc.Call.Args) != 1 || vc.Call.Args[0] != sarg {
						return false
					}
					return isDigitsValidator(vc.Call.StaticCallee())
				})
				if !gated {
					okAll = false
					wit = append(wit, "success return at "+posOf(c, r)+" not dominated by a digits-only validation of "+p.Desc(sarg))
				}
			}
		}
		if okAll {
			c.OK(key, "all success returns dominated by a digits-only validation of the parsed string", posOf(c, in))
		} else {
			c.Fail(key, name+" accepts a sign (and more) and its argument is not validated as digits-only before success: \"1.+5\", \"+1\", \"-0\" are accepted", posOf(c, in), wit...)
		}
	})

	// ---- gates ----------------------------------------------------------------------------------
	c.Rule("gates", "success of StringToAmount is dominated by: at most two parts, at most eight fractional digits, integral part <= MaxMass; the multiplier is MaxwellPerMass", 4)
	maxMass := p.Obj("github.com/massnetorg/mass-core/consensus", "MaxMass")
	mpm := p.Obj("github.com/massnetorg/mass-core/consensus", "MaxwellPerMass")
	if maxMass == nil || mpm == nil {
		c.Lost("consensus.MaxMass/MaxwellPerMass")
	} else {
		type gate struct {
			name string
			pred func(a an.Atom) bool
		}
		isLenOfSplit := func(v ssa.Value) bool {
			d := p.Desc(v)
			return strings.HasPrefix(d, "len(strings.Split(")
		}
		gates := []gate{
			{"len(parts) <= 2", func(a an.Atom) bool {
				k, ok := a.Y.(*ssa.Const)
				return ok && k.Value != nil && isLenOfSplit(a.X) && ((a.Op == token.LEQ && k.Value.ExactString() == "2") || (a.Op == token.LSS && k.Value.ExactString() == "3"))
			}},
			{"integral <= MaxMass", func(a an.Atom) bool {
				return a.Op == token.LEQ && a.Y != nil && p.Desc(a.Y) == "global:consensus.MaxMass" && strings.Contains(p.Desc(a.X), "strconv.Parse")
			}},
		}
		for _, b := range s2a.Blocks {
			r, isRet := b.Instrs[len(b.Instrs)-1].(*ssa.Return)
			if !isRet {
				continue
			}
			if p.ClassifyReturn(r, nil) == an.RetError {
				continue
			}
			gs := p.Guards(b)
			for _, g := range gates {
				key := sk(s2a) + ":gate:" + g.name
				if an.AnyAtom(gs, g.pred) {
					c.OK(key, "dominates success", posOf(c, r))
				} else if g.name == "len(parts) <= 2" && !func() bool {
					// stated on paths (a switch over the number of parts merges its legal cases before the success
					// return): no feasible path reaches this return without an edge that bounds the count by two
					s := &an.Search{P: p, Fn: s2a, GoalInstr: func(in ssa.Instruction) bool { return in == ssa.Instruction(r) },
						CutEdge: func(from, to *ssa.BasicBlock) bool {
							ifi, ok := from.Instrs[len(from.Instrs)-1].(*ssa.If)
							if !ok || len(from.Succs) != 2 {
								return false
							}
							a := p.MkAtom(ifi.Cond, to == from.Succs[0], ifi)
							if g.pred(a) {
								return true
							}
							k, isK := a.Y.(*ssa.Const)
							return isK && k.Value != nil && a.X != nil && isLenOfSplit(a.X) && a.Op == token.EQL && (k.Value.ExactString() == "1" || k.Value.ExactString() == "2")
						}}
					return s.Run(s2a.Blocks[0], 0, nil) != nil
				}() {
					c.OK(key, "every path to success passes a test that bounds the number of parts by two", posOf(c, r))
				} else {
					c.Fail(key, "success of StringToAmount is not dominated by the gate "+g.name, posOf(c, r), an.AtomTexts(gs)...)
				}
			}
		}
		// precision: the `> 8` test on the trimmed fraction reaches only error returns
		foundPrec := false
		for _, b := range s2a.Blocks {
			ifi, ok := b.Instrs[len(b.Instrs)-1].(*ssa.If)
			if !ok {
				continue
			}
			a := p.MkAtom(ifi.Cond, true, ifi)
			k, isK := a.Y.(*ssa.Const)
			if !isK || k.Value == nil || a.X == nil {
				continue
			}
			d := p.Desc(a.X)
			if !strings.HasPrefix(d, "len(") || !strings.Contains(d, "strings.TrimRight(") {
				continue
			}
			if !((a.Op == token.GTR && k.Value.ExactString() == "8") || (a.Op == token.GEQ && k.Value.ExactString() == "9")) {
				continue
			}
			foundPrec = true
			s := &an.Search{P: p, Fn: s2a, GoalReturn: func(r *ssa.Return, pred *ssa.BasicBlock) bool {
				return p.ClassifyReturn(r, pred) != an.RetError
			}}
			if w := s.Run(b.Succs[0], 0, b); w != nil {
				c.Fail(sk(s2a)+":gate:len(frac)<=8", "more than eight fractional digits can lead to success", posOf(c, ifi), w...)
			} else {
				c.OK(sk(s2a)+":gate:len(frac)<=8", "more than eight significant fractional digits reach only error returns", posOf(c, ifi))
			}
		}
		if !foundPrec {
			c.Fail(sk(s2a)+":gate:len(frac)<=8", "no test of the trimmed fraction's length against 8 found: excess precision would be truncated or mis-scaled instead of rejected", p.Pos(s2a.Pos()))
		}
		// multiplier
		okMul := false
		an.Instrs(s2a, func(in ssa.Instruction) {
			call, ok := in.(*ssa.Call)
			if !ok || call.Call.StaticCallee() == nil {
				return
			}
			if strings.HasSuffix(an.CanonKeyOf(call.Call.StaticCallee()), "safetype.NewUint128FromUint") {
				if k, ok := call.Call.Args[0].(*ssa.Const); ok && k.Value != nil && k.Value.ExactString() == constString(mpm) {
					okMul = true
				}
			}
		})
		if okMul {
			c.OK(sk(s2a)+":multiplier", "integral part is multiplied by consensus.MaxwellPerMass", p.Pos(s2a.Pos()))
		} else {
			c.Fail(sk(s2a)+":multiplier", "the 128-bit multiplier is not the constant consensus.MaxwellPerMass", p.Pos(s2a.Pos()))
		}
	}

	// ---- no floats ------------------------------------------------------------------------------
	c.Rule("no-float", "no floating-point typed value occurs in the amount conversion functions (float64 cannot represent every amount up to the supply limit exactly)", 3)
	a2sAPI := fn(c, pkgAPI, "", "AmountToString")
	a2sW := fn(c, pkgWallet, "", "AmountToString")
	for _, f := range []*ssa.Function{s2a, a2sAPI, a2sW} {
		if f == nil {
			continue
		}
		var bad ssa.Instruction
		an.Instrs(f, func(in ssa.Instruction) {
			if v, ok := in.(ssa.Value); ok && bad == nil {
				if isFloaty(v.Type()) {
					bad = in
				}
			}
			if call, ok := in.(*ssa.Call); ok && bad == nil {
				for _, a := range call.Call.Args {
					if isFloaty(a.Type()) {
						bad = in
					}
				}
			}
		})
		if bad != nil {
			c.Fail(sk(f)+":float", "a floating-point value is used in the conversion: amounts above 2^53 maxwell are formatted/parsed inexactly", posOf(c, bad))
		} else {
			c.OK(sk(f)+":float", "integer/string arithmetic only", p.Pos(f.Pos()))
		}
	}

	// ---- siblings --------------------------------------------------------------------------------
	c.Rule("siblings", "api.AmountToString and masswallet.AmountToString implement one contract: same callees and constants", 1)
	if a2sAPI != nil && a2sW != nil {
		sa, sb := funcSignature(p, a2sAPI), funcSignature(p, a2sW)
		if forwardsTo(a2sAPI, a2sW) || forwardsTo(a2sW, a2sAPI) {
			c.OK("AmountToString(api==masswallet)", "one implementation: the other hands its arguments on and returns what it gets", p.Pos(a2sAPI.Pos()))
		} else if sa == sb {
			c.OK("AmountToString(api==masswallet)", "callee/constant signatures equal", p.Pos(a2sAPI.Pos()), sa)
		} else {
			c.Fail("AmountToString(api==masswallet)", "the two AmountToString implementations differ: the API and the wallet would print the same amount differently", p.Pos(a2sAPI.Pos()), "api:        "+sa, "masswallet: "+sb)
		}
	}
	// the upper range test looks at the amount as given (before the guard digit is added)
	c.Rule("range-test-on-input", "both AmountToString implementations compare the amount they were given — the parameter itself — with the maximum supply, before any arithmetic on it", 2)
	for _, f := range []*ssa.Function{a2sAPI, a2sW} {
		if f == nil || len(f.Params) == 0 {
			continue
		}
		key := sk(f) + ":max-test"
		if (f == a2sAPI && forwardsTo(a2sAPI, a2sW)) || (f == a2sW && forwardsTo(a2sW, a2sAPI)) {
			c.OK(key, "hands the amount as given to the other implementation (judged there)", p.Pos(f.Pos()))
			continue
		}
		ok, any := false, false
		an.Instrs(f, func(in ssa.Instruction) {
			b, isB := in.(*ssa.BinOp)
			if !isB || !(b.Op == token.GTR || b.Op == token.LSS || b.Op == token.GEQ || b.Op == token.LEQ) {
				return
			}
			d := p.Desc(b.X) + " " + p.Desc(b.Y)
			if !strings.Contains(d, "MaxAmount") {
				return
			}
			any = true
			if b.X == ssa.Value(f.Params[0]) || b.Y == ssa.Value(f.Params[0]) {
				ok = true
			}
		})
		switch {
		case ok:
			c.OK(key, "m compared with MaxAmount directly", p.Pos(f.Pos()))
		case any:
			c.Fail(key, "the maximum-supply test is applied to a derived value, not to the amount as given: after the guard digit (10^8) is added the top 1 MASS of the legal range is refused", p.Pos(f.Pos()))
		default:
			// a comparison through a method (Uint128.Gt …) on a derived value, or no test at all
			c.Fail(key, "no direct comparison of the given amount with the maximum supply found", p.Pos(f.Pos()))
		}
	}
	ruleAmountStringUntouched(c)
	ruleDigitsTrimmedOnlyByConverters(c)
	ruleAmountCtorErrorUsed(c)
	ruleAmountsNeverFloat(c)
}

func isFloaty(t types.Type) bool {
	switch x := t.Underlying().(type) {
	case *types.Basic:
		return x.Info()&(types.IsFloat|types.IsComplex) != 0
	case *types.Tuple:
		for i := 0; i < x.Len(); i++ {
			if isFloaty(x.At(i).Type()) {
				return true
			}
		}
	}
	return false
}

// funcSignature: the sorted SET of resolved external callees, operators and constants of f, with the helpers of f's
// own package that it calls folded in (depth 1). A set — not a sequence or multiset — so that renaming, hoisting a
// repeated sub-expression, naming a literal or extracting a block into a helper leave it unchanged, while another
// callee, constant or comparison changes it.
func funcSignature(p *an.Prog, f *ssa.Function) string {
	items := map[string]bool{}
	var scan func(g *ssa.Function, depth int)
	scan = func(g *ssa.Function, depth int) {
		an.Instrs(g, func(in ssa.Instruction) {
			if cc := an.CallOf(in); cc != nil {
				if cal := cc.StaticCallee(); cal != nil && cal.Blocks != nil && cal != g && an.FuncPkg(cal) == an.FuncPkg(f) && depth < 1 {
					scan(cal, depth+1)
				} else if b, isB := cc.Value.(*ssa.Builtin); !(isB && b.Name() == "len") {
					items["call:"+calleeName(p, in)] = true
				}
			}
			if b, ok := in.(*ssa.BinOp); ok {
				items["op:"+b.Op.String()] = true
			}
			var ops [12]*ssa.Value
			for _, op := range in.Operands(ops[:0]) {
				if op == nil || *op == nil {
					continue
				}
				if k, ok := (*op).(*ssa.Const); ok && k.Value != nil {
					s := k.Value.ExactString()
					if len(s) > 40 {
						s = s[:40]
					}
					if strings.Contains(s, "amount is out of range") {
						continue
					}
					items["k:"+s] = true
				}
			}
		})
	}
	scan(f, 0)
	var out []string
	for k := range items {
		out = append(out, k)
	}
	sort.Strings(out)
	return strings.Join(out, " ")
}
