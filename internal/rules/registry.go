// Package rules holds the per-property rule tables. Each rule is a structural
// necessary condition of its property, phrased over the resolved program.
package rules

import (
	"sort"

	"verif/internal/report"
)

// Check is one property's rule set.
type Check struct {
	ID      string
	Explain string // what is decided
	NotDec  string // what is not decided
	Run     func(c *report.Ctx)
}

var registry = map[string]*Check{}

func register(ch *Check) { registry[ch.ID] = ch }

// Get returns the check for a property id.
func Get(id string) *Check { return registry[id] }

// IDs lists the registered property ids.
func IDs() []string {
	var s []string
	for k := range registry {
		s = append(s, k)
	}
	sort.Strings(s)
	return s
}

// Package paths used by the rule tables.
const (
	pkgWallet   = "massnet.org/mass-wallet/masswallet"
	pkgTxmgr    = "massnet.org/mass-wallet/masswallet/txmgr"
	pkgKeystore = "massnet.org/mass-wallet/masswallet/keystore"
	pkgHD       = "massnet.org/mass-wallet/masswallet/keystore/hdkeychain"
	pkgSnacl    = "massnet.org/mass-wallet/masswallet/keystore/snacl"
	pkgZero     = "massnet.org/mass-wallet/masswallet/keystore/zero"
	pkgDB       = "massnet.org/mass-wallet/masswallet/db"
	pkgLDB      = "massnet.org/mass-wallet/masswallet/db/ldb"
	pkgUtils    = "massnet.org/mass-wallet/masswallet/utils"
	pkgIfc      = "massnet.org/mass-wallet/masswallet/ifc"
	pkgAPI      = "massnet.org/mass-wallet/api"
	pkgMain     = "massnet.org/mass-wallet"
	pkgTxscript = "github.com/massnetorg/mass-core/txscript"
	pkgWire     = "github.com/massnetorg/mass-core/wire"
	pkgChain    = "github.com/massnetorg/mass-core/blockchain"
	pkgLevelDB  = "github.com/syndtr/goleveldb/leveldb"
)
